(* FaultsProofs.v — lemmas and proofs about the Faults.v model (property C20). *)
From Verif Require Import Base Faults.
Local Open Scope nat_scope.

(* ------------------------------------------------------------------------------------------ *)
(* what one primitive operation changes                                                        *)
(* ------------------------------------------------------------------------------------------ *)

(* faults of w' = new ++ faults of w, all the new ones satisfying P *)
Definition grows (P : opinfo -> Prop) (w w' : world) : Prop :=
  exists new, w_faults w' = new ++ w_faults w /\ Forall P new.

Lemma grows_refl P w : grows P w w.
Proof. exists []; split; [reflexivity | constructor]. Qed.

Lemma grows_trans P a b c : grows P a b -> grows P b c -> grows P a c.
Proof.
  intros (n1 & E1 & F1) (n2 & E2 & F2). exists (n2 ++ n1). split.
  - rewrite E2, E1, app_assoc. reflexivity.
  - apply Forall_app; split; assumption.
Qed.

Lemma grows_weaken (P Q : opinfo -> Prop) a b : (forall o, P o -> Q o) -> grows P a b -> grows Q a b.
Proof. intros H (n & E & F). exists n; split; [assumption|]. eapply Forall_impl; eauto. Qed.

Definition none_ (o : opinfo) : Prop := False.

Lemma grows_none_eq a b : grows none_ a b -> w_faults b = w_faults a.
Proof. intros (n & E & F). destruct n; [assumption|]. inversion F; subst. contradiction. Qed.

(* everything but the ghost fields and the counter is untouched *)
Definition same_state (w w' : world) : Prop :=
  w_fs w' = w_fs w /\ w_tx w' = w_tx w /\ w_log w' = w_log w /\ w_call w' = w_call w.

Lemma do_op_spec S k t off len w :
  let o := mkop (w_ctr w) (w_call w) k t off len in
  let r := fst (do_op S k t off len w) in
  let w' := snd (do_op S k t off len w) in
  r = S o /\ same_state w w' /\
  w_faults w' = (match r with Some _ => [o] | None => [] end) ++ w_faults w.
Proof.
  unfold do_op, same_state; cbn. destruct (S _); cbn; repeat split; reflexivity.
Qed.

Ltac dop H S k t off len w :=
  let r := fresh "r" in let w1 := fresh "w" in let E := fresh "E" in
  pose proof (do_op_spec S k t off len w) as H;
  destruct (do_op S k t off len w) as [r w1] eqn:E; cbn [fst snd] in H.

(* fs_create *)
Lemma fs_create_spec S t d w :
  let r := fst (fs_create S t d w) in
  let w' := snd (fs_create S t d w) in
  w_tx w' = w_tx w /\ w_log w' = w_log w /\ w_call w' = w_call w /\
  ((r = None /\ w_fs w' = w_fs w /\
    w_faults w' = mkop (w_ctr w) (w_call w) OCreate t 0 0 :: w_faults w)
   \/
   (r = Some (fs_next (w_fs w)) /\ w_faults w' = w_faults w /\
    w_fs w' = mkfs (fs_files (w_fs w) ++ [mkfile (fs_next (w_fs w)) d []]) (Datatypes.S (fs_next (w_fs w)))
                   (fs_next (w_fs w) :: fs_open (w_fs w)))).
Proof.
  unfold fs_create. dop H S OCreate t 0 0 w.
  destruct H as (Hr & (Hfs & Htx & Hlog & Hcall) & Hf).
  destruct r; cbn [fst snd].
  - split; [auto|]. split; [auto|]. split; [auto|]. left. repeat split; auto.
  - unfold set_fs; cbn. rewrite Hfs. split; [auto|]. split; [auto|]. split; [auto|]. right. repeat split; auto.
Qed.

Lemma fs_write_spec S t id data w :
  let ok := fst (fs_write S t id data w) in
  let w' := snd (fs_write S t id data w) in
  w_tx w' = w_tx w /\ w_log w' = w_log w /\ w_call w' = w_call w /\
  fs_next (w_fs w') = fs_next (w_fs w) /\ fs_open (w_fs w') = fs_open (w_fs w) /\
  (exists d', fs_files (w_fs w') = append_file id d' (fs_files (w_fs w))) /\
  ((ok = true /\ w_faults w' = w_faults w) \/
   (ok = false /\ exists off len, w_faults w' = mkop (w_ctr w) (w_call w) OWrite t off len :: w_faults w)).
Proof.
  unfold fs_write.
  dop H S OWrite t (file_len id (fs_files (w_fs w))) (length data) w.
  destruct H as (Hr & (Hfs & Htx & Hlog & Hcall) & Hf).
  destruct r; cbn [fst snd]; unfold set_fs; cbn; rewrite Hfs; repeat split; auto.
  - eexists; reflexivity.
  - right; split; auto. eexists; eexists; exact Hf.
  - eexists; reflexivity.
Qed.

Lemma fs_read_spec S t w :
  let ok := fst (fs_read S t w) in
  let w' := snd (fs_read S t w) in
  same_state w w' /\
  ((ok = true /\ w_faults w' = w_faults w) \/
   (ok = false /\ w_faults w' = mkop (w_ctr w) (w_call w) ORead t 0 0 :: w_faults w)).
Proof.
  unfold fs_read. dop H S ORead t 0 0 w.
  destruct H as (Hr & Hs & Hf). destruct r; cbn [fst snd]; split; auto.
Qed.

Lemma fs_close_spec S t id w :
  let ok := fst (fs_close S t id w) in
  let w' := snd (fs_close S t id w) in
  w_tx w' = w_tx w /\ w_log w' = w_log w /\ w_call w' = w_call w /\
  fs_files (w_fs w') = fs_files (w_fs w) /\ fs_next (w_fs w') = fs_next (w_fs w) /\
  fs_open (w_fs w') = drop_nat id (fs_open (w_fs w)) /\
  ((ok = true /\ w_faults w' = w_faults w) \/
   (ok = false /\ w_faults w' = mkop (w_ctr w) (w_call w) OClose t 0 0 :: w_faults w)).
Proof.
  unfold fs_close. dop H S OClose t 0 0 w.
  destruct H as (Hr & (Hfs & Htx & Hlog & Hcall) & Hf).
  destruct r; cbn [fst snd]; unfold set_fs; cbn; rewrite Hfs; repeat split; auto.
Qed.

Lemma fs_remove_spec S t pos id w :
  let ok := fst (fs_remove S t pos id w) in
  let w' := snd (fs_remove S t pos id w) in
  w_tx w' = w_tx w /\ w_log w' = w_log w /\ w_call w' = w_call w /\
  fs_next (w_fs w') = fs_next (w_fs w) /\ fs_open (w_fs w') = fs_open (w_fs w) /\
  ((ok = true /\ w_faults w' = w_faults w /\ fs_files (w_fs w') = drop_file id (fs_files (w_fs w))) \/
   (ok = false /\ w_faults w' = mkop (w_ctr w) (w_call w) ORemove t pos 0 :: w_faults w /\
    (fs_files (w_fs w') = fs_files (w_fs w) \/ fs_files (w_fs w') = drop_file id (fs_files (w_fs w))))).
Proof.
  unfold fs_remove. dop H S ORemove t pos 0 w.
  destruct H as (Hr & (Hfs & Htx & Hlog & Hcall) & Hf).
  destruct r as [[|k]|]; cbn [fst snd]; unfold set_fs; cbn; rewrite ?Hfs;
    (split; [auto|]; split; [auto|]; split; [auto|]; split; [auto|]; split; [auto|]).
  - right; repeat split; auto.
  - right; repeat split; auto.
  - left; repeat split; auto.
Qed.

(* a Remove that the schedule lets through *)
Definition no_remove_fault (S : sched) : Prop := forall o, oi_kind o = ORemove -> S o = None.

Lemma fs_remove_nofault S t pos id w : no_remove_fault S ->
  fst (fs_remove S t pos id w) = true /\
  fs_files (w_fs (snd (fs_remove S t pos id w))) = drop_file id (fs_files (w_fs w)).
Proof.
  intro H. unfold fs_remove, do_op.
  rewrite (H (mkop (w_ctr w) (w_call w) ORemove t pos 0) eq_refl). cbn. split; reflexivity.
Qed.

(* ------------------------------------------------------------------------------------------ *)
(* the transaction state is only changed by the transaction's own code                          *)
(* ------------------------------------------------------------------------------------------ *)

Lemma remove_from_tx S ids : forall pos w, w_tx (snd (remove_from S pos ids w)) = w_tx w.
Proof.
  induction ids as [|id r IH]; intros pos w; cbn [remove_from]; [reflexivity|].
  destruct (fs_remove S TUpload pos id w) as [ok1 w1] eqn:E1.
  destruct (remove_from S (Datatypes.S pos) r w1) as [ok2 w2] eqn:E2. cbn [snd].
  pose proof (IH (Datatypes.S pos) w1) as H; rewrite E2 in H; cbn in H. rewrite H.
  pose proof (fs_remove_spec S TUpload pos id w) as Hs; rewrite E1 in Hs; cbn in Hs. apply Hs.
Qed.

Lemma remove_all_tx S ids w : w_tx (snd (remove_all S ids w)) = w_tx w.
Proof. apply remove_from_tx. Qed.

Lemma bb_reset_buf V S w : t_buf (w_tx (snd (bb_reset V S w))) = bb_init.
Proof.
  unfold bb_reset. destruct (bb_writer (wbuf w)) as [id|]; [|reflexivity].
  pose proof (fs_close_spec S TSpill id (w_set_buf bb_init w)) as Hc.
  destruct (fs_close S TSpill id (w_set_buf bb_init w)) as [okc w1] eqn:E1. cbn in Hc.
  destruct Hc as (Htx1 & _).
  assert (Hr : forall w2 okr, fs_remove S TSpill 0 id w1 = (okr, w2) -> t_buf (w_tx w2) = bb_init).
  { intros w2 okr E2. pose proof (fs_remove_spec S TSpill 0 id w1) as Hr; rewrite E2 in Hr; cbn in Hr.
    destruct Hr as (Htx2 & _). rewrite Htx2, Htx1. reflexivity. }
  destruct (v_reset_fixed V).
  - destruct (fs_remove S TSpill 0 id w1) as [okr w2] eqn:E2. cbn. eapply Hr; reflexivity.
  - destruct okc.
    + destruct (fs_remove S TSpill 0 id w1) as [okr w2] eqn:E2. cbn. eapply Hr; reflexivity.
    + cbn. rewrite Htx1. reflexivity.
Qed.

Lemma bb_reset_tx V S w : w_tx (snd (bb_reset V S w)) = set_buf bb_init (w_tx w).
Proof.
  unfold bb_reset. destruct (bb_writer (wbuf w)) as [id|]; [|reflexivity].
  pose proof (fs_close_spec S TSpill id (w_set_buf bb_init w)) as Hc.
  destruct (fs_close S TSpill id (w_set_buf bb_init w)) as [okc w1] eqn:E1. cbn in Hc.
  destruct Hc as (Htx1 & _).
  assert (Hr : forall w2 okr, fs_remove S TSpill 0 id w1 = (okr, w2) -> w_tx w2 = set_buf bb_init (w_tx w)).
  { intros w2 okr E2. pose proof (fs_remove_spec S TSpill 0 id w1) as Hr; rewrite E2 in Hr; cbn in Hr.
    destruct Hr as (Htx2 & _). rewrite Htx2, Htx1. reflexivity. }
  destruct (v_reset_fixed V).
  - destruct (fs_remove S TSpill 0 id w1) as [okr w2] eqn:E2. cbn. eapply Hr; reflexivity.
  - destruct okc.
    + destruct (fs_remove S TSpill 0 id w1) as [okr w2] eqn:E2. cbn. eapply Hr; reflexivity.
    + cbn. rewrite Htx1. reflexivity.
Qed.

(* C20_recycled_object_works: whatever happened before and whatever fails during Close, the
   object NewTransaction hands out again is in the initial state *)
Lemma recycled_initial V S c w : tx_renew (w_tx (snd (tx_close V S c w))) = tx_init.
Proof.
  unfold tx_close.
  destruct (if keep_files c (w_tx w) then (true, w) else remove_all S (t_tmpnames (w_tx w)) w) as [ok1 w1] eqn:E1.
  destruct (bb_reset V S (set_tx (reset_vars (w_tx w1)) w1)) as [ok2 w3] eqn:E2. cbn [snd].
  pose proof (bb_reset_tx V S (set_tx (reset_vars (w_tx w1)) w1)) as H. rewrite E2 in H. cbn in H.
  rewrite H. reflexivity.
Qed.

Lemma close_buffer_initial V S c w : t_buf (w_tx (snd (tx_close V S c w))) = bb_init.
Proof.
  unfold tx_close.
  destruct (if keep_files c (w_tx w) then (true, w) else remove_all S (t_tmpnames (w_tx w)) w) as [ok1 w1] eqn:E1.
  destruct (bb_reset V S (set_tx (reset_vars (w_tx w1)) w1)) as [ok2 w3] eqn:E2. cbn [snd].
  pose proof (bb_reset_buf V S (set_tx (reset_vars (w_tx w1)) w1)) as H. rewrite E2 in H. exact H.
Qed.

(* ------------------------------------------------------------------------------------------ *)
(* failures surface                                                                            *)
(* ------------------------------------------------------------------------------------------ *)

Definition sw (V : variant) (o : opinfo) : Prop := swallowed V o = true.

Lemma body_read_spec S w :
  let ok := fst (body_read S w) in
  let w' := snd (body_read S w) in
  same_state w w' /\
  ((ok = true /\ w_faults w' = w_faults w) \/
   (ok = false /\ w_faults w' = mkop (w_ctr w) (w_call w) ORead TSpill 0 0 :: w_faults w)).
Proof.
  unfold body_read. destruct (bb_writer (wbuf w)).
  - apply fs_read_spec.
  - cbn. split; [repeat split|]. left; split; reflexivity.
Qed.

Lemma bb_write_ok S c d w w' : bb_write S c d w = (true, w') ->
  w_faults w' = w_faults w /\ w_log w' = w_log w.
Proof.
  unfold bb_write.
  destruct (length d =? 0); [intro H; inversion H; subst; auto|].
  destruct (c_limit c <? bb_len (wbuf w) + length d); [discriminate|].
  destruct (c_mem c <? bb_len (wbuf w) + length d).
  2:{ intro H; inversion H; subst. cbn. auto. }
  destruct (bb_writer (wbuf w)) as [id|].
  - set (w1 := w_set_buf _ w).
    pose proof (fs_write_spec S TSpill id d w1) as Hs.
    destruct (fs_write S TSpill id d w1) as [ok w2]; cbn in Hs. intro H; inversion H; subst.
    destruct Hs as (_ & Hl & _ & _ & _ & _ & [[_ Hf]|[Hk _]]); [|discriminate]. subst w1. cbn in *. auto.
  - pose proof (fs_create_spec S TSpill DTmp w) as Hc.
    destruct (fs_create S TSpill DTmp w) as [r w1]; cbn in Hc.
    destruct Hc as (Htx1 & Hl1 & _ & [(Hr & _)|(Hr & Hf1 & _)]); subst r; [discriminate|].
    set (w2 := w_set_buf _ w1).
    pose proof (fs_write_spec S TSpill (fs_next (w_fs w)) (bb_mem (wbuf w)) w2) as Hs.
    destruct (fs_write S TSpill (fs_next (w_fs w)) (bb_mem (wbuf w)) w2) as [ok w3]; cbn in Hs.
    destruct ok; [|discriminate].
    destruct Hs as (_ & Hl3 & _ & _ & _ & _ & [[_ Hf3]|[Hk _]]); [|discriminate].
    set (w4 := w_set_buf _ w3).
    pose proof (fs_write_spec S TSpill (fs_next (w_fs w)) d w4) as Hs2.
    destruct (fs_write S TSpill (fs_next (w_fs w)) d w4) as [ok5 w5]; cbn in Hs2.
    intro H; inversion H; subst.
    destruct Hs2 as (_ & Hl5 & _ & _ & _ & _ & [[_ Hf5]|[Hk _]]); [|discriminate].
    subst w4 w2. cbn in *. split; congruence.
Qed.

Lemma strict_faults w : w_faults (strict w) = w_faults w /\ w_log (strict w) = w_log w.
Proof. split; reflexivity. Qed.

Lemma mp_loop_spec V S parts : forall ok opened w,
  let res := mp_loop V S parts ok opened w in
  w_log (snd res) = w_log w /\
  (fst (fst res) = true -> w_faults (snd res) = w_faults w /\ ok = true).
Proof.
  induction parts as [|p rest IH]; intros ok opened w; cbn [mp_loop].
  - pose proof (body_read_spec S w) as Hr. destruct (body_read S w) as [rd w0]; cbn in Hr.
    destruct Hr as ((_ & _ & Hl & _) & Hf).
    destruct rd; cbn.
    + destruct Hf as [[_ Hf]|[Hk _]]; [|discriminate]. destruct ok; cbn; split; auto; discriminate.
    + split; [assumption | discriminate].
  - pose proof (body_read_spec S w) as Hr. destruct (body_read S w) as [rd w0]; cbn in Hr.
    destruct Hr as ((_ & _ & Hl & _) & Hf).
    destruct rd; cbn [negb].
    2:{ cbn. split; [assumption | discriminate]. }
    destruct Hf as [[_ Hf]|[Hk _]]; [|discriminate].
    destruct p as [|size].
    + specialize (IH ok opened w0). cbv zeta in IH. destruct IH as [I1 I2]. split; [congruence|].
      intro H. destruct (I2 H) as [I3 I4]. split; congruence.
    + pose proof (fs_create_spec S TUpload DUpload w0) as Hc.
      destruct (fs_create S TUpload DUpload w0) as [r w1]; cbn in Hc.
      destruct Hc as (Htx1 & Hl1 & _ & [(Hr & _)|(Hr & Hf1 & _)]); subst r.
      * cbn. split; [congruence | discriminate].
      * set (w2 := if v_mp_fixed V then _ else w1).
        assert (Hw2 : w_log w2 = w_log w1 /\ w_faults w2 = w_faults w1) by (subst w2; destruct (v_mp_fixed V); split; reflexivity).
        pose proof (fs_write_spec S TUpload (fs_next (w_fs w0)) (repeat 0%N size) w2) as Hs.
        destruct (fs_write S TUpload (fs_next (w_fs w0)) (repeat 0%N size) w2) as [okw w3]; cbn in Hs.
        destruct Hs as (_ & Hl3 & _ & _ & _ & _ & Hf3).
        destruct okw; cbn [negb].
        2:{ cbn. split; [destruct Hw2; congruence | discriminate]. }
        destruct Hf3 as [[_ Hf3]|[Hk _]]; [|discriminate].
        match goal with |- context [mp_loop V S rest ok ?o ?ww] => specialize (IH ok o ww); set (w5 := ww) in * end.
        assert (Hw5 : w_log w5 = w_log w3 /\ w_faults w5 = w_faults w3) by (subst w5; destruct (v_mp_fixed V); split; reflexivity).
        cbv zeta in IH. destruct IH as [I1 I2]. destruct Hw2, Hw5. split; [congruence|].
        intro HH. destruct (I2 HH) as [I3 I4]. split; congruence.
Qed.

Lemma swallowed_upload_close V n c : swallowed V (mkop n c OClose TUpload 0 0) = true.
Proof. reflexivity. Qed.

Lemma close_all_spec (P : opinfo -> Prop) S ids :
  (forall n c, P (mkop n c OClose TUpload 0 0)) -> forall w,
  w_log (close_all S ids w) = w_log w /\ w_tx (close_all S ids w) = w_tx w /\
  (Forall P (w_faults w) -> Forall P (w_faults (close_all S ids w))).
Proof.
  intro HP.
  induction ids as [|id r IH]; intro w; cbn [close_all]; [auto|].
  pose proof (fs_close_spec S TUpload id w) as Hc.
  destruct (fs_close S TUpload id w) as [ok w1]; cbn in Hc. cbn [snd].
  destruct Hc as (Htx & Hl & _ & _ & _ & _ & Hf).
  destruct (IH w1) as (I1 & I2 & I3). repeat split; try congruence.
  intro H. apply I3. destruct Hf as [[_ Hf]|[_ Hf]]; rewrite Hf; [assumption|].
  constructor; [apply HP | assumption].
Qed.

Section WithParser.
Variable parse : bytes -> presult.

Lemma run_processor_spec V S c w :
  let ok := fst (run_processor parse V S c w) in
  let w' := snd (run_processor parse V S c w) in
  w_log w' = w_log w /\
  (ok = true -> Forall (sw V) (w_faults w) -> Forall (sw V) (w_faults w')).
Proof.
  unfold run_processor. destruct (c_proc c).
  - cbn; auto.
  - pose proof (body_read_spec S w) as Hr. destruct (body_read S w) as [rd w0]; cbn in *.
    destruct Hr as ((_ & _ & Hl & _) & Hf). split; [assumption|].
    intros ->. destruct Hf as [[_ Hf]|[Hk _]]; [|discriminate]. rewrite Hf; auto.
  - pose proof (body_read_spec S w) as Hr. destruct (body_read S w) as [rd w0]; cbn in Hr.
    destruct Hr as ((_ & _ & Hl & _) & Hf).
    destruct rd; cbn; (split; [assumption|]); [|discriminate].
    intros _. destruct Hf as [[_ Hf]|[Hk _]]; [|discriminate]. rewrite Hf; auto.
  - pose proof (mp_loop_spec V S (pr_parts (parse (stored_body w))) (pr_ok (parse (stored_body w))) [] w) as Hm.
    destruct (mp_loop V S (pr_parts (parse (stored_body w))) (pr_ok (parse (stored_body w))) [] w) as [[okm opened] w1].
    cbn in Hm. cbn [fst snd]. destruct Hm as [M1 M2].
    destruct (close_all_spec (sw V) S opened (swallowed_upload_close V) w1) as (C1 & _ & C3).
    split; [congruence|]. intros H F. apply C3. destruct (M2 H) as [M3 _]. rewrite M3. assumption.
Qed.

Lemma eval2_spec c w : w_faults (fst (eval2 c w)) = w_faults w /\ w_log (fst (eval2 c w)) = w_log w.
Proof. split; reflexivity. Qed.

(* ProcessRequestBody: either "Failed to process request body" is logged (and REQBODY_ERROR set,
   see process_body_logged) or nothing but swallowed-class operations failed *)
Lemma process_body_spec V S c w : Forall (sw V) (w_faults w) ->
  let w' := fst (process_body parse V S c w) in
  In LgProc (w_log w') \/ Forall (sw V) (w_faults w').
Proof.
  intro F. unfold process_body.
  destruct (t_intr (w_tx w)); [right; assumption|].
  destruct (negb (t_phase (w_tx w) =? 1)).
  { right. destruct (t_phase (w_tx w) =? 2); assumption. }
  destruct (bb_len (t_buf (w_tx w)) =? 0); [right; assumption|].
  assert (G : forall okw1, run_processor parse V S c w = okw1 ->
     let w' := fst (if fst okw1 then eval2 c (snd okw1)
                    else eval2 c (set_tx (set_rberr (w_tx (snd okw1))) (add_log LgProc (snd okw1)))) in
     In LgProc (w_log w') \/ Forall (sw V) (w_faults w')).
  { intros [ok w1] E. pose proof (run_processor_spec V S c w) as Hs. rewrite E in Hs. cbn in Hs.
    destruct Hs as [H1 H2]. cbn [fst snd]. destruct ok; cbn.
    - right. apply H2; auto.
    - left. left. reflexivity. }
  destruct (c_proc c) eqn:Ep; try (right; assumption);
    specialize (G _ eq_refl); destruct (run_processor parse V S c w) as [ok w1]; exact G.
Qed.

(* "Failed to process request body" is only logged together with REQBODY_ERROR and
   REQBODY_PROCESSOR_ERROR *)
Lemma process_body_logged V S c w :
  ~ In LgProc (w_log w) ->
  let w' := fst (process_body parse V S c w) in
  In LgProc (w_log w') -> t_rberr (w_tx w') = true /\ t_rbperr (w_tx w') = true.
Proof.
  intro N. unfold process_body.
  destruct (t_intr (w_tx w)). { cbn. intros [H|H]; [discriminate | contradiction]. }
  destruct (negb (t_phase (w_tx w) =? 1)).
  { destruct (t_phase (w_tx w) =? 2); cbn; [contradiction|]. intros [H|H]; [discriminate | contradiction]. }
  destruct (bb_len (t_buf (w_tx w)) =? 0); [cbn; contradiction|].
  assert (G : forall okw1, run_processor parse V S c w = okw1 ->
     let w' := fst (if fst okw1 then eval2 c (snd okw1)
                    else eval2 c (set_tx (set_rberr (w_tx (snd okw1))) (add_log LgProc (snd okw1)))) in
     In LgProc (w_log w') -> t_rberr (w_tx w') = true /\ t_rbperr (w_tx w') = true).
  { intros [ok w1] E. pose proof (run_processor_spec V S c w) as Hs. rewrite E in Hs. cbn in Hs.
    destruct Hs as [H1 H2]. cbn [fst snd]. destruct ok; cbn.
    - rewrite H1. contradiction.
    - auto. }
  destruct (c_proc c) eqn:Ep; try (cbn; contradiction);
    specialize (G _ eq_refl); destruct (run_processor parse V S c w) as [ok w1]; exact G.
Qed.

Definition surfaced (r : ret) (w' : world) : Prop :=
  r_err r = true \/ In LgProc (w_log w') \/ In LgAudit (w_log w') \/ In LgAuditBody (w_log w').

Lemma write_body_spec V S c d w : w_faults w = [] ->
  let w' := fst (write_body parse V S c d w) in
  let r := snd (write_body parse V S c d w) in
  surfaced r w' \/ Forall (sw V) (w_faults w').
Proof.
  intro F. unfold write_body.
  destruct (c_limit c =? bb_len (t_buf (w_tx w))); [right; cbn; rewrite F; constructor|].
  set (over := c_limit c <=? bb_len (t_buf (w_tx w)) + length d).
  set (w1 := if over then set_tx (set_inbound (w_tx w)) w else w).
  assert (F1 : w_faults w1 = []) by (subst w1; destruct over; assumption).
  destruct (over && c_reject c); [right; cbn; rewrite F1; constructor|].
  destruct (bb_write S c (firstn (if over then c_limit c - bb_len (t_buf (w_tx w)) else length d) d) w1) as [ok w2] eqn:E.
  destruct ok; cbn [negb].
  2:{ left. left. reflexivity. }
  apply bb_write_ok in E. destruct E as [E1 E2].
  destruct over.
  - pose proof (process_body_spec V S c (add_log LgPartial w2)) as Hp.
    destruct (process_body parse V S c (add_log LgPartial w2)) as [w3 r3]. cbn in *.
    destruct Hp as [Hp|Hp].
    + rewrite E1, F1. constructor.
    + left. right. left. assumption.
    + right. assumption.
  - right. cbn. rewrite E1, F1. constructor.
Qed.

Lemma audit_body_read_spec V S c w :
  let w' := audit_body_read V S c w in
  (forall m, In m (w_log w) -> In m (w_log w')) /\ w_tx w' = w_tx w /\ w_fs w' = w_fs w /\
  (In LgAuditBody (w_log w') \/ (Forall (sw V) (w_faults w) -> Forall (sw V) (w_faults w'))).
Proof.
  unfold audit_body_read. destruct (c_auditc c); [|cbn; auto].
  destruct (bb_writer (wbuf w)); [|cbn; auto].
  pose proof (fs_read_spec S TSpillAudit w) as Hr.
  destruct (fs_read S TSpillAudit w) as [ok w1]; cbn in Hr.
  destruct Hr as ((Hfs & Htx & Hl & _) & Hf).
  destruct ok.
  - destruct Hf as [[_ Hf]|[Hk _]]; [|discriminate]. rewrite Hl, Hf. auto.
  - destruct Hf as [[Hk _]|[_ Hf]]; [discriminate|].
    destruct (v_auditc_fixed V) eqn:Ev; cbn.
    + rewrite Hl. repeat split; auto.
    + rewrite Hl. repeat split; auto. right. intro F. rewrite Hf. constructor; [|assumption].
      unfold sw, swallowed. cbn. rewrite Ev. cbn. apply orb_true_r.
Qed.

Lemma audit_result_spec V S t off len w : t = TAuditSerial \/ t = TAuditIdx ->
  let w' := audit_result V (fst (do_op S OWrite t off len w)) (snd (do_op S OWrite t off len w)) in
  In LgAudit (w_log w') \/
  ((forall m, In m (w_log w) -> In m (w_log w')) /\ (Forall (sw V) (w_faults w) -> Forall (sw V) (w_faults w'))).
Proof.
  intro Ht. pose proof (do_op_spec S OWrite t off len w) as H.
  destruct (do_op S OWrite t off len w) as [r w1]; cbn in H. cbn [fst snd].
  destruct H as (_ & (_ & _ & Hl & _) & Hf). unfold audit_result.
  destruct r.
  - destruct (v_audit_fixed V) eqn:Ev; [left; left; reflexivity|].
    right. rewrite Hl, Hf. split; [auto|]. intro F. constructor; [|assumption].
    unfold sw, swallowed. cbn. rewrite Ev. destruct Ht; subst t; cbn; rewrite ?orb_true_r; reflexivity.
  - right. rewrite Hl, Hf. auto.
Qed.

Lemma process_logging_spec V S c w : w_faults w = [] ->
  let w' := fst (process_logging V S c w) in
  In LgAudit (w_log w') \/ In LgAuditBody (w_log w') \/ Forall (sw V) (w_faults w').
Proof.
  intro F. unfold process_logging.
  set (w00 := set_tx (set_phase 5 (w_tx w)) w).
  assert (F00 : Forall (sw V) (w_faults w00)) by (subst w00; cbn; rewrite F; constructor).
  destruct (c_audit c).
  - right; right. exact F00.
  - destruct (audit_body_read_spec V S c w00) as (A1 & _ & _ & A2).
    set (w0 := audit_body_read V S c w00) in *.
    pose proof (audit_result_spec V S TAuditSerial 0 0 w0 (or_introl eq_refl)) as R.
    destruct (do_op S OWrite TAuditSerial 0 0 w0) as [r w1]. cbn in *.
    destruct R as [R|[R1 R2]]; [left; assumption|].
    destruct A2 as [A2|A2]; [right; left; apply R1; assumption|].
    right; right. apply R2, A2, F00.
  - destruct (audit_body_read_spec V S c w00) as (A1 & _ & _ & A2).
    set (w0 := audit_body_read V S c w00) in *.
    pose proof (do_op_spec S OCreate TAuditRec 0 0 w0) as H1.
    destruct (do_op S OCreate TAuditRec 0 0 w0) as [r1 w1]; cbn in H1.
    destruct H1 as (_ & (_ & _ & Hl1 & _) & Hf1).
    destruct r1; [left; cbn; left; reflexivity|].
    pose proof (do_op_spec S OWrite TAuditRec 0 0 w1) as H2.
    destruct (do_op S OWrite TAuditRec 0 0 w1) as [r2 w2]; cbn in H2.
    destruct H2 as (_ & (_ & _ & Hl2 & _) & Hf2).
    destruct r2; [left; cbn; left; reflexivity|].
    pose proof (audit_result_spec V S TAuditIdx 0 0 w2 (or_intror eq_refl)) as R.
    destruct (do_op S OWrite TAuditIdx 0 0 w2) as [r3 w3]. cbn in *.
    destruct R as [R|[R1 R2]]; [left; assumption|].
    destruct A2 as [A2|A2]; [right; left; apply R1; rewrite Hl2, Hl1; assumption|].
    right; right. apply R2. rewrite Hf2, Hf1. apply A2, F00.
Qed.

(* ---- C20_failure_surfaces, per call ---- *)
Lemma step_surfaces V S c k w :
  let w' := fst (step parse V S c k w) in
  let r := snd (step parse V S c k w) in
  surfaced r w' \/ Forall (sw V) (w_faults w').
Proof.
  unfold step. destruct k.
  - right. unfold process_headers.
    destruct (1 <=? t_phase (w_tx (begin_call w))); [cbn; constructor|].
    destruct (t_intr (w_tx (begin_call w))); cbn; constructor.
  - pose proof (write_body_spec V S c data (begin_call w) eq_refl) as H.
    destruct (write_body parse V S c data (begin_call w)) as [w1 r]. exact H.
  - pose proof (process_body_spec V S c (begin_call w)) as H.
    destruct (process_body parse V S c (begin_call w)) as [w1 r]. cbn in *.
    destruct H as [H|H]; [constructor | left; right; left; assumption | right; assumption].
  - pose proof (process_logging_spec V S c (begin_call w) eq_refl) as H.
    destruct (process_logging V S c (begin_call w)) as [w1 r]. cbn in *.
    destruct H as [H|[H|H]]; [left; right; right; left; assumption | left; right; right; right; assumption | right; assumption].
Qed.

(* ---- C20_not_silently_inspected ---- *)
Definition nb (o : opinfo) : Prop := body_fault o = false.

Lemma run_processor_inspected V S c w :
  let ok := fst (run_processor parse V S c w) in
  let w' := snd (run_processor parse V S c w) in
  ok = true ->
  (Forall nb (w_faults w) -> Forall nb (w_faults w')) /\
  (c_proc c = PJson \/ c_proc c = PMultipart -> pr_ok (parse (stored_body w)) = true).
Proof.
  unfold run_processor. destruct (c_proc c).
  - cbn. intros _. split; [auto | intros [H|H]; discriminate].
  - pose proof (body_read_spec S w) as Hr. destruct (body_read S w) as [rd w0]; cbn in *.
    destruct Hr as (_ & Hf). intros ->. destruct Hf as [[_ Hf]|[Hk _]]; [|discriminate].
    rewrite Hf. split; [auto | intros [H|H]; discriminate].
  - pose proof (body_read_spec S w) as Hr. destruct (body_read S w) as [rd w0]; cbn in Hr.
    destruct Hr as (_ & Hf). destruct rd; cbn; [|discriminate].
    intros Hok. destruct Hf as [[_ Hf]|[Hk _]]; [|discriminate]. rewrite Hf. auto.
  - pose proof (mp_loop_spec V S (pr_parts (parse (stored_body w))) (pr_ok (parse (stored_body w))) [] w) as Hm.
    destruct (mp_loop V S (pr_parts (parse (stored_body w))) (pr_ok (parse (stored_body w))) [] w) as [[okm opened] w1].
    cbn in Hm. cbn [fst snd]. destruct Hm as [M1 M2]. intro H. destruct (M2 H) as [M3 M4].
    assert (HP : forall n c0, nb (mkop n c0 OClose TUpload 0 0)) by (intros; reflexivity).
    destruct (close_all_spec nb S opened HP w1) as (_ & _ & C3).
    split; [|auto]. intro F. apply C3. rewrite M3. assumption.
Qed.

Lemma run_processor_tx_rberr V S c w :
  t_rberr (w_tx (snd (run_processor parse V S c w))) = t_rberr (w_tx w) /\
  t_p2 (w_tx (snd (run_processor parse V S c w))) = t_p2 (w_tx w) /\
  t_e (w_tx (snd (run_processor parse V S c w))) = t_e (w_tx w).
Proof.
  assert (BR : forall w, w_tx (snd (body_read S w)) = w_tx w).
  { intro w0. pose proof (body_read_spec S w0) as H. destruct (body_read S w0); cbn in *. apply H. }
  unfold run_processor. destruct (c_proc c).
  - cbn; auto.
  - rewrite BR; auto.
  - pose proof (BR w) as H. destruct (body_read S w) as [rd w0]; cbn in *. destruct rd; cbn; rewrite H; auto.
  - generalize (pr_ok (parse (stored_body w))) as ok. generalize (@nil nat) as opened.
    generalize (pr_parts (parse (stored_body w))) as parts. intro parts. revert w.
    induction parts as [|p rest IH]; intros w opened ok; cbn [mp_loop].
    + pose proof (BR w) as H. destruct (body_read S w) as [rd w0]; cbn in H.
      assert (C : forall w1, w_tx (close_all S opened w1) = w_tx w1)
        by (intro w1; apply (close_all_spec (fun _ => True) S opened (fun _ _ => I) w1)).
      destruct rd; cbn; [destruct ok; cbn|]; rewrite C; cbn; rewrite H; auto.
    + pose proof (BR w) as H. destruct (body_read S w) as [rd w0]; cbn in H.
      assert (C : forall o w1, w_tx (close_all S o w1) = w_tx w1)
        by (intros o w1; apply (close_all_spec (fun _ => True) S o (fun _ _ => I) w1)).
      destruct rd; cbn [negb].
      2:{ cbn. rewrite C. cbn. rewrite H. auto. }
      destruct p as [|size].
      * specialize (IH w0 opened ok). rewrite H in IH. exact IH.
      * pose proof (fs_create_spec S TUpload DUpload w0) as Hc.
        destruct (fs_create S TUpload DUpload w0) as [r w1]; cbn in Hc.
        destruct Hc as (Htx1 & _ & _ & [(Hr & _)|(Hr & _)]); subst r.
        { cbn. rewrite C. cbn. rewrite Htx1, H. auto. }
        set (w2 := if v_mp_fixed V then _ else w1).
        assert (Hw2 : t_rberr (w_tx w2) = t_rberr (w_tx w) /\ t_p2 (w_tx w2) = t_p2 (w_tx w) /\ t_e (w_tx w2) = t_e (w_tx w))
          by (subst w2; destruct (v_mp_fixed V); cbn; rewrite Htx1, H; auto).
        pose proof (fs_write_spec S TUpload (fs_next (w_fs w0)) (repeat 0%N size) w2) as Hs.
        destruct (fs_write S TUpload (fs_next (w_fs w0)) (repeat 0%N size) w2) as [okw w3]; cbn in Hs.
        destruct Hs as (Htx3 & _).
        destruct okw; cbn [negb].
        2:{ cbn. rewrite C. cbn. rewrite Htx3. exact Hw2. }
        match goal with |- context [mp_loop V S rest ok ?o ?ww] => specialize (IH ww o ok); set (w5 := ww) in * end.
        assert (Hw5 : t_rberr (w_tx w5) = t_rberr (w_tx w) /\ t_p2 (w_tx w5) = t_p2 (w_tx w) /\ t_e (w_tx w5) = t_e (w_tx w)).
        { subst w5. destruct (v_mp_fixed V); cbn; rewrite Htx3; exact Hw2. }
        destruct IH as (I1 & I2 & I3). destruct Hw5 as (J1 & J2 & J3). repeat split; congruence.
Qed.

Lemma process_body_inspected V S c w :
  t_phase (w_tx w) = 1 -> t_intr (w_tx w) = false ->
  let w' := fst (process_body parse V S c w) in
  t_phase (w_tx w') = 2 /\ t_p2 (w_tx w') = Datatypes.S (t_p2 (w_tx w)) /\
  (t_rberr (w_tx w') = true -> t_e (w_tx w') = true) /\
  (t_rberr (w_tx w') = false ->
     (Forall nb (w_faults w) -> Forall nb (w_faults w')) /\
     (0 < bb_len (wbuf w) -> c_proc c = PJson \/ c_proc c = PMultipart -> pr_ok (parse (stored_body w)) = true)).
Proof.
  intros Hp Hi. unfold process_body. rewrite Hi, Hp. cbn [Nat.eqb negb]. cbv zeta.
  assert (E2 : forall w0, t_p2 (w_tx w0) = t_p2 (w_tx w) -> t_e (w_tx w0) = t_e (w_tx w) ->
     let w' := fst (eval2 c w0) in
     t_phase (w_tx w') = 2 /\ t_p2 (w_tx w') = Datatypes.S (t_p2 (w_tx w)) /\
     (t_rberr (w_tx w') = true -> t_e (w_tx w') = true) /\ t_rberr (w_tx w') = t_rberr (w_tx w0) /\
     w_faults w' = w_faults w0).
  { intros w0 H1 H2. cbn. rewrite H1. repeat split; auto. intros ->. apply orb_true_r. }
  destruct (bb_len (t_buf (w_tx w)) =? 0) eqn:El.
  { destruct (E2 w eq_refl eq_refl) as (A & B & C & D & F).
    split; [auto|]. split; [auto|]. split; [auto|]. intros _. split; [rewrite F; auto|].
    intro Hl. apply Nat.eqb_eq in El. unfold wbuf in Hl. rewrite El in Hl. inversion Hl. }
  assert (G : forall okw1, run_processor parse V S c w = okw1 -> c_proc c <> PNone ->
     let w' := fst (if fst okw1 then eval2 c (snd okw1)
                    else eval2 c (set_tx (set_rberr (w_tx (snd okw1))) (add_log LgProc (snd okw1)))) in
     t_phase (w_tx w') = 2 /\ t_p2 (w_tx w') = Datatypes.S (t_p2 (w_tx w)) /\
     (t_rberr (w_tx w') = true -> t_e (w_tx w') = true) /\
     (t_rberr (w_tx w') = false ->
        (Forall nb (w_faults w) -> Forall nb (w_faults w')) /\
        (0 < bb_len (wbuf w) -> c_proc c = PJson \/ c_proc c = PMultipart -> pr_ok (parse (stored_body w)) = true))).
  { intros [ok w1] E Hn. pose proof (run_processor_inspected V S c w) as Hs.
    pose proof (run_processor_tx_rberr V S c w) as Ht. rewrite E in Hs, Ht. cbn [fst snd] in *.
    destruct Ht as (T1 & T2 & T3).
    destruct ok.
    - destruct (E2 w1 T2 T3) as (A & B & C & D & F). destruct (Hs eq_refl) as [S1 S2].
      split; [auto|]. split; [auto|]. split; [auto|]. intros _. split; [rewrite F; auto|]. intros _. exact S2.
    - destruct (E2 (set_tx (set_rberr (w_tx w1)) (add_log LgProc w1)) T2 T3) as (A & B & C & D & F).
      split; [auto|]. split; [auto|]. split; [auto|]. rewrite D. cbn. discriminate. }
  destruct (c_proc c) eqn:Ep.
  - destruct (E2 w eq_refl eq_refl) as (A & B & C & D & F).
    split; [auto|]. split; [auto|]. split; [auto|]. intros _. split; [rewrite F; auto|].
    intros _ [H|H]; discriminate.
  - specialize (G _ eq_refl). destruct (run_processor parse V S c w) as [ok w1]. apply G. discriminate.
  - specialize (G _ eq_refl). destruct (run_processor parse V S c w) as [ok w1]. apply G. discriminate.
  - specialize (G _ eq_refl). destruct (run_processor parse V S c w) as [ok w1]. apply G. discriminate.
Qed.

End WithParser.

(* ------------------------------------------------------------------------------------------ *)
(* Close returns an error exactly when one of its operations failed                            *)
(* ------------------------------------------------------------------------------------------ *)

Definition okspec (ok : bool) (w w' : world) : Prop :=
  exists new, w_faults w' = new ++ w_faults w /\ (ok = true <-> new = []).

Lemma okspec_seq ok1 ok2 a b c : okspec ok1 a b -> okspec ok2 b c -> okspec (ok1 && ok2) a c.
Proof.
  intros (n1 & E1 & I1) (n2 & E2 & I2). exists (n2 ++ n1). split.
  - rewrite E2, E1, app_assoc; reflexivity.
  - rewrite andb_true_iff, I1, I2. split.
    + intros [-> ->]; reflexivity.
    + intro H. apply app_eq_nil in H. tauto.
Qed.

Lemma okspec_same w w' : w_faults w' = w_faults w -> okspec true w w'.
Proof. intro H. exists []. split; [assumption | tauto]. Qed.

Lemma okspec_one o w w' : w_faults w' = o :: w_faults w -> okspec false w w'.
Proof. intro H. exists [o]. split; [assumption|]. split; discriminate. Qed.

Lemma fs_remove_okspec S t pos id w : okspec (fst (fs_remove S t pos id w)) w (snd (fs_remove S t pos id w)).
Proof.
  pose proof (fs_remove_spec S t pos id w) as H. destruct (fs_remove S t pos id w) as [ok w1]; cbn in *.
  destruct H as (_ & _ & _ & _ & _ & [(-> & Hf & _)|(-> & Hf & _)]);
    [apply okspec_same | eapply okspec_one]; eassumption.
Qed.

Lemma fs_close_okspec S t id w : okspec (fst (fs_close S t id w)) w (snd (fs_close S t id w)).
Proof.
  pose proof (fs_close_spec S t id w) as H. destruct (fs_close S t id w) as [ok w1]; cbn in *.
  destruct H as (_ & _ & _ & _ & _ & _ & [(-> & Hf)|(-> & Hf)]);
    [apply okspec_same | eapply okspec_one]; eassumption.
Qed.

Lemma remove_from_okspec S ids : forall pos w, okspec (fst (remove_from S pos ids w)) w (snd (remove_from S pos ids w)).
Proof.
  induction ids as [|id r IH]; intros pos w; cbn [remove_from].
  - apply okspec_same; reflexivity.
  - pose proof (fs_remove_okspec S TUpload pos id w) as H1.
    destruct (fs_remove S TUpload pos id w) as [ok1 w1]. cbn in H1.
    pose proof (IH (Datatypes.S pos) w1) as H2. destruct (remove_from S (Datatypes.S pos) r w1) as [ok2 w2]. cbn in *.
    eapply okspec_seq; eassumption.
Qed.

Lemma remove_all_okspec S ids w : okspec (fst (remove_all S ids w)) w (snd (remove_all S ids w)).
Proof. apply remove_from_okspec. Qed.

Lemma bb_reset_okspec V S w : okspec (fst (bb_reset V S w)) w (snd (bb_reset V S w)).
Proof.
  unfold bb_reset. destruct (bb_writer (wbuf w)) as [id|]; [|apply okspec_same; reflexivity].
  set (w0 := w_set_buf bb_init w).
  assert (H0 : okspec true w w0) by (apply okspec_same; reflexivity).
  pose proof (fs_close_okspec S TSpill id w0) as H1.
  destruct (fs_close S TSpill id w0) as [okc w1]. cbn in H1.
  pose proof (fs_remove_okspec S TSpill 0 id w1) as H2.
  destruct (v_reset_fixed V).
  - destruct (fs_remove S TSpill 0 id w1) as [okr w2]. cbn in *.
    rewrite andb_comm. change (okc && okr) with (true && (okc && okr)).
    eapply okspec_seq; [exact H0|]. eapply okspec_seq; eassumption.
  - destruct okc.
    + destruct (fs_remove S TSpill 0 id w1) as [okr w2]. cbn in *.
      change okr with (true && (true && okr)).
      eapply okspec_seq; [exact H0|]. eapply okspec_seq; eassumption.
    + cbn. change false with (true && false). eapply okspec_seq; eassumption.
Qed.

Lemma tx_close_okspec V S c w : okspec (fst (tx_close V S c w)) w (snd (tx_close V S c w)).
Proof.
  unfold tx_close.
  assert (H1 : okspec (fst (if keep_files c (w_tx w) then (true, w) else remove_all S (t_tmpnames (w_tx w)) w)) w
                      (snd (if keep_files c (w_tx w) then (true, w) else remove_all S (t_tmpnames (w_tx w)) w))).
  { destruct (keep_files c (w_tx w)); [apply okspec_same; reflexivity | apply remove_all_okspec]. }
  destruct (if keep_files c (w_tx w) then (true, w) else remove_all S (t_tmpnames (w_tx w)) w) as [ok1 w1]. cbn in H1.
  set (w2 := set_tx (reset_vars (w_tx w1)) w1).
  pose proof (bb_reset_okspec V S w2) as H2.
  destruct (bb_reset V S w2) as [ok2 w3]. cbn in *.
  eapply okspec_seq; [exact H1|]. exact H2.
Qed.

Lemma close_error_iff V S c w : w_faults w = [] ->
  (fst (tx_close V S c w) = true <-> w_faults (snd (tx_close V S c w)) = []).
Proof.
  intro F. destruct (tx_close_okspec V S c w) as (new & E & I).
  rewrite E, F, app_nil_r. exact I.
Qed.

(* ------------------------------------------------------------------------------------------ *)
(* no temporary file is left: the ownership invariant                                          *)
(* ------------------------------------------------------------------------------------------ *)

(* the files the transaction will remove at Close *)
Definition owned (t : txs) : list nat :=
  t_tmpnames t ++ match bb_writer (t_buf t) with Some id => [id] | None => [] end.

Definition low (n0 : nat) (f : file) : bool := f_id f <? n0.

Definition inv (n0 : nat) (files0 : list file) (fs : fsys) (t : txs) : Prop :=
  filter (low n0) (fs_files fs) = files0 /\
  (forall f, In f (fs_files fs) -> n0 <= f_id f -> In (f_id f) (owned t)) /\
  n0 <= fs_next fs /\
  (forall x, In x (owned t) -> n0 <= x).

Definition winv n0 files0 (w : world) : Prop := inv n0 files0 (w_fs w) (w_tx w).

Lemma filter_low_append n0 id d l : n0 <= id -> filter (low n0) (append_file id d l) = filter (low n0) l.
Proof.
  intro H. unfold append_file. induction l as [|f r IH]; [reflexivity|].
  cbn [map filter]. rewrite IH.
  destruct (f_id f =? id) eqn:E; [|reflexivity].
  apply Nat.eqb_eq in E.
  assert (L1 : low n0 (mkfile (f_id f) (f_dir f) (f_data f ++ d)) = false)
    by (unfold low; cbn [f_id]; apply Nat.ltb_ge; lia).
  assert (L2 : low n0 f = false) by (unfold low; apply Nat.ltb_ge; lia).
  rewrite L1, L2. reflexivity.
Qed.

Lemma filter_low_drop n0 id l : n0 <= id -> filter (low n0) (drop_file id l) = filter (low n0) l.
Proof.
  intro H. unfold drop_file. induction l as [|f r IH]; [reflexivity|].
  cbn [filter]. destruct (f_id f =? id) eqn:E; cbn [negb].
  - apply Nat.eqb_eq in E.
    assert (L2 : low n0 f = false) by (unfold low; apply Nat.ltb_ge; lia).
    rewrite L2. exact IH.
  - cbn [filter]. destruct (low n0 f); [f_equal|]; exact IH.
Qed.

Lemma in_append_file f id d l : In f (append_file id d l) -> exists f0, In f0 l /\ f_id f0 = f_id f.
Proof.
  unfold append_file. rewrite in_map_iff. intros (f0 & E & I). exists f0. split; [assumption|].
  destruct (f_id f0 =? id); subst f; reflexivity.
Qed.

Lemma in_drop_file f id l : In f (drop_file id l) <-> In f l /\ f_id f <> id.
Proof.
  unfold drop_file. rewrite filter_In, negb_true_iff, Nat.eqb_neq. tauto.
Qed.

Lemma inv_files n0 files0 fs t files' next' open' :
  inv n0 files0 fs t ->
  filter (low n0) files' = filter (low n0) (fs_files fs) ->
  (forall f, In f files' -> exists f0, In f0 (fs_files fs) /\ f_id f0 = f_id f) ->
  fs_next fs <= next' ->
  inv n0 files0 (mkfs files' next' open') t.
Proof.
  intros (A & B & C & D) H1 H2 H3. unfold inv; cbn. repeat split; auto.
  - congruence.
  - intros f I L. destruct (H2 f I) as (f0 & I0 & E). rewrite <- E. apply B; [assumption | lia].
  - lia.
Qed.

Lemma inv_tx n0 files0 fs t t' :
  inv n0 files0 fs t ->
  (forall x, In x (owned t) -> In x (owned t')) ->
  (forall x, In x (owned t') -> n0 <= x) ->
  inv n0 files0 fs t'.
Proof. intros (A & B & C & D) H1 H2. unfold inv. repeat split; auto. Qed.

Lemma inv_create n0 files0 fs t t' d open' :
  inv n0 files0 fs t ->
  (forall x, In x (owned t) -> In x (owned t')) ->
  In (fs_next fs) (owned t') ->
  (forall x, In x (owned t') -> n0 <= x) ->
  inv n0 files0 (mkfs (fs_files fs ++ [mkfile (fs_next fs) d []]) (Datatypes.S (fs_next fs)) open') t'.
Proof.
  intros (A & B & C & D) H1 H2 H3. unfold inv; cbn. repeat split; auto.
  - rewrite filter_app. cbn [filter].
    assert (L : low n0 (mkfile (fs_next fs) d []) = false) by (unfold low; cbn [f_id]; apply Nat.ltb_ge; lia).
    rewrite L, app_nil_r. exact A.
  - intros f I L. apply in_app_or in I. destruct I as [I|[I|[]]].
    + apply H1, B; assumption.
    + subst f. exact H2.
Qed.

Lemma winv_same n0 files0 w w' : w_fs w' = w_fs w -> w_tx w' = w_tx w -> winv n0 files0 w -> winv n0 files0 w'.
Proof. unfold winv. intros -> ->. auto. Qed.

Lemma fs_write_inv n0 files0 S t id d w : n0 <= id -> winv n0 files0 w -> winv n0 files0 (snd (fs_write S t id d w)).
Proof.
  intros L I. pose proof (fs_write_spec S t id d w) as H. destruct (fs_write S t id d w) as [ok w1]; cbn in *.
  destruct H as (Htx & _ & _ & Hn & Ho & (d' & Hf) & _).
  unfold winv. rewrite Htx. destruct (w_fs w1) as [files1 next1 open1]; cbn in *. subst.
  eapply inv_files; [exact I | apply filter_low_append; assumption | intros f; apply in_append_file | lia].
Qed.

Lemma fs_close_inv n0 files0 S t id w : winv n0 files0 w -> winv n0 files0 (snd (fs_close S t id w)).
Proof.
  intros I. pose proof (fs_close_spec S t id w) as H. destruct (fs_close S t id w) as [ok w1]; cbn in *.
  destruct H as (Htx & _ & _ & Hf & Hn & Ho & _).
  unfold winv. rewrite Htx. destruct (w_fs w1) as [files1 next1 open1]; cbn in *. subst.
  eapply inv_files; [exact I | reflexivity | intros f If; exists f; auto | lia].
Qed.

Lemma fs_remove_inv n0 files0 S t pos id w : n0 <= id -> winv n0 files0 w -> winv n0 files0 (snd (fs_remove S t pos id w)).
Proof.
  intros L I. pose proof (fs_remove_spec S t pos id w) as H. destruct (fs_remove S t pos id w) as [ok w1]; cbn in *.
  destruct H as (Htx & _ & _ & Hn & Ho & H).
  unfold winv. rewrite Htx. destruct (w_fs w1) as [files1 next1 open1]; cbn in *. subst.
  assert (D : inv n0 files0 (mkfs (drop_file id (fs_files (w_fs w))) (fs_next (w_fs w)) (fs_open (w_fs w))) (w_tx w)).
  { eapply inv_files; [exact I | apply filter_low_drop; assumption | | lia].
    intros f If. apply in_drop_file in If. exists f; tauto. }
  assert (E : inv n0 files0 (mkfs (fs_files (w_fs w)) (fs_next (w_fs w)) (fs_open (w_fs w))) (w_tx w)).
  { eapply inv_files; [exact I | reflexivity | intros f If; exists f; auto | lia]. }
  destruct H as [(_ & _ & ->)|(_ & _ & [-> | ->])]; assumption.
Qed.

Lemma body_read_inv n0 files0 S w : winv n0 files0 w -> winv n0 files0 (snd (body_read S w)).
Proof.
  intro I. pose proof (body_read_spec S w) as H. destruct (body_read S w) as [ok w1]; cbn in *.
  destruct H as ((Hfs & Htx & _) & _). eapply winv_same; eassumption.
Qed.

Lemma owned_set_buf_same b t : bb_writer b = bb_writer (t_buf t) -> owned (set_buf b t) = owned t.
Proof. unfold owned; cbn. intros ->. reflexivity. Qed.

Lemma winv_set_buf n0 files0 b w : bb_writer b = bb_writer (wbuf w) -> winv n0 files0 w -> winv n0 files0 (w_set_buf b w).
Proof.
  intros E I. unfold winv, w_set_buf; cbn. eapply inv_tx; [exact I | |];
    rewrite (owned_set_buf_same b (w_tx w) E); [auto|]. destruct I as (_ & _ & _ & D). exact D.
Qed.

Lemma bb_write_inv n0 files0 S c d w : winv n0 files0 w -> winv n0 files0 (snd (bb_write S c d w)).
Proof.
  intro I. unfold bb_write.
  destruct (length d =? 0); [assumption|].
  destruct (c_limit c <? bb_len (wbuf w) + length d); [assumption|].
  destruct (c_mem c <? bb_len (wbuf w) + length d).
  2:{ cbn [snd]. apply winv_set_buf; [reflexivity | assumption]. }
  destruct (bb_writer (wbuf w)) as [id|] eqn:Ew.
  - apply fs_write_inv.
    + destruct I as (_ & _ & _ & D). apply D. unfold owned. unfold wbuf in Ew. rewrite Ew. apply in_or_app; right; left; reflexivity.
    + apply winv_set_buf; [cbn; auto | assumption].
  - pose proof (fs_create_spec S TSpill DTmp w) as Hc.
    destruct (fs_create S TSpill DTmp w) as [r w1]; cbn in Hc.
    destruct Hc as (Htx1 & _ & _ & [(Hr & Hfs & _)|(Hr & _ & Hfs)]); subst r.
    + cbn. eapply winv_same; eassumption.
    + set (id := fs_next (w_fs w)) in *.
      assert (L : n0 <= id) by (destruct I as (_ & _ & C & _); exact C).
      set (w2 := w_set_buf (mkbb (bb_mem (wbuf w)) (bb_len (wbuf w)) (Some id)) w1).
      assert (I2 : winv n0 files0 w2).
      { unfold winv, w2, w_set_buf; cbn. rewrite Hfs, Htx1. apply (inv_create n0 files0 (w_fs w) (w_tx w)); [exact I | | |].
        - unfold owned; cbn. unfold wbuf in Ew. rewrite Ew. intros x Hx. rewrite app_nil_r in Hx. apply in_or_app; auto.
        - unfold owned; cbn. apply in_or_app; right; left; reflexivity.
        - unfold owned; cbn. intros x Hx. apply in_app_or in Hx. destruct Hx as [Hx|[Hx|[]]]; [|subst; exact L].
          destruct I as (_ & _ & _ & D). apply D. unfold owned. apply in_or_app; auto. }
      pose proof (fs_write_inv n0 files0 S TSpill id (bb_mem (wbuf w)) w2 L I2) as I3.
      pose proof (fs_write_spec S TSpill id (bb_mem (wbuf w)) w2) as Hs.
      destruct (fs_write S TSpill id (bb_mem (wbuf w)) w2) as [ok w3]; cbn in I3, Hs.
      destruct ok; [|exact I3].
      apply fs_write_inv; [exact L|]. apply winv_set_buf; [|exact I3].
      destruct Hs as (Htx3 & _). unfold wbuf. rewrite Htx3. reflexivity.
Qed.

Lemma owned_add_tmpname id t : forall x, In x (owned (add_tmpname id t)) <-> In x (owned t) \/ x = id.
Proof.
  intro x. unfold owned; cbn. rewrite !in_app_iff. cbn. intuition.
Qed.

Lemma winv_tx_same_owned n0 files0 t' w : owned t' = owned (w_tx w) -> winv n0 files0 w -> winv n0 files0 (set_tx t' w).
Proof.
  intros E I. unfold winv; cbn. eapply inv_tx; [exact I | |]; rewrite E; [auto|]. destruct I as (_ & _ & _ & D); exact D.
Qed.

Lemma mp_loop_inv n0 files0 V S parts : v_mp_fixed V = true -> forall ok opened w,
  winv n0 files0 w -> winv n0 files0 (snd (mp_loop V S parts ok opened w)).
Proof.
  intro HV. induction parts as [|p rest IH]; intros ok opened w I; cbn [mp_loop].
  - pose proof (body_read_inv n0 files0 S w I) as I0. destruct (body_read S w) as [rd w0]; cbn in I0.
    destruct rd; cbn; [destruct ok; cbn|]; try exact I0; apply winv_tx_same_owned; auto.
  - pose proof (body_read_inv n0 files0 S w I) as I0. destruct (body_read S w) as [rd w0]; cbn in I0.
    destruct rd; cbn [negb].
    2:{ cbn. apply winv_tx_same_owned; auto. }
    destruct p as [|size]; [apply IH; exact I0|].
    pose proof (fs_create_spec S TUpload DUpload w0) as Hc.
    destruct (fs_create S TUpload DUpload w0) as [r w1]; cbn in Hc.
    destruct Hc as (Htx1 & _ & _ & [(Hr & Hfs & _)|(Hr & _ & Hfs)]); subst r.
    + cbn. apply winv_tx_same_owned; [reflexivity|]. eapply winv_same; eassumption.
    + rewrite HV. set (id := fs_next (w_fs w0)) in *.
      assert (L : n0 <= id) by (destruct I0 as (_ & _ & C & _); exact C).
      set (w2 := set_tx (add_tmpname id (w_tx w1)) w1).
      assert (I2 : winv n0 files0 w2).
      { unfold winv, w2; cbn. rewrite Hfs, Htx1. apply (inv_create n0 files0 (w_fs w0) (w_tx w0)); [exact I0 | | |].
        - intros x Hx. apply owned_add_tmpname. auto.
        - apply owned_add_tmpname. auto.
        - intros x Hx. apply owned_add_tmpname in Hx. destruct Hx as [Hx| ->]; [|exact L].
          destruct I0 as (_ & _ & _ & D). apply D; exact Hx. }
      pose proof (fs_write_inv n0 files0 S TUpload id (repeat 0%N size) w2 L I2) as I3.
      destruct (fs_write S TUpload id (repeat 0%N size) w2) as [okw w3]; cbn in I3.
      destruct okw; cbn [negb].
      * apply IH. apply winv_tx_same_owned; [reflexivity | exact I3].
      * cbn. apply winv_tx_same_owned; [reflexivity | exact I3].
Qed.

Lemma close_all_inv n0 files0 S ids : forall w, winv n0 files0 w -> winv n0 files0 (close_all S ids w).
Proof.
  induction ids as [|id r IH]; intros w I; cbn [close_all]; [assumption|].
  apply IH. apply fs_close_inv. assumption.
Qed.

Section InvWithParser.
Variable parse : bytes -> presult.
Variables (n0 : nat) (files0 : list file).

Lemma run_processor_inv V S c w : v_mp_fixed V = true ->
  winv n0 files0 w -> winv n0 files0 (snd (run_processor parse V S c w)).
Proof.
  intros HV I. unfold run_processor. destruct (c_proc c).
  - exact I.
  - apply body_read_inv; exact I.
  - pose proof (body_read_inv n0 files0 S w I) as I0. destruct (body_read S w) as [rd w0]; cbn in *.
    destruct rd; exact I0.
  - pose proof (mp_loop_inv n0 files0 V S (pr_parts (parse (stored_body w))) HV (pr_ok (parse (stored_body w))) [] w I) as Im.
    destruct (mp_loop V S (pr_parts (parse (stored_body w))) (pr_ok (parse (stored_body w))) [] w) as [[okm opened] w1].
    cbn in *. apply close_all_inv. exact Im.
Qed.

Lemma eval2_inv c w : winv n0 files0 w -> winv n0 files0 (fst (eval2 c w)).
Proof. intro I. unfold eval2; cbn [fst]. apply winv_tx_same_owned; [reflexivity | exact I]. Qed.

Lemma add_log_inv m w : winv n0 files0 w -> winv n0 files0 (add_log m w).
Proof. intro I; exact I. Qed.

Lemma process_body_inv V S c w : v_mp_fixed V = true ->
  winv n0 files0 w -> winv n0 files0 (fst (process_body parse V S c w)).
Proof.
  intros HV I. unfold process_body.
  destruct (t_intr (w_tx w)); [exact I|].
  destruct (negb (t_phase (w_tx w) =? 1)). { destruct (t_phase (w_tx w) =? 2); exact I. }
  destruct (bb_len (t_buf (w_tx w)) =? 0); [apply eval2_inv; exact I|].
  assert (G : forall okw1, run_processor parse V S c w = okw1 ->
     winv n0 files0 (fst (if fst okw1 then eval2 c (snd okw1)
                    else eval2 c (set_tx (set_rberr (w_tx (snd okw1))) (add_log LgProc (snd okw1)))))).
  { intros [ok w1] E. pose proof (run_processor_inv V S c w HV I) as I1. rewrite E in I1. cbn [fst snd] in *.
    destruct ok; apply eval2_inv; [exact I1|]. apply winv_tx_same_owned; [reflexivity | exact I1]. }
  destruct (c_proc c) eqn:Ep; try (apply eval2_inv; exact I);
    specialize (G _ eq_refl); destruct (run_processor parse V S c w) as [ok w1]; exact G.
Qed.

Lemma write_body_inv V S c d w : v_mp_fixed V = true ->
  winv n0 files0 w -> winv n0 files0 (fst (write_body parse V S c d w)).
Proof.
  intros HV I. unfold write_body.
  destruct (c_limit c =? bb_len (t_buf (w_tx w))); [exact I|].
  set (over := c_limit c <=? bb_len (t_buf (w_tx w)) + length d).
  set (w1 := if over then set_tx (set_inbound (w_tx w)) w else w).
  assert (I1 : winv n0 files0 w1) by (subst w1; destruct over; [apply winv_tx_same_owned; [reflexivity|]|]; exact I).
  destruct (over && c_reject c). { cbn [fst]. apply winv_tx_same_owned; [reflexivity | exact I1]. }
  pose proof (bb_write_inv n0 files0 S c (firstn (if over then c_limit c - bb_len (t_buf (w_tx w)) else length d) d) w1 I1) as I2.
  destruct (bb_write S c (firstn (if over then c_limit c - bb_len (t_buf (w_tx w)) else length d) d) w1) as [ok w2].
  cbn in I2. destruct ok; cbn [negb]; [|exact I2].
  destruct over; [|exact I2].
  pose proof (process_body_inv V S c (add_log LgPartial w2) HV I2) as I3.
  destruct (process_body parse V S c (add_log LgPartial w2)) as [w3 r3]. exact I3.
Qed.

Lemma process_headers_inv c w : winv n0 files0 w -> winv n0 files0 (fst (process_headers c w)).
Proof.
  intro I. unfold process_headers.
  destruct (1 <=? t_phase (w_tx w)); [exact I|]. destruct (t_intr (w_tx w)); [exact I|].
  cbn [fst]. apply winv_tx_same_owned; [reflexivity | exact I].
Qed.

Lemma do_op_inv S k t off len w : winv n0 files0 w -> winv n0 files0 (snd (do_op S k t off len w)).
Proof.
  intro I. pose proof (do_op_spec S k t off len w) as H. destruct (do_op S k t off len w) as [r w1]; cbn in *.
  destruct H as (_ & (Hfs & Htx & _) & _). eapply winv_same; eassumption.
Qed.

Lemma process_logging_inv V S c w : winv n0 files0 w -> winv n0 files0 (fst (process_logging V S c w)).
Proof.
  intro I. unfold process_logging.
  set (w00 := set_tx (set_phase 5 (w_tx w)) w).
  assert (I00 : winv n0 files0 w00) by (apply winv_tx_same_owned; [reflexivity | exact I]).
  assert (IA : winv n0 files0 (audit_body_read V S c w00)).
  { destruct (audit_body_read_spec V S c w00) as (_ & Htx & Hfs & _). eapply winv_same; eassumption. }
  assert (AR : forall r w1, winv n0 files0 w1 -> winv n0 files0 (audit_result V r w1)).
  { intros r w1 I1. unfold audit_result. destruct r; [destruct (v_audit_fixed V)|]; exact I1. }
  destruct (c_audit c).
  - exact I00.
  - pose proof (do_op_inv S OWrite TAuditSerial 0 0 _ IA) as I1.
    destruct (do_op S OWrite TAuditSerial 0 0 (audit_body_read V S c w00)) as [r w1]. cbn in *. apply AR; exact I1.
  - pose proof (do_op_inv S OCreate TAuditRec 0 0 _ IA) as I1.
    destruct (do_op S OCreate TAuditRec 0 0 (audit_body_read V S c w00)) as [r1 w1]. cbn in I1.
    destruct r1; [exact I1|].
    pose proof (do_op_inv S OWrite TAuditRec 0 0 _ I1) as I2.
    destruct (do_op S OWrite TAuditRec 0 0 w1) as [r2 w2]. cbn in I2.
    destruct r2; [exact I2|].
    pose proof (do_op_inv S OWrite TAuditIdx 0 0 _ I2) as I3.
    destruct (do_op S OWrite TAuditIdx 0 0 w2) as [r3 w3]. cbn in *. apply AR; exact I3.
Qed.

Lemma step_inv V S c k w : v_mp_fixed V = true ->
  winv n0 files0 w -> winv n0 files0 (fst (step parse V S c k w)).
Proof.
  intros HV I. unfold step.
  assert (I0 : winv n0 files0 (begin_call w)) by exact I.
  destruct k.
  - pose proof (process_headers_inv c _ I0) as H. destruct (process_headers c (begin_call w)); exact H.
  - pose proof (write_body_inv V S c data _ HV I0) as H. destruct (write_body parse V S c data (begin_call w)); exact H.
  - pose proof (process_body_inv V S c _ HV I0) as H. destruct (process_body parse V S c (begin_call w)); exact H.
  - pose proof (process_logging_inv V S c _ I0) as H. destruct (process_logging V S c (begin_call w)); exact H.
Qed.

Lemma run_inv V S c l : v_mp_fixed V = true -> forall w,
  winv n0 files0 w -> winv n0 files0 (run parse V S c l w).
Proof.
  intro HV. induction l as [|k r IH]; intros w I; cbn [run]; [exact I|].
  apply IH. apply step_inv; assumption.
Qed.

End InvWithParser.

(* ---- Close removes every owned file when no Remove fails ---- *)

Lemma remove_from_files S ids : no_remove_fault S -> forall pos w,
  let w' := snd (remove_from S pos ids w) in
  w_tx w' = w_tx w /\
  (forall f, In f (fs_files (w_fs w')) <-> In f (fs_files (w_fs w)) /\ ~ In (f_id f) ids) /\
  (forall n0, (forall x, In x ids -> n0 <= x) ->
     filter (low n0) (fs_files (w_fs w')) = filter (low n0) (fs_files (w_fs w))).
Proof.
  intro NR. induction ids as [|id r IH]; intros pos w; cbn [remove_from].
  - cbn. repeat split; auto; tauto.
  - destruct (fs_remove_nofault S TUpload pos id w NR) as [_ Hf].
    pose proof (fs_remove_spec S TUpload pos id w) as Hs.
    destruct (fs_remove S TUpload pos id w) as [ok1 w1]; cbn in Hf, Hs. destruct Hs as (Htx1 & _).
    specialize (IH (Datatypes.S pos) w1). destruct (remove_from S (Datatypes.S pos) r w1) as [ok2 w2]. cbn in *.
    destruct IH as (I1 & I2 & I3). split; [congruence|]. split.
    + intro f. rewrite I2, Hf, in_drop_file. intuition.
    + intros n0 Hn. rewrite I3, Hf by (intros x Hx; apply Hn; auto).
      apply filter_low_drop. apply Hn; auto.
Qed.

Lemma remove_all_files S ids : no_remove_fault S -> forall w,
  let w' := snd (remove_all S ids w) in
  w_tx w' = w_tx w /\
  (forall f, In f (fs_files (w_fs w')) <-> In f (fs_files (w_fs w)) /\ ~ In (f_id f) ids) /\
  (forall n0, (forall x, In x ids -> n0 <= x) ->
     filter (low n0) (fs_files (w_fs w')) = filter (low n0) (fs_files (w_fs w))).
Proof. intros NR w. apply remove_from_files. exact NR. Qed.

Lemma bb_reset_files V S w : v_reset_fixed V = true -> no_remove_fault S ->
  fs_files (w_fs (snd (bb_reset V S w))) =
  match bb_writer (wbuf w) with Some id => drop_file id (fs_files (w_fs w)) | None => fs_files (w_fs w) end.
Proof.
  intros HV NR. unfold bb_reset. rewrite HV. destruct (bb_writer (wbuf w)) as [id|]; [|reflexivity].
  pose proof (fs_close_spec S TSpill id (w_set_buf bb_init w)) as Hc.
  destruct (fs_close S TSpill id (w_set_buf bb_init w)) as [okc w1]. cbn in Hc.
  destruct Hc as (_ & _ & _ & Hf1 & _).
  destruct (fs_remove_nofault S TSpill 0 id w1 NR) as [_ Hf].
  destruct (fs_remove S TSpill 0 id w1) as [okr w2]. cbn in *. rewrite Hf, Hf1. reflexivity.
Qed.

Lemma filter_all {A} (P : A -> bool) l : (forall x, In x l -> P x = true) -> filter P l = l.
Proof.
  induction l as [|a r IH]; intro H; [reflexivity|]. cbn. rewrite (H a (or_introl eq_refl)).
  f_equal. apply IH. intros x Hx. apply H; right; exact Hx.
Qed.

Lemma close_restores_files n0 files0 V S c w :
  v_reset_fixed V = true -> no_remove_fault S -> keep_files c (w_tx w) = false ->
  winv n0 files0 w ->
  fs_files (w_fs (snd (tx_close V S c w))) = files0.
Proof.
  intros HV NR HK (A & B & C & D). unfold tx_close. rewrite HK.
  destruct (remove_all_files S (t_tmpnames (w_tx w)) NR w) as (R1 & R2 & R3).
  destruct (remove_all S (t_tmpnames (w_tx w)) w) as [ok1 w1]. cbn in R1, R2, R3.
  set (w2 := set_tx (reset_vars (w_tx w1)) w1).
  pose proof (bb_reset_files V S w2 HV NR) as Hb.
  destruct (bb_reset V S w2) as [ok2 w3]. cbn [snd] in Hb |- *. rewrite Hb. clear Hb.
  assert (Hw : bb_writer (wbuf w2) = bb_writer (t_buf (w_tx w))) by (subst w2; unfold wbuf; cbn; rewrite R1; reflexivity).
  assert (Hfs2 : fs_files (w_fs w2) = fs_files (w_fs w1)) by reflexivity.
  rewrite Hw, Hfs2.
  assert (Dt : forall x, In x (t_tmpnames (w_tx w)) -> n0 <= x).
  { intros x Hx. apply D. unfold owned. apply in_or_app; auto. }
  set (final := match bb_writer (t_buf (w_tx w)) with Some id => drop_file id (fs_files (w_fs w1)) | None => fs_files (w_fs w1) end).
  assert (F1 : filter (low n0) final = files0).
  { subst final. rewrite <- A, <- (R3 n0 Dt). destruct (bb_writer (t_buf (w_tx w))) as [id|] eqn:Ew; [|reflexivity].
    apply filter_low_drop. apply D. unfold owned. rewrite Ew. apply in_or_app; right; left; reflexivity. }
  assert (F2 : forall f, In f final -> low n0 f = true).
  { intros f Hf. unfold low. apply Nat.ltb_lt. destruct (Nat.lt_ge_cases (f_id f) n0) as [|G]; [assumption|exfalso].
    assert (I1 : In f (fs_files (w_fs w1)) /\ (forall id, bb_writer (t_buf (w_tx w)) = Some id -> f_id f <> id)).
    { subst final. destruct (bb_writer (t_buf (w_tx w))) as [id|].
      - apply in_drop_file in Hf. destruct Hf. split; [assumption|]. intros id' E; inversion E; subst; assumption.
      - split; [assumption | discriminate]. }
    destruct I1 as [I1 I2]. apply R2 in I1. destruct I1 as [I1 I3].
    specialize (B f I1 G). unfold owned in B. apply in_app_or in B. destruct B as [B|B]; [contradiction|].
    destruct (bb_writer (t_buf (w_tx w))) as [id|]; [|contradiction].
    destruct B as [B|[]]. apply (I2 id eq_refl). symmetry; exact B. }
  rewrite <- F1. symmetry. apply filter_all. exact F2.
Qed.

Definition fs_wf (fs : fsys) : Prop := forall f, In f (fs_files fs) -> f_id f < fs_next fs.

Lemma init_winv fs : fs_wf fs -> winv (fs_next fs) (fs_files fs) (init_world fs).
Proof.
  intro W. unfold winv, inv; cbn. repeat split.
  - apply filter_all. intros f Hf. unfold low. apply Nat.ltb_lt. apply W; exact Hf.
  - intros f Hf L. specialize (W f Hf). lia.
  - lia.
  - intros x [].
Qed.

(* C20_no_temp_left *)
Lemma no_temp_left parse V S c l fs :
  v_reset_fixed V = true -> v_mp_fixed V = true ->
  fs_wf fs -> no_remove_fault S ->
  keep_files c (w_tx (run parse V S c l (init_world fs))) = false ->
  fs_files (w_fs (snd (finish parse V S c l (init_world fs)))) = fs_files fs.
Proof.
  intros H1 H2 W NR HK. unfold finish.
  apply (close_restores_files (fs_next fs) (fs_files fs)); auto.
  change (winv (fs_next fs) (fs_files fs) (run parse V S c l (init_world fs))).
  apply run_inv; [assumption | apply init_winv; assumption].
Qed.

(* ------------------------------------------------------------------------------------------ *)
(* the pre-repair behaviours, refuted on the model (documentation of F29a, F29b, F45, F46)     *)
(* ------------------------------------------------------------------------------------------ *)

Definition only_fail (k : opkind) (t : target) : sched :=
  fun o => if opkind_eqb (oi_kind o) k && target_eqb (oi_tgt o) t then Some 0 else None.

Definition cfg_plain (p : proc) (a : auditmode) : cfg := mkcfg 100 1 true KOff p a true 0 true.

Lemma only_fail_no_remove k t : k <> ORemove -> no_remove_fault (only_fail k t).
Proof.
  intros N o H. unfold only_fail. rewrite H. destruct k; try reflexivity. contradiction.
Qed.

(* F29a: before 1eb7c59 a failing Close of the spill file left the file behind *)
Lemma no_temp_left_refuted_pre_reset_fix :
  exists S c l, no_remove_fault S /\
    keep_files c (w_tx (run (fun _ => mkpr [] true) (mkvar false true true true) S c l (init_world (mkfs [] 0 [])))) = false /\
    fs_files (w_fs (snd (finish (fun _ => mkpr [] true) (mkvar false true true true) S c l (init_world (mkfs [] 0 []))))) <> [].
Proof.
  exists (only_fail OClose TSpill), (cfg_plain PNone AOff), [CHeaders; CWrite [1%N; 2%N; 3%N]].
  split; [apply only_fail_no_remove; discriminate|]. split; [reflexivity|]. vm_compute. discriminate.
Qed.

(* F29b: before cd4fc4d a failing copy of an upload left the (unregistered) file behind *)
Lemma no_temp_left_refuted_pre_multipart_fix :
  exists S c l parse, no_remove_fault S /\
    keep_files c (w_tx (run parse (mkvar true false true true) S c l (init_world (mkfs [] 0 [])))) = false /\
    fs_files (w_fs (snd (finish parse (mkvar true false true true) S c l (init_world (mkfs [] 0 []))))) <> [].
Proof.
  exists (only_fail OWrite TUpload), (cfg_plain PMultipart AOff), [CHeaders; CWrite [1%N]; CProcess], (fun _ => mkpr [PtFile 5] true).
  split; [apply only_fail_no_remove; discriminate|]. split; [reflexivity|]. vm_compute. discriminate.
Qed.

(* the same schedules leave nothing behind in the current tree *)
Example no_temp_left_witnesses_now :
  fs_files (w_fs (snd (finish (fun _ => mkpr [] true) cur (only_fail OClose TSpill) (cfg_plain PNone AOff)
                         [CHeaders; CWrite [1%N; 2%N; 3%N]] (init_world (mkfs [] 0 []))))) = [] /\
  fs_files (w_fs (snd (finish (fun _ => mkpr [PtFile 5] true) cur (only_fail OWrite TUpload) (cfg_plain PMultipart AOff)
                         [CHeaders; CWrite [1%N]; CProcess] (init_world (mkfs [] 0 []))))) = [].
Proof. split; vm_compute; reflexivity. Qed.

Definition silent (r : ret) (w' : world) : Prop :=
  r_err r = false /\ w_log w' = [] /\ t_rberr (w_tx w') = false.

(* F45: before 96c5a47 a failed write of the serial audit log surfaced nowhere *)
Lemma failure_surfaces_refuted_pre_audit_fix :
  exists S c w, let x := step (fun _ => mkpr [] true) (mkvar true true false true) S c CLogging w in
    (exists o, In o (w_faults (fst x)) /\ oi_tgt o = TAuditSerial) /\ silent (snd x) (fst x).
Proof.
  exists (only_fail OWrite TAuditSerial), (cfg_plain PNone ASerial), (init_world (mkfs [] 0 [])).
  vm_compute. split; [eexists; split; [left; reflexivity | reflexivity] | repeat split].
Qed.

(* F46: before 802b513 a failed read-back of the spilled body for audit part C surfaced nowhere *)
Lemma failure_surfaces_refuted_pre_auditc_fix :
  exists S c l, let w := run (fun _ => mkpr [] true) (mkvar true true true false) S c l (init_world (mkfs [] 0 [])) in
    let x := step (fun _ => mkpr [] true) (mkvar true true true false) S c CLogging w in
    (exists o, In o (w_faults (fst x)) /\ oi_tgt o = TSpillAudit) /\ silent (snd x) (fst x).
Proof.
  exists (only_fail ORead TSpillAudit), (cfg_plain PNone ASerial), [CHeaders; CWrite [1%N; 2%N; 3%N]; CProcess].
  vm_compute. split; [eexists; split; [left; reflexivity | reflexivity] | repeat split].
Qed.

(* still true of the current tree: the deferred Close of an upload file drops its error *)
Lemma upload_close_fault_is_swallowed :
  exists S c l parse, let w := run parse cur S c l (init_world (mkfs [] 0 [])) in
    let x := step parse cur S c CProcess w in
    (exists o, In o (w_faults (fst x)) /\ oi_tgt o = TUpload /\ oi_kind o = OClose) /\ silent (snd x) (fst x).
Proof.
  exists (only_fail OClose TUpload), (cfg_plain PMultipart AOff), [CHeaders; CWrite [1%N]], (fun _ => mkpr [PtFile 5] true).
  vm_compute. split; [eexists; split; [left; reflexivity | split; reflexivity] | repeat split].
Qed.

(* ------------------------------------------------------------------------------------------ *)
(* no handle stays open                                                                        *)
(* ------------------------------------------------------------------------------------------ *)

Definition wl (t : txs) : list nat := match bb_writer (t_buf t) with Some id => [id] | None => [] end.

(* the open handles are [pre] (uploads being copied) then [base] *)
Definition hbase (pre base : list nat) (fs : fsys) : Prop :=
  fs_open fs = pre ++ base /\ NoDup (fs_open fs) /\ (forall x, In x (fs_open fs) -> x < fs_next fs).

Definition whinv (open0 : list nat) (w : world) : Prop := hbase [] (wl (w_tx w) ++ open0) (w_fs w).

Lemma drop_nat_head id l : ~ In id l -> drop_nat id (id :: l) = l.
Proof.
  intro N. unfold drop_nat. cbn. rewrite Nat.eqb_refl. cbn. apply filter_all.
  intros x Hx. apply negb_true_iff, Nat.eqb_neq. intro E; subst; contradiction.
Qed.

Lemma hbase_same pre base fs fs' : fs_open fs' = fs_open fs -> fs_next fs' = fs_next fs ->
  hbase pre base fs -> hbase pre base fs'.
Proof. unfold hbase. intros -> ->. auto. Qed.

Lemma hbase_create pre base fs files' : hbase pre base fs ->
  hbase (fs_next fs :: pre) base (mkfs files' (Datatypes.S (fs_next fs)) (fs_next fs :: fs_open fs)).
Proof.
  intros (A & B & C). unfold hbase; cbn. rewrite A. split; [reflexivity|]. split.
  - constructor; [|rewrite <- A; exact B]. rewrite <- A. intro H. specialize (C _ H). lia.
  - intros x [<-|H]; [lia|]. rewrite <- A in H. specialize (C _ H). lia.
Qed.

Lemma hbase_close id pre base fs files' : hbase (id :: pre) base fs ->
  hbase pre base (mkfs files' (fs_next fs) (drop_nat id (fs_open fs))).
Proof.
  intros (A & B & C). unfold hbase; cbn [fs_open fs_next]. rewrite A in B, C |- *.
  change ((id :: pre) ++ base) with (id :: pre ++ base) in *.
  inversion B; subst. rewrite drop_nat_head by assumption. repeat split; auto.
  intros x Hx. apply C. right; exact Hx.
Qed.

Lemma fs_write_h S t id d w pre base : hbase pre base (w_fs w) -> hbase pre base (w_fs (snd (fs_write S t id d w))).
Proof.
  intro H. pose proof (fs_write_spec S t id d w) as Hs. destruct (fs_write S t id d w) as [ok w1]; cbn in *.
  destruct Hs as (_ & _ & _ & Hn & Ho & _). eapply hbase_same; eassumption.
Qed.

Lemma fs_remove_h S t pos id w pre base : hbase pre base (w_fs w) -> hbase pre base (w_fs (snd (fs_remove S t pos id w))).
Proof.
  intro H. pose proof (fs_remove_spec S t pos id w) as Hs. destruct (fs_remove S t pos id w) as [ok w1]; cbn in *.
  destruct Hs as (_ & _ & _ & Hn & Ho & _). eapply hbase_same; eassumption.
Qed.

Lemma body_read_h S w pre base : hbase pre base (w_fs w) -> hbase pre base (w_fs (snd (body_read S w))).
Proof.
  intro H. pose proof (body_read_spec S w) as Hs. destruct (body_read S w) as [ok w1]; cbn in *.
  destruct Hs as ((Hfs & _) & _). rewrite Hfs. exact H.
Qed.

Lemma fs_close_h S t id w pre base : hbase (id :: pre) base (w_fs w) -> hbase pre base (w_fs (snd (fs_close S t id w))).
Proof.
  intro H. pose proof (fs_close_spec S t id w) as Hs. destruct (fs_close S t id w) as [ok w1]; cbn in *.
  destruct Hs as (_ & _ & _ & Hf & Hn & Ho & _).
  pose proof (hbase_close id pre base (w_fs w) (fs_files (w_fs w1)) H) as K.
  destruct (w_fs w1) as [f1 n1 o1]; cbn in *. subst. exact K.
Qed.

Lemma close_all_h S ids : forall w base, hbase ids base (w_fs w) -> hbase [] base (w_fs (close_all S ids w)).
Proof.
  induction ids as [|id r IH]; intros w base H; cbn [close_all]; [exact H|].
  apply IH. apply fs_close_h. exact H.
Qed.

Lemma mp_loop_h V S parts : forall ok opened w base,
  hbase opened base (w_fs w) ->
  hbase (snd (fst (mp_loop V S parts ok opened w))) base (w_fs (snd (mp_loop V S parts ok opened w))).
Proof.
  induction parts as [|p rest IH]; intros ok opened w base H; cbn [mp_loop].
  - pose proof (body_read_h S w opened base H) as H0. destruct (body_read S w) as [rd w0]; cbn in H0.
    destruct rd; cbn; [destruct ok; cbn|]; exact H0.
  - pose proof (body_read_h S w opened base H) as H0. destruct (body_read S w) as [rd w0]; cbn in H0.
    destruct rd; cbn [negb]; [|cbn; exact H0].
    destruct p as [|size]; [apply IH; exact H0|].
    pose proof (fs_create_spec S TUpload DUpload w0) as Hc.
    destruct (fs_create S TUpload DUpload w0) as [r w1]; cbn in Hc.
    destruct Hc as (_ & _ & _ & [(Hr & Hfs & _)|(Hr & _ & Hfs)]); subst r.
    + cbn. rewrite Hfs. exact H0.
    + set (id := fs_next (w_fs w0)) in *.
      set (w2 := if v_mp_fixed V then _ else w1).
      assert (H2 : hbase (id :: opened) base (w_fs w2)).
      { assert (E : w_fs w2 = w_fs w1) by (subst w2; destruct (v_mp_fixed V); reflexivity).
        rewrite E, Hfs. apply hbase_create. exact H0. }
      pose proof (fs_write_h S TUpload id (repeat 0%N size) w2 _ _ H2) as H3.
      destruct (fs_write S TUpload id (repeat 0%N size) w2) as [okw w3]; cbn in H3.
      destruct okw; cbn [negb]; [|cbn; exact H3].
      apply IH. destruct (v_mp_fixed V); exact H3.
Qed.

Lemma whinv_same open0 w w' : w_fs w' = w_fs w -> wl (w_tx w') = wl (w_tx w) -> whinv open0 w -> whinv open0 w'.
Proof. unfold whinv. intros -> ->. auto. Qed.

Lemma bb_write_h S c d w open0 : whinv open0 w -> whinv open0 (snd (bb_write S c d w)).
Proof.
  intro I. unfold bb_write.
  destruct (length d =? 0); [assumption|].
  destruct (c_limit c <? bb_len (wbuf w) + length d); [assumption|].
  destruct (c_mem c <? bb_len (wbuf w) + length d).
  2:{ cbn [snd]. eapply whinv_same; [| |exact I]; reflexivity. }
  destruct (bb_writer (wbuf w)) as [id|] eqn:Ew.
  - set (w1 := w_set_buf _ w).
    assert (I1 : whinv open0 w1) by (eapply whinv_same; [| |exact I]; [reflexivity | unfold wl, wbuf in *; cbn; rewrite Ew; reflexivity]).
    pose proof (fs_write_h S TSpill id d w1 _ _ I1) as H.
    pose proof (fs_write_spec S TSpill id d w1) as Hs.
    destruct (fs_write S TSpill id d w1) as [ok w2]; cbn in *. destruct Hs as (Htx & _).
    unfold whinv. rewrite Htx. exact H.
  - pose proof (fs_create_spec S TSpill DTmp w) as Hc.
    destruct (fs_create S TSpill DTmp w) as [r w1]; cbn in Hc.
    destruct Hc as (Htx1 & _ & _ & [(Hr & Hfs & _)|(Hr & _ & Hfs)]); subst r.
    + cbn. eapply whinv_same; [exact Hfs | rewrite Htx1; reflexivity | exact I].
    + set (id := fs_next (w_fs w)) in *.
      set (w2 := w_set_buf (mkbb (bb_mem (wbuf w)) (bb_len (wbuf w)) (Some id)) w1).
      assert (I2 : whinv open0 w2).
      { unfold whinv, w2, w_set_buf, wl; cbn. rewrite Hfs.
        unfold whinv, wl, wbuf in I, Ew. rewrite Ew in I. cbn in I.
        apply (hbase_create [] open0 (w_fs w)). exact I. }
      pose proof (fs_write_h S TSpill id (bb_mem (wbuf w)) w2 _ _ I2) as H3.
      pose proof (fs_write_spec S TSpill id (bb_mem (wbuf w)) w2) as Hs.
      destruct (fs_write S TSpill id (bb_mem (wbuf w)) w2) as [ok w3]; cbn in H3, Hs.
      destruct Hs as (Htx3 & _).
      assert (I3 : whinv open0 w3) by (unfold whinv; rewrite Htx3; exact H3).
      destruct ok; [|exact I3].
      set (w4 := w_set_buf _ w3).
      assert (I4 : whinv open0 w4).
      { eapply whinv_same; [| |exact I3]; [reflexivity|]. unfold w4, wl; cbn. rewrite Htx3. reflexivity. }
      pose proof (fs_write_h S TSpill id d w4 _ _ I4) as H5.
      pose proof (fs_write_spec S TSpill id d w4) as Hs5.
      destruct (fs_write S TSpill id d w4) as [ok5 w5]; cbn in *. destruct Hs5 as (Htx5 & _).
      unfold whinv. rewrite Htx5. exact H5.
Qed.

Section HandlesWithParser.
Variable parse : bytes -> presult.

Lemma run_processor_buf V S c w : t_buf (w_tx (snd (run_processor parse V S c w))) = t_buf (w_tx w).
Proof.
  assert (BR : forall w, w_tx (snd (body_read S w)) = w_tx w).
  { intro w0. pose proof (body_read_spec S w0) as H. destruct (body_read S w0); cbn in *. apply H. }
  unfold run_processor. destruct (c_proc c).
  - reflexivity.
  - rewrite BR; reflexivity.
  - pose proof (BR w) as H. destruct (body_read S w) as [rd w0]; cbn in *. destruct rd; cbn; rewrite H; reflexivity.
  - generalize (pr_ok (parse (stored_body w))) as ok. generalize (@nil nat) as opened.
    generalize (pr_parts (parse (stored_body w))) as parts. intro parts. revert w.
    assert (C : forall o w1, w_tx (close_all S o w1) = w_tx w1)
      by (intros o w1; apply (close_all_spec (fun _ => True) S o (fun _ _ => I) w1)).
    induction parts as [|p rest IH]; intros w opened ok; cbn [mp_loop].
    + pose proof (BR w) as H. destruct (body_read S w) as [rd w0]; cbn in H.
      destruct rd; cbn; [destruct ok; cbn|]; rewrite C; cbn; rewrite H; reflexivity.
    + pose proof (BR w) as H. destruct (body_read S w) as [rd w0]; cbn in H.
      destruct rd; cbn [negb].
      2:{ cbn. rewrite C. cbn. rewrite H. reflexivity. }
      destruct p as [|size].
      * specialize (IH w0 opened ok). rewrite H in IH. exact IH.
      * pose proof (fs_create_spec S TUpload DUpload w0) as Hc.
        destruct (fs_create S TUpload DUpload w0) as [r w1]; cbn in Hc.
        destruct Hc as (Htx1 & _ & _ & [(Hr & _)|(Hr & _)]); subst r.
        { cbn. rewrite C. cbn. rewrite Htx1, H. reflexivity. }
        set (w2 := if v_mp_fixed V then _ else w1).
        assert (Hw2 : t_buf (w_tx w2) = t_buf (w_tx w))
          by (subst w2; destruct (v_mp_fixed V); cbn; rewrite Htx1, H; reflexivity).
        pose proof (fs_write_spec S TUpload (fs_next (w_fs w0)) (repeat 0%N size) w2) as Hs.
        destruct (fs_write S TUpload (fs_next (w_fs w0)) (repeat 0%N size) w2) as [okw w3]; cbn in Hs.
        destruct Hs as (Htx3 & _).
        destruct okw; cbn [negb].
        2:{ cbn. rewrite C. cbn. rewrite Htx3. exact Hw2. }
        match goal with |- context [mp_loop V S rest ok ?o ?ww] => specialize (IH ww o ok); set (w5 := ww) in * end.
        assert (Hw5 : t_buf (w_tx w5) = t_buf (w_tx w)).
        { subst w5. destruct (v_mp_fixed V); cbn; rewrite Htx3; exact Hw2. }
        congruence.
Qed.

Lemma run_processor_h V S c w open0 : whinv open0 w -> whinv open0 (snd (run_processor parse V S c w)).
Proof.
  intro I. unfold whinv, wl. rewrite run_processor_buf. fold (wl (w_tx w)).
  unfold run_processor. destruct (c_proc c).
  - exact I.
  - apply body_read_h; exact I.
  - pose proof (body_read_h S w _ _ I) as H. destruct (body_read S w) as [rd w0]; cbn in *. destruct rd; exact H.
  - pose proof (mp_loop_h V S (pr_parts (parse (stored_body w))) (pr_ok (parse (stored_body w))) [] w _ I) as Hm.
    destruct (mp_loop V S (pr_parts (parse (stored_body w))) (pr_ok (parse (stored_body w))) [] w) as [[okm opened] w1].
    cbn in *. apply close_all_h. exact Hm.
Qed.

Lemma process_body_h V S c w open0 : whinv open0 w -> whinv open0 (fst (process_body parse V S c w)).
Proof.
  intro I. unfold process_body.
  destruct (t_intr (w_tx w)); [exact I|].
  destruct (negb (t_phase (w_tx w) =? 1)). { destruct (t_phase (w_tx w) =? 2); exact I. }
  destruct (bb_len (t_buf (w_tx w)) =? 0); [exact I|].
  assert (G : forall okw1, run_processor parse V S c w = okw1 ->
     whinv open0 (fst (if fst okw1 then eval2 c (snd okw1)
                    else eval2 c (set_tx (set_rberr (w_tx (snd okw1))) (add_log LgProc (snd okw1)))))).
  { intros [ok w1] E. pose proof (run_processor_h V S c w open0 I) as I1. rewrite E in I1. cbn [fst snd] in *.
    destruct ok; exact I1. }
  destruct (c_proc c) eqn:Ep; try exact I;
    specialize (G _ eq_refl); destruct (run_processor parse V S c w) as [ok w1]; exact G.
Qed.

Lemma write_body_h V S c d w open0 : whinv open0 w -> whinv open0 (fst (write_body parse V S c d w)).
Proof.
  intro I. unfold write_body.
  destruct (c_limit c =? bb_len (t_buf (w_tx w))); [exact I|].
  set (over := c_limit c <=? bb_len (t_buf (w_tx w)) + length d).
  set (w1 := if over then set_tx (set_inbound (w_tx w)) w else w).
  assert (I1 : whinv open0 w1) by (subst w1; destruct over; exact I).
  destruct (over && c_reject c); [exact I1|].
  pose proof (bb_write_h S c (firstn (if over then c_limit c - bb_len (t_buf (w_tx w)) else length d) d) w1 open0 I1) as I2.
  destruct (bb_write S c (firstn (if over then c_limit c - bb_len (t_buf (w_tx w)) else length d) d) w1) as [ok w2].
  cbn in I2. destruct ok; cbn [negb]; [|exact I2].
  destruct over; [|exact I2].
  pose proof (process_body_h V S c (add_log LgPartial w2) open0 I2) as I3.
  destruct (process_body parse V S c (add_log LgPartial w2)) as [w3 r3]. exact I3.
Qed.

Lemma do_op_h S k t off len w open0 : whinv open0 w -> whinv open0 (snd (do_op S k t off len w)).
Proof.
  intro I. pose proof (do_op_spec S k t off len w) as H. destruct (do_op S k t off len w) as [r w1]; cbn in *.
  destruct H as (_ & (Hfs & Htx & _) & _). eapply whinv_same; [exact Hfs | rewrite Htx; reflexivity | exact I].
Qed.

Lemma process_logging_h V S c w open0 : whinv open0 w -> whinv open0 (fst (process_logging V S c w)).
Proof.
  intro I. unfold process_logging.
  set (w00 := set_tx (set_phase 5 (w_tx w)) w).
  assert (I00 : whinv open0 w00) by exact I.
  assert (IA : whinv open0 (audit_body_read V S c w00)).
  { destruct (audit_body_read_spec V S c w00) as (_ & Htx & Hfs & _).
    eapply whinv_same; [exact Hfs | rewrite Htx; reflexivity | exact I00]. }
  assert (AR : forall r w1, whinv open0 w1 -> whinv open0 (audit_result V r w1)).
  { intros r w1 I1. unfold audit_result. destruct r; [destruct (v_audit_fixed V)|]; exact I1. }
  destruct (c_audit c).
  - exact I00.
  - pose proof (do_op_h S OWrite TAuditSerial 0 0 _ open0 IA) as I1.
    destruct (do_op S OWrite TAuditSerial 0 0 (audit_body_read V S c w00)) as [r w1]. cbn in *. apply AR; exact I1.
  - pose proof (do_op_h S OCreate TAuditRec 0 0 _ open0 IA) as I1.
    destruct (do_op S OCreate TAuditRec 0 0 (audit_body_read V S c w00)) as [r1 w1]. cbn in I1.
    destruct r1; [exact I1|].
    pose proof (do_op_h S OWrite TAuditRec 0 0 _ open0 I1) as I2.
    destruct (do_op S OWrite TAuditRec 0 0 w1) as [r2 w2]. cbn in I2.
    destruct r2; [exact I2|].
    pose proof (do_op_h S OWrite TAuditIdx 0 0 _ open0 I2) as I3.
    destruct (do_op S OWrite TAuditIdx 0 0 w2) as [r3 w3]. cbn in *. apply AR; exact I3.
Qed.

Lemma step_h V S c k w open0 : whinv open0 w -> whinv open0 (fst (step parse V S c k w)).
Proof.
  intro I. unfold step.
  assert (I0 : whinv open0 (begin_call w)) by exact I.
  destruct k.
  - assert (H : whinv open0 (fst (process_headers c (begin_call w)))).
    { unfold process_headers. destruct (1 <=? t_phase (w_tx (begin_call w))); [exact I0|].
      destruct (t_intr (w_tx (begin_call w))); exact I0. }
    destruct (process_headers c (begin_call w)); exact H.
  - pose proof (write_body_h V S c data _ open0 I0) as H. destruct (write_body parse V S c data (begin_call w)); exact H.
  - pose proof (process_body_h V S c _ open0 I0) as H. destruct (process_body parse V S c (begin_call w)); exact H.
  - pose proof (process_logging_h V S c _ open0 I0) as H. destruct (process_logging V S c (begin_call w)); exact H.
Qed.

Lemma run_h V S c l open0 : forall w, whinv open0 w -> whinv open0 (run parse V S c l w).
Proof.
  induction l as [|k r IH]; intros w I; cbn [run]; [exact I|]. apply IH. apply step_h. exact I.
Qed.

End HandlesWithParser.

Lemma remove_from_h S ids : forall pos w pre base, hbase pre base (w_fs w) -> hbase pre base (w_fs (snd (remove_from S pos ids w))).
Proof.
  induction ids as [|id r IH]; intros pos w pre base H; cbn [remove_from]; [exact H|].
  pose proof (fs_remove_h S TUpload pos id w pre base H) as H1.
  destruct (fs_remove S TUpload pos id w) as [ok1 w1]. cbn in H1.
  specialize (IH (Datatypes.S pos) w1 pre base H1). destruct (remove_from S (Datatypes.S pos) r w1) as [ok2 w2]. exact IH.
Qed.

Lemma remove_all_h S ids w pre base : hbase pre base (w_fs w) -> hbase pre base (w_fs (snd (remove_all S ids w))).
Proof. apply remove_from_h. Qed.

Lemma bb_reset_h V S w open0 : whinv open0 w -> hbase [] open0 (w_fs (snd (bb_reset V S w))).
Proof.
  intro I. unfold bb_reset. unfold whinv, wl in I. fold (wbuf w) in I.
  destruct (bb_writer (wbuf w)) as [id|]; [|exact I].
  set (w0 := w_set_buf bb_init w).
  assert (I0 : hbase [id] open0 (w_fs w0)) by exact I.
  pose proof (fs_close_h S TSpill id w0 [] open0 I0) as H1.
  destruct (fs_close S TSpill id w0) as [okc w1]. cbn in H1.
  pose proof (fs_remove_h S TSpill 0 id w1 [] open0 H1) as H2.
  destruct (v_reset_fixed V).
  - destruct (fs_remove S TSpill 0 id w1) as [okr w2]. exact H2.
  - destruct okc; [|exact H1]. destruct (fs_remove S TSpill 0 id w1) as [okr w2]. exact H2.
Qed.

Definition fs_hwf (fs : fsys) : Prop := NoDup (fs_open fs) /\ (forall x, In x (fs_open fs) -> x < fs_next fs).

(* C20_no_handle_left: for every schedule, every code variant, every abandonment point *)
Lemma no_handle_left parse V S c l fs : fs_hwf fs ->
  fs_open (w_fs (snd (finish parse V S c l (init_world fs)))) = fs_open fs.
Proof.
  intros (N & B). unfold finish.
  assert (I : whinv (fs_open fs) (run parse V S c l (init_world fs))).
  { apply run_h. unfold whinv, hbase; cbn. auto. }
  set (w := run parse V S c l (init_world fs)) in *.
  unfold tx_close.
  assert (I1 : hbase [] (wl (w_tx w) ++ fs_open fs)
                 (w_fs (snd (if keep_files c (w_tx (begin_call w)) then (true, begin_call w)
                             else remove_all S (t_tmpnames (w_tx (begin_call w))) (begin_call w))))).
  { destruct (keep_files c (w_tx (begin_call w))); [exact I|]. apply remove_all_h. exact I. }
  assert (T1 : w_tx (snd (if keep_files c (w_tx (begin_call w)) then (true, begin_call w)
                             else remove_all S (t_tmpnames (w_tx (begin_call w))) (begin_call w))) = w_tx w).
  { destruct (keep_files c (w_tx (begin_call w))); [reflexivity|]. rewrite remove_all_tx. reflexivity. }
  destruct (if keep_files c (w_tx (begin_call w)) then (true, begin_call w)
            else remove_all S (t_tmpnames (w_tx (begin_call w))) (begin_call w)) as [ok1 w1]. cbn [snd] in *.
  set (w2 := set_tx (reset_vars (w_tx w1)) w1).
  assert (I2 : whinv (fs_open fs) w2).
  { unfold whinv, w2, wl; cbn. rewrite T1. exact I1. }
  pose proof (bb_reset_h V S w2 (fs_open fs) I2) as H.
  destruct (bb_reset V S w2) as [ok2 w3]. cbn in *. destruct H as (E & _). exact E.
Qed.

(* ------------------------------------------------------------------------------------------ *)
(* statements over whole call lists                                                            *)
(* ------------------------------------------------------------------------------------------ *)

Lemma trace_in parse V S c l : forall w x, In x (trace parse V S c l w) ->
  exists k w0, x = step parse V S c k w0.
Proof.
  induction l as [|k r IH]; intros w x H; cbn [trace] in H; [contradiction|].
  destruct (step parse V S c k w) as [w1 y] eqn:E. destruct H as [H|H].
  - exists k, w. congruence.
  - eapply IH; exact H.
Qed.

(* every failed operation of every call of every call list surfaces, the deferred Close of an
   upload file excepted *)
Lemma failure_surfaces parse V S c l w x : In x (trace parse V S c l w) ->
  forall o, In o (w_faults (fst x)) -> swallowed V o = false ->
  r_err (snd x) = true \/ In LgProc (w_log (fst x)) \/ In LgAudit (w_log (fst x)) \/ In LgAuditBody (w_log (fst x)).
Proof.
  intros H o Ho Hs. destruct (trace_in parse V S c l w x H) as (k & w0 & ->).
  destruct (step_surfaces parse V S c k w0) as [Hx|Hx]; [exact Hx|].
  rewrite Forall_forall in Hx. specialize (Hx o Ho). unfold sw in Hx. congruence.
Qed.

Lemma finish_close_error_iff parse V S c l w :
  fst (finish parse V S c l w) = true <-> w_faults (snd (finish parse V S c l w)) = [].
Proof. unfold finish. apply close_error_iff. reflexivity. Qed.

Lemma step_process_inspected parse V S c w :
  t_phase (w_tx w) = 1 -> t_intr (w_tx w) = false ->
  let w' := fst (step parse V S c CProcess w) in
  t_phase (w_tx w') = 2 /\ t_p2 (w_tx w') = Datatypes.S (t_p2 (w_tx w)) /\
  (t_rberr (w_tx w') = true -> t_e (w_tx w') = true) /\
  (In LgProc (w_log w') -> t_rberr (w_tx w') = true /\ t_rbperr (w_tx w') = true) /\
  (t_rberr (w_tx w') = false ->
     Forall nb (w_faults w') /\
     (0 < bb_len (wbuf w) -> c_proc c = PJson \/ c_proc c = PMultipart -> pr_ok (parse (stored_body w)) = true)).
Proof.
  intros Hp Hi. unfold step.
  pose proof (process_body_inspected parse V S c (begin_call w) Hp Hi) as H.
  pose proof (process_body_logged parse V S c (begin_call w) (fun x => x)) as HL.
  destruct (process_body parse V S c (begin_call w)) as [w1 r]. cbn [fst snd] in *.
  destruct H as (A & B & C & D). repeat split; auto; try (apply HL; assumption).
  - apply D; [assumption | constructor].
  - apply D; assumption.
Qed.

Lemma swallowed_class o : swallowed cur o = true <-> (oi_tgt o = TUpload /\ oi_kind o = OClose).
Proof.
  unfold swallowed, cur; cbn. rewrite !orb_false_r, andb_true_iff.
  destruct (oi_tgt o), (oi_kind o); cbn; split; intros [A B]; try discriminate; auto.
Qed.

Lemma no_temp_left_guard_nontrivial :
  no_remove_fault (only_fail OClose TSpill) /\ no_remove_fault (only_fail OWrite TUpload) /\
  fs_files (w_fs (snd (finish (fun _ => mkpr [] true) cur (only_fail OClose TSpill) (cfg_plain PNone AOff)
                         [CHeaders; CWrite [1%N; 2%N; 3%N]] (init_world (mkfs [] 0 []))))) = [] /\
  fs_files (w_fs (snd (finish (fun _ => mkpr [PtFile 5] true) cur (only_fail OWrite TUpload) (cfg_plain PMultipart AOff)
                         [CHeaders; CWrite [1%N]; CProcess] (init_world (mkfs [] 0 []))))) = [].
Proof.
  split; [apply only_fail_no_remove; discriminate|]. split; [apply only_fail_no_remove; discriminate|].
  exact no_temp_left_witnesses_now.
Qed.

(* ------------------------------------------------------------------------------------------ *)
(* no temporary file left, per file and for EVERY schedule: whatever is left behind by Close is   *)
(* a file whose own Remove is among the failures Close recorded                                   *)
(* ------------------------------------------------------------------------------------------ *)

Definition own_remove_failed (ids : list nat) (wr : option nat) (F : list opinfo) (x : nat) : Prop :=
  exists o, In o F /\ oi_kind o = ORemove /\
    ((oi_tgt o = TUpload /\ nth_error ids (oi_off o) = Some x) \/ (oi_tgt o = TSpill /\ wr = Some x)).

Lemma remove_from_left S ids : forall pos w,
  let w' := snd (remove_from S pos ids w) in
  (forall f, In f (fs_files (w_fs w')) ->
     In f (fs_files (w_fs w)) /\
     forall i, nth_error ids i = Some (f_id f) ->
       exists o, In o (w_faults w') /\ oi_kind o = ORemove /\ oi_tgt o = TUpload /\ oi_off o = pos + i) /\
  (forall n0, (forall x, In x ids -> n0 <= x) ->
     filter (low n0) (fs_files (w_fs w')) = filter (low n0) (fs_files (w_fs w))) /\
  incl (w_faults w) (w_faults w').
Proof.
  induction ids as [|id r IH]; intros pos w; cbn [remove_from].
  - cbn. repeat split; auto.
    + intros i Hi. destruct i; discriminate.
    + apply incl_refl.
  - pose proof (fs_remove_spec S TUpload pos id w) as Hs.
    destruct (fs_remove S TUpload pos id w) as [ok1 w1]; cbn in Hs.
    destruct Hs as (_ & _ & _ & _ & _ & Hs).
    specialize (IH (Datatypes.S pos) w1). destruct (remove_from S (Datatypes.S pos) r w1) as [ok2 w2]. cbn in *.
    destruct IH as (I1 & I2 & I3).
    assert (Hfiles : fs_files (w_fs w1) = fs_files (w_fs w) \/ fs_files (w_fs w1) = drop_file id (fs_files (w_fs w)))
      by (destruct Hs as [(_ & _ & E)|(_ & _ & [E|E])]; auto).
    assert (Hincl : incl (w_faults w) (w_faults w1)).
    { destruct Hs as [(_ & E & _)|(_ & E & _)]; rewrite E; [apply incl_refl | apply incl_tl, incl_refl]. }
    split; [|split].
    + intros f Hf. destruct (I1 f Hf) as [Hf1 Hn]. split.
      * destruct Hfiles as [E|E]; rewrite E in Hf1; [assumption | apply in_drop_file in Hf1; tauto].
      * intros [|i] Hi; cbn in Hi.
        -- inversion Hi; subst id.
           destruct Hs as [(_ & _ & E)|(_ & Ef & [E|E])].
           ++ rewrite E in Hf1. apply in_drop_file in Hf1. tauto.
           ++ exists (mkop (w_ctr w) (w_call w) ORemove TUpload pos 0). split.
              ** apply I3. rewrite Ef. left; reflexivity.
              ** cbn. repeat split; auto; lia.
           ++ rewrite E in Hf1. apply in_drop_file in Hf1. tauto.
        -- destruct (Hn i Hi) as (o & Ho & K1 & K2 & K3). exists o. repeat split; auto; lia.
    + intros n0 Hn. rewrite I2 by (intros x Hx; apply Hn; auto).
      destruct Hfiles as [E|E]; rewrite E; [reflexivity|]. apply filter_low_drop. apply Hn; auto.
    + eapply incl_tran; eassumption.
Qed.

Lemma bb_reset_left V S w : v_reset_fixed V = true ->
  let w' := snd (bb_reset V S w) in
  (forall f, In f (fs_files (w_fs w')) ->
     In f (fs_files (w_fs w)) /\
     (bb_writer (wbuf w) = Some (f_id f) ->
        exists o, In o (w_faults w') /\ oi_kind o = ORemove /\ oi_tgt o = TSpill)) /\
  (forall n0, (forall id, bb_writer (wbuf w) = Some id -> n0 <= id) ->
     filter (low n0) (fs_files (w_fs w')) = filter (low n0) (fs_files (w_fs w))) /\
  incl (w_faults w) (w_faults w').
Proof.
  intro HV. unfold bb_reset. rewrite HV. destruct (bb_writer (wbuf w)) as [id|].
  2:{ cbn. repeat split; auto; [discriminate | apply incl_refl]. }
  pose proof (fs_close_spec S TSpill id (w_set_buf bb_init w)) as Hc.
  destruct (fs_close S TSpill id (w_set_buf bb_init w)) as [okc w1]. cbn in Hc.
  destruct Hc as (_ & _ & _ & Hf1 & _ & _ & Hfl1).
  assert (Hincl1 : incl (w_faults w) (w_faults w1)).
  { destruct Hfl1 as [(_ & E)|(_ & E)]; rewrite E; [apply incl_refl | apply incl_tl, incl_refl]. }
  pose proof (fs_remove_spec S TSpill 0 id w1) as Hs.
  destruct (fs_remove S TSpill 0 id w1) as [okr w2]. cbn in Hs. cbn [snd].
  destruct Hs as (_ & _ & _ & _ & _ & Hs). cbn in Hf1.
  assert (Hfiles : fs_files (w_fs w2) = fs_files (w_fs w) \/ fs_files (w_fs w2) = drop_file id (fs_files (w_fs w)))
    by (rewrite <- Hf1; destruct Hs as [(_ & _ & E)|(_ & _ & [E|E])]; auto).
  split; [|split].
  - intros f Hf. split.
    + destruct Hfiles as [E|E]; rewrite E in Hf; [assumption | apply in_drop_file in Hf; tauto].
    + intro Ew. inversion Ew; subst id.
      destruct Hs as [(_ & _ & E)|(_ & Ef & [E|E])].
      * rewrite E, Hf1 in Hf. apply in_drop_file in Hf. tauto.
      * exists (mkop (w_ctr w1) (w_call w1) ORemove TSpill 0 0). rewrite Ef. cbn. auto.
      * rewrite E, Hf1 in Hf. apply in_drop_file in Hf. tauto.
  - intros n0 Hn. destruct Hfiles as [E|E]; rewrite E; [reflexivity|]. apply filter_low_drop. apply Hn; reflexivity.
  - eapply incl_tran; [exact Hincl1|]. destruct Hs as [(_ & E & _)|(_ & E & _)]; rewrite E; [apply incl_refl | apply incl_tl, incl_refl].
Qed.

Lemma close_left_per_file n0 files0 V S c w :
  v_reset_fixed V = true -> keep_files c (w_tx w) = false -> winv n0 files0 w ->
  let w' := snd (tx_close V S c w) in
  filter (low n0) (fs_files (w_fs w')) = files0 /\
  forall f, In f (fs_files (w_fs w')) -> n0 <= f_id f ->
    own_remove_failed (t_tmpnames (w_tx w)) (bb_writer (t_buf (w_tx w))) (w_faults w') (f_id f).
Proof.
  intros HV HK (A & B & C & D). unfold tx_close. rewrite HK. unfold remove_all.
  pose proof (remove_from_left S (t_tmpnames (w_tx w)) 0 w) as R.
  pose proof (remove_from_tx S (t_tmpnames (w_tx w)) 0 w) as RT.
  destruct (remove_from S 0 (t_tmpnames (w_tx w)) w) as [ok1 w1]. cbn in R, RT. destruct R as (R1 & R2 & R3).
  set (w2 := set_tx (reset_vars (w_tx w1)) w1).
  pose proof (bb_reset_left V S w2 HV) as Hb.
  destruct (bb_reset V S w2) as [ok2 w3]. cbn [snd] in Hb |- *. destruct Hb as (B1 & B2 & B3).
  assert (Hw : bb_writer (wbuf w2) = bb_writer (t_buf (w_tx w))) by (subst w2; unfold wbuf; cbn; rewrite RT; reflexivity).
  assert (Dt : forall x, In x (t_tmpnames (w_tx w)) -> n0 <= x).
  { intros x Hx. apply D. unfold owned. apply in_or_app; auto. }
  assert (Dw : forall id, bb_writer (wbuf w2) = Some id -> n0 <= id).
  { intros id E. rewrite Hw in E. apply D. unfold owned. rewrite E. apply in_or_app; right; left; reflexivity. }
  split.
  - rewrite (B2 n0 Dw). change (fs_files (w_fs w2)) with (fs_files (w_fs w1)). rewrite (R2 n0 Dt). exact A.
  - intros f Hf L. destruct (B1 f Hf) as [Hf2 Hsp]. change (fs_files (w_fs w2)) with (fs_files (w_fs w1)) in Hf2.
    destruct (R1 f Hf2) as [Hf0 Hup].
    specialize (B f Hf0 L). unfold owned in B. apply in_app_or in B. destruct B as [B|B].
    + apply In_nth_error in B. destruct B as (i & Hi). destruct (Hup i Hi) as (o & Ho & K1 & K2 & K3).
      exists o. split; [apply B3; exact Ho|]. split; [assumption|]. left. split; [assumption|]. rewrite K3. exact Hi.
    + destruct (bb_writer (t_buf (w_tx w))) as [id|] eqn:Ew; [|contradiction]. destruct B as [B|[]]. subst id.
      rewrite Hw in Hsp. destruct (Hsp eq_refl) as (o & Ho & K1 & K2).
      exists o. split; [assumption|]. split; [assumption|]. right. auto.
Qed.

Lemma no_temp_left_per_file parse V S c l fs :
  v_reset_fixed V = true -> v_mp_fixed V = true -> fs_wf fs ->
  let w := run parse V S c l (init_world fs) in
  keep_files c (w_tx w) = false ->
  let w' := snd (finish parse V S c l (init_world fs)) in
  filter (low (fs_next fs)) (fs_files (w_fs w')) = fs_files fs /\
  forall f, In f (fs_files (w_fs w')) -> fs_next fs <= f_id f ->
    own_remove_failed (t_tmpnames (w_tx w)) (bb_writer (t_buf (w_tx w))) (w_faults w') (f_id f).
Proof.
  intros H1 H2 W w HK. unfold finish.
  apply (close_left_per_file (fs_next fs) (fs_files fs) V S c (begin_call w)); auto.
  change (winv (fs_next fs) (fs_files fs) w). apply run_inv; [assumption | apply init_winv; assumption].
Qed.

(* the seeded defect C20-d (the removal loop returns at the first failure) on the model: a second
   upload stays behind although its own Remove never failed *)
Fixpoint remove_from_stop (S : sched) (pos : nat) (ids : list nat) (w : world) : bool * world :=
  match ids with
  | [] => (true, w)
  | id :: r =>
    let '(ok1, w1) := fs_remove S TUpload pos id w in
    if ok1 then remove_from_stop S (Datatypes.S pos) r w1 else (false, w1)
  end.

Lemma stop_at_first_failure_leaves_files :
  exists S ids w, let w' := snd (remove_from_stop S 0 ids w) in
    exists f, In f (fs_files (w_fs w')) /\
      ~ own_remove_failed ids None (w_faults w') (f_id f) /\
      ~ In f (fs_files (w_fs (snd (remove_from S 0 ids w)))).
Proof.
  exists (fun o => if (oi_off o =? 0) && opkind_eqb (oi_kind o) ORemove then Some 1 else None), [0; 1],
    (init_world (mkfs [mkfile 0 DUpload []; mkfile 1 DUpload []] 2 [])).
  cbn. exists (mkfile 1 DUpload []). split; [auto|]. split.
  - intros (o & [Ho|[]] & _ & [[_ K]|[_ K]]); [subst o; cbn in K; discriminate | discriminate].
  - intros [].
Qed.

(* the seeded defect C20-e on the model: BodyBuffer.Write assigning the spill file to the buffer only
   AFTER the dump of the memory part (closing the handle when the dump fails) - the file created by
   CreateTemp is owned by nobody, Reset cannot remove it *)
Definition bb_write_late (S : sched) (c : cfg) (data : bytes) (w : world) : bool * world :=
  let b := wbuf w in
  match bb_writer b with
  | Some _ => bb_write S c data w
  | None =>
    if c_mem c <? bb_len b + length data then
      let '(r, w1) := fs_create S TSpill DTmp w in
      match r with
      | None => (false, w1)
      | Some id =>
        let '(ok, w2) := fs_write S TSpill id (bb_mem b) w1 in
        if ok then fs_write S TSpill id data (w_set_buf (mkbb [] (bb_len b + length data) (Some id)) w2)
        else (false, snd (fs_close S TSpill id w2))
      end
    else bb_write S c data w
  end.

Lemma late_writer_assignment_leaves_file :
  exists S c d1 d2,
    let w1 := snd (bb_write S c d1 (init_world (mkfs [] 0 []))) in
    (* as coded: the writer is assigned before the dump, Reset removes the file *)
    fs_files (w_fs (snd (bb_reset cur S (snd (bb_write S c d2 w1))))) = [] /\
    (* late assignment: the file stays although no Remove failed, and the call did report the error *)
    fst (bb_write_late S c d2 w1) = false /\
    let w' := snd (bb_reset cur S (snd (bb_write_late S c d2 w1))) in
    fs_files (w_fs w') <> [] /\ Forall (fun o => oi_kind o <> ORemove) (w_faults w').
Proof.
  exists (only_fail OWrite TSpill), (cfg_plain PNone AOff), [1%N], [2%N; 3%N].
  vm_compute. split; [reflexivity|]. split; [reflexivity|]. split; [discriminate|].
  repeat constructor; discriminate.
Qed.

(* ------------------------------------------------------------------------------------------ *)
(* a body over the limit always comes with INBOUND_DATA_ERROR                                  *)
(* ------------------------------------------------------------------------------------------ *)

Section LimitWithParser.
Variable parse : bytes -> presult.

Lemma run_processor_inbound V S c w : t_inbound (w_tx (snd (run_processor parse V S c w))) = t_inbound (w_tx w).
Proof.
  assert (BR : forall w, w_tx (snd (body_read S w)) = w_tx w).
  { intro w0. pose proof (body_read_spec S w0) as H. destruct (body_read S w0); cbn in *. apply H. }
  unfold run_processor. destruct (c_proc c).
  - reflexivity.
  - rewrite BR; reflexivity.
  - pose proof (BR w) as H. destruct (body_read S w) as [rd w0]; cbn in *. destruct rd; cbn; rewrite H; reflexivity.
  - generalize (pr_ok (parse (stored_body w))) as ok. generalize (@nil nat) as opened.
    generalize (pr_parts (parse (stored_body w))) as parts. intro parts. revert w.
    assert (C : forall o w1, w_tx (close_all S o w1) = w_tx w1)
      by (intros o w1; apply (close_all_spec (fun _ => True) S o (fun _ _ => I) w1)).
    induction parts as [|p rest IH]; intros w opened ok; cbn [mp_loop].
    + pose proof (BR w) as H. destruct (body_read S w) as [rd w0]; cbn in H.
      destruct rd; cbn; [destruct ok; cbn|]; rewrite C; cbn; rewrite H; reflexivity.
    + pose proof (BR w) as H. destruct (body_read S w) as [rd w0]; cbn in H.
      destruct rd; cbn [negb].
      2:{ cbn. rewrite C. cbn. rewrite H. reflexivity. }
      destruct p as [|size].
      * specialize (IH w0 opened ok). rewrite H in IH. exact IH.
      * pose proof (fs_create_spec S TUpload DUpload w0) as Hc.
        destruct (fs_create S TUpload DUpload w0) as [r w1]; cbn in Hc.
        destruct Hc as (Htx1 & _ & _ & [(Hr & _)|(Hr & _)]); subst r.
        { cbn. rewrite C. cbn. rewrite Htx1, H. reflexivity. }
        set (w2 := if v_mp_fixed V then _ else w1).
        assert (Hw2 : t_inbound (w_tx w2) = t_inbound (w_tx w))
          by (subst w2; destruct (v_mp_fixed V); cbn; rewrite Htx1, H; reflexivity).
        pose proof (fs_write_spec S TUpload (fs_next (w_fs w0)) (repeat 0%N size) w2) as Hs.
        destruct (fs_write S TUpload (fs_next (w_fs w0)) (repeat 0%N size) w2) as [okw w3]; cbn in Hs.
        destruct Hs as (Htx3 & _).
        destruct okw; cbn [negb].
        2:{ cbn. rewrite C. cbn. rewrite Htx3. exact Hw2. }
        match goal with |- context [mp_loop V S rest ok ?o ?ww] => specialize (IH ww o ok); set (w5 := ww) in * end.
        assert (Hw5 : t_inbound (w_tx w5) = t_inbound (w_tx w)).
        { subst w5. destruct (v_mp_fixed V); cbn; rewrite Htx3; exact Hw2. }
        congruence.
Qed.


Lemma bb_write_tx S c d w : exists b', w_tx (snd (bb_write S c d w)) = set_buf b' (w_tx w) /\
  (bb_len b' = bb_len (wbuf w) \/ bb_len b' = bb_len (wbuf w) + length d).
Proof.
  assert (SB : forall t, set_buf (t_buf t) t = t) by (intros []; reflexivity).
  unfold bb_write.
  destruct (length d =? 0). { exists (wbuf w). unfold wbuf. rewrite SB. auto. }
  destruct (c_limit c <? bb_len (wbuf w) + length d). { exists (wbuf w). unfold wbuf. rewrite SB. auto. }
  destruct (c_mem c <? bb_len (wbuf w) + length d).
  2:{ eexists. split; [reflexivity|]. cbn. auto. }
  destruct (bb_writer (wbuf w)) as [id|].
  - set (w1 := w_set_buf _ w).
    pose proof (fs_write_spec S TSpill id d w1) as Hs.
    destruct (fs_write S TSpill id d w1) as [ok w2]; cbn in Hs. destruct Hs as (Htx & _). cbn [snd].
    eexists. split; [rewrite Htx; reflexivity|]. cbn. auto.
  - pose proof (fs_create_spec S TSpill DTmp w) as Hc.
    destruct (fs_create S TSpill DTmp w) as [r w1]; cbn in Hc.
    destruct Hc as (Htx1 & _ & _ & [(Hr & _)|(Hr & _)]); subst r.
    + exists (wbuf w). cbn. rewrite Htx1. unfold wbuf. rewrite SB. auto.
    + set (w2 := w_set_buf _ w1).
      pose proof (fs_write_spec S TSpill (fs_next (w_fs w)) (bb_mem (wbuf w)) w2) as Hs.
      destruct (fs_write S TSpill (fs_next (w_fs w)) (bb_mem (wbuf w)) w2) as [ok w3]; cbn in Hs.
      destruct Hs as (Htx3 & _).
      destruct ok.
      * set (w4 := w_set_buf _ w3).
        pose proof (fs_write_spec S TSpill (fs_next (w_fs w)) d w4) as Hs5.
        destruct (fs_write S TSpill (fs_next (w_fs w)) d w4) as [ok5 w5]; cbn in Hs5. destruct Hs5 as (Htx5 & _).
        cbn [snd]. eexists. split; [rewrite Htx5; unfold w4, w_set_buf; cbn; rewrite Htx3; unfold w2, w_set_buf; cbn; rewrite Htx1; reflexivity|].
        cbn. auto.
      * cbn [snd]. eexists. split; [rewrite Htx3; unfold w2, w_set_buf; cbn; rewrite Htx1; reflexivity|]. cbn. auto.
Qed.

Lemma process_body_inbound V S c w :
  t_inbound (w_tx (fst (process_body parse V S c w))) = t_inbound (w_tx w) /\
  t_buf (w_tx (fst (process_body parse V S c w))) = t_buf (w_tx w).
Proof.
  unfold process_body.
  destruct (t_intr (w_tx w)); [auto|].
  destruct (negb (t_phase (w_tx w) =? 1)). { destruct (t_phase (w_tx w) =? 2); auto. }
  destruct (bb_len (t_buf (w_tx w)) =? 0); [auto|].
  assert (G : forall okw1, run_processor parse V S c w = okw1 ->
     let w' := fst (if fst okw1 then eval2 c (snd okw1)
                    else eval2 c (set_tx (set_rberr (w_tx (snd okw1))) (add_log LgProc (snd okw1)))) in
     t_inbound (w_tx w') = t_inbound (w_tx w) /\ t_buf (w_tx w') = t_buf (w_tx w)).
  { intros [ok w1] E. pose proof (run_processor_inbound V S c w) as H1. pose proof (run_processor_buf parse V S c w) as H2.
    rewrite E in H1, H2. cbn [fst snd] in *. destruct ok; cbn; auto. }
  destruct (c_proc c) eqn:Ep; try (cbn; auto; fail);
    specialize (G _ eq_refl); destruct (run_processor parse V S c w) as [ok w1]; exact G.
Qed.

(* INBOUND_DATA_ERROR is raised by every WriteRequestBody that reaches the limit, and the buffer
   never holds more than... exactly: it holds [limit] bytes only with the signal raised *)
Definition limit_inv (c : cfg) (w : world) : Prop :=
  bb_len (wbuf w) = c_limit c -> t_inbound (w_tx w) = true.

Lemma write_body_limit V S c d w :
  limit_inv c w ->
  let w' := fst (write_body parse V S c d w) in
  limit_inv c w' /\ (t_inbound (w_tx w) = true -> t_inbound (w_tx w') = true) /\
  (c_limit c <= bb_len (wbuf w) + length d -> t_inbound (w_tx w') = true).
Proof.
  intro I. unfold write_body.
  destruct (c_limit c =? bb_len (t_buf (w_tx w))) eqn:El.
  { apply Nat.eqb_eq in El. cbn [fst]. repeat split; auto; try (intros _; apply I; unfold wbuf; auto). }
  apply Nat.eqb_neq in El.
  set (over := c_limit c <=? bb_len (t_buf (w_tx w)) + length d).
  destruct over eqn:Eo; subst over.
  - cbn [andb].
    set (w1 := set_tx (set_inbound (w_tx w)) w).
    destruct (c_reject c).
    { cbn. unfold limit_inv. cbn. auto. }
    destruct (bb_write_tx S c (firstn (c_limit c - bb_len (t_buf (w_tx w))) d) w1) as (b' & Hb & _).
    destruct (bb_write S c (firstn (c_limit c - bb_len (t_buf (w_tx w))) d) w1) as [ok w2]. cbn [snd] in Hb.
    assert (H2 : t_inbound (w_tx w2) = true) by (rewrite Hb; reflexivity).
    destruct ok; cbn [negb].
    + pose proof (process_body_inbound V S c (add_log LgPartial w2)) as [P1 _].
      destruct (process_body parse V S c (add_log LgPartial w2)) as [w3 r3]. cbn in *.
      assert (H3 : t_inbound (w_tx w3) = true) by congruence. unfold limit_inv. auto.
    + cbn. unfold limit_inv. auto.
  - cbn [andb]. apply Nat.leb_gt in Eo.
    destruct (bb_write_tx S c (firstn (length d) d) w) as (b' & Hb & Hl).
    destruct (bb_write S c (firstn (length d) d) w) as [ok w2]. cbn [snd] in Hb.
    rewrite firstn_all in Hl. unfold wbuf in Hl.
    assert (HL : limit_inv c w2 /\ (t_inbound (w_tx w) = true -> t_inbound (w_tx w2) = true)).
    { unfold limit_inv, wbuf. rewrite Hb. cbn. split; [|auto]. intro E. exfalso. destruct Hl as [Hl|Hl]; rewrite Hl in E; [apply El; symmetry; exact E | rewrite E in Eo; exact (Nat.lt_irrefl _ Eo)]. }
    destruct ok; cbn [negb fst]; (split; [apply HL | split; [apply HL | intro HH; unfold wbuf in HH; lia]]).
Qed.

Lemma step_limit V S c k w : limit_inv c w ->
  limit_inv c (fst (step parse V S c k w)) /\
  (t_inbound (w_tx w) = true -> t_inbound (w_tx (fst (step parse V S c k w))) = true).
Proof.
  intro I. unfold step.
  assert (I0 : limit_inv c (begin_call w)) by exact I.
  destruct k.
  - unfold process_headers. destruct (1 <=? t_phase (w_tx (begin_call w))); [cbn; auto|].
    destruct (t_intr (w_tx (begin_call w))); cbn; auto.
  - destruct (write_body_limit V S c data (begin_call w) I0) as (A & B & _).
    destruct (write_body parse V S c data (begin_call w)) as [w1 r]. cbn in *. auto.
  - destruct (process_body_inbound V S c (begin_call w)) as [P1 P2].
    destruct (process_body parse V S c (begin_call w)) as [w1 r]. cbn in *.
    unfold limit_inv, wbuf in *. cbn. rewrite P1, P2. auto.
  - assert (H : w_tx (fst (process_logging V S c (begin_call w))) = set_phase 5 (w_tx w)).
    { unfold process_logging.
      set (w00 := set_tx (set_phase 5 (w_tx (begin_call w))) (begin_call w)).
      assert (A0 : w_tx (audit_body_read V S c w00) = set_phase 5 (w_tx w))
        by (destruct (audit_body_read_spec V S c w00) as (_ & Htx & _); rewrite Htx; reflexivity).
      assert (AR : forall r w1, w_tx (audit_result V r w1) = w_tx w1)
        by (intros r w1; unfold audit_result; destruct r; [destruct (v_audit_fixed V)|]; reflexivity).
      assert (DO : forall k t o l w1, w_tx (snd (do_op S k t o l w1)) = w_tx w1) by reflexivity.
      destruct (c_audit c).
      - reflexivity.
      - pose proof (DO OWrite TAuditSerial 0 0 (audit_body_read V S c w00)) as D1.
        destruct (do_op S OWrite TAuditSerial 0 0 (audit_body_read V S c w00)) as [r w1]. cbn in *. rewrite AR. congruence.
      - pose proof (DO OCreate TAuditRec 0 0 (audit_body_read V S c w00)) as D1.
        destruct (do_op S OCreate TAuditRec 0 0 (audit_body_read V S c w00)) as [r1 w1]. cbn in D1.
        destruct r1; [cbn; congruence|].
        pose proof (DO OWrite TAuditRec 0 0 w1) as D2. destruct (do_op S OWrite TAuditRec 0 0 w1) as [r2 w2]. cbn in D2.
        destruct r2; [cbn; congruence|].
        pose proof (DO OWrite TAuditIdx 0 0 w2) as D3. destruct (do_op S OWrite TAuditIdx 0 0 w2) as [r3 w3]. cbn in *.
        rewrite AR. congruence. }
    destruct (process_logging V S c (begin_call w)) as [w1 r]. cbn in *.
    unfold limit_inv, wbuf in *. cbn. rewrite H. cbn. auto.
Qed.

Lemma run_limit V S c l : forall w, limit_inv c w -> limit_inv c (run parse V S c l w).
Proof.
  induction l as [|k r IH]; intros w I; cbn [run]; [exact I|]. apply IH. apply step_limit. exact I.
Qed.

(* after ANY call list from a fresh transaction: a WriteRequestBody whose data reaches or exceeds
   the limit (so at least one byte may be dropped, or the buffer is exactly full) leaves
   INBOUND_DATA_ERROR = 1 - in particular when earlier chunks filled the buffer EXACTLY *)
Lemma over_limit_surfaces V S c l fs d : 0 < c_limit c ->
  let w := run parse V S c l (init_world fs) in
  c_limit c <= bb_len (wbuf w) + length d ->
  t_inbound (w_tx (fst (step parse V S c (CWrite d) w))) = true.
Proof.
  intros L w H.
  assert (I : limit_inv c w).
  { apply run_limit. unfold limit_inv; cbn. intro E. lia. }
  unfold step.
  destruct (write_body_limit V S c d (begin_call w) I) as (_ & _ & A).
  destruct (write_body parse V S c d (begin_call w)) as [w1 r]. cbn in *. apply A. exact H.
Qed.

End LimitWithParser.
