(* AuditProofs.v — lemmas and proofs about the model of Audit.v (property C19). *)
From Coq Require Import Permutation.
From Verif Require Import Base Audit.
Open Scope N_scope.

(* ------------------------------------------------------------------------------------------ *)
(* 1. the audit decision                                                                        *)
(* ------------------------------------------------------------------------------------------ *)

Lemma should_audit_table rel c t : should_audit rel c t = audit_table rel c t.
Proof.
  unfold should_audit, audit_table.
  destruct (t_ae t); try reflexivity.
  destruct (t_audit t), (c_pattern c), (rel (status_of t)); reflexivity.
Qed.

(* the sentence of the property, row by row *)
Lemma audit_table_rows rel c t :
  (t_ae t = AEOn -> audit_table rel c t = true)
  /\ (t_ae t = AEOff -> audit_table rel c t = false)
  /\ (t_ae t = AERelevant -> c_pattern c = true -> audit_table rel c t = rel (status_of t))
  /\ (t_ae t = AERelevant -> c_pattern c = false -> audit_table rel c t = t_audit t).
Proof.
  unfold audit_table; repeat split; intros H; rewrite H; try reflexivity; intros H2; rewrite H2; reflexivity.
Qed.

(* which status is consulted: the real interruption, else the would-be one, else the response status *)
Lemma status_of_cases t :
  (forall s, t_intr t = Some s -> status_of t = itoa s)
  /\ (forall s, t_intr t = None -> t_det t = Some s -> status_of t = itoa s)
  /\ (t_intr t = None -> t_det t = None -> status_of t = t_resp t).
Proof.
  unfold status_of; repeat split; intros.
  - rewrite H; reflexivity.
  - rewrite H, H0; reflexivity.
  - rewrite H, H0; reflexivity.
Qed.

Lemma records_of_tx rel c x :
  o_records (run_tx rel c x)
  = if audit_table rel c (run_phases c x) then [audit_record x (run_phases c x)] else [].
Proof. unfold run_tx; cbn [o_records]. rewrite should_audit_table. reflexivity. Qed.

Lemma one_record_per_tx rel c x :
  length (o_records (run_tx rel c x)) = if audit_table rel c (run_phases c x) then 1%nat else 0%nat.
Proof. rewrite records_of_tx. destruct (audit_table rel c (run_phases c x)); reflexivity. Qed.

(* a WAF that finishes the transactions xs one after the other: the ids in its audit log are exactly
   the transactions the table selects, in order, each once *)
Lemma log_of_txs rel c xs :
  map rc_id (flat_map (fun x => o_records (run_tx rel c x)) xs)
  = map x_id (filter (fun x => audit_table rel c (run_phases c x)) xs).
Proof.
  induction xs as [|x xs IH]; [reflexivity|].
  cbn [flat_map filter]. rewrite map_app, IH, records_of_tx.
  destruct (audit_table rel c (run_phases c x)) eqn:E; cbn [map app].
  - unfold audit_record. destruct (audit_msgs _ _). reflexivity.
  - reflexivity.
Qed.

(* ------------------------------------------------------------------------------------------ *)
(* 2. flags of the log-family actions                                                          *)
(* ------------------------------------------------------------------------------------------ *)

Lemma flags_of_app l a : flags_of (l ++ [a]) = apply_logact (flags_of l) a.
Proof. unfold flags_of. rewrite fold_left_app. reflexivity. Qed.

Lemma flags_last_wins l :
  flags_of (l ++ [LLog]) = (true, true)
  /\ flags_of (l ++ [LNolog]) = (false, false)
  /\ flags_of (l ++ [LAuditlog]) = (fst (flags_of l), true)
  /\ flags_of (l ++ [LNoauditlog]) = (fst (flags_of l), false).
Proof. repeat split; rewrite flags_of_app; reflexivity. Qed.

Lemma flags_documented :
  flags_of [LLog] = (true, true) /\ flags_of [LNolog] = (false, false)
  /\ flags_of [LNolog; LAuditlog] = (false, true) /\ flags_of [LLog; LNoauditlog] = (true, false)
  /\ flags_of [] = (false, false).
Proof. repeat split. Qed.

(* ------------------------------------------------------------------------------------------ *)
(* 3. parts algebra                                                                            *)
(* ------------------------------------------------------------------------------------------ *)

Lemma parse_parts_some s ps : parse_parts s = Some ps -> ps = s /\ wf_parts s = true.
Proof.
  unfold parse_parts, wf_parts. destruct s as [|a r]; [discriminate|].
  destruct (a =? au_A) eqn:Ea; cbn [negb]; [|discriminate].
  destruct (last (a :: r) 0 =? au_Z) eqn:Ez; cbn [negb]; [|discriminate].
  destruct (forallb au_is_mid (removelast r) && au_nodup (removelast r)) eqn:Em; [|discriminate].
  intros H; inversion H; subst. split; [reflexivity|].
  apply andb_true_iff in Em as [E1 E2]. rewrite E1, E2. reflexivity.
Qed.

Lemma parse_parts_wf s : wf_parts s = true -> parse_parts s = Some s.
Proof.
  unfold parse_parts, wf_parts. destruct s as [|a r]; [discriminate|].
  intros H. apply andb_true_iff in H as [H Hn]. apply andb_true_iff in H as [H Hm].
  apply andb_true_iff in H as [Ha Hz].
  rewrite Ha, Hz. cbn [negb]. rewrite Hm, Hn. reflexivity.
Qed.

Lemma wf_default_parts : wf_parts default_parts = true.
Proof. reflexivity. Qed.

(* shape of well-formed parts *)
Lemma wf_parts_shape ps :
  wf_parts ps = true ->
  exists mid, ps = au_A :: mid ++ [au_Z] /\ forallb au_is_mid mid = true /\ au_nodup mid = true.
Proof.
  unfold wf_parts. destruct ps as [|a r]; [discriminate|].
  intros H. apply andb_true_iff in H as [H Hn]. apply andb_true_iff in H as [H Hm].
  apply andb_true_iff in H as [Ha Hz].
  apply N.eqb_eq in Ha. subst a.
  destruct r as [|b0 r0].
  - cbn in Hz. discriminate.
  - destruct (@exists_last _ (b0 :: r0)) as [r [b E]]; [discriminate|]. rewrite E in *.
    exists r. rewrite removelast_last in Hm, Hn.
    assert (L : last (au_A :: r ++ [b]) 0 = b).
    { change (au_A :: r ++ [b]) with ((au_A :: r) ++ [b]). apply last_last. }
    rewrite L in Hz. apply N.eqb_eq in Hz. subst b. auto.
Qed.

Lemma shape_wf mid :
  forallb au_is_mid mid = true -> au_nodup mid = true -> wf_parts (au_A :: mid ++ [au_Z]) = true.
Proof.
  intros H1 H2. unfold wf_parts.
  change (au_A :: mid ++ [au_Z]) with ((au_A :: mid) ++ [au_Z]) at 1.
  rewrite last_last, removelast_last, H1, H2. reflexivity.
Qed.

Lemma nodup_filter f l : au_nodup l = true -> au_nodup (filter f l) = true.
Proof.
  induction l as [|x l IH]; [reflexivity|].
  cbn [au_nodup filter]. intros H. apply andb_true_iff in H as [H1 H2].
  destruct (f x); [|auto].
  cbn [au_nodup]. rewrite IH by assumption. rewrite andb_true_r.
  apply negb_true_iff in H1. apply negb_true_iff.
  destruct (au_mem x (filter f l)) eqn:E; [|reflexivity].
  unfold au_mem in *. apply existsb_exists in E as [y [Hy Ey]].
  apply filter_In in Hy as [Hy _].
  assert (existsb (N.eqb x) l = true) by (apply existsb_exists; eauto). congruence.
Qed.

Lemma mid_filter f l : forallb au_is_mid l = true -> forallb au_is_mid (filter f l) = true.
Proof.
  intros H. apply forallb_forall. intros x Hx. apply filter_In in Hx as [Hx _].
  rewrite forallb_forall in H. auto.
Qed.

(* the ctl path: whatever the base, an accepted ctl:auditLogParts leaves well-formed parts *)
Lemma ctl_parts_wf base m ps : ctl_parts base m = Some ps -> wf_parts ps = true.
Proof.
  unfold ctl_parts, apply_parts.
  destruct m as [|c rest]; [discriminate|].
  destruct (negb (c =? 43) && negb (c =? 45)) eqn:Eabs.
  - (* absolute value *)
    destruct (parse_parts (c :: rest)) as [q|] eqn:Ep; [|discriminate].
    apply parse_parts_some in Ep as [-> Hwf].
    destruct (wf_parts_shape _ Hwf) as [mid [Hs [Hm Hn]]].
    inversion Hs; subst. rewrite N.eqb_refl.
    change (au_A :: mid ++ [au_Z]) with ((au_A :: mid) ++ [au_Z]).
    rewrite last_last, N.eqb_refl. intros H; inversion H; subst. exact Hwf.
  - destruct (forallb au_is_mid rest) eqn:Er; [|discriminate].
    set (f := fun p : N => if c =? 43 then au_mem p base || au_mem p rest else au_mem p base && negb (au_mem p rest)).
    set (q := filter f au_ordered).
    assert (Hm : forallb au_is_mid q = true) by (apply mid_filter; reflexivity).
    assert (Hn : au_nodup q = true) by (apply nodup_filter; reflexivity).
    assert (HA : forall a q', q = a :: q' -> (a =? au_A) = false).
    { intros a q' E. assert (In a q) by (rewrite E; left; reflexivity).
      rewrite forallb_forall in Hm. specialize (Hm a H). unfold au_is_mid, au_A in *.
      apply andb_true_iff in Hm as [Hm _]. apply N.leb_le in Hm. apply N.eqb_neq. lia. }
    assert (HZ : forall d, q <> [] -> (last q d =? au_Z) = false).
    { intros d Hne. destruct (@exists_last _ q Hne) as [q' [a E]]. rewrite E in *.
      rewrite last_last. rewrite forallb_forall in Hm.
      assert (In a (q' ++ [a])) by (apply in_or_app; right; left; reflexivity).
      specialize (Hm a H). unfold au_is_mid, au_Z in *.
      apply andb_true_iff in Hm as [_ Hm]. apply N.leb_le in Hm. apply N.eqb_neq. lia. }
    destruct q as [|a q'] eqn:Eq.
    + cbn. intros H; inversion H; subst. reflexivity.
    + rewrite (HA a q' eq_refl).
      assert (L : (last (au_A :: a :: q') 0 =? au_Z) = false).
      { change (last (au_A :: a :: q') 0) with (last (a :: q') 0). apply HZ. discriminate. }
      rewrite L. intros H; inversion H; subst.
      apply (shape_wf (a :: q')); assumption.
Qed.

(* the bare ApplyAuditLogParts leaves A and Z implicit: its result is NOT well-formed *)
Lemma apply_parts_not_wf :
  exists base m ps, wf_parts base = true /\ apply_parts base m = Some ps /\ wf_parts ps = false.
Proof. exists default_parts, [43; 69], [66; 67; 69; 70; 72]. repeat split. Qed.

(* ... while the ctl path on the same input keeps them (the F23 witness) *)
Lemma ctl_parts_F23 : ctl_parts default_parts [43; 69] = Some [65; 66; 67; 69; 70; 72; 90].
Proof. reflexivity. Qed.

(* at most one occurrence of every letter in well-formed parts *)
Fixpoint au_count (p : N) (l : bytes) : nat :=
  match l with
  | [] => O
  | x :: r => if x =? p then S (au_count p r) else au_count p r
  end.

Lemma au_count_app p a b : au_count p (a ++ b) = (au_count p a + au_count p b)%nat.
Proof. induction a as [|x a IH]; [reflexivity|]. cbn [app au_count]. destruct (x =? p); rewrite IH; reflexivity. Qed.

Lemma au_count_mem0 p l : au_mem p l = false -> au_count p l = O.
Proof.
  induction l as [|x l IH]; [reflexivity|]. unfold au_mem in *. cbn [existsb au_count].
  intros H. apply orb_false_iff in H as [H1 H2]. rewrite N.eqb_sym, H1. auto.
Qed.

Lemma au_count_nodup p l : au_nodup l = true -> (au_count p l <= 1)%nat.
Proof.
  induction l as [|x l IH]; [cbn; lia|]. cbn [au_nodup au_count].
  intros H. apply andb_true_iff in H as [H1 H2]. apply negb_true_iff in H1.
  destruct (x =? p) eqn:E.
  - apply N.eqb_eq in E. subst. rewrite au_count_mem0 by assumption. lia.
  - auto.
Qed.

Lemma au_count_mid0 p l : forallb au_is_mid l = true -> au_is_mid p = false -> au_count p l = O.
Proof.
  induction l as [|x l IH]; [reflexivity|]. cbn [forallb au_count]. intros H Hp.
  apply andb_true_iff in H as [H1 H2]. destruct (x =? p) eqn:E.
  - apply N.eqb_eq in E. subst. congruence.
  - auto.
Qed.

Lemma wf_parts_count ps p : wf_parts ps = true -> (au_count p ps <= 1)%nat.
Proof.
  intros H. destruct (wf_parts_shape _ H) as [mid [-> [Hm Hn]]].
  change (au_A :: mid ++ [au_Z]) with ([au_A] ++ mid ++ [au_Z]).
  rewrite !au_count_app.
  destruct (au_is_mid p) eqn:Ep.
  - assert (au_count p [au_A] = O /\ au_count p [au_Z] = O) as [-> ->].
    { unfold au_is_mid, au_A, au_Z in *. apply andb_true_iff in Ep as [E1 E2].
      apply N.leb_le in E1, E2. cbn [au_count].
      destruct (65 =? p) eqn:X; [apply N.eqb_eq in X; lia|].
      destruct (90 =? p) eqn:Y; [apply N.eqb_eq in Y; lia|]. auto. }
    pose proof (au_count_nodup p mid Hn). lia.
  - rewrite (au_count_mid0 p mid Hm Ep). cbn [au_count].
    destruct (au_A =? p) eqn:X; destruct (au_Z =? p) eqn:Y; try lia.
    apply N.eqb_eq in X, Y. unfold au_A, au_Z in *. lia.
Qed.

(* ------------------------------------------------------------------------------------------ *)
(* 4. invariants of the transaction over ALL rule lists                                         *)
(* ------------------------------------------------------------------------------------------ *)

(* what MatchRule records for a rule *)
Definition fired_of (c : cfg) (r : rule) : fired :=
  {| f_id := r_id r; f_log := fst (rule_flags c r); f_audit := snd (rule_flags c r); f_nmatch := total_matches r |}.

(* steps that do not touch the logging state *)
Definition same_log (t t' : tx) : Prop :=
  t_cbs t' = t_cbs t /\ t_matched t' = t_matched t /\ t_audit t' = t_audit t.

Lemma same_log_refl t : same_log t t.
Proof. repeat split. Qed.

Lemma same_log_trans a b d : same_log a b -> same_log b d -> same_log a d.
Proof. unfold same_log. intros [? [? ?]] [? [? ?]]. repeat split; congruence. Qed.

Lemma apply_ctl_same t a : same_log t (apply_ctl t a).
Proof.
  destruct a as [[e|]|m|[e|]]; cbn [apply_ctl].
  - repeat split.
  - apply same_log_refl.
  - destruct (ctl_parts (t_parts t) m); [repeat split | apply same_log_refl].
  - repeat split.
  - apply same_log_refl.
Qed.

Lemma fold_ctl_same l t : same_log t (fold_left apply_ctl l t).
Proof.
  revert t. induction l as [|a l IH]; intros t; [apply same_log_refl|].
  cbn [fold_left]. eapply same_log_trans; [apply apply_ctl_same | apply IH].
Qed.

Lemma iter_ctl_same n l t : same_log t (Nat.iter n (fun t' => fold_left apply_ctl l t') t).
Proof.
  induction n as [|n IH]; [apply same_log_refl|].
  cbn [Nat.iter]. eapply same_log_trans; [apply IH | apply fold_ctl_same].
Qed.

Lemma interrupt_same t s : same_log t (interrupt t s).
Proof.
  unfold interrupt. destruct (t_re t); [destruct (t_intr t) | destruct (t_det t) | ];
    try apply same_log_refl; repeat split.
Qed.

Lemma set_resp_same t s : same_log t (set_resp t s).
Proof. repeat split. Qed.

Lemma fire_log c r t :
  t_matched (fire c r t) = t_matched t ++ [fired_of c r]
  /\ t_cbs (fire c r t) = (if c_cb c && f_log (fired_of c r) then t_cbs t ++ [r_id r] else t_cbs t)
  /\ t_audit (fire c r t) = t_audit t || f_audit (fired_of c r).
Proof.
  unfold fire.
  set (t1 := Nat.iter (r_nmatch r) (fun t' => fold_left apply_ctl (r_ctls r) t') t).
  set (t2 := match intr_status r with Some s => interrupt t1 s | None => t1 end).
  assert (S2 : same_log t t2).
  { eapply same_log_trans; [apply iter_ctl_same|]. unfold t2.
    destruct (intr_status r); [apply interrupt_same | apply same_log_refl]. }
  destruct S2 as [Hc [Hm Ha]].
  unfold match_rule, fired_of. cbn [t_matched t_cbs t_audit f_log f_audit].
  rewrite Hc, Hm, Ha. repeat split.
Qed.

(* order-preserving sub-list *)
Inductive sublist {A : Type} : list A -> list A -> Prop :=
  | sl_nil : forall l, sublist [] l
  | sl_skip : forall a l x, sublist a l -> sublist a (x :: l)
  | sl_keep : forall a l x, sublist a l -> sublist (x :: a) (x :: l).

Lemma sublist_refl {A} (l : list A) : sublist l l.
Proof. induction l; [apply sl_nil | apply sl_keep; assumption]. Qed.

Lemma sublist_in {A} (a l : list A) x : sublist a l -> In x a -> In x l.
Proof.
  induction 1; intros Hi; [contradiction | right; auto |].
  destruct Hi as [->|Hi]; [left; reflexivity | right; auto].
Qed.

Lemma sublist_app {A} (a b l m : list A) : sublist a l -> sublist b m -> sublist (a ++ b) (l ++ m).
Proof.
  induction 1; intros Hb; cbn [app].
  - induction l as [|x l IH]; [exact Hb | cbn [app]; apply sl_skip; exact IH].
  - apply sl_skip; auto.
  - apply sl_keep; auto.
Qed.

Lemma sublist_map {A B} (f : A -> B) a l : sublist a l -> sublist (map f a) (map f l).
Proof. induction 1; cbn [map]; [apply sl_nil | apply sl_skip | apply sl_keep]; assumption. Qed.

Lemma sublist_nodup {A} (a l : list A) : sublist a l -> NoDup l -> NoDup a.
Proof.
  induction 1; intros Hn.
  - constructor.
  - inversion Hn; subst; auto.
  - inversion Hn; subst. constructor; [|auto].
    intros Hi. apply H2. eapply sublist_in; eauto.
Qed.

Definition in_phase (p : N) (r : rule) : bool := r_phase r =? p.

Lemma set_allow_same t a : same_log t (set_allow t a).
Proof. repeat split. Qed.

Lemma pre_fire_same r t : same_log t (pre_fire r t).
Proof. apply iter_ctl_same. Qed.

Lemma end_phase_same t : same_log t (end_phase t).
Proof. unfold end_phase. destruct (t_allow t); try apply same_log_refl; apply set_allow_same. Qed.

(* what a step does to the logging state: nothing, or exactly what MatchRule does for this rule *)
Definition log_step (c : cfg) (r : rule) (t t' : tx) : Prop :=
  t_matched t' = t_matched t ++ [fired_of c r]
  /\ t_cbs t' = (if c_cb c && f_log (fired_of c r) then t_cbs t ++ [r_id r] else t_cbs t)
  /\ t_audit t' = t_audit t || f_audit (fired_of c r).

Lemma flow_actions_log c r w t :
  log_step c r t (snd (flow_actions r (w, fire c r t))).
Proof.
  destruct (fire_log c r t) as [Fm [Fc Fa]].
  unfold flow_actions. cbn [snd].
  assert (S : same_log (fire c r t)
                (match r_allow r with
                 | ANone => fire c r t
                 | a => match t_re (fire c r t) with REOn => set_allow (fire c r t) a | _ => fire c r t end
                 end)).
  { destruct (r_allow r); try apply same_log_refl;
      destruct (t_re (fire c r t)); try apply same_log_refl; apply set_allow_same. }
  destruct S as [Sc [Sm Sa]]. unfold log_step. rewrite Sc, Sm, Sa. auto.
Qed.

Lemma eval_step_cases c p w t r :
  same_log t (snd (eval_step c p (w, t) r))
  \/ (in_phase p r = true /\ log_step c r t (snd (eval_step c p (w, t) r))).
Proof.
  assert (Core : same_log t (snd (if is_some (r_marker r) then (w, t) else
              match r_nmatch r with
              | O => (w, t)
              | S _ => if chain_ok r then flow_actions r (w, fire c r t) else (w, pre_fire r t)
              end))
            \/ (is_some (r_marker r) = false /\ log_step c r t (snd (if is_some (r_marker r) then (w, t) else
              match r_nmatch r with
              | O => (w, t)
              | S _ => if chain_ok r then flow_actions r (w, fire c r t) else (w, pre_fire r t)
              end)))).
  { destruct (is_some (r_marker r)); [left; apply same_log_refl|].
    destruct (r_nmatch r); [left; apply same_log_refl|].
    destruct (chain_ok r); [right; split; [reflexivity | apply flow_actions_log] | left; apply pre_fire_same]. }
  unfold eval_step, in_phase.
  destruct (w_break w); [left; apply same_log_refl|].
  destruct (is_some (t_intr t) && negb (p =? 5)); [left; apply same_log_refl|].
  destruct (r_phase r =? p) eqn:Ep; cbn [orb negb].
  - destruct (w_after w); [destruct (marker_is r n); left; apply same_log_refl|].
    destruct (w_skip w); [|left; apply same_log_refl].
    destruct (t_allow t).
    + destruct Core as [C|[_ C]]; [left | right; split]; auto.
    + left; apply same_log_refl.
    + destruct (p =? 1); [left; apply same_log_refl|].
      destruct (p =? 2); [left; apply set_allow_same|].
      destruct Core as [C|[_ C]]; [left | right; split]; auto.
    + destruct (negb (p =? 5)); [left; apply same_log_refl|].
      destruct Core as [C|[_ C]]; [left | right; split]; auto.
  - destruct (is_some (r_marker r)) eqn:Em; cbn [negb]; [|left; apply same_log_refl].
    destruct (w_after w); [destruct (marker_is r n); left; apply same_log_refl|].
    destruct (w_skip w); [|left; apply same_log_refl].
    destruct (t_allow t).
    + left; apply same_log_refl.
    + left; apply same_log_refl.
    + destruct (p =? 1); [left; apply same_log_refl|].
      destruct (p =? 2); [left; apply set_allow_same|]. left; apply same_log_refl.
    + destruct (negb (p =? 5)); left; apply same_log_refl.
Qed.

Lemma sublist_filter_cons {A} (g : A -> bool) l r rules :
  sublist l (filter g rules) -> sublist l (filter g (r :: rules)).
Proof. intros H. cbn [filter]. destruct (g r); [apply sl_skip|]; exact H. Qed.

(* one phase: the rules that fire are an order-preserving selection of the phase's rules, each
   recorded once with its flags; callbacks and audit flag follow *)
Lemma eval_fold_log c p rules : forall w t,
  exists l, sublist l (filter (in_phase p) rules)
    /\ t_matched (snd (fold_left (eval_step c p) rules (w, t))) = t_matched t ++ map (fired_of c) l
    /\ t_cbs (snd (fold_left (eval_step c p) rules (w, t)))
       = t_cbs t ++ (if c_cb c then map f_id (filter f_log (map (fired_of c) l)) else [])
    /\ t_audit (snd (fold_left (eval_step c p) rules (w, t))) = t_audit t || existsb f_audit (map (fired_of c) l).
Proof.
  induction rules as [|r rules IH]; intros w t.
  - exists []. cbn. split; [apply sl_nil|]. rewrite app_nil_r, orb_false_r. repeat split.
    destruct (c_cb c); rewrite app_nil_r; reflexivity.
  - cbn [fold_left].
    destruct (eval_step c p (w, t) r) as [w' t'] eqn:Es.
    pose proof (eval_step_cases c p w t r) as Cs. rewrite Es in Cs. cbn [snd] in Cs.
    destruct (IH w' t') as [l [Hs [Hm [Hc Ha]]]].
    destruct Cs as [[Sc [Sm Sa]]|[Ep [Fm [Fc Fa]]]].
    + exists l. split; [apply sublist_filter_cons; exact Hs|].
      rewrite Hm, Hc, Ha, Sc, Sm, Sa. auto.
    + exists (r :: l). split.
      { cbn [filter]. rewrite Ep. apply sl_keep. exact Hs. }
      rewrite Hm, Hc, Ha, Fm, Fc, Fa. cbn [map filter existsb].
      rewrite <- !app_assoc. cbn [app]. repeat split.
      * destruct (c_cb c); cbn [andb].
        -- destruct (f_log (fired_of c r)); cbn [map app]; rewrite <- ?app_assoc; reflexivity.
        -- reflexivity.
      * rewrite orb_assoc. reflexivity.
Qed.

Lemma eval_phase_log c p rules : forall t,
  exists l, sublist l (filter (in_phase p) rules)
    /\ t_matched (eval_phase c p rules t) = t_matched t ++ map (fired_of c) l
    /\ t_cbs (eval_phase c p rules t)
       = t_cbs t ++ (if c_cb c then map f_id (filter f_log (map (fired_of c) l)) else [])
    /\ t_audit (eval_phase c p rules t) = t_audit t || existsb f_audit (map (fired_of c) l).
Proof.
  intros t. unfold eval_phase.
  destruct (eval_fold_log c p rules flow0 t) as [l [Hs [Hm [Hc Ha]]]].
  destruct (end_phase_same (snd (fold_left (eval_step c p) rules (flow0, t)))) as [Sc [Sm Sa]].
  exists l. split; [exact Hs|]. rewrite Sc, Sm, Sa. auto.
Qed.

(* the phases in the order the connector calls them *)
Definition phase_order (rules : list rule) : list rule :=
  flat_map (fun p => filter (in_phase p) rules) [1; 2; 3; 4; 5].

Record log_shape (c : cfg) (t0 t : tx) (l : list rule) : Prop := {
  ls_matched : t_matched t = t_matched t0 ++ map (fired_of c) l;
  ls_cbs : t_cbs t = t_cbs t0 ++ (if c_cb c then map f_id (filter f_log (map (fired_of c) l)) else []);
  ls_audit : t_audit t = t_audit t0 || existsb f_audit (map (fired_of c) l)
}.

Lemma log_shape_nil c t t' : same_log t t' -> log_shape c t t' [].
Proof.
  intros [Hc [Hm Ha]]. constructor; cbn; rewrite ?app_nil_r, ?orb_false_r; try assumption.
  destruct (c_cb c); rewrite app_nil_r; assumption.
Qed.

Lemma log_shape_app c t0 t1 t2 l1 l2 :
  log_shape c t0 t1 l1 -> log_shape c t1 t2 l2 -> log_shape c t0 t2 (l1 ++ l2).
Proof.
  intros [M1 C1 A1] [M2 C2 A2]. constructor.
  - rewrite M2, M1, map_app, app_assoc. reflexivity.
  - rewrite C2, C1, map_app, filter_app, map_app, <- app_assoc.
    destruct (c_cb c); [reflexivity | rewrite !app_nil_r; reflexivity].
  - rewrite A2, A1, map_app, existsb_app, orb_assoc. reflexivity.
Qed.

Lemma eval_phase_shape c p rules t :
  exists l, sublist l (filter (in_phase p) rules) /\ log_shape c t (eval_phase c p rules t) l.
Proof.
  destruct (eval_phase_log c p rules t) as [l [Hs [Hm [Hc Ha]]]].
  exists l. split; [exact Hs | constructor; assumption].
Qed.

(* a gated phase: either skipped (nothing selected) or evaluated *)
Lemma gated_phase_shape c p rules (g : bool) (t tin : tx) :
  same_log t tin ->
  exists l, sublist l (filter (in_phase p) rules)
    /\ log_shape c t (if g then eval_phase c p rules tin else t) l.
Proof.
  intros Hs. destruct g.
  - destruct (eval_phase_shape c p rules tin) as [l [Hl Sh]].
    exists l. split; [exact Hl|].
    replace l with ([] ++ l) by reflexivity.
    eapply log_shape_app; [apply log_shape_nil; exact Hs | exact Sh].
  - exists []. split; [constructor | apply log_shape_nil, same_log_refl].
Qed.

Lemma run_phases_shape c x :
  exists l, sublist l (phase_order (x_rules x))
    /\ t_matched (run_phases c x) = map (fired_of c) l
    /\ t_cbs (run_phases c x) = (if c_cb c then map f_id (filter f_log (map (fired_of c) l)) else [])
    /\ t_audit (run_phases c x) = existsb f_audit (map (fired_of c) l).
Proof.
  unfold run_phases.
  set (rs := x_rules x). set (t0 := tx_init c).
  destruct (gated_phase_shape c 1 rs ((1 <=? x_last x) && gate t0) t0 t0 (same_log_refl _)) as [l1 [S1 H1]].
  set (t1 := if (1 <=? x_last x) && gate t0 then eval_phase c 1 rs t0 else t0) in *.
  destruct (gated_phase_shape c 2 rs ((2 <=? x_last x) && gate t1) t1 t1 (same_log_refl _)) as [l2 [S2 H2]].
  set (t2 := if (2 <=? x_last x) && gate t1 then eval_phase c 2 rs t1 else t1) in *.
  destruct (gated_phase_shape c 3 rs ((3 <=? x_last x) && gate t2) t2 (set_resp t2 (itoa (x_code x)))
              (set_resp_same _ _)) as [l3 [S3 H3]].
  set (t3 := if (3 <=? x_last x) && gate t2 then eval_phase c 3 rs (set_resp t2 (itoa (x_code x))) else t2) in *.
  destruct (gated_phase_shape c 4 rs ((4 <=? x_last x) && gate t3) t3 t3 (same_log_refl _)) as [l4 [S4 H4]].
  set (t4 := if (4 <=? x_last x) && gate t3 then eval_phase c 4 rs t3 else t3) in *.
  destruct (gated_phase_shape c 5 rs (match t_re t4 with REOff => false | _ => true end) t4 t4 (same_log_refl _))
    as [l5 [S5 H5]].
  assert (E5 : (match t_re t4 with REOff => t4 | _ => eval_phase c 5 rs t4 end)
               = (if match t_re t4 with REOff => false | _ => true end then eval_phase c 5 rs t4 else t4))
    by (destruct (t_re t4); reflexivity).
  rewrite E5.
  pose proof (log_shape_app _ _ _ _ _ _ (log_shape_app _ _ _ _ _ _ (log_shape_app _ _ _ _ _ _
                (log_shape_app _ _ _ _ _ _ H1 H2) H3) H4) H5) as [M C A].
  exists ((((l1 ++ l2) ++ l3) ++ l4) ++ l5). split.
  - unfold phase_order. cbn [flat_map]. rewrite app_nil_r.
    rewrite <- !app_assoc.
    repeat (apply sublist_app; [assumption|]). assumption.
  - cbn in M, C, A. repeat split; assumption.
Qed.

(* ---- corollaries: callbacks, audit flag ---- *)

Lemma callbacks_of_tx rel c x :
  o_cbs (run_tx rel c x)
  = if c_cb c then map f_id (filter f_log (t_matched (run_phases c x))) else [].
Proof.
  unfold run_tx; cbn [o_cbs].
  destruct (run_phases_shape c x) as [l [_ [Hm [Hc _]]]]. rewrite Hc, Hm. reflexivity.
Qed.

Lemma audit_flag_of_tx c x :
  t_audit (run_phases c x) = existsb f_audit (t_matched (run_phases c x)).
Proof. destruct (run_phases_shape c x) as [l [_ [Hm [_ Ha]]]]. rewrite Ha, Hm. reflexivity. Qed.

(* every recorded match is a rule of the rule set that matched something, with that rule's flags *)
Lemma matched_are_rules c x f :
  In f (t_matched (run_phases c x)) ->
  exists r, In r (x_rules x) /\ f = fired_of c r.
Proof.
  destruct (run_phases_shape c x) as [l [Hs [Hm _]]]. rewrite Hm.
  intros Hi. apply in_map_iff in Hi as [r [<- Hr]].
  exists r. split; [|reflexivity].
  pose proof (sublist_in _ _ _ Hs Hr) as Hp.
  unfold phase_order in Hp. apply in_flat_map in Hp as [p [_ Hp]]. apply filter_In in Hp. tauto.
Qed.

(* ---- each rule at most once ---- *)

Lemma nodup_map_filter {A B} (f : A -> B) g (l : list A) : NoDup (map f l) -> NoDup (map f (filter g l)).
Proof.
  induction l as [|x l IH]; [intros; constructor|]. cbn [map filter]. intros H. inversion H; subst.
  destruct (g x); [|auto]. cbn [map]. constructor; [|auto].
  intros Hi. apply H2. apply in_map_iff in Hi as [y [E Hy]]. apply filter_In in Hy as [Hy _].
  apply in_map_iff. eauto.
Qed.

Lemma nodup_map_inj {A B} (f : A -> B) (l : list A) a b :
  NoDup (map f l) -> In a l -> In b l -> f a = f b -> a = b.
Proof.
  induction l as [|x l IH]; [contradiction|]. cbn [map]. intros H Ha Hb E. inversion H; subst.
  destruct Ha as [->|Ha], Hb as [->|Hb]; auto.
  - exfalso. apply H2. rewrite E. apply in_map. assumption.
  - exfalso. apply H2. rewrite <- E. apply in_map. assumption.
Qed.

Lemma nodup_app_local {A} (a b : list A) :
  NoDup a -> NoDup b -> (forall x, In x a -> In x b -> False) -> NoDup (a ++ b).
Proof.
  induction a as [|x a IH]; intros Ha Hb Hd; [exact Hb|].
  inversion Ha; subst. cbn [app]. constructor.
  - intros Hi. apply in_app_or in Hi as [Hi|Hi]; [contradiction|]. apply (Hd x); [left; reflexivity | exact Hi].
  - apply IH; auto. intros y Hy. apply Hd. right. exact Hy.
Qed.

Lemma phase_order_nodup rules : NoDup (map r_id rules) -> NoDup (map r_id (phase_order rules)).
Proof.
  intros Hn. unfold phase_order.
  assert (G : forall ps : list N, NoDup ps ->
            NoDup (map r_id (flat_map (fun p => filter (in_phase p) rules) ps))).
  { induction ps as [|p ps IH]; intros Hp; [constructor|].
    inversion Hp; subst. cbn [flat_map]. rewrite map_app.
    apply nodup_app_local; auto using nodup_map_filter.
    intros i Hi1 Hi2.
    apply in_map_iff in Hi1 as [r1 [E1 R1]]. apply in_map_iff in Hi2 as [r2 [E2 R2]].
    apply filter_In in R1 as [R1 P1]. apply in_flat_map in R2 as [q [Hq R2]].
    apply filter_In in R2 as [R2 P2].
    assert (r1 = r2) by (eapply nodup_map_inj; eauto; congruence). subst r2.
    unfold in_phase in *. apply N.eqb_eq in P1, P2. subst. contradiction. }
  apply G. repeat constructor; cbn; intuition discriminate.
Qed.

Lemma sublist_trans {A} (a b d : list A) : sublist a b -> sublist b d -> sublist a d.
Proof.
  intros Hab Hbd. revert a Hab. induction Hbd; intros a0 Hab.
  - inversion Hab; subst. apply sl_nil.
  - apply sl_skip. auto.
  - inversion Hab; subst.
    + apply sl_nil.
    + apply sl_skip. auto.
    + apply sl_keep. auto.
Qed.

Lemma logged_sublist c l :
  sublist (map f_id (filter f_log (map (fired_of c) l))) (map r_id l).
Proof.
  induction l as [|r l IH]; [apply sl_nil|].
  cbn [map filter]. destruct (f_log (fired_of c r)); cbn [map].
  - apply sl_keep. exact IH.
  - apply sl_skip. exact IH.
Qed.

(* with distinct rule ids the error callback fires at most once per rule, and the matched list
   names each rule at most once *)
Lemma callbacks_nodup rel c x :
  NoDup (map r_id (x_rules x)) -> NoDup (o_cbs (run_tx rel c x)).
Proof.
  intros Hn. unfold run_tx; cbn [o_cbs].
  destruct (run_phases_shape c x) as [l [Hs [_ [Hc _]]]]. rewrite Hc.
  destruct (c_cb c); [|constructor].
  eapply sublist_nodup; [apply logged_sublist|].
  eapply sublist_nodup; [apply sublist_map; exact Hs|].
  apply phase_order_nodup. exact Hn.
Qed.

Lemma matched_nodup c x :
  NoDup (map r_id (x_rules x)) -> NoDup (map f_id (t_matched (run_phases c x))).
Proof.
  intros Hn. destruct (run_phases_shape c x) as [l [Hs [Hm _]]]. rewrite Hm, map_map. cbn [fired_of f_id].
  eapply sublist_nodup; [apply sublist_map; exact Hs|].
  apply phase_order_nodup. exact Hn.
Qed.

(* firing order is configuration order within a phase, phases in order *)
Lemma matched_in_phase_order c x :
  sublist (map f_id (t_matched (run_phases c x))) (map r_id (phase_order (x_rules x))).
Proof.
  destruct (run_phases_shape c x) as [l [Hs [Hm _]]]. rewrite Hm, map_map. cbn [fired_of f_id].
  apply sublist_map. exact Hs.
Qed.

(* ---- parts stay well-formed through any sequence of ctl actions ---- *)

Lemma apply_ctl_wf t a : wf_parts (t_parts t) = true -> wf_parts (t_parts (apply_ctl t a)) = true.
Proof.
  intros H. destruct a as [[e|]|m|[e|]]; cbn [apply_ctl t_parts]; try exact H.
  destruct (ctl_parts (t_parts t) m) eqn:E; [|exact H]. cbn [t_parts]. eapply ctl_parts_wf; eauto.
Qed.

Lemma fold_ctl_wf l t : wf_parts (t_parts t) = true -> wf_parts (t_parts (fold_left apply_ctl l t)) = true.
Proof. revert t. induction l as [|a l IH]; intros t H; [exact H|]. cbn [fold_left]. apply IH, apply_ctl_wf, H. Qed.

Lemma iter_ctl_wf n l t :
  wf_parts (t_parts t) = true -> wf_parts (t_parts (Nat.iter n (fun t' => fold_left apply_ctl l t') t)) = true.
Proof. intros H. induction n as [|n IH]; [exact H|]. cbn [Nat.iter]. apply fold_ctl_wf, IH. Qed.

Lemma interrupt_parts t s : t_parts (interrupt t s) = t_parts t.
Proof. unfold interrupt. destruct (t_re t); [destruct (t_intr t) | destruct (t_det t) |]; reflexivity. Qed.

Lemma fire_wf c r t : wf_parts (t_parts t) = true -> wf_parts (t_parts (fire c r t)) = true.
Proof.
  intros H. unfold fire, match_rule. cbn [t_parts].
  destruct (intr_status r); [rewrite interrupt_parts|]; apply iter_ctl_wf, H.
Qed.

Lemma set_allow_parts t a : t_parts (set_allow t a) = t_parts t.
Proof. reflexivity. Qed.

Lemma flow_actions_parts r w t : t_parts (snd (flow_actions r (w, t))) = t_parts t.
Proof.
  unfold flow_actions. cbn [snd]. destruct (r_allow r); try reflexivity; destruct (t_re t); reflexivity.
Qed.

Lemma eval_step_wf c p w t r :
  wf_parts (t_parts t) = true -> wf_parts (t_parts (snd (eval_step c p (w, t) r))) = true.
Proof.
  intros H.
  assert (Core : wf_parts (t_parts (snd (if is_some (r_marker r) then (w, t) else
              match r_nmatch r with
              | O => (w, t)
              | S _ => if chain_ok r then flow_actions r (w, fire c r t) else (w, pre_fire r t)
              end))) = true).
  { destruct (is_some (r_marker r)); [exact H|]. destruct (r_nmatch r) eqn:En; [exact H|].
    destruct (chain_ok r); [rewrite flow_actions_parts; apply fire_wf, H | apply iter_ctl_wf, H]. }
  unfold eval_step.
  destruct (w_break w); [exact H|].
  destruct (is_some (t_intr t) && negb (p =? 5)); [exact H|].
  destruct (negb ((r_phase r =? p) || is_some (r_marker r))); [exact H|].
  destruct (w_after w); [destruct (marker_is r n); exact H|].
  destruct (w_skip w); [|exact H].
  destruct (t_allow t); try exact Core; try exact H.
  - destruct (p =? 1); [exact H|]. destruct (p =? 2); [exact H | exact Core].
  - destruct (negb (p =? 5)); [exact H | exact Core].
Qed.

Lemma eval_phase_wf c p rules t :
  wf_parts (t_parts t) = true -> wf_parts (t_parts (eval_phase c p rules t)) = true.
Proof.
  intros H. unfold eval_phase.
  assert (G : forall w t0, wf_parts (t_parts t0) = true ->
              wf_parts (t_parts (snd (fold_left (eval_step c p) rules (w, t0)))) = true).
  { induction rules as [|r rules IH]; intros w t0 H0; [exact H0|].
    cbn [fold_left]. destruct (eval_step c p (w, t0) r) as [w' t'] eqn:Es.
    apply IH. pose proof (eval_step_wf c p w t0 r H0) as W. rewrite Es in W. exact W. }
  unfold end_phase. destruct (t_allow _); try apply G; try exact H.
Qed.

Lemma gated_wf c p rules (g : bool) t tin :
  wf_parts (t_parts t) = true -> wf_parts (t_parts tin) = true ->
  wf_parts (t_parts (if g then eval_phase c p rules tin else t)) = true.
Proof. intros H1 H2. destruct g; [apply eval_phase_wf; exact H2 | exact H1]. Qed.

Lemma run_phases_wf c x : wf_parts (c_parts c) = true -> wf_parts (t_parts (run_phases c x)) = true.
Proof.
  intros H. unfold run_phases.
  match goal with |- wf_parts (t_parts (match t_re ?t4 with _ => _ end)) = true =>
    assert (H4 : wf_parts (t_parts t4) = true) end.
  { apply gated_wf; [|].
    all: try (apply gated_wf; [|]).
    all: try (apply gated_wf; [|]).
    all: try (apply gated_wf; [|]).
    all: try exact H.
    all: cbn [set_resp t_parts].
    all: try (apply gated_wf; [|]).
    all: try (apply gated_wf; [|]).
    all: exact H. }
  match goal with |- wf_parts (t_parts (match t_re ?t4 with _ => _ end)) = true =>
    destruct (t_re t4) end; try apply eval_phase_wf; exact H4.
Qed.

(* ------------------------------------------------------------------------------------------ *)
(* 5. content of the record                                                                     *)
(* ------------------------------------------------------------------------------------------ *)

(* the rule ids the record has to carry: audit-enabled matches in firing order, once per matched value *)
Definition audit_ids_per_value (fs : list fired) : list N :=
  flat_map (fun f => if f_audit f then repeat (f_id f) (f_nmatch f) else []) fs.
Definition audit_ids (fs : list fired) : list N := map f_id (filter f_audit fs).

Lemma map_repeat_local {A B} (f : A -> B) x n : map f (repeat x n) = repeat (f x) n.
Proof. induction n as [|n IH]; [reflexivity|]. cbn [repeat map]. rewrite IH. reflexivity. Qed.

Lemma k_msgs_ids tr fs : map m_rule (k_msgs tr fs) = audit_ids_per_value fs.
Proof.
  unfold k_msgs, audit_ids_per_value. induction fs as [|f fs IH]; [reflexivity|].
  cbn [flat_map]. rewrite map_app, IH. destruct (f_audit f); [|reflexivity].
  rewrite map_repeat_local. reflexivity.
Qed.

Lemma h_msgs_ids fs : map m_rule (h_msgs fs) = audit_ids fs.
Proof.
  unfold h_msgs, audit_ids. induction fs as [|f fs IH]; [reflexivity|].
  cbn [flat_map filter]. destruct (f_audit f); cbn [map app]; rewrite IH; reflexivity.
Qed.

Lemma k_msgs_data tr fs : Forall (fun m => m_data m = true /\ m_err m = tr) (k_msgs tr fs).
Proof.
  unfold k_msgs. induction fs as [|f fs IH]; [constructor|]. cbn [flat_map].
  apply Forall_app. split; [|exact IH]. destruct (f_audit f); [|constructor].
  induction (f_nmatch f); cbn [repeat]; constructor; auto.
Qed.

Fixpoint concat_n {A} (n : nat) (l : list A) : list A :=
  match n with O => [] | S k => l ++ concat_n k l end.

Lemma au_mem_cons p x l : au_mem p (x :: l) = (p =? x) || au_mem p l.
Proof. reflexivity. Qed.

Lemma parts_fold fs : forall parts tr ks hr ms,
  let '(tr', ks', hr', ms') := fold_left (parts_step fs) parts (tr, ks, hr, ms) in
  tr' = tr || au_mem au_H parts
  /\ ks' = ks || au_mem au_K parts
  /\ hr' = hr || au_mem 69 parts || au_mem 70 parts
  /\ map m_rule ms' = map m_rule ms ++ concat_n (au_count au_K parts) (audit_ids_per_value fs).
Proof.
  induction parts as [|p parts IH]; intros tr ks hr ms.
  - cbn. rewrite !orb_false_r, app_nil_r. auto.
  - cbn [fold_left]. rewrite !au_mem_cons. cbn [au_count].
    unfold parts_step at 2.
    destruct (p =? au_H) eqn:EH.
    { apply N.eqb_eq in EH. subst p.
      specialize (IH true ks hr ms).
      destruct (fold_left (parts_step fs) parts (true, ks, hr, ms)) as [[[a b] d] e].
      destruct IH as [-> [-> [-> ->]]].
      change (au_H =? au_H) with true. change (au_K =? au_H) with false.
      change (69 =? au_H) with false. change (70 =? au_H) with false. change (au_H =? au_K) with false.
      cbn [orb]. rewrite !orb_true_r. auto. }
    destruct (p =? au_K) eqn:EK.
    { apply N.eqb_eq in EK. subst p.
      specialize (IH tr true hr (ms ++ k_msgs tr fs)).
      destruct (fold_left (parts_step fs) parts (tr, true, hr, ms ++ k_msgs tr fs)) as [[[a b] d] e].
      destruct IH as [-> [-> [-> ->]]].
      change (au_K =? au_K) with true. change (au_H =? au_K) with false.
      change (69 =? au_K) with false. change (70 =? au_K) with false.
      cbn [orb concat_n]. rewrite !orb_true_r, map_app, k_msgs_ids, <- app_assoc. auto. }
    rewrite (N.eqb_sym au_H p), (N.eqb_sym au_K p), EH, EK. cbn [orb].
    destruct ((p =? 69) || (p =? 70)) eqn:EF.
    { specialize (IH tr ks true ms).
      destruct (fold_left (parts_step fs) parts (tr, ks, true, ms)) as [[[a b] d] e].
      destruct IH as [-> [-> [-> ->]]].
      rewrite (N.eqb_sym 69 p), (N.eqb_sym 70 p). repeat split.
      apply orb_true_iff in EF as [E|E]; rewrite E; cbn [orb]; rewrite ?orb_true_r; reflexivity. }
    { specialize (IH tr ks hr ms).
      destruct (fold_left (parts_step fs) parts (tr, ks, hr, ms)) as [[[a b] d] e].
      destruct IH as [-> [-> [-> ->]]].
      apply orb_false_iff in EF as [E1 E2].
      rewrite (N.eqb_sym 69 p), (N.eqb_sym 70 p), E1, E2. cbn [orb]. auto. }
Qed.

Lemma au_count_pos_mem p l : au_mem p l = negb (Nat.eqb (au_count p l) 0).
Proof.
  induction l as [|x l IH]; [reflexivity|]. unfold au_mem in *. cbn [existsb au_count].
  rewrite (N.eqb_sym p x). destruct (x =? p); [reflexivity | exact IH].
Qed.

(* messages of the record, by the parts: K once -> one message per matched value of every audit-enabled
   match, in firing order; no K but H -> one data-less message per audit-enabled match; neither -> none *)
Lemma record_msgs parts fs :
  ((au_count au_K parts = 1)%nat -> map m_rule (fst (audit_msgs parts fs)) = audit_ids_per_value fs)
  /\ ((au_count au_K parts = 0)%nat -> au_mem au_H parts = true ->
        map m_rule (fst (audit_msgs parts fs)) = audit_ids fs
        /\ Forall (fun m => m_data m = false /\ m_err m = true) (fst (audit_msgs parts fs)))
  /\ ((au_count au_K parts = 0)%nat -> au_mem au_H parts = false -> fst (audit_msgs parts fs) = []).
Proof.
  unfold audit_msgs.
  pose proof (parts_fold fs parts false false false []) as P.
  destruct (fold_left (parts_step fs) parts (false, false, false, [])) as [[[tr ks] hr] ms].
  destruct P as [-> [-> [-> Hms]]]. cbn [orb map app] in *.
  rewrite au_count_pos_mem. repeat split.
  - intros E. rewrite E in *. cbn [Nat.eqb negb andb fst]. rewrite Hms. cbn. apply app_nil_r.
  - rewrite H in *. cbn in Hms. apply map_eq_nil in Hms. subst ms.
    cbn [Nat.eqb negb]. rewrite H0. cbn [andb fst app]. apply h_msgs_ids.
  - rewrite H in *. cbn in Hms. apply map_eq_nil in Hms. subst ms.
    cbn [Nat.eqb negb]. rewrite H0. cbn [andb fst app].
    unfold h_msgs. induction fs as [|f fs IH]; [constructor|]. cbn [flat_map].
    apply Forall_app. split; [|exact IH]. destruct (f_audit f); repeat constructor.
  - intros E Hh. rewrite E in *. cbn in Hms. apply map_eq_nil in Hms. subst ms.
    cbn [Nat.eqb negb]. rewrite Hh. reflexivity.
Qed.

Lemma record_has_resp parts fs : snd (audit_msgs parts fs) = au_mem 69 parts || au_mem 70 parts.
Proof.
  unfold audit_msgs.
  pose proof (parts_fold fs parts false false false []) as P.
  destruct (fold_left (parts_step fs) parts (false, false, false, [])) as [[[tr ks] hr] ms].
  destruct P as [_ [_ [-> _]]]. reflexivity.
Qed.

(* the record of a transaction: id, parts, messages *)
Lemma record_of_tx rel c x r :
  In r (o_records (run_tx rel c x)) ->
  let t := run_phases c x in
  rc_id r = x_id x
  /\ rc_parts r = t_parts t
  /\ rc_msgs r = fst (audit_msgs (t_parts t) (t_matched t)).
Proof.
  unfold run_tx; cbn [o_records]. destruct (should_audit rel c (run_phases c x)); [|contradiction].
  intros [<-|[]]. unfold audit_record. destruct (audit_msgs _ _). repeat split.
Qed.

(* ------------------------------------------------------------------------------------------ *)
(* 6. writers: whole records                                                                    *)
(* ------------------------------------------------------------------------------------------ *)

Definition nl_free (s : bytes) : bool := forallb (fun b => negb (b =? nl)) s.

Lemma split_lines_line u : forall cur s,
  nl_free u = true -> split_lines cur (u ++ nl :: s) = (rev cur ++ u) :: split_lines [] s.
Proof.
  induction u as [|c u IH]; intros cur s H.
  - cbn [app split_lines]. change (nl =? nl) with true. cbn iota. rewrite app_nil_r. reflexivity.
  - cbn [nl_free forallb] in H. apply andb_true_iff in H as [Hc Hu]. apply negb_true_iff in Hc.
    cbn [app split_lines]. rewrite Hc. rewrite IH by exact Hu. cbn [rev]. rewrite <- app_assoc. reflexivity.
Qed.

(* a file made of framed records reads back, line by line, as exactly those records *)
Lemma split_file_of l :
  Forall (fun r => nl_free r = true) l -> split_lines [] (file_of l) = l.
Proof.
  induction 1 as [|r l Hr _ IH]; [reflexivity|].
  unfold file_of in *. cbn [flat_map]. unfold frame at 1. rewrite <- app_assoc. cbn [app].
  rewrite split_lines_line by exact Hr. rewrite IH. reflexivity.
Qed.

Lemma interleave_perm {A} (ls : list (list A)) out : interleave ls out -> Permutation out (concat ls).
Proof.
  induction 1 as [ls H | ls1 x l ls2 out _ IH].
  - assert (E : concat ls = []).
    { induction H as [|l ls Hl _ IH]; [reflexivity|]. cbn [concat]. rewrite Hl, IH. reflexivity. }
    rewrite E. constructor.
  - rewrite concat_app in *. cbn [concat] in *. cbn [app].
    eapply Permutation_trans; [apply perm_skip; exact IH|].
    apply Permutation_middle.
Qed.

(* each writer's own records keep their order in the file *)
Lemma interleave_order {A} (ls : list (list A)) out :
  interleave ls out -> forall l, In l ls -> sublist l out.
Proof.
  induction 1 as [ls H | ls1 x l ls2 out _ IH]; intros l0 Hin.
  - rewrite Forall_forall in H. rewrite (H _ Hin). apply sl_nil.
  - apply in_app_or in Hin as [Hin|[<-|Hin]].
    + apply sl_skip. apply IH. apply in_or_app. left. exact Hin.
    + apply sl_keep. apply IH. apply in_or_app. right. left. reflexivity.
    + apply sl_skip. apply IH. apply in_or_app. right. right. exact Hin.
Qed.

(* G writers, any schedule of their atomic appends: the file holds a permutation of all the records,
   whole, each on its own line *)
Lemma whole_records (ls : list (list bytes)) out :
  interleave ls out ->
  Forall (fun r => nl_free r = true) (concat ls) ->
  Permutation (split_lines [] (file_of out)) (concat ls).
Proof.
  intros Hi Hf. pose proof (interleave_perm _ _ Hi) as P.
  rewrite split_file_of; [exact P|].
  rewrite Forall_forall in *. intros r Hr. apply Hf. eapply Permutation_in; eauto.
Qed.

(* a writer that appends the record and its newline separately does NOT have the property *)
Lemma chunked_writer_tears :
  exists (r1 r2 : bytes) out,
    nl_free r1 = true /\ nl_free r2 = true
    /\ interleave [chunks_of r1; chunks_of r2] out
    /\ ~ Permutation (split_lines [] (concat out)) [r1; r2].
Proof.
  exists [97], [98], [[97]; [98]; [nl]; [nl]]. repeat split.
  - apply (il_step [] [97] [[nl]] [chunks_of [98]]). cbn [app].
    apply (il_step [[[nl]]] [98] [[nl]] []). cbn [app].
    apply (il_step [] [nl] [] [[[nl]]]). cbn [app].
    apply (il_step [[]] [nl] [] []). cbn [app].
    apply il_nil. repeat constructor.
  - assert (E : split_lines [] (concat [[97]; [98]; [nl]; [nl]]) = [[97; 98]; []]) by reflexivity.
    rewrite E. intros P. apply Permutation_sym in P.
    assert (Hin : In [97] [[97; 98]; []]) by (eapply Permutation_in; [exact P | left; reflexivity]).
    destruct Hin as [Hin|[Hin|[]]]; discriminate.
Qed.

(* ------------------------------------------------------------------------------------------ *)
(* 7. native format                                                                             *)
(* ------------------------------------------------------------------------------------------ *)

Lemma section_A pre l : section pre l au_A = boundary pre au_A ++ a_line l.
Proof. unfold section, section_body, au_A. cbn. rewrite app_nil_r. reflexivity. Qed.

Lemma section_Z pre l : section pre l au_Z = boundary pre au_Z ++ [nl].
Proof. reflexivity. Qed.

(* rendering of well-formed parts: the A boundary and the id line first, the Z boundary last, one
   section per part in between, in order *)
Lemma format_native_shape pre l mid :
  al_parts l = au_A :: mid ++ [au_Z] ->
  format_native pre l
  = boundary pre au_A ++ a_line l ++ flat_map (section pre l) mid ++ boundary pre au_Z ++ [nl].
Proof.
  intros E. unfold format_native. rewrite E. cbn [flat_map]. rewrite flat_map_app. cbn [flat_map].
  rewrite section_A, section_Z, app_nil_r, <- !app_assoc. reflexivity.
Qed.

(* the id line carries the transaction id between the timestamp and the addresses *)
Lemma a_line_id l :
  a_line l = [91] ++ al_ts l ++ [93; sp] ++ al_id l ++ [sp] ++ al_cip l ++ [sp] ++ itoa (al_cport l) ++ [sp]
             ++ al_hip l ++ [sp] ++ itoa (al_hport l) ++ [nl].
Proof. reflexivity. Qed.

(* --- reading a record back by its boundary --- *)

Definition aligned (s : bytes) : Prop := s = [] \/ exists s', s = s' ++ [nl].

Lemma split_app_aligned' s' : forall cur y,
  split_lines cur ((s' ++ [nl]) ++ y) = split_lines cur (s' ++ [nl]) ++ split_lines [] y.
Proof.
  induction s' as [|c s' IH]; intros cur y.
  - cbn [app split_lines]. change (nl =? nl) with true. cbn iota. reflexivity.
  - cbn [app split_lines]. destruct (c =? nl).
    + cbn [app]. f_equal. apply IH.
    + apply IH.
Qed.

Lemma split_app_aligned s y : aligned s -> split_lines [] (s ++ y) = split_lines [] s ++ split_lines [] y.
Proof. intros [->|[s' ->]]; [reflexivity | apply split_app_aligned']. Qed.

Lemma aligned_app a b : aligned a -> aligned b -> aligned (a ++ b).
Proof.
  intros Ha [->|[b' ->]]; [rewrite app_nil_r; exact Ha|].
  right. exists (a ++ b'). rewrite app_assoc. reflexivity.
Qed.

Lemma is_prefix_app p s : is_prefix p (p ++ s) = true.
Proof. induction p as [|x p IH]; [destruct s; reflexivity|]. cbn [app is_prefix]. rewrite N.eqb_refl. exact IH. Qed.

Lemma skipn_app_length {A} (p s : list A) : skipn (length p) (p ++ s) = s.
Proof. induction p as [|x p IH]; [reflexivity | exact IH]. Qed.

Lemma boundary_line_boundary pre p : boundary_line pre (pre ++ [p; 45; 45]) = Some p.
Proof. unfold boundary_line. rewrite is_prefix_app, skipn_app_length. reflexivity. Qed.

Definition chunk (l : alog) (p : N) : bytes := section_body l p ++ (if p =? 65 then [] else [nl]).

Definition clean (pre : bytes) (s : bytes) : Prop :=
  flat_map (fun ln => match boundary_line pre ln with Some x => [x] | None => [] end) (split_lines [] s) = [].

Lemma chunk_aligned l p :
  (forall f, al_files l = Some f -> aligned f) -> aligned (chunk l p).
Proof.
  intros Hf. unfold chunk. destruct (p =? 65) eqn:E.
  - rewrite app_nil_r. unfold section_body. rewrite E. right.
    exists ([91] ++ al_ts l ++ [93; sp] ++ al_id l ++ [sp] ++ al_cip l ++ [sp] ++ itoa (al_cport l) ++ [sp]
            ++ al_hip l ++ [sp] ++ itoa (al_hport l)).
    unfold a_line. rewrite <- !app_assoc. reflexivity.
  - right. exists (section_body l p). reflexivity.
Qed.

Lemma scan_section pre l p rest :
  nl_free pre = true -> (p =? nl) = false -> aligned (chunk l p) -> clean pre (chunk l p) ->
  scan_lines pre (section pre l p ++ rest) = p :: scan_lines pre rest.
Proof.
  intros Hpre Hp Ha Hc. unfold scan_lines, section, boundary.
  change (section_body l p ++ (if p =? 65 then [] else [nl])) with (chunk l p).
  replace ((pre ++ [p] ++ [45; 45; nl]) ++ chunk l p) with ((pre ++ [p; 45; 45]) ++ nl :: chunk l p)
    by (rewrite <- !app_assoc; reflexivity).
  rewrite <- app_assoc. cbn [app].
  rewrite split_lines_line.
  - cbn [rev app flat_map]. rewrite boundary_line_boundary. cbn [app]. f_equal.
    rewrite split_app_aligned by exact Ha. rewrite flat_map_app. unfold clean in Hc. rewrite Hc. reflexivity.
  - unfold nl_free in *. rewrite forallb_app, Hpre. cbn [forallb]. rewrite Hp. reflexivity.
Qed.

(* a reader that splits the record on the record's own boundary finds exactly the parts, in order,
   provided no content line of the record is itself a boundary line *)
Lemma scan_format_native pre l :
  nl_free pre = true ->
  (forall p, In p (al_parts l) -> (p =? nl) = false) ->
  (forall f, al_files l = Some f -> aligned f) ->
  (forall p, In p (al_parts l) -> clean pre (chunk l p)) ->
  scan_lines pre (format_native pre l) = al_parts l.
Proof.
  intros Hpre Hnl Hf Hc. unfold format_native.
  induction (al_parts l) as [|p ps IH]; [reflexivity|].
  cbn [flat_map]. rewrite scan_section.
  - f_equal. apply IH; intros; [apply Hnl | apply Hc]; right; assumption.
  - exact Hpre.
  - apply Hnl. left. reflexivity.
  - apply chunk_aligned. exact Hf.
  - apply Hc. left. reflexivity.
Qed.

(* ------------------------------------------------------------------------------------------ *)
(* 8. the record of a transaction, assembled                                                    *)
(* ------------------------------------------------------------------------------------------ *)

Lemma record_content rel c x r :
  wf_parts (c_parts c) = true ->
  In r (o_records (run_tx rel c x)) ->
  let t := run_phases c x in
  rc_id r = x_id x
  /\ rc_parts r = t_parts t
  /\ wf_parts (rc_parts r) = true
  /\ (au_mem au_K (rc_parts r) = true -> map m_rule (rc_msgs r) = audit_ids_per_value (t_matched t))
  /\ (au_mem au_K (rc_parts r) = false -> au_mem au_H (rc_parts r) = true ->
        map m_rule (rc_msgs r) = audit_ids (t_matched t))
  /\ (au_mem au_K (rc_parts r) = false -> au_mem au_H (rc_parts r) = false -> rc_msgs r = []).
Proof.
  intros Hwf Hin. destruct (record_of_tx rel c x r Hin) as [Hid [Hp Hm]].
  cbn zeta. rewrite Hp, Hm.
  pose proof (run_phases_wf c x Hwf) as W.
  destruct (record_msgs (t_parts (run_phases c x)) (t_matched (run_phases c x))) as [M1 [M2 M3]].
  pose proof (wf_parts_count _ au_K W) as Hle.
  repeat split; try assumption.
  - intros HK. apply M1. rewrite au_count_pos_mem in HK.
    destruct (au_count au_K (t_parts (run_phases c x))) as [|[|n]]; [discriminate | reflexivity | lia].
  - intros HK HH. apply M2; [|exact HH]. rewrite au_count_pos_mem in HK.
    destruct (au_count au_K (t_parts (run_phases c x))); [reflexivity | discriminate].
  - intros HK HH. apply M3; [|exact HH]. rewrite au_count_pos_mem in HK.
    destruct (au_count au_K (t_parts (run_phases c x))); [reflexivity | discriminate].
Qed.

Lemma native_balanced pre l :
  wf_parts (al_parts l) = true ->
  exists mid,
    al_parts l = au_A :: mid ++ [au_Z]
    /\ format_native pre l
       = boundary pre au_A ++ a_line l ++ flat_map (section pre l) mid ++ boundary pre au_Z ++ [nl]
    /\ NoDup (al_parts l).
Proof.
  intros W. destruct (wf_parts_shape _ W) as [mid [E [Hm Hn]]].
  exists mid. split; [exact E|]. split; [apply format_native_shape; exact E|].
  (* no letter twice *)
  assert (G : forall p, (au_count p (al_parts l) <= 1)%nat) by (intros p; apply wf_parts_count; exact W).
  clear - G. induction (al_parts l) as [|x ps IH]; [constructor|].
  constructor.
  - intros Hi. specialize (G x). cbn [au_count] in G. rewrite N.eqb_refl in G.
    assert (1 <= au_count x ps)%nat; [|lia].
    clear - Hi. induction ps as [|y ps IH]; [contradiction|]. cbn [au_count].
    destruct Hi as [->|Hi]; [rewrite N.eqb_refl; lia|]. destruct (y =? x); [lia | auto].
  - apply IH. intros p. specialize (G p). cbn [au_count] in G. destruct (x =? p); lia.
Qed.

(* ------------------------------------------------------------------------------------------ *)
(* 9. rule flow: what is never recorded                                                         *)
(* ------------------------------------------------------------------------------------------ *)

(* a rule whose chain did not match entirely, a SecMarker, a rule that matched nothing: no MatchRule, hence
   no callback, no audit flag, no message (only the head's non-disruptive actions may have run) *)
Lemma step_unrecorded c p w t r :
  chain_ok r = false \/ is_some (r_marker r) = true \/ r_nmatch r = 0%nat ->
  same_log t (snd (eval_step c p (w, t) r)).
Proof.
  intros H.
  assert (Core : same_log t (snd (if is_some (r_marker r) then (w, t) else
              match r_nmatch r with
              | O => (w, t)
              | S _ => if chain_ok r then flow_actions r (w, fire c r t) else (w, pre_fire r t)
              end))).
  { destruct (is_some (r_marker r)) eqn:Em; [apply same_log_refl|].
    destruct (r_nmatch r) eqn:En; [apply same_log_refl|].
    destruct (chain_ok r) eqn:Ec; [|apply pre_fire_same].
    destruct H as [H|[H|H]]; discriminate. }
  unfold eval_step.
  destruct (w_break w); [apply same_log_refl|].
  destruct (is_some (t_intr t) && negb (p =? 5)); [apply same_log_refl|].
  destruct (negb ((r_phase r =? p) || is_some (r_marker r))); [apply same_log_refl|].
  destruct (w_after w); [destruct (marker_is r n); apply same_log_refl|].
  destruct (w_skip w); [|apply same_log_refl].
  destruct (t_allow t); try exact Core; try apply same_log_refl.
  - destruct (p =? 1); [apply same_log_refl|]. destruct (p =? 2); [apply set_allow_same | exact Core].
  - destruct (negb (p =? 5)); [apply same_log_refl | exact Core].
Qed.

(* a rule reached while Skip > 0, while a SkipAfter marker is pending, after the loop was left, or after
   a real interruption outside the logging phase, is not evaluated at all *)
Lemma step_skipped c p w t r :
  w_break w = true \/ (w_skip w <> 0)%nat \/ w_after w <> None \/ (is_some (t_intr t) = true /\ p <> 5) ->
  snd (eval_step c p (w, t) r) = t.
Proof.
  intros H. unfold eval_step.
  destruct (w_break w) eqn:Eb; [reflexivity|].
  destruct (is_some (t_intr t) && negb (p =? 5)) eqn:Ei; [reflexivity|].
  destruct (negb ((r_phase r =? p) || is_some (r_marker r))); [reflexivity|].
  destruct (w_after w) eqn:Ea; [destruct (marker_is r n); reflexivity|].
  destruct (w_skip w) eqn:Es; [|reflexivity].
  exfalso. destruct H as [H|[H|[H|[H1 H2]]]]; try discriminate; try contradiction.
  rewrite H1 in Ei. cbn [andb] in Ei. apply negb_false_iff in Ei. apply N.eqb_eq in Ei. contradiction.
Qed.
