(* TxPhaseProofs.v — proofs about the model TxPhase.v (property C02). *)
From Verif Require Import Base TxPhase.
From Coq Require Import Sorting.Sorted.
Open Scope N_scope.

Ltac sx := cbn [st_last st_engine st_intr st_dintr st_allow st_skip st_skipafter st_reqlen st_resplen
                st_conn st_uri st_reqhdr st_resphdr st_trace set_last set_engine set_intr set_dintr
                set_allow set_flow set_reqlen set_resplen set_flags add_event fst snd] in *.

(* ---------------------------------------------------------------------------------- *)
(* helpers on histories                                                                *)
(* ---------------------------------------------------------------------------------- *)

Definition or_else {A} (a b : option A) : option A := match a with Some x => Some x | None => b end.

Lemma first_intr_app m t t' :
  tp_first_intr m (t ++ t') = or_else (tp_first_intr m t) (tp_first_intr m t').
Proof.
  induction t as [|e t IH]; cbn [app tp_first_intr or_else]; [destruct (tp_first_intr m t'); reflexivity|].
  destruct (tp_ev_intr m e); [reflexivity | exact IH].
Qed.

Lemma first_intr_snoc m t e :
  tp_first_intr m (t ++ [e]) = or_else (tp_first_intr m t) (tp_ev_intr m e).
Proof.
  rewrite first_intr_app. cbn [tp_first_intr]. destruct (tp_ev_intr m e); reflexivity.
Qed.

(* after the first interrupting event only logging-phase evaluations (and limit notices) occur *)
Fixpoint after_ok (seen : bool) (t : list tp_event) : bool :=
  match t with
  | [] => true
  | e :: t' => (negb seen || tp_late_ok e) && after_ok (seen || is_some (tp_ev_intr MOn e)) t'
  end.

Lemma after_ok_snoc t e : forall seen,
  after_ok seen (t ++ [e]) =
  after_ok seen t && (negb (seen || is_some (tp_first_intr MOn t)) || tp_late_ok e).
Proof.
  induction t as [|x t IH]; intro seen; cbn [app after_ok tp_first_intr is_some].
  - rewrite orb_false_r, andb_true_r. reflexivity.
  - rewrite IH. destruct (tp_ev_intr MOn x) as [i|]; cbn [is_some].
    + rewrite !orb_true_r. cbn. rewrite andb_assoc. reflexivity.
    + rewrite !orb_false_r. rewrite andb_assoc. reflexivity.
Qed.

Lemma after_ok_true_all t : after_ok true t = true -> Forall (fun e => tp_late_ok e = true) t.
Proof.
  induction t as [|e t IH]; cbn [after_ok negb orb]; intro H; constructor.
  - apply andb_true_iff in H. apply H.
  - apply IH. apply andb_true_iff in H. apply H.
Qed.

Lemma after_ok_split t1 : forall seen t2,
  after_ok seen (t1 ++ t2) = true ->
  seen = true \/ tp_first_intr MOn t1 <> None ->
  Forall (fun e => tp_late_ok e = true) t2.
Proof.
  induction t1 as [|e t1 IH]; intros seen t2 H C; cbn [app] in H.
  - destruct C as [->|C]; [apply after_ok_true_all, H | cbn in C; congruence].
  - cbn [after_ok] in H. apply andb_true_iff in H as [_ H].
    apply (IH _ _ H). destruct C as [->|C]; [left; reflexivity|].
    cbn [tp_first_intr] in C. destruct (tp_ev_intr MOn e); cbn [is_some].
    + left. apply orb_true_r.
    + right. exact C.
Qed.

Lemma count_phase_snoc p t e :
  tp_count_phase p (t ++ [e]) =
  (tp_count_phase p t + (match e with EvPhase q => if (q =? p)%N then 1 else 0 | _ => 0 end))%nat.
Proof.
  unfold tp_count_phase. rewrite filter_app, app_length. f_equal.
  cbn [filter]. destruct e; try reflexivity. destruct (p0 =? p); reflexivity.
Qed.

(* ---------------------------------------------------------------------------------- *)
(* the main invariant of reachable states                                              *)
(* ---------------------------------------------------------------------------------- *)

Record InvT (t : list tp_event) (i d : option tp_intr) (l : N) : Prop := mkInv {
  inv_intr  : i = tp_first_intr MOn t;
  inv_dintr : d = tp_first_intr MDet t;
  inv_late  : after_ok false t = true;
  inv_last  : l <= 5;
  inv_count : forall p, 1 <= p <= 4 ->
              (tp_count_phase p t <= 1)%nat /\ (l < p -> tp_count_phase p t = 0%nat)
}.

Definition Inv (s : tp_state) : Prop := InvT (st_trace s) (st_intr s) (st_dintr s) (st_last s).

Lemma inv_init c : Inv (tp_init c).
Proof.
  constructor; cbn; try reflexivity; try lia.
Qed.

(* appending one rule-evaluation or limit event *)
Lemma inv_snoc_nonphase t i d l e :
  InvT t i d l ->
  match e with EvPhase _ => False | _ => True end ->
  i = None \/ tp_late_ok e = true ->
  InvT (t ++ [e]) (or_else i (tp_ev_intr MOn e)) (or_else d (tp_ev_intr MDet e)) l.
Proof.
  intros [Hi Hd Hl H5 Hc] Hne Hlate. constructor.
  - rewrite first_intr_snoc, <- Hi. reflexivity.
  - rewrite first_intr_snoc, <- Hd. reflexivity.
  - rewrite after_ok_snoc, Hl, <- Hi. cbn [andb orb].
    destruct Hlate as [-> | ->]; [reflexivity | apply orb_true_r].
  - exact H5.
  - intros p Hp. rewrite count_phase_snoc. destruct e; try contradiction; rewrite Nat.add_0_r; apply Hc, Hp.
Qed.

(* entering RuleGroup.Eval for phase p *)
Lemma inv_snoc_phase t i d l p :
  InvT t i d l ->
  (1 <= p <= 4 /\ l < p /\ i = None) \/ p = 5 ->
  InvT (t ++ [EvPhase p]) i d p.
Proof.
  intros [Hi Hd Hl H5 Hc] Hp. constructor.
  - rewrite first_intr_snoc, <- Hi. cbn. destruct i; reflexivity.
  - rewrite first_intr_snoc, <- Hd. cbn. destruct d; reflexivity.
  - rewrite after_ok_snoc, Hl, <- Hi. cbn [andb orb tp_late_ok tp_ev_phase].
    destruct Hp as [(_ & _ & ->) | ->]; [reflexivity | apply orb_true_r].
  - destruct Hp as [Hp | ->]; lia.
  - intros q Hq. rewrite count_phase_snoc. destruct (Hc q Hq) as [C1 C0].
    destruct (N.eqb_spec p q) as [->|Hne].
    + destruct Hp as [(_ & Hlt & _) | ->]; [|lia]. rewrite (C0 Hlt). split; [lia | intro; lia].
    + rewrite Nat.add_0_r. split; [exact C1|]. intro Hlt. apply C0.
      destruct Hp as [(_ & Hl' & _) | ->]; lia.
Qed.

(* ---------------------------------------------------------------------------------- *)
(* one rule evaluation                                                                 *)
(* ---------------------------------------------------------------------------------- *)

(* the event Rule.Evaluate contributes to the history *)
Definition tp_rule_event (p : N) (r : tp_rule) (s : tp_state) : tp_event :=
  if tp_holds s (r_cond r) then
    let s1 := match r_ctl r with Some m => set_engine s m | None => s end in
    if match r_chain r with Some c => tp_holds s1 c | None => true end
    then EvRule p r (RFired (st_engine s1)) else EvRule p r RStarterOnly
  else EvRule p r RNoMatch.

Lemma eval_rule_core p r s :
  let s' := tp_eval_rule p r s in
  let e := tp_rule_event p r s in
  st_trace s' = st_trace s ++ [e] /\
  st_intr s' = or_else (st_intr s) (tp_ev_intr MOn e) /\
  st_dintr s' = or_else (st_dintr s) (tp_ev_intr MDet e) /\
  st_last s' = st_last s.
Proof.
  unfold tp_eval_rule, tp_rule_event.
  destruct (tp_holds s (r_cond r)).
  2:{ sx. cbn [tp_ev_intr]. destruct (st_intr s), (st_dintr s); repeat split; reflexivity. }
  destruct (r_ctl r) as [m|];
  match goal with |- context [match r_chain r with Some c => tp_holds ?s1 c | None => true end] =>
    destruct (match r_chain r with Some c => tp_holds s1 c | None => true end) end.
  2,4: sx; cbn [tp_ev_intr]; destruct (st_intr s), (st_dintr s); repeat split; reflexivity.
  all: unfold tp_exec_flow, tp_exec_dact, tp_allow, tp_interrupt; sx; cbn [tp_ev_intr].
  - destruct (r_act r) as [[]|] eqn:Ea; unfold tp_intr_of; rewrite ?Ea; sx;
      destruct m; sx; destruct (st_intr s) eqn:Ei, (st_dintr s) eqn:Ed; sx; rewrite ?Ei, ?Ed;
      repeat split; reflexivity.
  - destruct (r_act r) as [[]|] eqn:Ea; unfold tp_intr_of; rewrite ?Ea; sx;
      destruct (st_engine s) eqn:Ee; sx; destruct (st_intr s) eqn:Ei, (st_dintr s) eqn:Ed; sx; rewrite ?Ei, ?Ed;
      repeat split; reflexivity.
Qed.

Lemma rule_event_shape p r s : exists st, tp_rule_event p r s = EvRule p r st.
Proof.
  unfold tp_rule_event. destruct (tp_holds s (r_cond r)); [|eexists; reflexivity].
  match goal with |- context [if ?b then _ else _] => destruct b end; eexists; reflexivity.
Qed.

Lemma inv_eval_rule p r s :
  Inv s -> st_intr s = None \/ p = 5 -> Inv (tp_eval_rule p r s).
Proof.
  intros H C. unfold Inv. destruct (eval_rule_core p r s) as (Ht & Hi & Hd & Hl).
  rewrite Ht, Hi, Hd, Hl. apply inv_snoc_nonphase; [exact H | |].
  - destruct (rule_event_shape p r s) as [st ->]. exact I.
  - destruct C as [C | ->]; [left; exact C | right].
    destruct (rule_event_shape 5 r s) as [st ->]. reflexivity.
Qed.

Lemma eval_rule_last p r s : st_last (tp_eval_rule p r s) = st_last s.
Proof. apply eval_rule_core. Qed.

(* ---------------------------------------------------------------------------------- *)
(* RuleGroup.Eval                                                                      *)
(* ---------------------------------------------------------------------------------- *)

(* a generic preservation lemma for the RulesLoop: P may depend on the phase being evaluated *)
Lemma eval_loop_pres (P : tp_state -> Prop) p rs :
  (forall s k m, P s -> P (set_flow s k m)) ->
  (forall s a, P s -> P (set_allow s a)) ->
  (forall r s, In r rs -> r_mark r = None -> r_phase r = 0 \/ r_phase r = p ->
               st_intr s = None \/ p = 5 -> P s -> P (tp_eval_rule p r s)) ->
  forall s, P s -> P (tp_eval_loop p rs s).
Proof.
  intros Hflow Hallow. induction rs as [|r rs IH]; intros Hr s H; cbn [tp_eval_loop]; [exact H|].
  assert (IH' : forall s, P s -> P (tp_eval_loop p rs s)).
  { apply IH. intros r0 s0 Hin. apply Hr. right. exact Hin. }
  destruct (is_some (st_intr s) && negb (p =? 5)) eqn:G; [exact H|].
  destruct ((r_phase r =? 0) || (r_phase r =? p)) eqn:Eph; cbn [negb]; [|apply IH', H].
  destruct (st_skipafter s).
  { destruct (tp_mark_eqb (r_mark r) n); apply IH'; [apply Hflow|]; exact H. }
  destruct (0 <? st_skip s); [apply IH', Hflow, H|].
  assert (C : st_intr s = None \/ p = 5).
  { apply andb_false_iff in G as [G|G].
    - left. destruct (st_intr s); [discriminate | reflexivity].
    - right. apply negb_false_iff, N.eqb_eq in G. exact G. }
  assert (Go : P (tp_eval_loop p rs (if is_some (r_mark r) then s else tp_eval_rule p r s))).
  { apply IH'. destruct (r_mark r) eqn:Em; cbn [is_some]; [exact H|].
    apply Hr; try assumption; [left; reflexivity|].
    apply orb_true_iff in Eph as [E|E]; apply N.eqb_eq in E; auto. }
  destruct (st_allow s) as [[]|]; try exact Go; try exact H.
  - destruct (p =? 1); [exact H|]. destruct (p =? 2); [apply Hallow, H | exact Go].
  - destruct (p =? 5); [exact Go | exact H].
Qed.

Lemma inv_eval_loop p rs : forall s,
  Inv s -> Inv (tp_eval_loop p rs s) /\ st_last (tp_eval_loop p rs s) = st_last s.
Proof.
  intros s H.
  apply (eval_loop_pres (fun s' => Inv s' /\ st_last s' = st_last s) p rs); try (split; [exact H | reflexivity]).
  - intros s0 k m H0. exact H0.
  - intros s0 a H0. exact H0.
  - intros r s0 _ _ _ C [H0 L0]. split; [apply inv_eval_rule; assumption | rewrite eval_rule_last; exact L0].
Qed.

Lemma inv_eval_phase c p s :
  Inv s ->
  (1 <= p <= 4 /\ st_last s < p /\ st_intr s = None) \/ p = 5 ->
  Inv (tp_eval_phase c p s).
Proof.
  intros H Hp. unfold tp_eval_phase.
  assert (H1 : Inv (add_event (set_last s p) (EvPhase p))).
  { unfold Inv. sx. apply (inv_snoc_phase _ _ _ (st_last s)); assumption. }
  destruct (inv_eval_loop p (c_rules c) _ H1) as [H2 _].
  destruct (st_allow (tp_eval_loop p (c_rules c) (add_event (set_last s p) (EvPhase p)))) as [[]|];
    exact H2.
Qed.

(* what RuleGroup.Eval leaves behind: flow state at rest, no pending allow:phase *)
Lemma eval_phase_flow c p s :
  st_skip (tp_eval_phase c p s) = 0 /\ st_skipafter (tp_eval_phase c p s) = None /\
  st_allow (tp_eval_phase c p s) <> Some SPhase.
Proof.
  unfold tp_eval_phase. sx. repeat split.
  destruct (st_allow (tp_eval_loop p (c_rules c) (add_event (set_last s p) (EvPhase p)))) as [[]|] eqn:E;
    sx; rewrite ?E; discriminate.
Qed.

Lemma inv_limit_intr s st : Inv s -> Inv (tp_limit_intr s st).
Proof.
  intro H. unfold tp_limit_intr. sx.
  assert (K : InvT (st_trace s ++ [EvLimit st]) (or_else (st_intr s) (Some (mkIntr 0 KDeny st [])))
                   (or_else (st_dintr s) None) (st_last s)).
  { apply (inv_snoc_nonphase _ _ _ _ (EvLimit st) H I). right. reflexivity. }
  unfold Inv. destruct (st_intr s) eqn:Ei; sx; rewrite ?Ei in *; cbn [or_else] in K;
    destruct (st_dintr s) eqn:Ed; sx; rewrite ?Ed in *; exact K.
Qed.

(* ---------------------------------------------------------------------------------- *)
(* the API calls                                                                       *)
(* ---------------------------------------------------------------------------------- *)

Lemma intr_none_of_is_some s : is_some (st_intr s) = false -> st_intr s = None.
Proof. destruct (st_intr s); [discriminate | reflexivity]. Qed.

Lemma inv_prh c s : Inv s -> Inv (fst (tp_prh c s)).
Proof.
  intro H. unfold tp_prh. destruct (is_off s); [exact H|].
  destruct (N.leb_spec 1 (st_last s)); [exact H|].
  destruct (is_some (st_intr s)) eqn:E; [exact H|].
  sx. apply inv_eval_phase; [exact H|]. left. repeat split; try lia. apply intr_none_of_is_some, E.
Qed.

Lemma inv_prb c s : Inv s -> Inv (fst (tp_prb c s)).
Proof.
  intro H. unfold tp_prb. destruct (is_off s); [exact H|].
  destruct (is_some (st_intr s)) eqn:E; [exact H|].
  destruct (N.eqb_spec (st_last s) 1) as [L|L]; cbn [negb]; [|exact H].
  sx. apply inv_eval_phase; [exact H|]. left. repeat split; try lia. apply intr_none_of_is_some, E.
Qed.

Lemma inv_presph c s : Inv s -> Inv (fst (tp_presph c s)).
Proof.
  intro H. unfold tp_presph. destruct (is_off s); [exact H|].
  destruct (N.leb_spec 3 (st_last s)); [exact H|].
  destruct (is_some (st_intr s)) eqn:E; [exact H|].
  sx. apply inv_eval_phase; [exact H|]. left. repeat split; try lia. apply intr_none_of_is_some, E.
Qed.

Lemma inv_prespb c s : Inv s -> Inv (fst (tp_prespb c s)).
Proof.
  intro H. unfold tp_prespb. destruct (is_off s); [exact H|].
  destruct (is_some (st_intr s)) eqn:E; [exact H|].
  destruct (N.eqb_spec (st_last s) 3) as [L|L]; cbn [negb]; [|exact H].
  sx. apply inv_eval_phase; [exact H|]. left. repeat split; try lia. apply intr_none_of_is_some, E.
Qed.

Lemma inv_log c s : Inv s -> Inv (tp_log c s).
Proof.
  intro H. unfold tp_log. destruct (is_off s); [exact H|].
  apply inv_eval_phase; [exact H | right; reflexivity].
Qed.

(* a generic preservation lemma for the four body-writing calls *)
Lemma body_write_pres (P : tp_state -> Prop) acc lim act status len set_len process n known s :
  (forall s z, P s -> P (set_len s z)) ->
  (forall s, P s -> P (fst (process s))) ->
  (forall s, P s -> P (tp_limit_intr s status)) ->
  P s -> P (fst (tp_body_write acc lim act status len set_len process n known s)).
Proof.
  intros Hset Hproc Hlim H. unfold tp_body_write.
  destruct (is_off s); [exact H|]. destruct (negb acc); [exact H|].
  destruct (lim =? len s)%Z; [destruct act; exact H|].
  destruct known as [k|].
  - destruct (k && (lim <=? len s + n)%Z && match act with LReject => true | LPartial => false end);
      [apply Hlim, H|].
    match goal with |- context [set_len s ?z] => set (s1 := set_len s z) end.
    assert (H1 : P s1) by (apply Hset, H).
    destruct (len s1 =? lim)%Z.
    + destruct act; sx; [apply Hlim, H1 | apply Hproc, H1].
    + destruct (k && (lim <=? len s + n)%Z); sx; [apply Hproc, H1 | exact H1].
  - destruct (lim <=? len s + n)%Z.
    + destruct act; sx; [apply Hlim, H | apply Hproc, Hset, H].
    + sx. apply Hset, H.
Qed.

Lemma inv_step c s k : Inv s -> Inv (fst (tp_step c s k)).
Proof.
  intro H. destruct k; cbn [tp_step].
  1-4: exact H.
  - apply inv_prh, H.
  - pose proof (inv_prb c s H) as K. destruct (tp_prb c s); exact K.
  - apply inv_presph, H.
  - pose proof (inv_prespb c s H) as K. destruct (tp_prespb c s); exact K.
  - apply inv_log, H.
  - apply body_write_pres; auto using inv_prb, inv_limit_intr.
  - apply body_write_pres; auto using inv_prb, inv_limit_intr.
  - apply body_write_pres; auto using inv_prespb, inv_limit_intr.
  - apply body_write_pres; auto using inv_prespb, inv_limit_intr.
Qed.

Lemma run_from_pres (P : tp_state -> Prop) c :
  (forall s k, P s -> P (fst (tp_step c s k))) ->
  forall ks s, P s -> P (tp_run_from c s ks).
Proof.
  intros Hs ks. induction ks as [|k ks IH]; intros s H; cbn; [exact H | apply IH, Hs, H].
Qed.

Lemma inv_run c ks : Inv (tp_run c ks).
Proof. unfold tp_run. apply (run_from_pres Inv c); [intros; apply inv_step; assumption | apply inv_init]. Qed.

(* ---- consequences ---- *)

Lemma first_disruptive_holds c ks :
  st_intr (tp_run c ks) = tp_first_intr MOn (st_trace (tp_run c ks)).
Proof. apply (inv_run c ks). Qed.

Lemma would_be_first_holds c ks :
  st_dintr (tp_run c ks) = tp_first_intr MDet (st_trace (tp_run c ks)).
Proof. apply (inv_run c ks). Qed.

Lemma no_eval_after_interrupt_holds c ks t1 t2 :
  st_trace (tp_run c ks) = t1 ++ t2 -> tp_first_intr MOn t1 <> None ->
  Forall (fun e => tp_late_ok e = true) t2.
Proof.
  intros E H. pose proof (inv_late _ _ _ _ (inv_run c ks)) as L. rewrite E in L.
  apply (after_ok_split t1 false t2 L). right. exact H.
Qed.

Lemma phase_at_most_once_holds c ks p :
  1 <= p <= 4 -> (tp_count_phase p (st_trace (tp_run c ks)) <= 1)%nat.
Proof. intro Hp. apply (inv_count _ _ _ _ (inv_run c ks) p Hp). Qed.

(* ---------------------------------------------------------------------------------- *)
(* the interruption is final (no assumption on the state: any state, reachable or not)  *)
(* ---------------------------------------------------------------------------------- *)

Section Final.
Variable i : tp_intr.
Let P (s : tp_state) : Prop := st_intr s = Some i.

Lemma final_eval_rule p r s : P s -> P (tp_eval_rule p r s).
Proof.
  unfold P. intro H. destruct (eval_rule_core p r s) as (_ & Hi & _). rewrite Hi, H. reflexivity.
Qed.

Lemma final_eval_loop p rs : forall s, P s -> P (tp_eval_loop p rs s).
Proof.
  apply eval_loop_pres; try (intros; assumption).
  intros r s _ _ _ _ H. apply final_eval_rule, H.
Qed.

Lemma final_eval_phase c p s : P s -> P (tp_eval_phase c p s).
Proof.
  intro H. unfold tp_eval_phase.
  pose proof (final_eval_loop p (c_rules c) (add_event (set_last s p) (EvPhase p)) H) as K.
  destruct (st_allow _) as [[]|]; exact K.
Qed.

Lemma final_limit_intr s st : P s -> P (tp_limit_intr s st).
Proof. unfold P, tp_limit_intr. sx. intro H. rewrite H. sx. exact H. Qed.

Lemma final_prb c s : P s -> P (fst (tp_prb c s)).
Proof.
  intro H. unfold tp_prb. destruct (is_off s); [exact H|]. destruct (is_some (st_intr s)); [exact H|].
  destruct (negb (st_last s =? 1)); [exact H|]. apply final_eval_phase, H.
Qed.

Lemma final_prespb c s : P s -> P (fst (tp_prespb c s)).
Proof.
  intro H. unfold tp_prespb. destruct (is_off s); [exact H|]. destruct (is_some (st_intr s)); [exact H|].
  destruct (negb (st_last s =? 3)); [exact H|]. apply final_eval_phase, H.
Qed.

Lemma final_step c s k : P s -> P (fst (tp_step c s k)).
Proof.
  intro H. destruct k; cbn [tp_step].
  1-4: exact H.
  - unfold tp_prh. destruct (is_off s); [exact H|]. destruct (1 <=? st_last s); [exact H|].
    destruct (is_some (st_intr s)); [exact H|]. apply final_eval_phase, H.
  - pose proof (final_prb c s H) as K. destruct (tp_prb c s); exact K.
  - unfold tp_presph. destruct (is_off s); [exact H|]. destruct (3 <=? st_last s); [exact H|].
    destruct (is_some (st_intr s)); [exact H|]. apply final_eval_phase, H.
  - pose proof (final_prespb c s H) as K. destruct (tp_prespb c s); exact K.
  - unfold tp_log. destruct (is_off s); [exact H | apply final_eval_phase, H].
  - apply body_write_pres; auto using final_prb, final_limit_intr.
  - apply body_write_pres; auto using final_prb, final_limit_intr.
  - apply body_write_pres; auto using final_prespb, final_limit_intr.
  - apply body_write_pres; auto using final_prespb, final_limit_intr.
Qed.

Lemma final_run_from c ks s : P s -> P (tp_run_from c s ks).
Proof. apply run_from_pres. intros; apply final_step; assumption. Qed.
End Final.

Lemma run_from_app c s ks ks' : tp_run_from c s (ks ++ ks') = tp_run_from c (tp_run_from c s ks) ks'.
Proof. unfold tp_run_from. apply fold_left_app. Qed.

Lemma interruption_final_step c s k i :
  st_intr s = Some i -> st_intr (fst (tp_step c s k)) = Some i.
Proof. apply final_step. Qed.

Lemma interruption_final_run c ks ks' i :
  st_intr (tp_run c ks) = Some i -> st_intr (tp_run c (ks ++ ks')) = Some i.
Proof. unfold tp_run. rewrite run_from_app. apply final_run_from. Qed.

(* what a call hands back *)
Definition tp_ret_intr (r : tp_ret) : option tp_intr :=
  match r with RVoid => None | RI i => i | RW i _ => i end.

Definition tp_is_phase_call (k : tp_call) : bool :=
  match k with KPRH | KPRB | KPRespH | KPRespB => true | _ => false end.

(* every later phase call reports that same interruption (unless a logging-phase ctl turned the
   engine off, in which case the call is a no-op returning nil) *)
Lemma interruption_reported c s k i :
  st_intr s = Some i -> is_off s = false -> tp_is_phase_call k = true ->
  snd (tp_step c s k) = RI (Some i).
Proof.
  intros H Off Hk. destruct k; try discriminate; cbn [tp_step].
  - unfold tp_prh. rewrite Off, H. destruct (1 <=? st_last s); reflexivity.
  - unfold tp_prb. rewrite Off, H. reflexivity.
  - unfold tp_presph. rewrite Off, H. destruct (3 <=? st_last s); reflexivity.
  - unfold tp_prespb. rewrite Off, H. reflexivity.
Qed.

(* whatever a call returns is the recorded interruption or nil *)
Lemma prb_ret c s : snd (tp_prb c s) = None \/ snd (tp_prb c s) = st_intr (fst (tp_prb c s)).
Proof.
  unfold tp_prb. destruct (is_off s); [left; reflexivity|]. destruct (is_some (st_intr s)); [right; reflexivity|].
  destruct (negb (st_last s =? 1)); [left | right]; reflexivity.
Qed.

Lemma prespb_ret c s : snd (tp_prespb c s) = None \/ snd (tp_prespb c s) = st_intr (fst (tp_prespb c s)).
Proof.
  unfold tp_prespb. destruct (is_off s); [left; reflexivity|]. destruct (is_some (st_intr s)); [right; reflexivity|].
  destruct (negb (st_last s =? 3)); [left | right]; reflexivity.
Qed.

Lemma body_write_ret acc lim act status len set_len process n known s :
  let r := tp_body_write acc lim act status len set_len process n known s in
  tp_ret_intr (snd r) = None \/ tp_ret_intr (snd r) = st_intr (fst r).
Proof.
  unfold tp_body_write.
  destruct (is_off s); [left; reflexivity|]. destruct (negb acc); [left; reflexivity|].
  destruct (lim =? len s)%Z; [destruct act; [right | left]; reflexivity|].
  destruct known as [k|].
  - destruct (k && (lim <=? len s + n)%Z && match act with LReject => true | LPartial => false end);
      [right; reflexivity|].
    match goal with |- context [set_len s ?z] => set (s1 := set_len s z) end.
    destruct (len s1 =? lim)%Z; [destruct act; right; reflexivity | right; reflexivity].
  - destruct (lim <=? len s + n)%Z; [destruct act|]; right; reflexivity.
Qed.

Lemma step_ret c s k :
  tp_ret_intr (snd (tp_step c s k)) = None \/
  tp_ret_intr (snd (tp_step c s k)) = st_intr (fst (tp_step c s k)).
Proof.
  destruct k; cbn [tp_step]; try (left; reflexivity); try apply body_write_ret.
  - unfold tp_prh. destruct (is_off s); [left; reflexivity|]. destruct (1 <=? st_last s); [right; reflexivity|].
    destruct (is_some (st_intr s)); right; reflexivity.
  - pose proof (prb_ret c s) as K. destruct (tp_prb c s); exact K.
  - unfold tp_presph. destruct (is_off s); [left; reflexivity|]. destruct (3 <=? st_last s); [right; reflexivity|].
    destruct (is_some (st_intr s)); right; reflexivity.
  - pose proof (prespb_ret c s) as K. destruct (tp_prespb c s); exact K.
Qed.

(* ---------------------------------------------------------------------------------- *)
(* engine Off: nothing is evaluated, nothing is recorded or returned                   *)
(* ---------------------------------------------------------------------------------- *)

Lemma body_write_off acc lim act status len set_len process n known s :
  is_off s = true ->
  tp_body_write acc lim act status len set_len process n known s = (s, RW None 0).
Proof. intro H. unfold tp_body_write. rewrite H. reflexivity. Qed.

Lemma engine_off_step c s k :
  st_engine s = MOff ->
  let s' := fst (tp_step c s k) in
  st_trace s' = st_trace s /\ st_intr s' = st_intr s /\ st_dintr s' = st_dintr s /\
  st_engine s' = MOff /\ st_last s' = st_last s /\ tp_ret_intr (snd (tp_step c s k)) = None.
Proof.
  intro H. assert (Off : is_off s = true) by (unfold is_off; rewrite H; reflexivity).
  destruct k; cbn [tp_step]; rewrite ?body_write_off by exact Off;
    unfold tp_prh, tp_prb, tp_presph, tp_prespb, tp_log; rewrite ?Off; sx; auto 10.
Qed.

Lemma engine_off_run c ks :
  c_engine c = MOff ->
  st_trace (tp_run c ks) = [] /\ st_intr (tp_run c ks) = None /\ st_dintr (tp_run c ks) = None.
Proof.
  intro H. unfold tp_run.
  assert (G : forall ks s, st_engine s = MOff ->
              st_trace (tp_run_from c s ks) = st_trace s /\ st_intr (tp_run_from c s ks) = st_intr s /\
              st_dintr (tp_run_from c s ks) = st_dintr s).
  { clear ks. induction ks as [|k ks IH]; intros s Hs; cbn; [auto|].
    destruct (engine_off_step c s k Hs) as (A & B & C & D & _).
    destruct (IH _ D) as (A' & B' & C'). unfold tp_run_from in *. rewrite A', B', C'. auto. }
  apply (G ks (tp_init c)). exact H.
Qed.

(* ---------------------------------------------------------------------------------- *)
(* DetectionOnly                                                                       *)
(* ---------------------------------------------------------------------------------- *)

(* no rule switches the engine back to On *)
Definition tp_no_ctl_on (c : tp_cfg) : bool :=
  forallb (fun r => match r_ctl r with Some MOn => false | _ => true end) (c_rules c).

(* guard of the partial theorem: a body limit cannot reject *)
Definition tp_limits_partial (c : tp_cfg) : bool :=
  match c_reqact c, c_respact c with LPartial, LPartial => true | _, _ => false end.

Section Quiet.
Variable c : tp_cfg.
Hypothesis Hctl : tp_no_ctl_on c = true.

Let Q (s : tp_state) : Prop := st_engine s <> MOn /\ st_intr s = None.

Lemma quiet_eval_rule p r s :
  match r_ctl r with Some MOn => false | _ => true end = true -> Q s -> Q (tp_eval_rule p r s).
Proof.
  unfold Q. intros Hr [He Hi]. unfold tp_eval_rule.
  destruct (tp_holds s (r_cond r)); [|sx; auto].
  destruct (r_ctl r) as [[]|]; try discriminate;
  match goal with |- context [match r_chain r with Some c => tp_holds ?s1 c | None => true end] =>
    destruct (match r_chain r with Some c => tp_holds s1 c | None => true end) end; sx;
  try (split; [congruence | exact Hi]);
  unfold tp_exec_flow, tp_exec_dact, tp_allow, tp_interrupt; sx;
  destruct (r_act r) as [[]|] eqn:Ea; unfold tp_intr_of; rewrite ?Ea; sx;
  destruct (st_engine s) eqn:Ee; try congruence; sx;
  destruct (st_dintr s) eqn:Ed; sx; rewrite ?Ee; split; congruence.
Qed.

Lemma quiet_eval_loop p rs : forallb (fun r => match r_ctl r with Some MOn => false | _ => true end) rs = true ->
  forall s, Q s -> Q (tp_eval_loop p rs s).
Proof.
  intro Hrs. apply eval_loop_pres; try (intros; assumption).
  intros r s Hin _ _ _ H. apply quiet_eval_rule; [|exact H].
  rewrite forallb_forall in Hrs. apply Hrs, Hin.
Qed.

Lemma quiet_eval_phase p s : Q s -> Q (tp_eval_phase c p s).
Proof.
  intro H. unfold tp_eval_phase.
  pose proof (quiet_eval_loop p (c_rules c) Hctl (add_event (set_last s p) (EvPhase p)) H) as K.
  destruct (st_allow _) as [[]|]; exact K.
Qed.

Lemma quiet_prb s : Q s -> Q (fst (tp_prb c s)).
Proof.
  intro H. unfold tp_prb. destruct (is_off s); [exact H|]. destruct (is_some (st_intr s)); [exact H|].
  destruct (negb (st_last s =? 1)); [exact H|]. apply quiet_eval_phase, H.
Qed.

Lemma quiet_prespb s : Q s -> Q (fst (tp_prespb c s)).
Proof.
  intro H. unfold tp_prespb. destruct (is_off s); [exact H|]. destruct (is_some (st_intr s)); [exact H|].
  destruct (negb (st_last s =? 3)); [exact H|]. apply quiet_eval_phase, H.
Qed.

(* body writes when the limit action is ProcessPartial never reach setAndReturnBodyLimitInterruption *)
Lemma body_write_partial_pres (P : tp_state -> Prop) acc lim status len set_len process n known s :
  (forall s z, P s -> P (set_len s z)) ->
  (forall s, P s -> P (fst (process s))) ->
  P s -> P (fst (tp_body_write acc lim LPartial status len set_len process n known s)).
Proof.
  intros Hset Hproc H. unfold tp_body_write.
  destruct (is_off s); [exact H|]. destruct (negb acc); [exact H|].
  destruct (lim =? len s)%Z; [exact H|].
  destruct known as [k|].
  - rewrite andb_false_r.
    match goal with |- context [set_len s ?z] => set (s1 := set_len s z) end.
    assert (H1 : P s1) by (apply Hset, H).
    destruct (len s1 =? lim)%Z; [apply Hproc, H1|].
    destruct (k && (lim <=? len s + n)%Z); sx; [apply Hproc, H1 | exact H1].
  - destruct (lim <=? len s + n)%Z; sx; [apply Hproc, Hset, H | apply Hset, H].
Qed.

(* the guard: the call is not a body write whose limit action is Reject *)
Definition tp_call_cannot_reject (k : tp_call) : bool :=
  match k with
  | KWReq _ | KRReq _ _ => match c_reqact c with LPartial => true | LReject => false end
  | KWResp _ | KRResp _ _ => match c_respact c with LPartial => true | LReject => false end
  | _ => true
  end.

Lemma quiet_step s k : tp_call_cannot_reject k = true -> Q s -> Q (fst (tp_step c s k)).
Proof.
  intros G H. destruct k; cbn [tp_step]; cbn [tp_call_cannot_reject] in G.
  1-4: exact H.
  - unfold tp_prh. destruct (is_off s); [exact H|]. destruct (1 <=? st_last s); [exact H|].
    destruct (is_some (st_intr s)); [exact H|]. apply quiet_eval_phase, H.
  - pose proof (quiet_prb s H) as K. destruct (tp_prb c s); exact K.
  - unfold tp_presph. destruct (is_off s); [exact H|]. destruct (3 <=? st_last s); [exact H|].
    destruct (is_some (st_intr s)); [exact H|]. apply quiet_eval_phase, H.
  - pose proof (quiet_prespb s H) as K. destruct (tp_prespb c s); exact K.
  - unfold tp_log. destruct (is_off s); [exact H | apply quiet_eval_phase, H].
  - destruct (c_reqact c); [discriminate|]. apply body_write_partial_pres; auto using quiet_prb.
  - destruct (c_reqact c); [discriminate|]. apply body_write_partial_pres; auto using quiet_prb.
  - destruct (c_respact c); [discriminate|]. apply body_write_partial_pres; auto using quiet_prespb.
  - destruct (c_respact c); [discriminate|]. apply body_write_partial_pres; auto using quiet_prespb.
Qed.

Lemma quiet_step_ret s k : tp_call_cannot_reject k = true -> Q s ->
  tp_ret_intr (snd (tp_step c s k)) = None.
Proof.
  intros G H. destruct (step_ret c s k) as [E|E]; [exact E|]. rewrite E. apply (quiet_step s k G H).
Qed.
End Quiet.

(* the values returned along a run *)
Fixpoint tp_rets (c : tp_cfg) (s : tp_state) (ks : list tp_call) : list tp_ret :=
  match ks with
  | [] => []
  | k :: ks' => snd (tp_step c s k) :: tp_rets c (fst (tp_step c s k)) ks'
  end.

Lemma call_cannot_reject_of_partial c k : tp_limits_partial c = true -> tp_call_cannot_reject c k = true.
Proof.
  unfold tp_limits_partial, tp_call_cannot_reject. destruct (c_reqact c), (c_respact c); try discriminate; destruct k; reflexivity.
Qed.

Lemma detection_only_partial_holds c s k :
  tp_no_ctl_on c = true -> tp_call_cannot_reject c k = true ->
  st_engine s = MDet -> st_intr s = None ->
  st_intr (fst (tp_step c s k)) = None /\ tp_ret_intr (snd (tp_step c s k)) = None /\
  st_engine (fst (tp_step c s k)) <> MOn.
Proof.
  intros Hc Hk He Hi.
  assert (Q : st_engine s <> MOn /\ st_intr s = None) by (split; [congruence | exact Hi]).
  destruct (quiet_step c Hc s k Hk Q) as [A B]. split; [exact B|]. split; [|exact A].
  apply (quiet_step_ret c Hc s k Hk Q).
Qed.

Lemma quiet_run c : tp_no_ctl_on c = true -> tp_limits_partial c = true ->
  forall ks s, st_engine s <> MOn /\ st_intr s = None ->
  (st_engine (tp_run_from c s ks) <> MOn /\ st_intr (tp_run_from c s ks) = None) /\
  Forall (fun r => tp_ret_intr r = None) (tp_rets c s ks).
Proof.
  intros Hc Hp. induction ks as [|k ks IH]; intros s Q; cbn [tp_rets]; [split; [exact Q | constructor]|].
  pose proof (call_cannot_reject_of_partial c k Hp) as Hk.
  pose proof (quiet_step c Hc s k Hk Q) as Q'.
  destruct (IH _ Q') as [A B]. split; [exact A|]. constructor; [|exact B].
  apply (quiet_step_ret c Hc s k Hk Q).
Qed.

(* a WAF configured DetectionOnly: waf.go forces ProcessPartial, so no guard on the limits is left *)
Lemma compile_det_partial w : w_engine w = MDet -> tp_limits_partial (tp_compile w) = true.
Proof. intro H. unfold tp_limits_partial, tp_compile. cbn. rewrite H. reflexivity. Qed.

Lemma detection_only_holds w ks :
  w_engine w = MDet -> tp_no_ctl_on (tp_compile w) = true ->
  st_intr (tp_run (tp_compile w) ks) = None /\
  Forall (fun r => tp_ret_intr r = None) (tp_rets (tp_compile w) (tp_init (tp_compile w)) ks).
Proof.
  intros He Hc.
  destruct (quiet_run _ Hc (compile_det_partial w He) ks (tp_init (tp_compile w))) as [[_ A] B].
  - cbn. rewrite He. split; [discriminate | reflexivity].
  - split; assumption.
Qed.

(* F12: a body-limit Reject records and returns an interruption although ctl:ruleEngine switched
   the transaction to DetectionOnly *)
Definition f12_waf : tp_waf :=
  mkWaf MOn [] [mkRaw None 1 1 CTrue None [ICtl MDet; IDis DPass]] true 8%Z LReject true 8%Z LPartial.

Lemma detection_only_refuted_holds :
  exists w ks k,
    let c := tp_compile w in
    let s := tp_run c ks in
    tp_no_ctl_on c = true /\ st_engine s = MDet /\ st_intr s = None /\
    st_intr (fst (tp_step c s k)) <> None /\ tp_ret_intr (snd (tp_step c s k)) <> None.
Proof.
  exists f12_waf, [KPRH], (KWReq 9%Z). vm_compute. repeat split; discriminate.
Qed.

(* ---------------------------------------------------------------------------------- *)
(* declarative reading of one phase for rule sets without ctl:ruleEngine and allow      *)
(* ---------------------------------------------------------------------------------- *)

(* the whole rule (starter and chain link) matches in state s *)
Definition tp_fires (s : tp_state) (r : tp_rule) : bool :=
  tp_holds s (r_cond r) && match r_chain r with Some c => tp_holds s c | None => true end.

(* first rule of phase p, in configuration order, that fires with deny / drop / redirect *)
Fixpoint tp_spec_first (s : tp_state) (p : N) (rs : list tp_rule) : option tp_intr :=
  match rs with
  | [] => None
  | r :: rs' =>
    if (r_phase r =? p) && tp_fires s r then
      match tp_intr_of r with Some i => Some i | None => tp_spec_first s p rs' end
    else tp_spec_first s p rs'
  end.

(* the rules of phase p that get evaluated: all up to and including that first one (everything in
   the logging phase) *)
Fixpoint tp_spec_evaluated (s : tp_state) (p : N) (stop : bool) (rs : list tp_rule) : list tp_rule :=
  match rs with
  | [] => []
  | r :: rs' =>
    if stop && negb (p =? 5) then []
    else if r_phase r =? p then
      r :: tp_spec_evaluated s p (stop || (tp_fires s r && is_some (tp_intr_of r))) rs'
    else tp_spec_evaluated s p stop rs'
  end.

Definition tp_plain_stat (s : tp_state) (r : tp_rule) : tp_rstat :=
  if tp_holds s (r_cond r) then
    if match r_chain r with Some c => tp_holds s c | None => true end then RFired MOn else RStarterOnly
  else RNoMatch.

(* no ctl:ruleEngine, no allow, no skip / skipAfter, not a marker *)
Definition tp_plain_rule (r : tp_rule) : bool :=
  match r_ctl r with Some _ => false | None => true end &&
  match r_act r with Some (DAllow _) => false | _ => true end &&
  (r_skip r =? 0) && negb (is_some (r_skipafter r)) && negb (is_some (r_mark r)) && negb (r_phase r =? 0).

Definition tp_plain (c : tp_cfg) : bool := forallb tp_plain_rule (c_rules c).

Definition same_flags (s s' : tp_state) : Prop :=
  st_conn s' = st_conn s /\ st_uri s' = st_uri s /\ st_reqhdr s' = st_reqhdr s /\ st_resphdr s' = st_resphdr s.

Lemma holds_same_flags s s' cnd : same_flags s s' -> tp_holds s' cnd = tp_holds s cnd.
Proof. intros (A & B & C & D). destruct cnd; cbn; congruence. Qed.

Lemma fires_same_flags s s' r : same_flags s s' -> tp_fires s' r = tp_fires s r.
Proof.
  intro H. unfold tp_fires. rewrite (holds_same_flags s s' _ H).
  destruct (r_chain r); [rewrite (holds_same_flags s s' _ H)|]; reflexivity.
Qed.

Lemma spec_first_same_flags s s' p rs : same_flags s s' -> tp_spec_first s' p rs = tp_spec_first s p rs.
Proof.
  intro H. induction rs as [|r rs IH]; cbn [tp_spec_first]; [reflexivity|].
  rewrite (fires_same_flags s s' r H), IH. reflexivity.
Qed.

Lemma spec_evaluated_same_flags s s' p rs : same_flags s s' ->
  forall stop, tp_spec_evaluated s' p stop rs = tp_spec_evaluated s p stop rs.
Proof.
  intro H. induction rs as [|r rs IH]; intro stop; cbn [tp_spec_evaluated]; [reflexivity|].
  rewrite (fires_same_flags s s' r H), !IH. reflexivity.
Qed.

Lemma plain_stat_same_flags s s' r : same_flags s s' -> tp_plain_stat s' r = tp_plain_stat s r.
Proof.
  intro H. unfold tp_plain_stat. rewrite (holds_same_flags s s' _ H).
  destruct (r_chain r); [rewrite (holds_same_flags s s' _ H)|]; reflexivity.
Qed.

Lemma eval_rule_plain p r s :
  tp_plain_rule r = true -> st_engine s = MOn -> st_allow s = None ->
  let s1 := tp_eval_rule p r s in
  same_flags s s1 /\ st_engine s1 = MOn /\ st_allow s1 = None /\
  st_intr s1 = or_else (st_intr s) (if tp_fires s r then tp_intr_of r else None) /\
  st_trace s1 = st_trace s ++ [EvRule p r (tp_plain_stat s r)] /\
  st_skip s1 = st_skip s /\ st_skipafter s1 = st_skipafter s.
Proof.
  intros Hp He Ha. unfold tp_plain_rule in Hp.
  apply andb_true_iff in Hp as [Hp _]. apply andb_true_iff in Hp as [Hp _].
  apply andb_true_iff in Hp as [Hp Hsa]. apply andb_true_iff in Hp as [Hp Hsk].
  apply andb_true_iff in Hp as [Hc Hact]. apply N.eqb_eq in Hsk.
  unfold tp_eval_rule, tp_fires, tp_plain_stat, same_flags.
  destruct (r_ctl r); [discriminate|].
  destruct (tp_holds s (r_cond r)); cbn [andb].
  2:{ sx. destruct (st_intr s); auto 10. }
  destruct (match r_chain r with Some c => tp_holds s c | None => true end).
  2:{ sx. destruct (st_intr s); auto 10. }
  unfold tp_exec_flow, tp_exec_dact, tp_allow, tp_interrupt. rewrite He, Hsk.
  destruct (r_skipafter r); [discriminate|]. cbn [N.ltb N.compare].
  destruct (r_act r) as [[]|] eqn:Ea; try discriminate; unfold tp_intr_of; rewrite ?Ea; sx;
    rewrite ?He; destruct (st_intr s) eqn:Ei; sx; rewrite ?He, ?Ei; auto 12.
Qed.

Lemma eval_loop_stop p rs s :
  is_some (st_intr s) && negb (p =? 5) = true -> tp_eval_loop p rs s = s.
Proof. intro H. destruct rs; cbn [tp_eval_loop]; [reflexivity | rewrite H; reflexivity]. Qed.

Lemma spec_evaluated_stop s p rs : negb (p =? 5) = true -> tp_spec_evaluated s p true rs = [].
Proof. intro H. destruct rs; cbn [tp_spec_evaluated andb]; [reflexivity | rewrite H; reflexivity]. Qed.

Lemma eval_loop_plain p rs : forallb tp_plain_rule rs = true ->
  forall s, st_engine s = MOn -> st_allow s = None -> st_skip s = 0 -> st_skipafter s = None ->
  let s' := tp_eval_loop p rs s in
  st_intr s' = or_else (st_intr s) (tp_spec_first s p rs) /\
  st_trace s' = st_trace s ++
     map (fun r => EvRule p r (tp_plain_stat s r)) (tp_spec_evaluated s p (is_some (st_intr s)) rs) /\
  st_engine s' = MOn /\ st_allow s' = None.
Proof.
  induction rs as [|r rs IH]; intros Hpl s He Ha Hk Hm; cbn zeta.
  { cbn. rewrite app_nil_r. destruct (st_intr s); auto. }
  cbn [forallb] in Hpl. apply andb_true_iff in Hpl as [Hr Hrs].
  cbn [tp_eval_loop tp_spec_first tp_spec_evaluated].
  destruct (is_some (st_intr s) && negb (p =? 5)) eqn:G.
  { cbn [map]. rewrite app_nil_r. apply andb_true_iff in G as [G _].
    destruct (st_intr s); [cbn; auto | discriminate]. }
  assert (Hm0 : r_mark r = None /\ (r_phase r =? 0) = false).
  { unfold tp_plain_rule in Hr. apply andb_true_iff in Hr as [Hr1 Hr2]. apply andb_true_iff in Hr1 as [_ Hr1].
    split; [destruct (r_mark r); [discriminate | reflexivity] | apply negb_true_iff, Hr2]. }
  destruct Hm0 as [Hmk Hp0]. rewrite Hp0. cbn [orb].
  destruct (r_phase r =? p) eqn:Eph; cbn [negb andb].
  2:{ apply (IH Hrs s He Ha Hk Hm). }
  rewrite Hm, Hk, Ha, Hmk. cbn [N.ltb N.compare is_some].
  destruct (eval_rule_plain p r s Hr He Ha) as (Hf & He1 & Ha1 & Hi1 & Ht1 & Hk1 & Hm1).
  rewrite Hk in Hk1. rewrite Hm in Hm1.
  destruct (IH Hrs _ He1 Ha1 Hk1 Hm1) as (A & B & C & D). cbn zeta in *.
  rewrite A, B, Hi1, Ht1, C, D.
  rewrite (spec_first_same_flags s _ p rs Hf).
  rewrite (spec_evaluated_same_flags s _ p rs Hf).
  repeat split.
  - destruct (st_intr s); cbn [or_else]; [reflexivity|].
    destruct (tp_fires s r); [|reflexivity]. destruct (tp_intr_of r); reflexivity.
  - rewrite <- app_assoc. cbn [app map]. f_equal. f_equal.
    assert (E : is_some (or_else (st_intr s) (if tp_fires s r then tp_intr_of r else None)) =
                (is_some (st_intr s) || (tp_fires s r && is_some (tp_intr_of r)))).
    { destruct (st_intr s); cbn; [reflexivity|]. destruct (tp_fires s r); reflexivity. }
    rewrite E. apply map_ext_in. intros x _. rewrite (plain_stat_same_flags s _ x Hf). reflexivity.
Qed.

Lemma phase_first_disruptive_holds c p s :
  tp_plain c = true -> st_engine s = MOn -> st_allow s = None -> st_intr s = None ->
  st_skip s = 0 -> st_skipafter s = None ->
  let s' := tp_eval_phase c p s in
  st_intr s' = tp_spec_first s p (c_rules c) /\
  st_trace s' = st_trace s ++ EvPhase p ::
     map (fun r => EvRule p r (tp_plain_stat s r)) (tp_spec_evaluated s p false (c_rules c)).
Proof.
  intros Hpl He Ha Hi Hk Hm. cbn zeta. unfold tp_eval_phase.
  set (s0 := add_event (set_last s p) (EvPhase p)).
  assert (Hf : same_flags s s0) by (unfold same_flags, s0; sx; auto).
  destruct (eval_loop_plain p (c_rules c) Hpl s0) as (A & B & C & D); [exact He | exact Ha | exact Hk | exact Hm |]. sx.
  cbn zeta in *. rewrite D. rewrite A, B.
  assert (I0 : st_intr s0 = None) by (unfold s0; sx; exact Hi).
  assert (T0 : st_trace s0 = st_trace s ++ [EvPhase p]) by (unfold s0; sx; reflexivity).
  rewrite I0, T0. cbn [or_else is_some].
  rewrite (spec_first_same_flags s s0 p _ Hf), (spec_evaluated_same_flags s s0 p _ Hf).
  split; [reflexivity|].
  rewrite <- app_assoc. reflexivity.
Qed.

(* ---------------------------------------------------------------------------------- *)
(* the status / target mapping of the three interrupting actions; the parser           *)
(* ---------------------------------------------------------------------------------- *)

Definition tp_redirect_codes : list N := [301; 302; 303; 307].

Lemma redirect_status_in st : In (tp_redirect_status st) tp_redirect_codes.
Proof.
  unfold tp_redirect_status, tp_redirect_codes.
  destruct (N.eqb_spec st 301) as [->|]; [cbn; auto|].
  destruct (N.eqb_spec st 302) as [->|]; [cbn; auto|].
  destruct (N.eqb_spec st 303) as [->|]; [cbn; auto|].
  destruct (N.eqb_spec st 307) as [->|]; cbn; auto.
Qed.

Lemma redirect_status_keep st : In st tp_redirect_codes -> tp_redirect_status st = st.
Proof. cbn. intros [<-|[<-|[<-|[<-|[]]]]]; reflexivity. Qed.

Lemma redirect_status_default st : ~ In st tp_redirect_codes -> tp_redirect_status st = 302.
Proof.
  intro H. unfold tp_redirect_status.
  destruct (N.eqb_spec st 301) as [->|]; [exfalso; apply H; cbn; auto|].
  destruct (N.eqb_spec st 302) as [->|]; [exfalso; apply H; cbn; auto|].
  destruct (N.eqb_spec st 303) as [->|]; [exfalso; apply H; cbn; auto|].
  destruct (N.eqb_spec st 307) as [->|]; [exfalso; apply H; cbn; auto|]. reflexivity.
Qed.

Lemma status_mapping_holds r i :
  tp_intr_of r = Some i ->
  i_rule i = r_id r /\
  match i_kind i with
  | KDeny => r_act r = Some DDeny /\ i_data i = [] /\
             (r_status r = 0 -> i_status i = 403) /\ (r_status r <> 0 -> i_status i = r_status r)
  | KDrop => r_act r = Some DDrop /\ i_data i = [] /\ i_status i = r_status r
  | KRedirect => r_act r = Some (DRedirect (i_data i)) /\ In (i_status i) tp_redirect_codes /\
                 (In (r_status r) tp_redirect_codes -> i_status i = r_status r) /\
                 (~ In (r_status r) tp_redirect_codes -> i_status i = 302)
  end.
Proof.
  unfold tp_intr_of. destruct (r_act r) as [[]|]; try discriminate; intro H; inversion H; subst; cbn.
  - split; [reflexivity|]. repeat split; intro E.
    + rewrite E. reflexivity.
    + destruct (N.eqb_spec (r_status r) 0); [contradiction | reflexivity].
  - auto.
  - split; [reflexivity|]. split; [reflexivity|]. split; [apply redirect_status_in|].
    split; [apply redirect_status_keep | apply redirect_status_default].
Qed.

Lemma only_three_interrupt r :
  tp_intr_of r = None <->
  match r_act r with Some DDeny | Some DDrop | Some (DRedirect _) => False | _ => True end.
Proof. unfold tp_intr_of. destruct (r_act r) as [[]|]; split; intro H; try exact I; try reflexivity; try discriminate; contradiction. Qed.

(* ---- parseActions / appendRuleAction: exactly one disruptive action survives, the last one ---- *)

Definition dis_items (l : list tp_item) : list tp_item := filter tp_is_dis l.
Definition nondis_items (l : list tp_item) : list tp_item := filter (fun a => negb (tp_is_dis a)) l.

Lemma last_some_snoc {A B} (f : A -> option B) l : forall a acc,
  tp_last_some f (l ++ [a]) acc = match f a with Some b => Some b | None => tp_last_some f l acc end.
Proof.
  induction l as [|x l IH]; intros a acc; cbn [app tp_last_some]; [destruct (f a); reflexivity|].
  apply IH.
Qed.

Lemma firstn_len_app {A} (pre l : list A) : firstn (length pre) (pre ++ l) = pre.
Proof. induction pre as [|x pre IH]; cbn; [destruct l; reflexivity | rewrite IH; reflexivity]. Qed.

Lemma skipn_len_app {A} (pre : list A) x post : skipn (S (length pre)) (pre ++ x :: post) = post.
Proof. induction pre as [|y pre IH]; cbn; [reflexivity | exact IH]. Qed.

Definition parse_inv (done : list tp_item) (st : list tp_item * option nat) : Prop :=
  nondis_items (fst st) = nondis_items done /\
  match snd st with
  | None => dis_items (fst st) = [] /\ tp_last_dis done = None
  | Some i => exists pre d post, fst st = pre ++ IDis d :: post /\ length pre = i /\
                dis_items pre = [] /\ dis_items post = [] /\ tp_last_dis done = Some d
  end.

Lemma parse_inv_step done st a : parse_inv done st -> parse_inv (done ++ [a]) (tp_append_action st a).
Proof.
  destruct st as [res idx]. unfold parse_inv, tp_append_action, tp_last_dis. cbn [fst snd].
  intros [Hn Hd]. rewrite last_some_snoc. unfold nondis_items, dis_items in *.
  destruct (tp_is_dis a) eqn:Ea.
  - assert (exists d, a = IDis d) as [d ->] by (destruct a; try discriminate; eexists; reflexivity).
    cbn [tp_dis_of]. destruct idx as [i|]; cbn [fst snd].
    + destruct Hd as (pre & d0 & post & -> & Hl & Hp & Hq & _). subst i.
      unfold tp_replace_nth. rewrite firstn_len_app, skipn_len_app. split.
      * rewrite !filter_app in *. cbn [filter tp_is_dis negb] in *. rewrite app_nil_r. exact Hn.
      * exists pre, d, post. auto.
    + destruct Hd as [Hd _]. split.
      * rewrite !filter_app. cbn [filter tp_is_dis negb]. rewrite !app_nil_r. exact Hn.
      * exists res, d, []. auto.
  - assert (Ef : tp_dis_of a = None) by (destruct a; try discriminate; reflexivity). rewrite Ef.
    cbn [fst snd]. split.
    + rewrite !filter_app, Hn. cbn [filter]. rewrite Ea. reflexivity.
    + destruct idx as [i|].
      * destruct Hd as (pre & d0 & post & -> & Hl & Hp & Hq & Hlast).
        exists pre, d0, (post ++ [a]). rewrite <- app_assoc. cbn [app]. repeat split; try assumption.
        rewrite filter_app, Hq. cbn [filter]. rewrite Ea. reflexivity.
      * destruct Hd as [Hd Hlast]. split; [|exact Hlast].
        rewrite filter_app, Hd. cbn [filter]. rewrite Ea. reflexivity.
Qed.

Lemma parse_inv_fold l : forall done st, parse_inv done st ->
  parse_inv (done ++ l) (fold_left tp_append_action l st).
Proof.
  induction l as [|a l IH]; intros done st H; cbn [fold_left]; [rewrite app_nil_r; exact H|].
  replace (done ++ a :: l) with ((done ++ [a]) ++ l) by (rewrite <- app_assoc; reflexivity).
  apply IH, parse_inv_step, H.
Qed.

Lemma parse_one_disruptive l :
  dis_items (tp_parse_actions l) = match tp_last_dis l with Some d => [IDis d] | None => [] end /\
  nondis_items (tp_parse_actions l) = nondis_items l.
Proof.
  assert (H0 : parse_inv [] ([], None)) by (unfold parse_inv; cbn; auto).
  pose proof (parse_inv_fold l [] _ H0) as [Hn Hd]. cbn [app] in *. unfold tp_parse_actions.
  split; [|exact Hn].
  destruct (snd (fold_left tp_append_action l ([], None))) as [i|].
  - destruct Hd as (pre & d & post & -> & _ & Hp & Hq & ->).
    unfold dis_items in *. rewrite filter_app. cbn [filter tp_is_dis]. rewrite Hp, Hq. reflexivity.
  - destruct Hd as [Hd ->]. exact Hd.
Qed.

Lemma first_dis_dis_items l :
  tp_first_dis l = match dis_items l with IDis d :: _ => Some d | _ => None end.
Proof.
  unfold dis_items. induction l as [|a l IH]; cbn [tp_first_dis filter]; [reflexivity|].
  destruct a; cbn [tp_is_dis]; try exact IH; reflexivity.
Qed.

(* the one disruptive action of a parsed list is the LAST one written, wherever the earlier ones stand *)
Lemma last_disruptive_wins l : tp_first_dis (tp_parse_actions l) = tp_last_dis l.
Proof.
  rewrite first_dis_dis_items. destruct (parse_one_disruptive l) as [-> _].
  destruct (tp_last_dis l); reflexivity.
Qed.

Lemma dis_items_filter g l : dis_items (filter g l) = filter g (dis_items l).
Proof.
  unfold dis_items. induction l as [|a l IH]; cbn [filter]; [reflexivity|].
  destruct (g a) eqn:Eg, (tp_is_dis a) eqn:Ed; cbn [filter]; rewrite ?Eg, ?Ed, IH; reflexivity.
Qed.

Lemma existsb_dis f l : existsb (fun a => tp_is_dis a && f a) l = existsb f (dis_items l).
Proof.
  unfold dis_items. induction l as [|a l IH]; cbn [existsb filter]; [reflexivity|].
  destruct (tp_is_dis a); cbn [andb orb existsb]; rewrite IH; reflexivity.
Qed.

(* mergeActions on parsed lists: a non-block disruptive action of the rule is kept, block / nothing
   inherits the disruptive action of the SecDefaultAction *)
Lemma merge_disruptive own defs :
  tp_first_dis (tp_merge (tp_parse_actions own) (tp_parse_actions defs)) =
  match tp_last_dis own with
  | Some d => if tp_is_block_item (IDis d) then tp_last_dis defs else Some d
  | None => tp_last_dis defs
  end.
Proof.
  rewrite first_dis_dis_items. unfold tp_merge.
  unfold dis_items at 1. rewrite !filter_app. fold (dis_items (filter (fun a => negb (tp_is_dis a)) (tp_parse_actions defs))).
  rewrite dis_items_filter.
  assert (Z : filter (fun a => negb (tp_is_dis a)) (dis_items (tp_parse_actions defs)) = []).
  { unfold dis_items. induction (tp_parse_actions defs) as [|a l IH]; cbn [filter]; [reflexivity|].
    destruct (tp_is_dis a) eqn:E; cbn [filter]; rewrite ?E; cbn [negb]; exact IH. }
  rewrite Z. cbn [app].
  fold (dis_items (filter (fun a => negb (tp_is_block_item a)) (tp_parse_actions own))).
  rewrite dis_items_filter, existsb_dis.
  destruct (parse_one_disruptive own) as [-> _].
  assert (L : tp_last_dis (tp_parse_actions defs) = tp_last_dis defs).
  { pose proof (last_disruptive_wins defs) as W. rewrite first_dis_dis_items in W.
    destruct (parse_one_disruptive defs) as [Hd _].
    unfold tp_last_dis at 1. clear W.
    assert (G : forall l, tp_last_some tp_dis_of l None =
                          tp_last_some tp_dis_of (dis_items l) None).
    { intro l. assert (G' : forall acc, tp_last_some tp_dis_of l acc = tp_last_some tp_dis_of (dis_items l) acc).
      { unfold dis_items. induction l as [|a l IH]; intro acc; cbn [filter tp_last_some]; [reflexivity|].
        destruct a; cbn [tp_is_dis tp_dis_of tp_last_some]; apply IH. }
      apply G'. }
    rewrite G, Hd. destruct (tp_last_dis defs); reflexivity. }
  rewrite L.
  destruct (tp_last_dis own) as [d|]; cbn [filter existsb].
  - destruct d; cbn [tp_is_block_item negb filter existsb orb app]; try reflexivity.
    destruct (tp_last_dis defs); reflexivity.
  - cbn [app]. destruct (tp_last_dis defs); reflexivity.
Qed.

Lemma compile_act_no_default ds r :
  rr_mark r = None -> tp_defaults_for ds (rr_phase r) = None ->
  r_act (tp_compile_rule ds r) = tp_last_dis (rr_acts r).
Proof.
  intros Hm Hd. unfold tp_compile_rule, tp_compiled_actions. rewrite Hm, Hd. cbn [r_act].
  apply last_disruptive_wins.
Qed.

Lemma compile_act_with_default ds r d :
  rr_mark r = None -> tp_defaults_for ds (rr_phase r) = Some d ->
  r_act (tp_compile_rule ds r) =
  match tp_last_dis (rr_acts r) with
  | Some a => if tp_is_block_item (IDis a) then tp_last_dis (df_acts d) else Some a
  | None => tp_last_dis (df_acts d)
  end.
Proof.
  intros Hm Hd. unfold tp_compile_rule, tp_compiled_actions. rewrite Hm, Hd. cbn [r_act].
  apply merge_disruptive.
Qed.

(* ---------------------------------------------------------------------------------- *)
(* non-vacuity: concrete configurations and call orders                                 *)
(* ---------------------------------------------------------------------------------- *)

(* deny 401 as 2nd rule of phase 1 (needs the request header), block under a drop default in
   phase 3, redirect 308 in phase 4, deny in phase 5; counters around them *)
Definition rl := mkRaw None.
Definition ex_waf (e : tp_mode) : tp_waf :=
  mkWaf e [mkDef 3 [IDis DDrop; IStatus 418]]
    [ rl 10 1 CTrue None [IDis DPass];
      rl 11 1 CReqHdr None [IDis DDeny; IStatus 401];
      rl 12 1 CTrue None [IDis DPass];
      rl 20 2 CUri (Some CConn) [IDis DPass; IInert; IDis DDeny];
      rl 30 3 CRespHdr None [IDis DDeny; IInert; IDis DBlock];
      rl 40 4 CTrue None [IDis (DRedirect [47; 120]); IStatus 308];
      rl 50 5 CTrue None [IDis DDeny];
      rl 51 5 CTrue None [IDis DPass] ]
    true 8%Z LReject true 8%Z LPartial.

(* repeated, skipped and out-of-order calls; interruption reached in phase 1 *)
Example ex_phase1 :
  let s := tp_run (tp_compile (ex_waf MOn)) [KPRB; KReqHdr; KPRH; KPRH; KPRespB; KPRB; KPRespH; KLog; KLog] in
  st_intr s = Some (mkIntr 11 KDeny 401 []) /\ st_last s = 5 /\
  tp_matched (st_trace s) = [(10, true); (11, true); (50, true); (51, true); (50, true); (51, true)].
Proof. vm_compute. auto. Qed.

(* the header arrives too late for phase 1: the chain of rule 20 decides phase 2 *)
Example ex_phase2 :
  let s := tp_run (tp_compile (ex_waf MOn)) [KPRH; KReqHdr; KUri; KConn; KPRH; KWReq 3; KPRB; KPRB; KPRespH] in
  st_intr s = Some (mkIntr 20 KDeny 403 []) /\ st_last s = 2.
Proof. vm_compute. auto. Qed.

(* phase 2 skipped by the caller: ProcessResponseHeaders still runs; block inherits drop, status 418 *)
Example ex_phase3 :
  let s := tp_run (tp_compile (ex_waf MOn)) [KPRH; KRespHdr; KPRespH; KPRB; KPRespB] in
  st_intr s = Some (mkIntr 30 KDrop 418 []) /\ st_last s = 3.
Proof. vm_compute. auto. Qed.

(* redirect with a status outside the whitelist becomes 302 *)
Example ex_phase4 :
  let s := tp_run (tp_compile (ex_waf MOn)) [KPRespB; KPRH; KPRB; KPRespH; KPRespH; KWResp 9; KLog] in
  st_intr s = Some (mkIntr 40 KRedirect 302 [47; 120]) /\ st_last s = 5.
Proof. vm_compute. auto. Qed.

(* only ProcessLogging is called *)
Example ex_phase5 :
  let s := tp_run (tp_compile (ex_waf MOn)) [KLog; KPRH; KPRB] in
  st_intr s = Some (mkIntr 50 KDeny 403 []) /\ tp_count_phase 1 (st_trace s) = 0%nat.
Proof. vm_compute. auto. Qed.

(* DetectionOnly: nothing is recorded, the would-be interruption is remembered, every phase runs *)
Example ex_detection_only :
  let c := tp_compile (ex_waf MDet) in
  let ks := [KReqHdr; KPRH; KWReq 9; KPRB; KPRespH; KPRespB; KLog] in
  tp_no_ctl_on c = true /\ st_intr (tp_run c ks) = None /\
  st_dintr (tp_run c ks) = Some (mkIntr 11 KDeny 401 []) /\ st_last (tp_run c ks) = 5 /\
  List.length (tp_matched (st_trace (tp_run c ks))) = 6%nat.
Proof. vm_compute. auto 10. Qed.

(* a body-limit rejection before any phase; the later deny of rule 11 does not replace it (F11) *)
Example ex_limit_first :
  let s := tp_run (tp_compile (ex_waf MOn)) [KReqHdr; KWReq 9; KPRH; KLog] in
  st_intr s = Some (mkIntr 0 KDeny 413 []) /\ tp_count_phase 1 (st_trace s) = 0%nat.
Proof. vm_compute. auto. Qed.

(* the guard of the partial DetectionOnly theorem is satisfiable together with a ctl switch *)
Example ex_partial_guard :
  let w := mkWaf MOn [] [rl 1 1 CTrue None [ICtl MDet; IDis DPass]; rl 2 2 CTrue None [IDis DDeny]]
                 true 8%Z LPartial true 8%Z LPartial in
  let c := tp_compile w in
  tp_no_ctl_on c = true /\ tp_limits_partial c = true /\
  st_engine (tp_run c [KPRH]) = MDet /\
  st_dintr (tp_run c [KPRH; KWReq 9]) = Some (mkIntr 2 KDeny 403 []) /\
  st_intr (tp_run c [KPRH; KWReq 9]) = None.
Proof. vm_compute. auto 10. Qed.

(* the plain-configuration reading of a phase is not vacuous *)
Example ex_plain :
  let c := tp_compile (ex_waf MOn) in
  let s := tp_run c [KReqHdr] in
  tp_plain c = true /\ tp_spec_first s 1 (c_rules c) = Some (mkIntr 11 KDeny 401 []) /\
  map r_id (tp_spec_evaluated s 1 false (c_rules c)) = [10; 11].
Proof. vm_compute. auto. Qed.


(* ---------------------------------------------------------------------------------- *)
(* a generic preservation lemma for the API                                            *)
(* ---------------------------------------------------------------------------------- *)

(* when RuleGroup.Eval is entered for phase p *)
Definition eval_pre (s : tp_state) (p : N) : Prop :=
  (1 <= p <= 4 /\ st_last s < p /\ st_intr s = None) \/ p = 5.

Lemma step_pres_gen (P : tp_state -> Prop) c :
  (forall s a b c d, P s -> P (set_flags s a b c d)) ->
  (forall s z, P s -> P (set_reqlen s z)) ->
  (forall s z, P s -> P (set_resplen s z)) ->
  (forall s st, P s -> P (tp_limit_intr s st)) ->
  (forall s p, P s -> eval_pre s p -> P (tp_eval_phase c p s)) ->
  forall s k, P s -> P (fst (tp_step c s k)).
Proof.
  intros Hf Hq Hr Hl He.
  assert (Hprb : forall s, P s -> P (fst (tp_prb c s))).
  { intros s H. unfold tp_prb. destruct (is_off s); [exact H|].
    destruct (is_some (st_intr s)) eqn:E; [exact H|].
    destruct (N.eqb_spec (st_last s) 1) as [L|L]; cbn [negb]; [|exact H].
    sx. apply He; [exact H|]. left. repeat split; try lia. apply intr_none_of_is_some, E. }
  assert (Hprespb : forall s, P s -> P (fst (tp_prespb c s))).
  { intros s H. unfold tp_prespb. destruct (is_off s); [exact H|].
    destruct (is_some (st_intr s)) eqn:E; [exact H|].
    destruct (N.eqb_spec (st_last s) 3) as [L|L]; cbn [negb]; [|exact H].
    sx. apply He; [exact H|]. left. repeat split; try lia. apply intr_none_of_is_some, E. }
  intros s k H. destruct k; cbn [tp_step].
  1-4: apply Hf, H.
  - unfold tp_prh. destruct (is_off s); [exact H|].
    destruct (N.leb_spec 1 (st_last s)); [exact H|].
    destruct (is_some (st_intr s)) eqn:E; [exact H|].
    sx. apply He; [exact H|]. left. repeat split; try lia. apply intr_none_of_is_some, E.
  - pose proof (Hprb s H) as K. destruct (tp_prb c s); exact K.
  - unfold tp_presph. destruct (is_off s); [exact H|].
    destruct (N.leb_spec 3 (st_last s)); [exact H|].
    destruct (is_some (st_intr s)) eqn:E; [exact H|].
    sx. apply He; [exact H|]. left. repeat split; try lia. apply intr_none_of_is_some, E.
  - pose proof (Hprespb s H) as K. destruct (tp_prespb c s); exact K.
  - unfold tp_log. destruct (is_off s); [exact H|]. apply He; [exact H | right; reflexivity].
  - apply body_write_pres; auto.
  - apply body_write_pres; auto.
  - apply body_write_pres; auto.
  - apply body_write_pres; auto.
Qed.

(* ---------------------------------------------------------------------------------- *)
(* one Eval: the evaluated rules are a prefix of the phase's rules in configuration order *)
(* ---------------------------------------------------------------------------------- *)

(* the rules RuleGroup.Eval may evaluate in phase p: not a marker, of phase p (or of phase 0) *)
Definition tp_cand (p : N) (r : tp_rule) : bool :=
  negb (is_some (r_mark r)) && ((r_phase r =? 0) || (r_phase r =? p)).

Definition tp_phase_rules (c : tp_cfg) (p : N) : list tp_rule := filter (tp_cand p) (c_rules c).

Definition is_rule_event (p : N) (e : tp_event) (r : tp_rule) : Prop := exists st, e = EvRule p r st.

(* l1 is a subsequence of l2 (same order, elements may be left out) *)
Inductive subseq {A} : list A -> list A -> Prop :=
  | sub_nil l : subseq [] l
  | sub_take x l1 l2 : subseq l1 l2 -> subseq (x :: l1) (x :: l2)
  | sub_skip x l1 l2 : subseq l1 l2 -> subseq l1 (x :: l2).

Lemma subseq_filter_cons {A} (f : A -> bool) l r rs : subseq l (filter f rs) -> subseq l (filter f (r :: rs)).
Proof. intro H. cbn [filter]. destruct (f r); [apply sub_skip, H | exact H]. Qed.

Lemma subseq_in {A} (l1 l2 : list A) x : subseq l1 l2 -> In x l1 -> In x l2.
Proof.
  induction 1 as [l|y l1 l2 _ IH|y l1 l2 _ IH]; intro H; [contradiction | |right; apply IH, H].
  destruct H as [->|H]; [left; reflexivity | right; apply IH, H].
Qed.

Lemma eval_loop_subseq p rs : forall s,
  exists evs l, st_trace (tp_eval_loop p rs s) = st_trace s ++ evs /\
    Forall2 (is_rule_event p) evs l /\ subseq l (filter (tp_cand p) rs).
Proof.
  induction rs as [|r rs IH]; intro s; cbn [tp_eval_loop].
  { exists [], []. rewrite app_nil_r. repeat split; constructor. }
  assert (Stop : exists evs l, st_trace s = st_trace s ++ evs /\
      Forall2 (is_rule_event p) evs l /\ subseq l (filter (tp_cand p) (r :: rs))).
  { exists [], []. rewrite app_nil_r. repeat split; constructor. }
  assert (Cont : forall s', st_trace s' = st_trace s ->
      exists evs l, st_trace (tp_eval_loop p rs s') = st_trace s ++ evs /\
      Forall2 (is_rule_event p) evs l /\ subseq l (filter (tp_cand p) (r :: rs))).
  { intros s' Ht. destruct (IH s') as (evs & l & A & B & C). exists evs, l.
    rewrite A, Ht. repeat split; [exact B | apply subseq_filter_cons, C]. }
  destruct (is_some (st_intr s) && negb (p =? 5)); [exact Stop|].
  destruct ((r_phase r =? 0) || (r_phase r =? p)) eqn:Eph; cbn [negb]; [|apply Cont; reflexivity].
  destruct (st_skipafter s); [destruct (tp_mark_eqb (r_mark r) n); apply Cont; reflexivity|].
  destruct (0 <? st_skip s); [apply Cont; reflexivity|].
  assert (Go : exists evs l,
      st_trace (tp_eval_loop p rs (if is_some (r_mark r) then s else tp_eval_rule p r s)) = st_trace s ++ evs /\
      Forall2 (is_rule_event p) evs l /\ subseq l (filter (tp_cand p) (r :: rs))).
  { destruct (r_mark r) eqn:Em; cbn [is_some]; [apply Cont; reflexivity|].
    destruct (IH (tp_eval_rule p r s)) as (evs & l & A & B & C).
    destruct (eval_rule_core p r s) as (Ht1 & _).
    destruct (rule_event_shape p r s) as [st Est].
    exists (tp_rule_event p r s :: evs), (r :: l). split; [|split].
    - rewrite A, Ht1, <- app_assoc. reflexivity.
    - constructor; [exists st; exact Est | exact B].
    - cbn [filter]. unfold tp_cand at 1. rewrite Em, Eph. cbn [is_some negb andb]. apply sub_take, C. }
  destruct (st_allow s) as [[]|]; try exact Go; try exact Stop.
  - destruct (p =? 1); [exact Stop|]. destruct (p =? 2); [exact Stop | exact Go].
  - destruct (p =? 5); [exact Go | exact Stop].
Qed.

Lemma eval_phase_in_order_holds c p s :
  exists evs l, st_trace (tp_eval_phase c p s) = st_trace s ++ EvPhase p :: evs /\
    Forall2 (is_rule_event p) evs l /\ subseq l (tp_phase_rules c p).
Proof.
  unfold tp_eval_phase.
  destruct (eval_loop_subseq p (c_rules c) (add_event (set_last s p) (EvPhase p))) as (evs & l & Ht & Hf & Hs).
  exists evs, l. split; [|split; assumption].
  destruct (st_allow _) as [[]|]; sx; rewrite Ht; sx; rewrite <- app_assoc; reflexivity.
Qed.

(* ---------------------------------------------------------------------------------- *)
(* the history is ordered by phase                                                     *)
(* ---------------------------------------------------------------------------------- *)

Fixpoint nondecr (lo : N) (t : list tp_event) : bool :=
  match t with
  | [] => true
  | e :: t' => match tp_ev_phase e with
               | Some p => (lo <=? p) && nondecr p t'
               | None => nondecr lo t'
               end
  end.

Fixpoint last_ph (lo : N) (t : list tp_event) : N :=
  match t with
  | [] => lo
  | e :: t' => match tp_ev_phase e with Some p => last_ph p t' | None => last_ph lo t' end
  end.

Lemma nondecr_app t1 : forall lo t2,
  nondecr lo (t1 ++ t2) = nondecr lo t1 && nondecr (last_ph lo t1) t2.
Proof.
  induction t1 as [|e t1 IH]; intros lo t2; cbn [app nondecr last_ph]; [reflexivity|].
  destruct (tp_ev_phase e); rewrite IH; [rewrite andb_assoc|]; reflexivity.
Qed.

Lemma last_ph_app t1 : forall lo t2, last_ph lo (t1 ++ t2) = last_ph (last_ph lo t1) t2.
Proof.
  induction t1 as [|e t1 IH]; intros lo t2; cbn [app last_ph]; [reflexivity|].
  destruct (tp_ev_phase e); apply IH.
Qed.

Lemma nondecr_ge t : forall lo, nondecr lo t = true ->
  forall e p, In e t -> tp_ev_phase e = Some p -> lo <= p.
Proof.
  induction t as [|x t IH]; intros lo H e p Hin0 Hp; [contradiction|].
  destruct Hin0 as [->|Hin]; cbn [nondecr] in H.
  - rewrite Hp in H. apply andb_true_iff in H as [H _]. apply N.leb_le, H.
  - destruct (tp_ev_phase x) as [q|].
    + apply andb_true_iff in H as [H1 H2]. apply N.leb_le in H1.
      specialize (IH q H2 e p Hin Hp). lia.
    + apply (IH lo H e p Hin Hp).
Qed.

Lemma last_ph_ge t : forall lo, nondecr lo t = true -> lo <= last_ph lo t.
Proof.
  induction t as [|x t IH]; intros lo H; cbn [nondecr last_ph] in *; [lia|].
  destruct (tp_ev_phase x) as [q|].
  - apply andb_true_iff in H as [H1 H2]. apply N.leb_le in H1. specialize (IH q H2). lia.
  - apply IH, H.
Qed.

Lemma nondecr_pairs t1 e1 t2 e2 t3 p1 p2 :
  nondecr 0 (t1 ++ e1 :: t2 ++ e2 :: t3) = true ->
  tp_ev_phase e1 = Some p1 -> tp_ev_phase e2 = Some p2 -> p1 <= p2.
Proof.
  intros H H1 H2. rewrite nondecr_app in H. apply andb_true_iff in H as [_ H].
  cbn [nondecr] in H. rewrite H1 in H. apply andb_true_iff in H as [_ H].
  apply (nondecr_ge _ _ H e2 p2); [apply in_or_app; right; left; reflexivity | exact H2].
Qed.

Definition Ord (s : tp_state) : Prop :=
  nondecr 0 (st_trace s) = true /\ last_ph 0 (st_trace s) = st_last s /\ st_last s <= 5.

Lemma ord_snoc s e p :
  tp_ev_phase e = Some p -> st_last s <= p -> p <= 5 -> Ord s ->
  forall s', st_trace s' = st_trace s ++ [e] -> st_last s' = p -> Ord s'.
Proof.
  intros Hp Hle H5 (A & B & C) s' Ht Hl. unfold Ord. rewrite Ht, Hl, nondecr_app, last_ph_app, A, B.
  cbn [nondecr last_ph andb]. rewrite Hp. repeat split; try lia.
  rewrite andb_true_r. apply N.leb_le, Hle.
Qed.

Lemma ord_eval_rule p r s : st_last s = p -> Ord s -> Ord (tp_eval_rule p r s).
Proof.
  intros Hl H. destruct (eval_rule_core p r s) as (Ht & _ & _ & Hl').
  destruct (rule_event_shape p r s) as [st Est]. rewrite Est in Ht.
  assert (p <= 5) by (destruct H as (_ & _ & C); lia).
  apply (ord_snoc s (EvRule p r st) p); try assumption; try reflexivity; try lia.
Qed.

Lemma ord_eval_loop p rs : forall s, st_last s = p -> Ord s -> Ord (tp_eval_loop p rs s).
Proof.
  intros s Hl H.
  apply (eval_loop_pres (fun s' => st_last s' = p /\ Ord s') p rs); try (split; assumption).
  - intros s0 k m H0. exact H0.
  - intros s0 a H0. exact H0.
  - intros r s0 _ _ _ _ [L0 H0]. split; [rewrite eval_rule_last; exact L0 | apply ord_eval_rule; assumption].
Qed.

Lemma ord_eval_phase c p s : eval_pre s p -> Ord s -> Ord (tp_eval_phase c p s).
Proof.
  intros Hp H. unfold tp_eval_phase.
  assert (H1 : Ord (add_event (set_last s p) (EvPhase p))).
  { apply (ord_snoc s (EvPhase p) p); try reflexivity; try exact H.
    - destruct H as (_ & _ & C). destruct Hp as [(A & B & _) | ->]; lia.
    - destruct Hp as [(A & _) | ->]; lia. }
  assert (H2 : Ord (tp_eval_loop p (c_rules c) (add_event (set_last s p) (EvPhase p)))).
  { apply ord_eval_loop; [reflexivity | exact H1]. }
  destruct (st_allow _) as [[]|]; exact H2.
Qed.

Lemma ord_limit_intr s st : Ord s -> Ord (tp_limit_intr s st).
Proof.
  intros (A & B & C). unfold tp_limit_intr, Ord. sx.
  destruct (st_intr s); sx; rewrite nondecr_app, last_ph_app, A, B; cbn; auto.
Qed.

Lemma ord_run c ks : Ord (tp_run c ks).
Proof.
  unfold tp_run. apply (run_from_pres Ord c).
  - intros s k H. apply step_pres_gen; auto using ord_limit_intr.
    intros s0 p H0 Hp. apply ord_eval_phase; assumption.
  - unfold Ord. cbn. repeat split; try reflexivity. lia.
Qed.

Lemma phase_order_holds c ks t1 e1 t2 e2 t3 p1 p2 :
  st_trace (tp_run c ks) = t1 ++ e1 :: t2 ++ e2 :: t3 ->
  tp_ev_phase e1 = Some p1 -> tp_ev_phase e2 = Some p2 -> p1 <= p2.
Proof.
  intros E. destruct (ord_run c ks) as (A & _). rewrite E in A. apply (nondecr_pairs _ _ _ _ _ _ _ A).
Qed.

(* ---------------------------------------------------------------------------------- *)
(* every evaluated rule is a rule of the configuration, evaluated in its own phase      *)
(* ---------------------------------------------------------------------------------- *)

Definition rule_events_ok (c : tp_cfg) (t : list tp_event) : Prop :=
  Forall (fun e => match e with
                   | EvRule p r _ => In r (c_rules c) /\ r_mark r = None /\ (r_phase r = p \/ r_phase r = 0)
                   | _ => True end) t.

Lemma rules_in_config_eval_phase c p s :
  rule_events_ok c (st_trace s) -> rule_events_ok c (st_trace (tp_eval_phase c p s)).
Proof.
  intro H. destruct (eval_phase_in_order_holds c p s) as (evs & l & Ht & Hf & Hs). rewrite Ht.
  unfold rule_events_ok. apply Forall_app. split; [exact H|]. constructor; [exact I|].
  assert (Hl : forall r, In r l -> In r (c_rules c) /\ r_mark r = None /\ (r_phase r = p \/ r_phase r = 0)).
  { intros r Hr. apply (subseq_in _ _ _ Hs) in Hr. unfold tp_phase_rules in Hr.
    apply filter_In in Hr as [A B]. split; [exact A|]. unfold tp_cand in B.
    apply andb_true_iff in B as [B1 B2]. split.
    - destruct (r_mark r); [discriminate | reflexivity].
    - apply orb_true_iff in B2 as [E|E]; apply N.eqb_eq in E; auto. }
  clear Ht Hs. revert Hl. induction Hf as [|e r evs' l' HR _ IH]; intro Hl; constructor.
  - destruct HR as [st ->]. apply Hl. left. reflexivity.
  - apply IH. intros r' Hr'. apply Hl. right. exact Hr'.
Qed.

Lemma rules_in_config_holds c ks : rule_events_ok c (st_trace (tp_run c ks)).
Proof.
  unfold tp_run. apply (run_from_pres (fun s => rule_events_ok c (st_trace s)) c).
  - intros s k H. apply (step_pres_gen (fun s => rule_events_ok c (st_trace s))); auto.
    + intros s0 st H0. unfold tp_limit_intr. sx. destruct (st_intr s0); sx;
        apply Forall_app; (split; [exact H0 | constructor; [exact I | constructor]]).
    + intros s0 p H0 _. apply rules_in_config_eval_phase, H0.
  - constructor.
Qed.

(* ---------------------------------------------------------------------------------- *)
(* every rule of phases 1-4 is evaluated at most once                                   *)
(* ---------------------------------------------------------------------------------- *)

Lemma count_rule_app id t1 t2 :
  tp_count_rule id (t1 ++ t2) = (tp_count_rule id t1 + tp_count_rule id t2)%nat.
Proof. unfold tp_count_rule. rewrite filter_app, app_length. reflexivity. Qed.

Lemma count_phase_app p t1 t2 :
  tp_count_phase p (t1 ++ t2) = (tp_count_phase p t1 + tp_count_phase p t2)%nat.
Proof. unfold tp_count_phase. rewrite filter_app, app_length. reflexivity. Qed.

Definition id_count (id : N) (l : list tp_rule) : nat := length (filter (fun r => r_id r =? id) l).

Lemma count_rule_block p id evs l :
  Forall2 (is_rule_event p) evs l -> tp_count_rule id evs = id_count id l.
Proof.
  unfold tp_count_rule, id_count. induction 1 as [|e r evs l [st ->] _ IH]; [reflexivity|].
  cbn [filter]. destruct (r_id r =? id); cbn [length]; rewrite IH; reflexivity.
Qed.

Lemma count_phase_block p q evs l :
  Forall2 (is_rule_event p) evs l -> tp_count_phase q evs = 0%nat.
Proof.
  unfold tp_count_phase. induction 1 as [|e r evs l [st ->] _ IH]; [reflexivity|]. cbn [filter]. exact IH.
Qed.

Lemma id_count_subseq id l1 l2 : subseq l1 l2 -> (id_count id l1 <= id_count id l2)%nat.
Proof.
  unfold id_count. induction 1 as [l|x l1 l2 _ IH|x l1 l2 _ IH]; cbn [filter length]; try lia;
    destruct (r_id x =? id); cbn [length]; lia.
Qed.

Lemma id_count_filter id (g : tp_rule -> bool) l : (id_count id (filter g l) <= id_count id l)%nat.
Proof.
  unfold id_count. induction l as [|a l IH]; cbn [filter length]; [lia|].
  destruct (g a); cbn [filter]; destruct (r_id a =? id); cbn [length]; lia.
Qed.

Lemma id_count_notin id l : ~ In id (map r_id l) -> id_count id l = 0%nat.
Proof.
  unfold id_count. induction l as [|a l IH]; intro H; cbn [filter]; [reflexivity|].
  destruct (N.eqb_spec (r_id a) id) as [E|E].
  - exfalso. apply H. left. exact E.
  - apply IH. intro K. apply H. right. exact K.
Qed.

Lemma id_count_nodup id l : NoDup (map r_id l) -> (id_count id l <= 1)%nat.
Proof.
  induction l as [|a l IH]; intro H; [cbn; lia|]. cbn [map] in H. inversion H as [|x xs Hn Hd]; subst.
  unfold id_count in *. cbn [filter]. destruct (N.eqb_spec (r_id a) id) as [E|E]; cbn [length].
  - rewrite <- E. pose proof (id_count_notin (r_id a) l Hn) as K. unfold id_count in K. rewrite K. lia.
  - apply IH, Hd.
Qed.

Lemma id_count_pos_in id l : (0 < id_count id l)%nat -> exists r, In r l /\ r_id r = id.
Proof.
  unfold id_count. induction l as [|a l IH]; cbn [filter length]; [lia|].
  destruct (N.eqb_spec (r_id a) id) as [E|E].
  - intros _. exists a. split; [left; reflexivity | exact E].
  - intro H. destruct (IH H) as (r & A & B). exists r. split; [right; exact A | exact B].
Qed.

Lemma nodup_map_inj (l : list tp_rule) a b :
  NoDup (map r_id l) -> In a l -> In b l -> r_id a = r_id b -> a = b.
Proof.
  induction l as [|x l IH]; intros H Ha Hb E; [contradiction|].
  cbn [map] in H. inversion H as [|y ys Hn Hd]; subst.
  destruct Ha as [->|Ha], Hb as [->|Hb]; try reflexivity.
  - exfalso. apply Hn. rewrite E. apply in_map, Hb.
  - exfalso. apply Hn. rewrite <- E. apply in_map, Ha.
  - apply IH; assumption.
Qed.

(* the entries that are rules (SecMarker entries have no id of their own) *)
Definition tp_real_rules (c : tp_cfg) : list tp_rule :=
  filter (fun r => negb (is_some (r_mark r))) (c_rules c).

Lemma phase_rules_real c p :
  tp_phase_rules c p = filter (fun r => (r_phase r =? 0) || (r_phase r =? p)) (tp_real_rules c).
Proof.
  unfold tp_phase_rules, tp_real_rules, tp_cand. induction (c_rules c) as [|r l IH]; cbn [filter]; [reflexivity|].
  destruct (negb (is_some (r_mark r))); cbn [andb filter]; [|exact IH].
  destruct ((r_phase r =? 0) || (r_phase r =? p)); rewrite IH; reflexivity.
Qed.

Section Once.
Variable c : tp_cfg.
Hypothesis Hnd : NoDup (map r_id (tp_real_rules c)).

Definition Once (s : tp_state) : Prop :=
  forall r, In r (tp_real_rules c) -> 1 <= r_phase r ->
  (tp_count_rule (r_id r) (st_trace s) <= tp_count_phase (r_phase r) (st_trace s))%nat.

Lemma once_eval_phase p s : Once s -> Once (tp_eval_phase c p s).
Proof.
  intros H r Hr Hph. destruct (eval_phase_in_order_holds c p s) as (evs & l & Ht & Hf & Hs). rewrite Ht.
  change (st_trace s ++ EvPhase p :: evs) with (st_trace s ++ [EvPhase p] ++ evs).
  rewrite !count_rule_app, !count_phase_app.
  rewrite (count_rule_block p _ _ _ Hf), (count_phase_block p _ _ _ Hf).
  specialize (H r Hr Hph).
  assert (A : tp_count_rule (r_id r) [EvPhase p] = 0%nat) by reflexivity. rewrite A.
  assert (B : tp_count_phase (r_phase r) [EvPhase p] = if p =? r_phase r then 1%nat else 0%nat).
  { unfold tp_count_phase. cbn [filter]. destruct (p =? r_phase r); reflexivity. }
  rewrite B.
  pose proof (id_count_subseq (r_id r) _ _ Hs) as C1.
  rewrite phase_rules_real in C1.
  pose proof (id_count_filter (r_id r) (fun r => (r_phase r =? 0) || (r_phase r =? p)) (tp_real_rules c)) as C2.
  pose proof (id_count_nodup (r_id r) (tp_real_rules c) Hnd) as C3.
  destruct (N.eqb_spec p (r_phase r)) as [E|E]; [lia|].
  assert (Z : id_count (r_id r) (filter (fun r => (r_phase r =? 0) || (r_phase r =? p)) (tp_real_rules c)) = 0%nat).
  { match goal with |- ?x = 0%nat => destruct x eqn:K end; [reflexivity|]. exfalso.
    destruct (id_count_pos_in (r_id r) (filter (fun r => (r_phase r =? 0) || (r_phase r =? p)) (tp_real_rules c)))
      as (r' & Hin & Hid); [lia|].
    apply filter_In in Hin as [Hin Hph']. 
    assert (r' = r) by (apply (nodup_map_inj (tp_real_rules c)); assumption). subst r'.
    apply orb_true_iff in Hph' as [E'|E']; apply N.eqb_eq in E'; [lia | congruence]. }
  lia.
Qed.

Lemma once_run ks : Once (tp_run c ks).
Proof.
  unfold tp_run. apply (run_from_pres Once c).
  - intros s k H. apply (step_pres_gen Once c); auto.
    + intros s0 st H0 r Hr Hph. specialize (H0 r Hr Hph). unfold tp_limit_intr. sx.
      destruct (st_intr s0); sx; rewrite count_rule_app, count_phase_app; cbn; lia.
    + intros s0 p H0 _. apply once_eval_phase, H0.
  - intros r _ _. cbn. lia.
Qed.

Lemma rule_at_most_once_holds ks r :
  In r (c_rules c) -> r_mark r = None -> 1 <= r_phase r <= 4 ->
  (tp_count_rule (r_id r) (st_trace (tp_run c ks)) <= 1)%nat.
Proof.
  intros Hr Hm Hp.
  assert (Hr' : In r (tp_real_rules c)).
  { unfold tp_real_rules. apply filter_In. split; [exact Hr | rewrite Hm; reflexivity]. }
  pose proof (once_run ks r Hr' (proj1 Hp)) as A.
  pose proof (phase_at_most_once_holds c ks (r_phase r) Hp). lia.
Qed.
End Once.

(* ---------------------------------------------------------------------------------- *)
(* flow actions work only within their phase; the logging phase evaluates ALL its rules *)
(* ---------------------------------------------------------------------------------- *)

(* tx.Skip, tx.SkipAfter and allow:phase are at rest between calls *)
Definition Flow (s : tp_state) : Prop :=
  st_skip s = 0 /\ st_skipafter s = None /\ st_allow s <> Some SPhase.

Lemma flow_run c ks : Flow (tp_run c ks).
Proof.
  unfold tp_run. apply (run_from_pres Flow c).
  - intros s k H. apply (step_pres_gen Flow c); auto.
    + intros s0 st H0. unfold tp_limit_intr, Flow in *. sx. destruct (st_intr s0); sx; exact H0.
    + intros s0 p _ _. apply eval_phase_flow.
  - unfold Flow. cbn. repeat split; discriminate.
Qed.

(* a rule without skip / skipAfter / allow:phase *)
Definition tp_flowfree (r : tp_rule) : bool :=
  (r_skip r =? 0) && negb (is_some (r_skipafter r)) &&
  match r_act r with Some (DAllow SPhase) => false | _ => true end.

(* the logging-phase rules carry no skip / skipAfter / allow:phase *)
Definition tp_log_plain (c : tp_cfg) : bool :=
  forallb (fun r => negb (tp_cand 5 r) || tp_flowfree r) (c_rules c).

Lemma eval_rule_flowfree p r s :
  tp_flowfree r = true -> Flow s -> Flow (tp_eval_rule p r s).
Proof.
  unfold tp_flowfree, Flow. intros Hf (Hk & Hm & Ha).
  apply andb_true_iff in Hf as [Hf Hact]. apply andb_true_iff in Hf as [Hsk Hsa]. apply N.eqb_eq in Hsk.
  unfold tp_eval_rule. destruct (tp_holds s (r_cond r)); [|sx; auto].
  destruct (r_ctl r) as [m|];
  match goal with |- context [match r_chain r with Some c => tp_holds ?s1 c | None => true end] =>
    destruct (match r_chain r with Some c => tp_holds s1 c | None => true end) end; sx; auto;
  unfold tp_exec_flow, tp_exec_dact, tp_allow, tp_interrupt; rewrite Hsk;
  (destruct (r_skipafter r); [discriminate|]); cbn [N.ltb N.compare]; sx;
  destruct (r_act r) as [[| | | | |[]]|] eqn:Ea; try discriminate; unfold tp_intr_of; rewrite ?Ea; sx;
  try destruct m; sx; try destruct (st_engine s); sx; try destruct (st_intr s); try destruct (st_dintr s); sx;
  repeat split; auto; discriminate.
Qed.

Lemma eval_loop_logging_all rs : forall s,
  forallb (fun r => negb (tp_cand 5 r) || tp_flowfree r) rs = true -> Flow s ->
  exists evs, st_trace (tp_eval_loop 5 rs s) = st_trace s ++ evs /\
    Forall2 (is_rule_event 5) evs (filter (tp_cand 5) rs).
Proof.
  induction rs as [|r rs IH]; intros s Hrs Hf; cbn [tp_eval_loop filter].
  { exists []. rewrite app_nil_r. split; constructor. }
  cbn [forallb] in Hrs. apply andb_true_iff in Hrs as [Hr Hrs].
  change (5 =? 5) with true. cbn [negb]. rewrite andb_false_r.
  destruct Hf as (Hk & Hm & Ha).
  assert (Ec : tp_cand 5 r = negb (is_some (r_mark r)) && ((r_phase r =? 0) || (r_phase r =? 5))) by reflexivity.
  rewrite Ec. destruct ((r_phase r =? 0) || (r_phase r =? 5)) eqn:Eph; cbn [negb].
  2:{ rewrite andb_false_r. apply IH; [exact Hrs | repeat split; assumption]. }
  rewrite Hm, Hk. cbn [N.ltb N.compare]. rewrite andb_true_r.
  assert (Go : exists evs,
     st_trace (tp_eval_loop 5 rs (if is_some (r_mark r) then s else tp_eval_rule 5 r s)) = st_trace s ++ evs /\
     Forall2 (is_rule_event 5) evs
       (if negb (is_some (r_mark r)) then r :: filter (tp_cand 5) rs else filter (tp_cand 5) rs)).
  { destruct (r_mark r) eqn:Em; cbn [is_some negb].
    - apply IH; [exact Hrs | repeat split; assumption].
    - assert (Hff : tp_flowfree r = true).
      { rewrite Ec in Hr. exact Hr. }
      destruct (IH (tp_eval_rule 5 r s) Hrs) as (evs & A & B).
      { apply eval_rule_flowfree; [exact Hff | repeat split; assumption]. }
      destruct (eval_rule_core 5 r s) as (Ht1 & _).
      destruct (rule_event_shape 5 r s) as [st Est].
      exists (tp_rule_event 5 r s :: evs). split.
      + rewrite A, Ht1, <- app_assoc. reflexivity.
      + constructor; [exists st; exact Est | exact B]. }
  destruct (st_allow s) as [[]|]; try exact Go. contradiction Ha. reflexivity.
Qed.

(* ProcessLogging in any reachable state (interrupted or not, whatever skip / skipAfter / allow the
   earlier phases executed): exactly the logging-phase rules are evaluated, all of them, in order *)
Lemma logging_runs_all_holds c ks :
  tp_log_plain c = true -> is_off (tp_run c ks) = false ->
  exists evs, st_trace (tp_log c (tp_run c ks)) = st_trace (tp_run c ks) ++ EvPhase 5 :: evs /\
    Forall2 (is_rule_event 5) evs (tp_phase_rules c 5).
Proof.
  intros Hp Hoff. unfold tp_log. rewrite Hoff. unfold tp_eval_phase.
  set (s := tp_run c ks). pose proof (flow_run c ks) as Hf. fold s in Hf.
  destruct (eval_loop_logging_all (c_rules c) (add_event (set_last s 5) (EvPhase 5)) Hp) as (evs & A & B).
  { unfold Flow in *. sx. exact Hf. }
  exists evs. split; [|exact B].
  destruct (st_allow _) as [[]|]; sx; rewrite A; sx; rewrite <- app_assoc; reflexivity.
Qed.

(* "exactly the phase-5 rules a fresh state would": the flow state ProcessLogging starts from is the
   one of a fresh transaction *)
Lemma logging_as_fresh_holds c ks :
  tp_log c (tp_run c ks) = tp_log c (set_flow (tp_run c ks) 0 None).
Proof.
  destruct (flow_run c ks) as (A & B & _). f_equal.
  destruct (tp_run c ks). cbn in *. subst. reflexivity.
Qed.

(* ---- non-vacuity for the two clauses above ---- *)

(* "deny,log,pass" passes; "deny,log,status:307,redirect" redirects with 307 *)
Example ex_action_lists :
  let w := mkWaf MOn []
     [ rl 1 1 CTrue None [IInert; IDis DDeny; IInert; IDis DPass];
       rl 2 1 CTrue None [IDis DDeny; IInert; IStatus 307; IDis (DRedirect [47; 120])] ]
     false 8%Z LReject false 8%Z LPartial in
  let s := tp_run (tp_compile w) [KPRH] in
  st_intr s = Some (mkIntr 2 KRedirect 307 [47; 120]) /\ tp_matched (st_trace s) = [(1, true); (2, true)].
Proof. vm_compute. auto. Qed.

(* the interrupting rule also carries skipAfter:M1 / skip:2: every logging rule still runs *)
Example ex_flow_after_interrupt :
  let w := mkWaf MOn []
     [ rl 10 1 CTrue None [IDis DDeny; IStatus 403; ISkipAfter 1];
       rl 11 1 CTrue None [IDis DDeny; IStatus 401];
       rl 50 5 CTrue None [IDis DPass];
       mkRaw (Some 1) 0 0 CTrue None [];
       rl 51 5 CTrue None [IDis DPass] ]
     false 8%Z LReject false 8%Z LPartial in
  let c := tp_compile w in
  let s := tp_run c [KPRH; KPRB; KPRespH; KLog] in
  tp_log_plain c = true /\ st_intr s = Some (mkIntr 10 KDeny 403 []) /\
  tp_matched (st_trace s) = [(10, true); (50, true); (51, true)] /\
  st_skipafter (tp_run c [KPRH]) = None.
Proof. vm_compute. auto 10. Qed.

(* skip:1 without interruption does skip the next rule of the phase (markers count) *)
Example ex_skip_counts :
  let w := mkWaf MOn []
     [ rl 1 1 CTrue None [IDis DPass; ISkip 2];
       mkRaw (Some 7) 0 0 CTrue None [];
       rl 2 1 CTrue None [IDis DDeny];
       rl 3 1 CTrue None [IDis DDrop; IStatus 500] ]
     false 8%Z LReject false 8%Z LPartial in
  st_intr (tp_run (tp_compile w) [KPRH]) = Some (mkIntr 3 KDrop 500 []).
Proof. vm_compute. auto. Qed.

(* ---------------------------------------------------------------------------------- *)
(* the status of a redirect interruption is always one of 301, 302, 303, 307            *)
(* ---------------------------------------------------------------------------------- *)

Lemma intr_of_redirect_status r i :
  tp_intr_of r = Some i -> i_kind i = KRedirect -> In (i_status i) tp_redirect_codes.
Proof.
  intros H K. destruct (status_mapping_holds r i H) as [_ M]. rewrite K in M. apply M.
Qed.

Lemma first_intr_redirect_status m t i :
  tp_first_intr m t = Some i -> i_kind i = KRedirect -> In (i_status i) tp_redirect_codes.
Proof.
  induction t as [|e t IH]; cbn [tp_first_intr]; [discriminate|].
  destruct (tp_ev_intr m e) as [j|] eqn:E; [|exact IH].
  intros H K. inversion H; subst j. clear H.
  destruct e as [p|p r st|n]; cbn [tp_ev_intr] in E; try discriminate.
  - destruct st as [| |m']; try discriminate.
    destruct m, m'; try discriminate; apply (intr_of_redirect_status r i E K).
  - destruct m; try discriminate. inversion E; subst i. discriminate.
Qed.

(* whatever the configuration (status on the rule, inherited from SecDefaultAction, any value) and
   whatever the calls: a recorded or would-be redirect interruption carries 301, 302, 303 or 307 *)
Lemma redirect_status_whitelisted_holds c ks i :
  (st_intr (tp_run c ks) = Some i \/ st_dintr (tp_run c ks) = Some i) -> i_kind i = KRedirect ->
  In (i_status i) tp_redirect_codes.
Proof.
  intros [H|H] K.
  - rewrite first_disruptive_holds in H. apply (first_intr_redirect_status _ _ _ H K).
  - rewrite would_be_first_holds in H. apply (first_intr_redirect_status _ _ _ H K).
Qed.

(* the edges of the whitelist *)
Example ex_redirect_edges :
  map tp_redirect_status [0; 200; 300; 301; 302; 303; 304; 305; 306; 307; 308; 401; 999] =
  [302; 302; 302; 301; 302; 303; 302; 302; 302; 307; 302; 302; 302].
Proof. reflexivity. Qed.

(* ---------------------------------------------------------------------------------- *)
(* per-transaction body settings changed by ctl (tb_step)                               *)
(* ---------------------------------------------------------------------------------- *)

Lemma body_of_nil c t : tp_body_of c [] t = mkBody (c_reqacc c) (c_reqlim c) (c_respacc c) (c_resplim c).
Proof.
  unfold tp_body_of. generalize (mkBody (c_reqacc c) (c_reqlim c) (c_respacc c) (c_resplim c)).
  induction t as [|e t IH]; intro b; cbn [fold_left]; [reflexivity|].
  rewrite IH. destruct e as [p|p r [| |m]|n]; reflexivity.
Qed.

(* without body ctls the layered machine is the plain one *)
Lemma tb_step_nil c s k : tb_step c [] s k = tp_step c s k.
Proof. unfold tb_step. rewrite body_of_nil. destruct k; reflexivity. Qed.

Lemma tb_step_pres (P : tp_state -> Prop) c bm :
  (forall s k, P s -> P (fst (tp_step c s k))) ->
  (forall s z, P s -> P (set_reqlen s z)) -> (forall s z, P s -> P (set_resplen s z)) ->
  (forall s, P s -> P (fst (tp_prb c s))) -> (forall s, P s -> P (fst (tp_prespb c s))) ->
  (forall s st, P s -> P (tp_limit_intr s st)) ->
  forall s k, P s -> P (fst (tb_step c bm s k)).
Proof.
  intros Hs Hq Hr Hb Hpb Hl s k H. unfold tb_step.
  destruct k; try apply Hs; try exact H; apply body_write_pres; auto.
Qed.

Lemma tb_run_from_pres (P : tp_state -> Prop) c bm :
  (forall s k, P s -> P (fst (tb_step c bm s k))) ->
  forall ks s, P s -> P (tb_run_from c bm s ks).
Proof.
  intros Hs ks. induction ks as [|k ks IH]; intros s H; cbn; [exact H | apply IH, Hs, H].
Qed.

Lemma inv_tb_run c bm ks : Inv (tb_run c bm ks).
Proof.
  unfold tb_run. apply (tb_run_from_pres Inv c bm); [|apply inv_init].
  intros s k H. apply tb_step_pres; auto using inv_step, inv_prb, inv_prespb, inv_limit_intr.
Qed.

Lemma tb_first_disruptive_holds c bm ks :
  st_intr (tb_run c bm ks) = tp_first_intr MOn (st_trace (tb_run c bm ks)).
Proof. apply (inv_tb_run c bm ks). Qed.

Lemma tb_no_eval_after_interrupt_holds c bm ks t1 t2 :
  st_trace (tb_run c bm ks) = t1 ++ t2 -> tp_first_intr MOn t1 <> None ->
  Forall (fun e => tp_late_ok e = true) t2.
Proof.
  intros E H. pose proof (inv_late _ _ _ _ (inv_tb_run c bm ks)) as L. rewrite E in L.
  apply (after_ok_split t1 false t2 L). right. exact H.
Qed.

Lemma tb_interruption_final_step c bm s k i :
  st_intr s = Some i -> st_intr (fst (tb_step c bm s k)) = Some i.
Proof.
  apply (tb_step_pres (fun s => st_intr s = Some i) c bm);
    auto using final_step, final_prb, final_prespb, final_limit_intr.
Qed.

Lemma tb_interruption_final_run c bm ks ks' i :
  st_intr (tb_run c bm ks) = Some i -> st_intr (tb_run c bm (ks ++ ks')) = Some i.
Proof.
  unfold tb_run, tb_run_from. rewrite fold_left_app.
  apply (tb_run_from_pres (fun s => st_intr s = Some i) c bm). intros s k. apply tb_interruption_final_step.
Qed.

(* a request-body write that reaches the transaction's CURRENT limit (the WAF-wide one or the one a ctl
   of an earlier rule set) with action Reject records and returns the 413 interruption, buffers nothing *)
Lemma tb_limit_reject_req c bm s n :
  let b := tp_body_of c bm (st_trace s) in
  is_off s = false -> b_reqacc b = true -> c_reqact c = LReject -> st_intr s = None ->
  b_reqlim b <> st_reqlen s -> (b_reqlim b <= st_reqlen s + n)%Z ->
  let r := tb_step c bm s (KWReq n) in
  st_intr (fst r) = Some (mkIntr 0 KDeny 413 []) /\
  tp_ret_intr (snd r) = Some (mkIntr 0 KDeny 413 []) /\ st_reqlen (fst r) = st_reqlen s.
Proof.
  cbn zeta. intros Off Acc Act Hi Hne Hov. unfold tb_step, tp_body_write. rewrite Off, Acc, Act. cbn [negb].
  destruct (Z.eqb_spec (b_reqlim (tp_body_of c bm (st_trace s))) (st_reqlen s)); [contradiction|].
  destruct (Z.leb_spec (b_reqlim (tp_body_of c bm (st_trace s))) (st_reqlen s + n)); [|lia].
  unfold tp_limit_intr. sx. rewrite Hi. sx. auto.
Qed.

Lemma tb_limit_reject_resp c bm s n :
  let b := tp_body_of c bm (st_trace s) in
  is_off s = false -> b_respacc b = true -> c_respact c = LReject -> st_intr s = None ->
  b_resplim b <> st_resplen s -> (b_resplim b <= st_resplen s + n)%Z ->
  let r := tb_step c bm s (KWResp n) in
  st_intr (fst r) = Some (mkIntr 0 KDeny 500 []) /\
  tp_ret_intr (snd r) = Some (mkIntr 0 KDeny 500 []) /\ st_resplen (fst r) = st_resplen s.
Proof.
  cbn zeta. intros Off Acc Act Hi Hne Hov. unfold tb_step, tp_body_write. rewrite Off, Acc, Act. cbn [negb].
  destruct (Z.eqb_spec (b_resplim (tp_body_of c bm (st_trace s))) (st_resplen s)); [contradiction|].
  destruct (Z.leb_spec (b_resplim (tp_body_of c bm (st_trace s))) (st_resplen s + n)); [|lia].
  unfold tp_limit_intr. sx. rewrite Hi. sx. auto.
Qed.

Lemma tb_limit_below_req c bm s n :
  let b := tp_body_of c bm (st_trace s) in
  is_off s = false -> b_reqacc b = true -> b_reqlim b <> st_reqlen s -> (st_reqlen s + n < b_reqlim b)%Z ->
  let r := tb_step c bm s (KWReq n) in
  st_intr (fst r) = st_intr s /\ st_reqlen (fst r) = (st_reqlen s + n)%Z /\ st_trace (fst r) = st_trace s.
Proof.
  cbn zeta. intros Off Acc Hne Hlt. unfold tb_step, tp_body_write. rewrite Off, Acc. cbn [negb].
  destruct (Z.eqb_spec (b_reqlim (tp_body_of c bm (st_trace s))) (st_reqlen s)); [contradiction|].
  destruct (Z.leb_spec (b_reqlim (tp_body_of c bm (st_trace s))) (st_reqlen s + n)); [lia|]. sx. auto.
Qed.

Lemma tb_access_off c bm s n :
  b_reqacc (tp_body_of c bm (st_trace s)) = false ->
  fst (tb_step c bm s (KWReq n)) = s /\ tp_ret_intr (snd (tb_step c bm s (KWReq n))) = None.
Proof. intro Acc. unfold tb_step, tp_body_write. rewrite Acc. destruct (is_off s); auto. Qed.

(* the ctl takes effect while the request (response) headers phase has not been passed *)
Lemma bctl_effect p b n a :
  b_reqlim (tp_exec_bctl1 p b (BReqLimit n)) = (if p <=? 1 then n else b_reqlim b) /\
  b_resplim (tp_exec_bctl1 p b (BRespLimit n)) = (if p <=? 3 then n else b_resplim b) /\
  b_reqacc (tp_exec_bctl1 p b (BReqAcc a)) = (if p <=? 1 then a else b_reqacc b) /\
  b_respacc (tp_exec_bctl1 p b (BRespAcc a)) = (if p <=? 3 then a else b_respacc b).
Proof. unfold tp_exec_bctl1. destruct (p <=? 1), (p <=? 3); cbn; auto. Qed.

(* end to end: WAF-wide limit 8, a phase-1 rule lowers it to 4; 5 bytes are rejected with 413 (before the
   rule ran they are buffered), the interruption is final; a phase-2 ctl comes too late; F12 unchanged *)
Definition ctl_waf (ph : N) (extra : list tp_item) : tp_waf :=
  mkWaf MOn [] [ mkRaw None 1 ph CTrue None (IBody (BReqLimit 4) :: IDis DPass :: extra);
                 mkRaw None 2 2 CTrue None [IDis DDeny] ]
        true 8%Z LReject true 8%Z LReject.

Example ex_ctl_limit :
  let run w ks := tb_run (tp_compile w) (tp_compile_bmap w) ks in
  let lim w ks := b_reqlim (tp_body_of (tp_compile w) (tp_compile_bmap w) (st_trace (run w ks))) in
  lim (ctl_waf 1 []) [KPRH] = 4%Z /\
  st_intr (run (ctl_waf 1 []) [KPRH; KWReq 5]) = Some (mkIntr 0 KDeny 413 []) /\
  st_intr (run (ctl_waf 1 []) [KPRH; KWReq 5; KPRB; KLog]) = Some (mkIntr 0 KDeny 413 []) /\
  st_intr (run (ctl_waf 1 []) [KWReq 5; KPRH]) = None /\
  st_intr (run (ctl_waf 1 []) [KPRH; KWReq 3; KPRB]) = Some (mkIntr 2 KDeny 403 []) /\
  lim (ctl_waf 2 []) [KPRH; KPRB] = 8%Z /\
  st_intr (run (ctl_waf 1 [ICtl MDet]) [KPRH; KWReq 5]) = Some (mkIntr 0 KDeny 413 []).
Proof. vm_compute. auto 10. Qed.
