(* BodyBuffer.v — executable model of internal/corazawaf/body_buffer.go.

   BodyBuffer{options{Limit,MemoryLimit}, buffer *bytes.Buffer, writer *os.File, length int64}
   is the record [bbuf]: [bb_mem] = bytes of the memory buffer, [bb_file] = [Some f] once the
   spill file exists (f = its bytes), [bb_len] = the field length.  The file system itself is an
   oracle (os.CreateTemp / Write / ReadAt are assumed to store and return what was written; fault
   injection belongs to C20).  Sizes are Go int64 values, modelled in Z (no wrap-around: the
   callers' overflow guard and the 1 GiB bound of Validate keep every sum far below 2^63). *)
From Verif Require Import Base.
Open Scope Z_scope.

Record bbopt := { bo_limit : Z; bo_mem : Z }.
Record bbuf := { bb_mem : bytes; bb_file : option bytes; bb_len : Z }.

Definition bb_empty : bbuf := {| bb_mem := []; bb_file := None; bb_len := 0 |}.
Definition blen (d : bytes) : Z := Z.of_nat (length d).

(* BodyBuffer.Write, body_buffer.go:50.  Result: new buffer, n, error? *)
Definition bb_write (o : bbopt) (b : bbuf) (d : bytes) : bbuf * Z * bool :=
  if blen d =? 0 then (b, 0, false)
  else if bb_len b >? bo_limit o - blen d then (b, 0, true)          (* "limit reached while writing" *)
  else
    let t := bb_len b + blen d in
    if t >? bo_mem o then
      match bb_file b with
      | None =>      (* create the file, dump the memory buffer, reset it, append data *)
        ({| bb_mem := []; bb_file := Some (bb_mem b ++ d); bb_len := t |}, blen d, false)
      | Some f =>
        ({| bb_mem := bb_mem b; bb_file := Some (f ++ d); bb_len := t |}, blen d, false)
      end
    else ({| bb_mem := bb_mem b ++ d; bb_file := bb_file b; bb_len := t |}, blen d, false).

(* what a reader created by Reader() ranges over: the file when it exists, else the memory buffer
   (bodyBufferReader.Read, body_buffer.go:102) *)
Definition bb_contents (b : bbuf) : bytes :=
  match bb_file b with Some f => f | None => bb_mem b end.

Definition bb_spilled (b : bbuf) : bool :=
  match bb_file b with Some _ => true | None => false end.

(* one Read(p) with len(p) = n of a reader at position pos: the bytes returned and the new position *)
Definition bbr_read (b : bbuf) (pos n : nat) : bytes * nat :=
  let got := firstn n (skipn pos (bb_contents b)) in (got, (pos + length got)%nat).

(* a reader drained with successive buffer sizes ns (each Read call independent of other readers) *)
Fixpoint bbr_drain (b : bbuf) (pos : nat) (ns : list nat) : bytes :=
  match ns with
  | [] => []
  | n :: r => let '(got, pos') := bbr_read b pos n in got ++ bbr_drain b pos' r
  end.

(* BodyBuffer.Reset, body_buffer.go:150 *)
Definition bb_reset (b : bbuf) : bbuf := bb_empty.

(* ---- io.CopyN(buffer, src, n) where src hands out at most rs bytes per Read (rs = 0: as many as
   asked): io.Copy over a LimitedReader with the stdlib's buffer sizing (32 KiB, or n when smaller,
   at least 1), one BodyBuffer.Write per piece; stops at the first write error.
   Result: buffer, bytes written, write error?  (EOF is not an error for the callers.) *)
Definition copy_bufsize (n : Z) : Z :=
  if 32768 >? n then (if n <? 1 then 1 else n) else 32768.

Fixpoint bb_copy_loop (fuel : nat) (o : bbopt) (b : bbuf) (src : bytes) (rs : nat) (size left : Z) (written : Z)
  : bbuf * Z * bool :=
  match fuel with
  | O => (b, written, false)
  | S fuel' =>
    if left <=? 0 then (b, written, false)                      (* LimitedReader: EOF *)
    else
      let want := Z.to_nat (Z.min size left) in
      let want := if Nat.eqb rs 0 then want else Nat.min want rs in
      let piece := firstn want src in
      match piece with
      | [] => (b, written, false)                               (* source exhausted: EOF *)
      | _ =>
        let '(b', n, err) := bb_write o b piece in
        if err then (b', written, true)
        else bb_copy_loop fuel' o b' (skipn want src) rs size (left - n) (written + n)
      end
  end.

Definition bb_copyN (o : bbopt) (b : bbuf) (src : bytes) (rs : nat) (n : Z) : bbuf * Z * bool :=
  bb_copy_loop (S (length src)) o b src rs (copy_bufsize n) n 0.
