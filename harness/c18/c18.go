// Package c18 drives the correspondence for C18 (the net/http middleware blocks completely and
// otherwise passes traffic through intact). Every case is one HTTP exchange through the real
// txhttp.WrapHandler: either over a real net/http server and client (strict ResponseWriter) or
// over httptest.ResponseRecorder (lenient ResponseWriter). Observed: handler-invoked flag, the
// bytes the handler read from req.Body, the transaction's interruption, every call that reached
// the downstream ResponseWriter, and what the client received. The same inputs are evaluated
// by the Gallina model Http.wrap_handler inside Coq. The property's own statement is checked
// on the implementation side against the unwrapped handler (oracle.go).
package c18

import (
	"bytes"
	"encoding/hex"
	"encoding/json"
	"fmt"
	"io"
	"log"
	"net/http"
	"net/http/httptest"
	"net/http/httptrace"
	"net/textproto"
	"os"
	"sort"
	"strings"
	"sync"
	"time"

	coraza "github.com/corazawaf/coraza/v3"
	"github.com/corazawaf/coraza/v3/experimental"
	txhttp "github.com/corazawaf/coraza/v3/http"
	"github.com/corazawaf/coraza/v3/types"
	"github.com/corazawaf/coraza/v3/verifharness/vh"
)

func init() { vh.Register("C18", Run) }

// ---------------------------------------------------------------- case description

type Spec struct {
	Kind   string `json:"kind"` // none | always | contains | status | header
	Action string `json:"a,omitempty"`
	Status int    `json:"status,omitempty"` // 0 = no status action
	Marker string `json:"marker_hex,omitempty"`
	Code   int    `json:"code,omitempty"`
	K      string `json:"k,omitempty"`
	V      string `json:"v,omitempty"`
}

// CtlSpec: a non-disruptive rule of phase 1-3 (condition like Spec) that sets tx.c18flag and
// performs ctl actions on the body settings.
type CtlSpec struct {
	Kind   string `json:"kind"` // always | contains | status | header
	Marker string `json:"marker_hex,omitempty"`
	Code   int    `json:"code,omitempty"`
	K      string `json:"k,omitempty"`
	V      string `json:"v,omitempty"`
	QAcc   string `json:"req_access,omitempty"`  // "" | on | off   ctl:requestBodyAccess (phase 1)
	QLim   int    `json:"req_limit,omitempty"`   // 0 = untouched   ctl:requestBodyLimit (phase 1)
	RAcc   string `json:"resp_access,omitempty"` // ctl:responseBodyAccess
	Force  string `json:"force,omitempty"`       // ctl:forceResponseBodyVariable
	RLim   int    `json:"resp_limit,omitempty"`  // ctl:responseBodyLimit
}

type Op struct {
	Op     string   `json:"op"` // wh set add del w fl rf rd rdall
	C      int      `json:"c,omitempty"`
	K      string   `json:"k,omitempty"`
	V      string   `json:"v,omitempty"`
	Hex    string   `json:"hex,omitempty"`
	Chunks []string `json:"chunks,omitempty"`
	N      int      `json:"n,omitempty"`
}

type Ev struct {
	Ev   string     `json:"ev"` // h b f
	Code int        `json:"code,omitempty"`
	H    [][]string `json:"h,omitempty"` // [key, v1, v2...] sorted by key, tracked keys only
	Hex  string     `json:"hex,omitempty"`
}

type Observed struct {
	Invoked   bool       `json:"invoked"`
	ReadHex   string     `json:"read_hex"`
	Intr      *IntrObs   `json:"intr,omitempty"`
	Trace     []Ev       `json:"trace"`
	Status    int        `json:"status"`
	Headers   [][]string `json:"headers"`
	BodyHex   string     `json:"body_hex"`
	Infos     []int      `json:"infos"`
	Refused   int        `json:"refused_writes,omitempty"` // non-empty writes the downstream writer refused (not compared with the model)
	ClientErr string     `json:"client_error,omitempty"`   // the HTTP client failed (reported with status 0: never equal to the model)
}

type IntrObs struct {
	Action string `json:"action"`
	Status int    `json:"status"`
}

type Case struct {
	Mode       string     `json:"mode"`   // server | recorder
	Engine     string     `json:"engine"` // On | DetectionOnly | Off
	ReqAccess  bool       `json:"req_access"`
	ReqLimit   int        `json:"req_limit"`
	ReqMem     int        `json:"req_mem,omitempty"` // 0 = not configured
	ReqAction  string     `json:"req_action"`
	RespAccess bool       `json:"resp_access"`
	RespLimit  int        `json:"resp_limit"`
	RespAction string     `json:"resp_action"`
	Mimes      []string   `json:"mimes"`
	Ph1        Spec       `json:"ph1"`
	Ph2        Spec       `json:"ph2"`
	Ph3        Spec       `json:"ph3"`
	Ph4        Spec       `json:"ph4"`
	Ctl1       *CtlSpec   `json:"ctl1,omitempty"`
	Ctl2       *CtlSpec   `json:"ctl2,omitempty"`
	Ctl3       *CtlSpec   `json:"ctl3,omitempty"`
	Method     string     `json:"method"`
	ReqCT      string     `json:"req_ct,omitempty"`
	ReqHeaders [][]string `json:"req_headers,omitempty"` // [key, value]
	BodyHex    string     `json:"req_body_hex"`
	Chunked    bool       `json:"chunked,omitempty"`       // unknown length
	Pieces     []int      `json:"pieces,omitempty"`        // the body reaches the middleware in short reads of these sizes (rest in one)
	LenBody    bool       `json:"len_body,omitempty"`      // recorder mode: req.Body has a Len() method
	Hijacker   bool       `json:"hijacker,omitempty"`      // the downstream writer also implements http.Hijacker
	DownRF     bool       `json:"down_readfrom,omitempty"` // the downstream writer also implements io.ReaderFrom (as *http.response does)
	WithOpts   bool       `json:"with_opts,omitempty"`
	Ops        []Op       `json:"ops"`
	Obs        *Observed  `json:"observed,omitempty"`
	FindingKey string     `json:"finding_key,omitempty"`
	Note       string     `json:"note,omitempty"`
}

func unhex(h string) []byte {
	b, err := hex.DecodeString(h)
	if err != nil {
		return nil
	}
	return b
}

// ---------------------------------------------------------------- WAF construction

func actionText(s Spec) string {
	a := s.Action
	if a == "" {
		a = "deny"
	}
	if a == "redirect" {
		a = "redirect:http://r.example/blocked"
	}
	if s.Status != 0 {
		a += fmt.Sprintf(",status:%d", s.Status)
	}
	return a
}

func ruleText(s Spec, phase int) string {
	return ruleTextWith(s, phase, fmt.Sprintf("id:%d,phase:%d,nolog,%s", 100+phase, phase, actionText(s)))
}

func ruleTextWith(s Spec, phase int, act string) string {
	switch s.Kind {
	case "always":
		return fmt.Sprintf("SecAction \"%s\"\n", act)
	case "contains":
		v := "REQUEST_BODY"
		if phase >= 3 {
			v = "RESPONSE_BODY"
		}
		return fmt.Sprintf("SecRule %s \"@contains %s\" \"%s\"\n", v, string(unhex(s.Marker)), act)
	case "status":
		return fmt.Sprintf("SecRule RESPONSE_STATUS \"@streq %d\" \"%s\"\n", s.Code, act)
	case "header":
		v := "REQUEST_HEADERS"
		if phase >= 3 {
			v = "RESPONSE_HEADERS"
		}
		return fmt.Sprintf("SecRule %s:%s \"@streq %s\" \"%s\"\n", v, s.K, s.V, act)
	case "txflag":
		return fmt.Sprintf("SecRule TX:c18flag \"@streq 1\" \"%s\"\n", act)
	}
	return ""
}

func ctlRuleText(k *CtlSpec, phase int) string {
	if k == nil {
		return ""
	}
	act := fmt.Sprintf("id:%d,phase:%d,pass,nolog,setvar:tx.c18flag=1", 200+phase, phase)
	onoff := func(name, v string) {
		switch v {
		case "on":
			act += ",ctl:" + name + "=On"
		case "off":
			act += ",ctl:" + name + "=Off"
		}
	}
	if phase == 1 {
		onoff("requestBodyAccess", k.QAcc)
		if k.QLim > 0 {
			act += fmt.Sprintf(",ctl:requestBodyLimit=%d", k.QLim)
		}
	}
	onoff("responseBodyAccess", k.RAcc)
	onoff("forceResponseBodyVariable", k.Force)
	if k.RLim > 0 {
		act += fmt.Sprintf(",ctl:responseBodyLimit=%d", k.RLim)
	}
	return ruleTextWith(Spec{Kind: k.Kind, Marker: k.Marker, Code: k.Code, K: k.K, V: k.V}, phase, act)
}

func directives(c *Case) string {
	onoff := func(b bool) string {
		if b {
			return "On"
		}
		return "Off"
	}
	var sb strings.Builder
	fmt.Fprintf(&sb, "SecRuleEngine %s\n", c.Engine)
	fmt.Fprintf(&sb, "SecRequestBodyAccess %s\nSecRequestBodyLimit %d\nSecRequestBodyLimitAction %s\n", onoff(c.ReqAccess), c.ReqLimit, c.ReqAction)
	if c.ReqMem > 0 {
		fmt.Fprintf(&sb, "SecRequestBodyInMemoryLimit %d\n", c.ReqMem)
	}
	fmt.Fprintf(&sb, "SecResponseBodyAccess %s\nSecResponseBodyLimit %d\nSecResponseBodyLimitAction %s\n", onoff(c.RespAccess), c.RespLimit, c.RespAction)
	fmt.Fprintf(&sb, "SecResponseBodyMimeType %s\n", strings.Join(c.Mimes, " "))
	// the ctl rules come first in their phase
	sb.WriteString(ctlRuleText(c.Ctl1, 1))
	sb.WriteString(ctlRuleText(c.Ctl2, 2))
	sb.WriteString(ctlRuleText(c.Ctl3, 3))
	sb.WriteString(ruleText(c.Ph1, 1))
	sb.WriteString(ruleText(c.Ph2, 2))
	sb.WriteString(ruleText(c.Ph3, 3))
	sb.WriteString(ruleText(c.Ph4, 4))
	return sb.String()
}

var (
	wafMu    sync.Mutex
	wafCache = map[string]coraza.WAF{}
)

func buildWAF(c *Case) (coraza.WAF, error) {
	d := directives(c)
	wafMu.Lock()
	defer wafMu.Unlock()
	if w, ok := wafCache[d]; ok {
		return w, nil
	}
	w, err := coraza.NewWAF(coraza.NewWAFConfig().WithDirectives(d))
	if err != nil {
		return nil, fmt.Errorf("%v in\n%s", err, d)
	}
	if len(wafCache) > 4000 {
		wafCache = map[string]coraza.WAF{}
	}
	wafCache[d] = w
	return w, nil
}

// spy: a coraza.WAF whose transactions remember their interruption when the middleware finishes
type spyTx struct {
	types.Transaction
	it *types.Interruption
}

func (t *spyTx) ProcessLogging() {
	if it := t.Transaction.Interruption(); it != nil {
		cp := *it
		t.it = &cp
	}
	t.Transaction.ProcessLogging()
}

type spyWAF struct {
	coraza.WAF
	last *spyTx
}

func (s *spyWAF) NewTransaction() types.Transaction {
	s.last = &spyTx{Transaction: s.WAF.NewTransaction()}
	return s.last
}

type spyWAFOpts struct{ *spyWAF }

func (s spyWAFOpts) NewTransactionWithOptions(o experimental.Options) types.Transaction {
	s.last = &spyTx{Transaction: s.WAF.(experimental.WAFWithOptions).NewTransactionWithOptions(o)}
	return s.last
}

// ---------------------------------------------------------------- recording ResponseWriter

func isInfo(c int) bool { return c >= 100 && c <= 199 && c != 101 }

type recW struct {
	under   http.ResponseWriter
	strict  bool
	final   int
	events  []Ev
	tracked map[string]bool
	snap    http.Header // headers of the final status as handed downstream
	refused int
}

func snapHeaders(h http.Header, tracked map[string]bool) [][]string {
	var keys []string
	for k, vs := range h {
		if tracked[k] && len(vs) > 0 {
			keys = append(keys, k)
		}
	}
	sort.Strings(keys)
	out := [][]string{}
	for _, k := range keys {
		out = append(out, append([]string{k}, h[k]...))
	}
	return out
}

func (r *recW) Header() http.Header { return r.under.Header() }

func (r *recW) noteHeader(c int) {
	if r.final != 0 {
		return
	}
	r.events = append(r.events, Ev{Ev: "h", Code: c, H: snapHeaders(r.under.Header(), r.tracked)})
	if !(r.strict && isInfo(c)) {
		r.final = c
		r.snap = r.under.Header().Clone()
	}
}

func (r *recW) WriteHeader(c int) {
	r.noteHeader(c)
	r.under.WriteHeader(c)
}

func (r *recW) Write(b []byte) (int, error) {
	r.noteHeader(200)
	n, err := r.under.Write(b)
	if n == 0 && err != nil && len(b) > 0 {
		r.refused++
	}
	if n > 0 {
		if k := len(r.events); k > 0 && r.events[k-1].Ev == "b" {
			r.events[k-1].Hex += hex.EncodeToString(b[:n])
		} else {
			r.events = append(r.events, Ev{Ev: "b", Hex: hex.EncodeToString(b[:n])})
		}
	}
	return n, err
}

func (r *recW) Flush() {
	r.noteHeader(200)
	if k := len(r.events); k == 0 || r.events[k-1].Ev != "f" {
		r.events = append(r.events, Ev{Ev: "f"})
	}
	if f, ok := r.under.(http.Flusher); ok {
		f.Flush()
	}
}

// the same writer that also offers Hijack (never called), to exercise wrap()'s interface cases
type recWH struct {
	*recW
	http.Hijacker
}

// readFrom: the downstream writer as an io.ReaderFrom (net/http's *http.response is one, so
// io.Copy(w, r) and the release of the buffered body end up here). The bytes go to the real
// writer's ReadFrom when it has one; what it accepted is recorded like a Write.
func (r *recW) readFrom(src io.Reader) (int64, error) {
	var seen []byte
	tee := readerFunc(func(p []byte) (int, error) {
		n, err := src.Read(p)
		if n > 0 {
			r.noteHeader(200) // the writer commits before it takes the first byte
			seen = append(seen, p[:n]...)
		}
		return n, err
	})
	var n int64
	var err error
	if rf, ok := r.under.(io.ReaderFrom); ok {
		n, err = rf.ReadFrom(tee)
	} else {
		n, err = io.Copy(struct{ io.Writer }{r.under}, tee)
	}
	if n == 0 && err != nil && len(seen) > 0 {
		r.refused++
	}
	if n > int64(len(seen)) {
		n = int64(len(seen))
	}
	if n > 0 {
		if k := len(r.events); k > 0 && r.events[k-1].Ev == "b" {
			r.events[k-1].Hex += hex.EncodeToString(seen[:n])
		} else {
			r.events = append(r.events, Ev{Ev: "b", Hex: hex.EncodeToString(seen[:n])})
		}
	}
	return n, err
}

type readerFunc func(p []byte) (int, error)

func (f readerFunc) Read(p []byte) (int, error) { return f(p) }

type recWRF struct{ *recW }

func (r recWRF) ReadFrom(src io.Reader) (int64, error) { return r.readFrom(src) }

type recWHRF struct {
	*recW
	http.Hijacker
}

func (r recWHRF) ReadFrom(src io.Reader) (int64, error) { return r.readFrom(src) }

// ---------------------------------------------------------------- generated handler

type chunkReader struct {
	chunks [][]byte
	given  [][]byte // what Read really handed out
}

func (c *chunkReader) Read(p []byte) (int, error) {
	for len(c.chunks) > 0 && len(c.chunks[0]) == 0 {
		c.chunks = c.chunks[1:]
	}
	if len(c.chunks) == 0 {
		return 0, io.EOF
	}
	n := copy(p, c.chunks[0])
	c.given = append(c.given, append([]byte{}, c.chunks[0][:n]...))
	c.chunks[0] = c.chunks[0][n:]
	return n, nil
}

type handlerRun struct {
	invoked bool
	read    []byte
	ifaceOK bool
	ifaceNo string
	bare    bool // the handler talks to the downstream writer itself (no interceptor)
	ops     []Op // ops as really executed (ReadFrom chunks as delivered)
}

func makeHandler(ops []Op, wantHijacker bool, hr *handlerRun) http.Handler {
	return http.HandlerFunc(func(w http.ResponseWriter, r *http.Request) {
		hr.invoked = true
		hr.ifaceOK = true
		if _, ok := w.(http.Flusher); !ok {
			hr.ifaceOK, hr.ifaceNo = false, "Flusher missing"
		}
		if _, ok := w.(io.ReaderFrom); !ok && !hr.bare {
			hr.ifaceOK, hr.ifaceNo = false, "ReaderFrom missing"
		}
		if _, ok := w.(http.Hijacker); ok != wantHijacker && !hr.bare {
			hr.ifaceOK, hr.ifaceNo = false, fmt.Sprintf("Hijacker presence %v, downstream %v", ok, wantHijacker)
		}
		if _, ok := w.(http.Pusher); ok {
			hr.ifaceOK, hr.ifaceNo = false, "Pusher invented"
		}
		for _, op := range ops {
			done := op
			switch op.Op {
			case "wh":
				w.WriteHeader(op.C)
			case "set":
				w.Header().Set(op.K, op.V)
			case "add":
				w.Header().Add(op.K, op.V)
			case "del":
				w.Header().Del(op.K)
			case "w":
				_, _ = w.Write(unhex(op.Hex))
			case "fl":
				if f, ok := w.(http.Flusher); ok {
					f.Flush()
				}
			case "rf":
				cr := &chunkReader{}
				for _, c := range op.Chunks {
					cr.chunks = append(cr.chunks, unhex(c))
				}
				if rf, ok := w.(io.ReaderFrom); ok {
					_, _ = rf.ReadFrom(cr)
				} else {
					_, _ = io.Copy(struct{ io.Writer }{w}, cr)
				}
				done.Chunks = nil
				for _, g := range cr.given {
					done.Chunks = append(done.Chunks, hex.EncodeToString(g))
				}
				// chunks the copy loop never asked for (a write failed): keep them, the model writes
				// them into a writer that refuses them as well
				for _, rest := range cr.chunks {
					if len(rest) > 0 {
						done.Chunks = append(done.Chunks, hex.EncodeToString(rest))
					}
				}
			case "rd":
				buf := make([]byte, op.N)
				k, _ := io.ReadFull(r.Body, buf)
				hr.read = append(hr.read, buf[:k]...)
			case "rdall":
				b, _ := io.ReadAll(r.Body)
				hr.read = append(hr.read, b...)
			}
			hr.ops = append(hr.ops, done)
		}
	})
}

func trackedKeys(c *Case) map[string]bool {
	t := map[string]bool{"Content-Length": true}
	for _, op := range c.Ops {
		if op.Op == "set" || op.Op == "add" || op.Op == "del" {
			t[op.K] = true
		}
	}
	return t
}

// ---------------------------------------------------------------- shared server

type lenBody struct {
	*bytes.Reader
}

func (lenBody) Close() error { return nil }

type plainReader struct{ io.Reader }

// pieceReader hands the body out in short reads of the chosen sizes; with a pause between the
// pieces the HTTP client sends each one as a chunk of its own (it flushes after every chunk)
type pieceReader struct {
	rest   []byte
	pieces []int
	pause  time.Duration
	begun  bool
}

func (p *pieceReader) Read(b []byte) (int, error) {
	if len(p.rest) == 0 {
		return 0, io.EOF
	}
	if p.begun && p.pause > 0 {
		time.Sleep(p.pause)
	}
	p.begun = true
	n := len(p.rest)
	if len(p.pieces) > 0 {
		if p.pieces[0] > 0 && p.pieces[0] < n {
			n = p.pieces[0]
		}
		p.pieces = p.pieces[1:]
	}
	if n > len(b) {
		n = len(b)
	}
	copy(b, p.rest[:n])
	p.rest = p.rest[n:]
	return n, nil
}

// requestBody builds the reader the request is sent with, and the Content-Length to declare
// (-1 = unknown length)
func requestBody(c *Case, pause time.Duration) (io.Reader, int64) {
	if c.Method == "GET" {
		return nil, 0
	}
	body := unhex(c.BodyHex)
	if len(c.Pieces) > 0 {
		rd := &pieceReader{rest: body, pieces: append([]int{}, c.Pieces...), pause: pause}
		if c.Chunked {
			return rd, -1
		}
		return rd, int64(len(body))
	}
	if c.Chunked {
		return plainReader{bytes.NewReader(body)}, -1
	}
	return bytes.NewReader(body), int64(len(body))
}

type server struct {
	srv *httptest.Server
	mu  sync.Mutex
	cur http.Handler
	cl  *http.Client
}

func newServer() *server {
	s := &server{}
	s.srv = httptest.NewUnstartedServer(http.HandlerFunc(func(w http.ResponseWriter, r *http.Request) {
		s.cur.ServeHTTP(w, r)
	}))
	s.srv.Config.ErrorLog = log.New(io.Discard, "", 0)
	s.srv.Start()
	s.cl = &http.Client{
		Transport:     &http.Transport{DisableCompression: true},
		CheckRedirect: func(*http.Request, []*http.Request) error { return http.ErrUseLastResponse },
	}
	return s
}

func (s *server) close() {
	s.cl.CloseIdleConnections()
	s.srv.Close()
}

type clientResult struct {
	status  int
	headers http.Header
	body    []byte
	infos   []int
	err     string
}

func (s *server) do(c *Case, h http.Handler) (*clientResult, error) {
	s.cur = h
	pause := time.Duration(0)
	if c.Chunked {
		pause = 2 * time.Millisecond
	}
	rd, cl := requestBody(c, pause)
	req, err := http.NewRequest(c.Method, s.srv.URL+"/c18/path?q=1", rd)
	if err != nil {
		return nil, err
	}
	if rd != nil && len(c.Pieces) > 0 {
		req.ContentLength = cl
	}
	if c.ReqCT != "" {
		req.Header.Set("Content-Type", c.ReqCT)
	}
	for _, kv := range c.ReqHeaders {
		req.Header.Add(kv[0], kv[1])
	}
	res := &clientResult{}
	tr := &httptrace.ClientTrace{Got1xxResponse: func(code int, _ textproto.MIMEHeader) error {
		res.infos = append(res.infos, code)
		return nil
	}}
	req = req.WithContext(httptrace.WithClientTrace(req.Context(), tr))
	resp, err := s.cl.Do(req)
	if err != nil {
		return nil, err
	}
	defer resp.Body.Close()
	res.status = resp.StatusCode
	res.headers = resp.Header
	res.body, err = io.ReadAll(resp.Body)
	if err != nil {
		// a broken response stream is an observation, not a harness failure
		res.err = "reading the response body: " + err.Error()
		res.status = 0
	}
	return res, nil
}

// ---------------------------------------------------------------- running one case

type runOut struct {
	obs    Observed
	ops    []Op // ops as executed
	iface  string
	client *clientResult
}

// exchange runs the ops behind h's wrapper (or bare when waf == nil) and collects everything.
func exchange(c *Case, s *server, wrapped bool) (*runOut, error) {
	tracked := trackedKeys(c)
	hr := &handlerRun{}
	if !wrapped || c.Engine == "Off" {
		hr.bare = true
	}
	inner := makeHandler(c.Ops, c.Hijacker && c.Mode == "server", hr)
	var spy *spyWAF
	h := inner
	if wrapped {
		w, err := buildWAF(c)
		if err != nil {
			return nil, err
		}
		spy = &spyWAF{WAF: w}
		if c.WithOpts {
			h = txhttp.WrapHandler(spyWAFOpts{spy}, inner)
		} else {
			h = txhttp.WrapHandler(spy, inner)
		}
	}
	var rec *recW
	outer := http.HandlerFunc(func(w http.ResponseWriter, r *http.Request) {
		rec = &recW{under: w, strict: c.Mode == "server", tracked: tracked}
		if c.Hijacker && c.Mode == "server" {
			if hj, ok := w.(http.Hijacker); ok {
				if c.DownRF {
					h.ServeHTTP(recWHRF{rec, hj}, r)
				} else {
					h.ServeHTTP(recWH{rec, hj}, r)
				}
				return
			}
		}
		if c.DownRF {
			h.ServeHTTP(recWRF{rec}, r)
			return
		}
		h.ServeHTTP(rec, r)
	})
	inner0 := outer
	done := make(chan struct{}, 4)
	outer = func(w http.ResponseWriter, r *http.Request) {
		defer func() { done <- struct{}{} }()
		inner0(w, r)
		if rec.snap == nil {
			// committed by the server when the handler returns: the live map counts
			rec.snap = rec.under.Header().Clone()
		}
	}
	out := &runOut{}
	var cr *clientResult
	if c.Mode == "server" {
		var err error
		cr, err = s.do(c, outer)
		if err != nil {
			// one retry on a fresh connection
			select {
			case <-done:
			case <-time.After(2 * time.Second):
			}
			s.cl.CloseIdleConnections()
			hr2 := &handlerRun{bare: hr.bare}
			*hr = *hr2
			cr, err = s.do(c, outer)
			if err != nil {
				cr = &clientResult{status: 0, headers: http.Header{}, err: err.Error()}
			}
		}
		// the client may have the whole response before the handler goroutine has returned
		select {
		case <-done:
		case <-time.After(10 * time.Second):
			if cr.err == "" {
				return nil, fmt.Errorf("handler did not return")
			}
		}
	} else {
		body := unhex(c.BodyHex)
		rd, cl := requestBody(c, 0)
		req := httptest.NewRequest(c.Method, "http://example.test/c18/path?q=1", rd)
		if rd != nil && len(c.Pieces) > 0 {
			req.ContentLength = cl
		}
		if c.LenBody && c.Method != "GET" && len(c.Pieces) == 0 {
			req.Body = lenBody{bytes.NewReader(body)}
		}
		if c.ReqCT != "" {
			req.Header.Set("Content-Type", c.ReqCT)
		}
		for _, kv := range c.ReqHeaders {
			req.Header.Add(kv[0], kv[1])
		}
		rr := httptest.NewRecorder()
		outer.ServeHTTP(rr, req)
		res := rr.Result()
		cr = &clientResult{status: res.StatusCode, headers: res.Header, body: rr.Body.Bytes()}
	}
	out.client = cr
	out.ops = hr.ops
	if !hr.invoked {
		out.ops = c.Ops
	}
	if hr.invoked && !hr.ifaceOK {
		out.iface = hr.ifaceNo
	}
	o := &out.obs
	o.Invoked = hr.invoked
	o.ReadHex = hex.EncodeToString(hr.read)
	if spy != nil && spy.last != nil && spy.last.it != nil {
		o.Intr = &IntrObs{Action: spy.last.it.Action, Status: spy.last.it.Status}
	}
	if rec != nil {
		o.Trace = rec.events
	}
	if o.Trace == nil {
		o.Trace = []Ev{}
	}
	o.Status = cr.status
	o.ClientErr = cr.err
	// client headers: tracked keys; Content-Length is net/http's own on a real connection;
	// a Content-Type the writer did not get from the middleware was sniffed by the server
	ct := map[string]bool{}
	for k := range tracked {
		ct[k] = true
	}
	if c.Mode == "server" {
		delete(ct, "Content-Length")
	}
	if rec == nil || len(rec.snap["Content-Type"]) == 0 {
		delete(ct, "Content-Type")
	}
	if rec != nil {
		o.Refused = rec.refused
	}
	o.Headers = snapHeaders(cr.headers, ct)
	o.BodyHex = hex.EncodeToString(cr.body)
	o.Infos = cr.infos
	if o.Infos == nil {
		o.Infos = []int{}
	}
	return out, nil
}

// ---------------------------------------------------------------- Coq printing

type printer struct {
	lets []string
	seen map[string]string
}

// the shard prelude opens string_scope after N_scope: no %string / %N suffixes are needed
func hxb(b []byte) string { return `(hx "` + hex.EncodeToString(b) + `")` }
func hxs(s string) string { return hxb([]byte(s)) }
func num(n int) string    { return fmt.Sprintf("%d", n) }

func (p *printer) bs(b []byte) string {
	if len(b) <= 24 {
		return hxb(b)
	}
	k := string(b)
	if n, ok := p.seen[k]; ok {
		return n
	}
	n := fmt.Sprintf("big%d", len(p.seen))
	p.seen[k] = n
	p.lets = append(p.lets, fmt.Sprintf("let %s := %s in", n, hxb(b)))
	return n
}

func (p *printer) hexs(h string) string { return p.bs(unhex(h)) }

func iaction(a string) string {
	switch a {
	case "drop":
		return "ADrop"
	case "redirect":
		return "ARedirect"
	}
	return "ADeny"
}

func (p *printer) spec(s Spec) string {
	a, st := iaction(s.Action), num(s.Status)
	switch s.Kind {
	case "always":
		return fmt.Sprintf("(RAlways %s %s)", a, st)
	case "contains":
		return fmt.Sprintf("(RContains %s %s %s)", p.hexs(s.Marker), a, st)
	case "status":
		return fmt.Sprintf("(RStatus %s %s %s)", num(s.Code), a, st)
	case "header":
		return fmt.Sprintf("(RHeader %s %s %s %s)", hxs(s.K), hxs(s.V), a, st)
	case "txflag":
		return fmt.Sprintf("(RTxFlag %s %s)", a, st)
	}
	return "RNone"
}

func (p *printer) cspec(k *CtlSpec, phase int) string {
	if k == nil {
		return "CNone"
	}
	ob := func(v string) string {
		switch v {
		case "on":
			return "(Some true)"
		case "off":
			return "(Some false)"
		}
		return "None"
	}
	on := func(v int) string {
		if v > 0 {
			return fmt.Sprintf("(Some %d)", v)
		}
		return "None"
	}
	qacc, qlim := "None", "None"
	if phase == 1 {
		qacc, qlim = ob(k.QAcc), on(k.QLim)
	}
	cond := p.spec(Spec{Kind: k.Kind, Marker: k.Marker, Code: k.Code, K: k.K, V: k.V})
	return fmt.Sprintf("(CRule %s (mkctl %s %s %s %s %s))", cond, qacc, qlim, ob(k.RAcc), ob(k.Force), on(k.RLim))
}

func (p *printer) headers(h [][]string) string {
	items := make([]string, len(h))
	for i, kv := range h {
		vals := make([]string, len(kv)-1)
		for j, v := range kv[1:] {
			vals[j] = hxs(v)
		}
		items[i] = fmt.Sprintf("(%s, %s)", hxs(kv[0]), vh.List(vals))
	}
	return vh.List(items)
}

func (p *printer) op(o Op) string {
	switch o.Op {
	case "wh":
		return fmt.Sprintf("HWriteHeader %s", num(o.C))
	case "set":
		return fmt.Sprintf("HSet %s %s", hxs(o.K), hxs(o.V))
	case "add":
		return fmt.Sprintf("HAdd %s %s", hxs(o.K), hxs(o.V))
	case "del":
		return fmt.Sprintf("HDel %s", hxs(o.K))
	case "w":
		return fmt.Sprintf("HWrite %s", p.hexs(o.Hex))
	case "fl":
		return "HFlush"
	case "rf":
		cs := make([]string, len(o.Chunks))
		for i, c := range o.Chunks {
			cs[i] = p.hexs(c)
		}
		return fmt.Sprintf("HReadFrom %s", vh.List(cs))
	case "rd":
		return fmt.Sprintf("HRead %s", num(o.N))
	}
	return "HReadAll"
}

func laction(a string) string {
	if strings.EqualFold(a, "ProcessPartial") {
		return "Partial"
	}
	return "Reject"
}

func term(c *Case, ops []Op) string {
	p := &printer{seen: map[string]string{}}
	o := c.Obs
	eng := map[string]string{"On": "EOn", "DetectionOnly": "EDetect", "Off": "EOff"}[c.Engine]
	mimes := make([]string, len(c.Mimes))
	for i, m := range c.Mimes {
		mimes[i] = hxs(m)
	}
	var reqh [][]string
	for _, kv := range c.ReqHeaders {
		found := false
		for i := range reqh {
			if reqh[i][0] == kv[0] {
				reqh[i] = append(reqh[i], kv[1])
				found = true
			}
		}
		if !found {
			reqh = append(reqh, []string{kv[0], kv[1]})
		}
	}
	opt := make([]string, len(ops))
	for i, x := range ops {
		opt[i] = p.op(x)
	}
	intr := "None"
	if o.Intr != nil {
		intr = fmt.Sprintf("(Some (%s, %s))", iaction(o.Intr.Action), num(o.Intr.Status))
	}
	evs := make([]string, len(o.Trace))
	for i, e := range o.Trace {
		switch e.Ev {
		case "h":
			evs[i] = fmt.Sprintf("DHeader %s %s", num(e.Code), p.headers(e.H))
		case "b":
			evs[i] = fmt.Sprintf("DBody %s", p.hexs(e.Hex))
		default:
			evs[i] = "DFlush"
		}
	}
	infos := make([]string, len(o.Infos))
	for i, x := range o.Infos {
		infos[i] = num(x)
	}
	body := fmt.Sprintf("Case %s %s %s %s %s %s %s %s %s %s %s %s %s %s %s %s %s %s %s %s %s %s %s %s %s %s %s",
		vh.Bool(c.Mode == "server"), eng,
		vh.Bool(c.ReqAccess), num(c.ReqLimit), laction(c.ReqAction),
		vh.Bool(c.RespAccess), num(c.RespLimit), laction(c.RespAction), vh.List(mimes),
		p.spec(c.Ph1), p.spec(c.Ph2), p.spec(c.Ph3), p.spec(c.Ph4),
		p.cspec(c.Ctl1, 1), p.cspec(c.Ctl2, 2), p.cspec(c.Ctl3, 3),
		p.headers(reqh), p.hexs(c.BodyHex), vh.List(opt),
		vh.Bool(o.Invoked), p.hexs(o.ReadHex), intr, vh.List(evs),
		num(o.Status), p.headers(o.Headers), p.hexs(o.BodyHex), vh.List(infos))
	if len(p.lets) == 0 {
		return body
	}
	return "(" + strings.Join(p.lets, " ") + " " + body + ")"
}

// ---------------------------------------------------------------- driver

func Run(cfg vh.Config) (*vh.Result, error) {
	res := &vh.Result{InputDistribution: map[string]int{}}
	res.Rule = "one HTTP exchange through the real WrapHandler per case (real net/http server+client, or httptest.ResponseRecorder); a case is non-trivial when a rule or a body limit interrupted, a request/response limit was reached, the response was buffered (body access on, MIME processable) with at least one byte written, or writes and flushes interleave; distinct = distinct case inputs"
	rng := vh.Rng(cfg.Seed, "c18")
	srv := newServer()
	defer srv.close()

	var terms []string
	var cases []any
	seen := map[string]bool{}
	dist := vh.Counter(res.InputDistribution)
	fail := func(key, what string, c any) {
		res.OracleFailures = append(res.OracleFailures, vh.OracleFailure{Key: key, What: what, Case: c})
	}
	known := map[string]bool{}

	runCase := func(c *Case) error {
		c.Obs = nil
		if c.Mode == "" {
			c.Mode = "server"
		}
		out, err := exchange(c, srv, true)
		if err != nil {
			return fmt.Errorf("exchange failed: %v (case %s)", err, mustJSON(c))
		}
		obs := out.obs
		c.Obs = &obs
		executed := out.ops
		res.Evaluations++
		terms = append(terms, term(c, executed))
		cc := *c
		cases = append(cases, &cc)
		if out.iface != "" {
			fail("c18-wrap-interfaces", "the writer given to the handler: "+out.iface, &cc)
		}
		classify(&cc, dist)
		in := inputKey(&cc)
		if !seen[in] {
			seen[in] = true
			if nontrivial(&cc) {
				res.DistinctNontrivial++
			}
		}
		// the property's own statement on the implementation
		n := oracle(&cc, srv, fail, known)
		res.OracleEvaluations += n
		return nil
	}

	if cfg.Replay != "" {
		b, err := os.ReadFile(cfg.Replay)
		if err != nil {
			return nil, err
		}
		var rp struct {
			Case json.RawMessage `json:"case"`
		}
		var c Case
		if json.Unmarshal(b, &rp) == nil && rp.Case != nil {
			err = json.Unmarshal(rp.Case, &c)
		} else {
			err = json.Unmarshal(b, &c)
		}
		if err != nil {
			return nil, err
		}
		if err := runCase(&c); err != nil {
			return nil, err
		}
	} else {
		docs, names := vh.LoadCorpus(cfg.Corpus)
		for i, d := range docs {
			var c Case
			if err := json.Unmarshal(d, &c); err != nil {
				return nil, fmt.Errorf("corpus %s: %v", names[i], err)
			}
			if err := runCase(&c); err != nil {
				return nil, err
			}
		}
		dist["corpus"] = len(docs)
		for _, c := range gridCases(cfg) {
			if err := runCase(c); err != nil {
				return nil, err
			}
		}
		for _, c := range memGridCases(cfg) {
			if err := runCase(c); err != nil {
				return nil, err
			}
		}
		for _, c := range ctlGridCases(cfg) {
			if err := runCase(c); err != nil {
				return nil, err
			}
		}
		for _, c := range readFromGridCases(cfg) {
			if err := runCase(c); err != nil {
				return nil, err
			}
		}
		n := cfg.Pick(500, 24000)
		for i := 0; i < n; i++ {
			c := genCase(rng, cfg, i)
			if err := runCase(c); err != nil {
				return nil, err
			}
		}
	}
	for k := range known {
		res.KnownReproduced = append(res.KnownReproduced, k)
	}
	sort.Strings(res.KnownReproduced)
	sort.Strings(res.Notes)

	per := cfg.Pick(300, 500)
	for i, k := 0, 0; i < len(terms); i, k = i+per, k+1 {
		j := i + per
		if j > len(terms) {
			j = len(terms)
		}
		info, err := vh.WriteShard(cfg.OutDir, vh.Shard{
			Name: fmt.Sprintf("C18_%d", k), Imports: "From Verif Require Import Base Http CorrC18.",
			CaseType: "CorrC18.case", MismatchF: "CorrC18.mismatches", Terms: terms[i:j], Cases: cases[i:j],
			Prelude: "Open Scope string_scope.",
		})
		if err != nil {
			return nil, err
		}
		res.Shards = append(res.Shards, info)
	}
	for i := 0; i < len(cases) && len(res.Samples) < 6; i += 1 + len(cases)/6 {
		res.Samples = append(res.Samples, cases[i])
	}
	return res, nil
}

func mustJSON(v any) string {
	b, _ := json.Marshal(v)
	return string(b)
}

func inputKey(c *Case) string {
	cp := *c
	cp.Obs = nil
	return mustJSON(&cp)
}

func totalWritten(c *Case) int {
	n := 0
	for _, op := range c.Ops {
		if op.Op == "w" {
			n += len(op.Hex) / 2
		}
		for _, ch := range op.Chunks {
			n += len(ch) / 2
		}
	}
	return n
}

func handlerCT(c *Case) string {
	ct := ""
	for _, op := range c.Ops {
		if op.K == "Content-Type" {
			switch op.Op {
			case "set", "add":
				ct = op.V
			case "del":
				ct = ""
			}
		}
		if op.Op == "wh" || op.Op == "w" || op.Op == "fl" || op.Op == "rf" {
			break
		}
	}
	if i := strings.IndexByte(ct, ';'); i >= 0 {
		ct = ct[:i]
	}
	return ct
}

func mimeMatches(c *Case) bool {
	ct := handlerCT(c)
	for _, m := range c.Mimes {
		if m == ct {
			return true
		}
	}
	return false
}

func nontrivial(c *Case) bool {
	if c.Obs.Intr != nil {
		return true
	}
	if c.Engine == "Off" {
		return false
	}
	if c.Ctl1 != nil || c.Ctl2 != nil || c.Ctl3 != nil {
		return true
	}
	if c.ReqAccess && len(c.BodyHex)/2 >= c.ReqLimit {
		return true
	}
	if c.RespAccess && mimeMatches(c) && totalWritten(c) > 0 {
		return true
	}
	w, f := 0, 0
	for _, op := range c.Ops {
		if op.Op == "w" || op.Op == "rf" {
			w++
		}
		if op.Op == "fl" {
			f++
		}
	}
	return w > 0 && f > 0
}

func classify(c *Case, d vh.Counter) {
	d.Inc("mode_" + c.Mode)
	d.Inc("engine_" + c.Engine)
	o := c.Obs
	switch {
	case o.Intr != nil && !o.Invoked:
		d.Inc("outcome_request_blocked_" + o.Intr.Action)
	case o.Intr != nil:
		d.Inc("outcome_response_blocked_" + o.Intr.Action)
	default:
		d.Inc("outcome_passthrough")
	}
	if c.Engine != "Off" {
		rb := len(c.BodyHex) / 2
		if c.ReqAccess {
			switch {
			case rb == 0:
				d.Inc("reqbody_empty")
			case rb < c.ReqLimit:
				d.Inc("reqbody_below_limit")
			case rb == c.ReqLimit:
				d.Inc("reqbody_at_limit_" + c.ReqAction)
			default:
				d.Inc("reqbody_above_limit_" + c.ReqAction)
			}
			if c.ReqMem > 0 && rb > c.ReqMem {
				d.Inc("reqbody_spilled_to_file")
				if len(c.Pieces) > 0 {
					d.Inc("reqbody_spilled_in_several_pieces")
				}
			}
			if len(c.Pieces) > 0 {
				d.Inc("reqbody_short_reads")
			}
		} else {
			d.Inc("reqbody_access_off")
		}
		if c.Chunked {
			d.Inc("reqbody_unknown_length")
		}
		tw := totalWritten(c)
		switch {
		case !c.RespAccess:
			d.Inc("resp_access_off")
		case !mimeMatches(c):
			d.Inc("resp_mime_not_processable")
		case tw < c.RespLimit:
			d.Inc("resp_buffered_below_limit")
		case tw == c.RespLimit:
			d.Inc("resp_buffered_at_limit_" + c.RespAction)
		default:
			d.Inc("resp_buffered_above_limit_" + c.RespAction)
		}
	}
	explicit, flush, rf, reads := false, false, false, false
	for _, op := range c.Ops {
		switch op.Op {
		case "wh":
			explicit = true
			d.Inc(fmt.Sprintf("handler_status_%dxx", op.C/100))
			if op.C == 204 || op.C == 304 {
				d.Inc("handler_status_nobody")
			}
		case "fl":
			flush = true
		case "rf":
			rf = true
		case "rd", "rdall":
			reads = true
		}
	}
	if !explicit {
		d.Inc("handler_no_explicit_writeheader")
	}
	if flush {
		d.Inc("handler_flushes")
	}
	if rf {
		d.Inc("handler_readfrom")
		if c.DownRF {
			d.Inc("handler_readfrom_into_readerfrom_writer")
		}
	}
	if c.DownRF {
		d.Inc("writer_is_readerfrom")
	}
	if reads {
		d.Inc("handler_reads_body")
	} else {
		d.Inc("handler_ignores_body")
	}
	for i, k := range []*CtlSpec{c.Ctl1, c.Ctl2, c.Ctl3} {
		if k != nil {
			d.Inc(fmt.Sprintf("ctl_rule_phase%d", i+1))
			if k.RAcc == "on" || k.Force == "on" {
				d.Inc("ctl_switches_response_buffering_on")
			}
			if k.RAcc == "off" || k.Force == "off" {
				d.Inc("ctl_switches_response_buffering_off")
			}
			if k.RLim > 0 {
				d.Inc("ctl_response_limit")
			}
			if i == 0 && (k.QAcc != "" || k.QLim > 0) {
				d.Inc("ctl_request_settings")
			}
		}
	}
	for i, s := range []Spec{c.Ph1, c.Ph2, c.Ph3, c.Ph4} {
		if s.Kind != "" && s.Kind != "none" {
			d.Inc(fmt.Sprintf("rule_phase%d_%s", i+1, s.Kind))
		}
	}
}
