(* Prefilter.v — executable model of internal/operators/rxprefilter.go and of the decision
   sequence of rx.Evaluate in internal/operators/rx.go (the code after the repairs
   ea7772d, 4c51aec, 49b39cd, d272616).  Function by function:

     min_len               minLen (incl. the OpRepeat branch, exercised on unsimplified ASTs)
     has_flag              hasFlag(re, FoldCase)
     lit_str / raw_literal string(re.Rune) (+ strings.ToLower) / rawLiteral
     extract_literals      extractLiterals      (allRequired / anyRequired / combinedRequired)
     trie_reconstruct      trieReconstruct,  raw_suffixes = rawExtractSuffixes
     longest, any_too_short, filter_short
     lit_after_begin / lit_before_end   literalAfterBeginAnchor / literalBeforeEndAnchor
     build_multi / mn_run  buildMultiNeedlePF and the closure it returns
     build_combined        buildCombinedPF
     new_indexed / im_shift / im_match   newIndexedMatcher, the shift table (uint8 arithmetic), matchCS / matchCI
     equal_fold_ascii, contains_fold_ascii(_only), has_prefix/suffix_fold_ascii
     prefilter_func / pf_run   prefilterFunc and the closure it returns (nil = None)
     extract_exact         extractExactMatch
     rx_compile / evaluate newRX's memoised artefacts / rx.Evaluate

   strings.Contains / HasPrefix / HasSuffix / IndexByte are modelled by their specification
   (Base.is_substring, is_prefix, is_suffix, first index).  slices.SortFunc on the needle list
   is not modelled: it only reorders a conjunction. *)
From Verif Require Import Base Utf8 Regex.
Open Scope N_scope.

Definition is_nil {A} (l : list A) : bool := match l with [] => true | _ => false end.

(* ---------- minLen ---------- *)

Definition lit_minlen (rs : list lrune) : nat :=
  list_sum (map (fun lr => if lr_r lr =? rune_error then 1%nat else rune_len (lr_r lr)) rs).

Definition list_min (l : list nat) : nat :=
  match l with [] => 0%nat | a :: l' => fold_left Nat.min l' a end.

Fixpoint min_len (r : re) : nat :=
  match r with
  | Lit _ rs => lit_minlen rs
  | Class _ _ => 1
  | Op0 _ o => match o with OAnyNL | OAny => 1 | _ => 0 end
  | Cap _ a => min_len a
  | Cat _ l => list_sum (map min_len l)
  | Alt _ l => list_min (map min_len l)
  | Quest _ _ | Star _ _ => 0
  | Plus _ a => min_len a
  | Rep _ mn _ a => if Nat.eqb mn 0 then 0 else mn * min_len a
  end%nat.

(* ---------- flags, literal strings ---------- *)

Definition node_fold (r : re) : bool :=
  match r with
  | Lit f _ | Class f _ | Op0 f _ | Cap f _ | Star f _ | Plus f _ | Quest f _ | Cat f _ | Alt f _
  | Rep f _ _ _ => f
  end.

Fixpoint has_flag (r : re) : bool :=
  node_fold r ||
  match r with
  | Cap _ a | Star _ a | Plus _ a | Quest _ a | Rep _ _ _ a => has_flag a
  | Cat _ l | Alt _ l => existsb has_flag l
  | _ => false
  end.

Definition has_rune_error (rs : list lrune) : bool := existsb (fun lr => lr_r lr =? rune_error) rs.

(* string(re.Rune), lower-cased by strings.ToLower when ci *)
Definition lit_str (ci : bool) (rs : list lrune) : bytes :=
  flat_map (fun lr => encode_rune (if ci then lr_lo lr else lr_r lr)) rs.

Definition raw_literal (r : re) (ci : bool) : bytes :=
  match r with
  | Lit _ rs => if has_rune_error rs then [] else lit_str ci rs
  | _ => []
  end.

(* ---------- small helpers ---------- *)

Definition longest (ss : list bytes) : bytes :=
  match ss with
  | [] => []
  | b :: r => fold_left (fun best s => if (length best <? length s)%nat then s else best) r b
  end.

Definition any_too_short (ss : list bytes) (n : nat) : bool := existsb (fun s => (length s <? n)%nat) ss.
Definition filter_short (ss : list bytes) (n : nat) : list bytes := filter (fun s => (n <=? length s)%nat) ss.

(* ---------- rawExtractSuffixes / trieReconstruct ---------- *)

(* concatenation of per-branch results; nil as soon as one branch is nil; an empty result is nil *)
Fixpoint concat_opts (l : list (option (list bytes))) : option (list bytes) :=
  match l with
  | [] => Some []
  | None :: _ => None
  | Some x :: l' => match concat_opts l' with Some y => Some (x ++ y) | None => None end
  end.

Definition nonempty_opt (o : option (list bytes)) : option (list bytes) :=
  match o with Some [] => None | _ => o end.

Fixpoint raw_suffixes (r : re) (ci : bool) : option (list bytes) :=
  match r with
  | Lit _ _ => let s := raw_literal r ci in if is_nil s then None else Some [s]
  | Alt _ l => nonempty_opt (concat_opts (map (fun a => raw_suffixes a ci) l))
  | Cat _ l =>
      match l with
      | [] => None
      | h :: t =>
          let head := raw_literal h ci in
          if is_nil head then None
          else match t with
               | [a2] => match a2 with
                         | Alt _ _ => match raw_suffixes a2 ci with
                                      | Some tails => Some (map (app head) tails)
                                      | None => Some [head]
                                      end
                         | _ => Some [head]
                         end
               | _ => Some [head]
               end
      end
  | Cap _ a => raw_suffixes a ci
  | _ => None
  end.

(* trieReconstruct on the children of an OpConcat *)
Definition trie_reconstruct (l : list re) (ci : bool) : option (list bytes) :=
  match l with
  | [p; x] =>
      let prefix := raw_literal p ci in
      if is_nil prefix then None
      else match raw_suffixes x ci with
           | None => None
           | Some sufs =>
               let res := filter (fun f => (2 <=? length f)%nat) (map (app prefix) sufs) in
               if is_nil res then None else Some res
           end
  | _ => None
  end.

(* ---------- extractLiterals ---------- *)

Inductive lits := LNone | LAll (l : list bytes) | LAny (l : list bytes) | LComb (a y : list bytes).

(* the OpConcat loop: all = every allRequired child appended; bestAny = the first anyRequired
   child with strictly fewer elements than the ones before it; combinedRequired children are
   ignored by the type switch *)
Definition cat_all (subs : list lits) : list bytes :=
  flat_map (fun x => match x with LAll v => v | _ => [] end) subs.

Definition cat_best (subs : list lits) : option (list bytes) :=
  fold_left (fun best x =>
               match x with
               | LAny v => match best with
                           | None => Some v
                           | Some b => if (length v <? length b)%nat then Some v else best
                           end
               | _ => best
               end) subs None.

(* the OpAlternate loop *)
Fixpoint alt_branches (subs : list lits) : option (list bytes) :=
  match subs with
  | [] => Some []
  | x :: subs' =>
      match x with
      | LNone => None
      | LAll v => option_map (cons (longest v)) (alt_branches subs')
      | LAny v => option_map (app v) (alt_branches subs')
      | LComb _ y => option_map (app y) (alt_branches subs')
      end
  end.

Fixpoint extract_literals (r : re) (ci : bool) : lits :=
  match r with
  | Lit _ rs =>
      if has_rune_error rs then LNone
      else let s := lit_str ci rs in if (length s <? 2)%nat then LNone else LAll [s]
  | Cap _ a => extract_literals a ci
  | Cat _ l =>
      let subs := map (fun a => extract_literals a ci) l in
      let all := cat_all subs in
      let best := cat_best subs in
      if negb (is_nil all) then
        match best with
        | Some b => if negb (any_too_short b 2) then LComb all b else LAll all
        | None => LAll all
        end
      else match trie_reconstruct l ci with
           | Some t => LAny t
           | None => match best with Some b => LAny b | None => LNone end
           end
  | Alt _ l =>
      match alt_branches (map (fun a => extract_literals a ci) l) with
      | None => LNone
      | Some [] => LNone
      | Some b => LAny b
      end
  | Plus _ a => extract_literals a ci
  | Rep _ mn _ a => if (1 <=? mn)%nat then extract_literals a ci else LNone
  | _ => LNone
  end.

(* ---------- ASCII-fold string helpers ---------- *)

(* equalFoldASCIIBytes(a, b): equal length assumed by the callers; b lower-case *)
Fixpoint equal_fold_ascii (a b : bytes) : bool :=
  match a, b with
  | [], _ => true
  | x :: a', y :: b' => (ascii_lower x =? y) && equal_fold_ascii a' b'
  | _ :: _, [] => false  (* Go would index out of range; callers pass equal lengths *)
  end.

Definition has_prefix_fold_ascii (s p : bytes) : bool :=
  if (length s <? length p)%nat then false else equal_fold_ascii (firstn (length p) s) p.

Definition has_suffix_fold_ascii (s p : bytes) : bool :=
  if (length s <? length p)%nat then false
  else equal_fold_ascii (skipn (length s - length p) s) p.

(* strings.IndexByte(s, c) for the two candidate bytes, the smaller index wins *)
Fixpoint index_either (s : bytes) (c1 : N) (c2 : option N) : option nat :=
  match s with
  | [] => None
  | x :: s' => if (x =? c1) || match c2 with Some u => x =? u | None => false end then Some 0%nat
               else option_map S (index_either s' c1 c2)
  end.

(* containsFoldASCIIOnly: the loop with i as the consumed prefix length *)
Fixpoint cfao_loop (fuel : nat) (s : bytes) (i limit : nat) (needle : bytes) (first : N) (upper : option N) {struct fuel} : bool :=
  if (limit <? i)%nat then false
  else match fuel with
  | O => true
  | S f =>
      match index_either (skipn i s) first upper with
      | None => false
      | Some lo =>
          let i' := (i + lo)%nat in
          if (limit <? i')%nat then false
          else if equal_fold_ascii (firstn (length needle) (skipn i' s)) needle then true
               else cfao_loop f s (S i') limit needle first upper
      end
  end.

Definition contains_fold_ascii_only (s needle : bytes) : bool :=
  if (length s <? length needle)%nat then false
  else match needle with
       | [] => true  (* not reached from containsFoldASCII; Go would index needle[0] *)
       | first :: _ =>
           let upper := if in_rng 97 122 first then Some (first - 32) else None in
           cfao_loop (S (length s)) s 0 (length s - length needle) needle first upper
       end.

Definition contains_fold_ascii (s needle : bytes) : bool :=
  if is_nil needle then true
  else if (length s <? length needle)%nat then false
  else if is_ascii needle then contains_fold_ascii_only s needle
  else true.

(* ---------- buildMultiNeedlePF ---------- *)

Record mnpf := MN { mn_ci : bool; mn_prefix : bytes; mn_suffix : bytes; mn_middle : list bytes }.

Definition last_b (l : list bytes) : bytes := last l [].

Definition build_multi (needles : list bytes) (ci usePrefix useSuffix : bool) : option mnpf :=
  match needles with
  | [] => None
  | first :: rest =>
      if usePrefix && useSuffix && (2 <=? length needles)%nat
      then Some (MN ci first (last_b needles) (removelast rest))
      else if usePrefix && useSuffix then Some (MN ci first [] [])
      else if usePrefix then Some (MN ci first [] rest)
      else if useSuffix then Some (MN ci [] (last_b needles) (removelast needles))
      else Some (MN ci [] [] needles)
  end.

Definition mn_run (m : mnpf) (s : bytes) : bool :=
  if mn_ci m then
    (is_nil (mn_prefix m) || has_prefix_fold_ascii s (mn_prefix m))
    && (is_nil (mn_suffix m) || has_suffix_fold_ascii s (mn_suffix m))
    && forallb (contains_fold_ascii s) (mn_middle m)
  else
    (is_nil (mn_prefix m) || is_prefix (mn_prefix m) s)
    && (is_nil (mn_suffix m) || is_suffix (mn_suffix m) s)
    && forallb (fun n => is_substring n s) (mn_middle m).

(* ---------- anchors ---------- *)

Fixpoint strip_caps (r : re) : re := match r with Cap _ a => strip_caps a | _ => r end.

Definition is_op0 (r : re) (o : op0) : bool :=
  match r, o with
  | Op0 _ OBeginText, OBeginText => true
  | Op0 _ OEndText, OEndText => true
  | _, _ => false
  end.

Definition lit_after_begin (r : re) (ci : bool) : bytes :=
  match strip_caps r with
  | Cat _ (b :: x :: _) => if is_op0 b OBeginText then raw_literal x ci else []
  | _ => []
  end.

Definition lit_before_end (r : re) (ci : bool) : bytes :=
  match strip_caps r with
  | Cat _ l =>
      let n := length l in
      if (n <? 2)%nat then []
      else match nth_error l (n - 1), nth_error l (n - 2) with
           | Some e, Some x => if is_op0 e OEndText then raw_literal x ci else []
           | _, _ => []
           end
  | _ => []
  end.

(* the allRequired branch shared by prefilterFunc and buildCombinedPF *)
Definition build_all (v : list bytes) (ci : bool) (r : re) : option mnpf :=
  let origFirst := hd [] v in
  let origLast := last_b v in
  let filtered := filter_short v 2 in
  if is_nil filtered then None
  else
    let usePrefix := (2 <=? length origFirst)%nat && bytes_eqb (lit_after_begin r ci) origFirst in
    let useSuffix := (2 <=? length origLast)%nat && bytes_eqb (lit_before_end r ci) origLast in
    build_multi filtered ci usePrefix useSuffix.

(* ---------- indexedMatcher ---------- *)

Record imatcher := IM { im_norms : list bytes; im_minlen : nat; im_ci : bool }.

Definition new_indexed (needles : list bytes) (ci : bool) : imatcher :=
  match needles with
  | [] => IM [] 0 ci
  | n0 :: rest =>
      IM (if ci then map lower_ascii needles else needles)
         (fold_left (fun m n => Nat.min m (length n)) rest (length n0)) ci
  end.

(* shift[c]: initial value min(minLen,255), lowered by uint8(minLen-1-j) for every needle byte
   n[j] = c, j < minLen (and, case-insensitively, for the upper-case twin of a lower-case n[j]) *)
Definition shift_step (ml : nat) (ci : bool) (c : N) (st : N * nat) (b : N) : N * nat :=
  let '(a, j) := st in
  if (j <? ml)%nat then
    let sh := N.of_nat (ml - 1 - j) mod 256 in
    let hit := (b =? c) || (ci && in_rng 97 122 b && (c =? b - 32)) in
    ((if hit && (sh <? a) then sh else a), S j)
  else (a, S j).

Definition shift_needle (ml : nat) (ci : bool) (c : N) (acc : N) (n : bytes) : N :=
  fst (fold_left (shift_step ml ci c) n (acc, 0%nat)).

Definition im_shift (im : imatcher) (c : N) : N :=
  fold_left (shift_needle (im_minlen im) (im_ci im) c) (im_norms im)
            (N.of_nat (Nat.min (im_minlen im) 255)).

Definition eq_seg (ci : bool) (seg n : bytes) : bool :=
  if ci then equal_fold_ascii seg n else bytes_eqb seg n.

(* bucket lookup + verification at window start pos; key is the (lower-cased) byte under the
   window's right edge; endBuckets[key] = the needles whose byte at minLen-1 is key *)
Definition im_verify (im : imatcher) (s : bytes) (pos : nat) (key : N) : bool :=
  existsb (fun n => (nth (im_minlen im - 1) n 256 =? key)
                    && (pos + length n <=? length s)%nat
                    && eq_seg (im_ci im) (firstn (length n) (skipn pos s)) n) (im_norms im).

Fixpoint im_scan (im : imatcher) (s : bytes) (fuel i : nat) : bool :=
  match nth_error s i with
  | None => false
  | Some b =>
      match fuel with
      | O => true
      | S f =>
          let sh := im_shift im b in
          if negb (sh =? 0) then im_scan im s f (i + N.to_nat sh)
          else
            let key := if im_ci im then ascii_lower b else b in
            if im_verify im s (i + 1 - im_minlen im) key then true
            else im_scan im s f (S i)
      end
  end.

Definition im_match (im : imatcher) (s : bytes) : bool :=
  let ml := im_minlen im in
  if Nat.eqb ml 0 || (length s <? ml)%nat then false
  else im_scan im s (S (length s)) (ml - 1).

(* ---------- the prefilter closure as data ---------- *)

Inductive pfn :=
| PLen (mml : nat)                       (* len(s) >= mml *)
| PMulti (m : mnpf)
| PContains (ci : bool) (needle : bytes) (* containsFoldASCII / strings.Contains *)
| PIndexed (im : imatcher)
| PAnd (a b : pfn)
| PMml (mml : nat) (inner : pfn)         (* len(s) >= mml && inner(s) *)
| PAsciiGuard (inner : pfn).             (* !isASCII(s) || inner(s) *)

Fixpoint pf_run (p : pfn) (s : bytes) : bool :=
  match p with
  | PLen mml => (mml <=? length s)%nat
  | PMulti m => mn_run m s
  | PContains ci n => if ci then contains_fold_ascii s n else is_substring n s
  | PIndexed im => im_match im s
  | PAnd a b => pf_run a s && pf_run b s
  | PMml mml inner => (mml <=? length s)%nat && pf_run inner s
  | PAsciiGuard inner => negb (is_ascii s) || pf_run inner s
  end.

Definition all_ascii_strings (ss : list bytes) : bool := forallb is_ascii ss.

Definition any_required_max_n : nat := 256.

(* the anyRequired matcher selection shared by prefilterFunc and buildCombinedPF *)
Definition any_single (needle : bytes) (ci : bool) : pfn := PContains ci needle.

Definition build_combined (all any : list bytes) (ci : bool) (r : re) : option pfn :=
  let allPF := option_map PMulti (build_all all ci r) in
  if ci && negb (all_ascii_strings any) then allPF
  else
    let anyPF :=
      match any with
      | [needle] => Some (any_single needle ci)
      | _ => if (length any <=? any_required_max_n)%nat then Some (PIndexed (new_indexed any ci)) else None
      end in
    match anyPF with
    | None => allPF
    | Some ap => match allPF with None => Some ap | Some al => Some (PAnd al ap) end
    end.

Definition min_useful_mml : nat := 4.

Definition prefilter_func (r : re) : option pfn :=
  let ci := has_flag r in
  let mml := min_len r in
  let base :=
    match extract_literals r ci with
    | LNone => None
    | LAll v => option_map PMulti (build_all v ci r)
    | LComb a y => build_combined a y ci r
    | LAny v =>
        if any_too_short v 2 then None
        else match v with
             | [needle] => Some (any_single needle ci)
             | _ => if ci && negb (all_ascii_strings v) then None
                    else if (length v <=? any_required_max_n)%nat then Some (PIndexed (new_indexed v ci))
                    else None
             end
    end in
  match extract_literals r ci with
  | LNone => if (min_useful_mml <=? mml)%nat then Some (PLen mml) else None
  | _ =>
      match base with
      | None => None
      | Some pf =>
          let pf1 := if (min_useful_mml <=? mml)%nat then PMml mml pf else pf in
          Some (if ci then PAsciiGuard pf1 else pf1)
      end
  end.

(* the decision the harness observes: prefilterFunc(pattern)(s), nil counting as "maybe" *)
Definition prefilter (r : re) (w : bytes) : bool :=
  match prefilter_func r with None => true | Some p => pf_run p w end.

(* ---------- extractExactMatch (after d272616: no capture unwrapping) ---------- *)

Definition extract_exact (r0 : re) : option (list lrune * bool) :=
  match r0 with
  | Cat _ [b; Lit f rs; e] =>
      if is_op0 b OBeginText && is_op0 e OEndText && negb (has_rune_error rs) then Some (rs, f) else None
  | _ => None
  end.

(* the relation between the two ASTs of an exact-match pattern: "(?sm)"+arguments parses to the
   same literal between a line (^ $ under (?m)) or text anchor pair.  Checked by the
   correspondence on every pattern; [num_caps] is the number of capture groups of the engine. *)
Fixpoint listN_eqb (a b : list N) : bool :=
  match a, b with
  | [], [] => true
  | x :: a', y :: b' => (x =? y) && listN_eqb a' b'
  | _, _ => false
  end.
Definition lrune_eqb (a b : lrune) : bool :=
  (lr_r a =? lr_r b) && (lr_lo a =? lr_lo b) && listN_eqb (lr_orb a) (lr_orb b).
Fixpoint lrs_eqb (a b : list lrune) : bool :=
  match a, b with
  | [], [] => true
  | x :: a', y :: b' => lrune_eqb x y && lrs_eqb a' b'
  | _, _ => false
  end.
Definition is_begin (r : re) : bool :=
  match r with Op0 _ OBeginLine | Op0 _ OBeginText => true | _ => false end.
Definition is_end (r : re) : bool :=
  match r with Op0 _ OEndLine | Op0 _ OEndText => true | _ => false end.
Definition exact_rel (r0 r : re) : bool :=
  match extract_exact r0 with
  | None => true
  | Some (rs, ci) =>
      match r with
      | Cat _ [b; Lit f rs'; e] => is_begin b && is_end e && Bool.eqb f ci && lrs_eqb rs rs'
      | _ => false
      end
  end.

Fixpoint num_caps (r : re) : nat :=
  match r with
  | Cap _ a => S (num_caps a)
  | Star _ a | Plus _ a | Quest _ a | Rep _ _ _ a => num_caps a
  | Cat _ l | Alt _ l => list_sum (map num_caps l)
  | _ => 0%nat
  end.

(* strings.EqualFold(value, string(runes)): rune by rune, equal or in the same SimpleFold orbit *)
Definition equal_fold (w : bytes) (rs : list lrune) : bool :=
  match lit_end true rs w 0 with Some j => Nat.eqb j (length w) | None => false end.

Definition exact_eq (ci : bool) (w : bytes) (rs : list lrune) : bool :=
  if ci then equal_fold w rs else bytes_eqb w (lit_str false rs).

(* ---------- newRX artefacts and rx.Evaluate ---------- *)

Record rx_compiled := RC { rc_minlen : nat; rc_pf : option pfn; rc_exact : option (list lrune * bool) }.

(* r: AST of the compiled pattern "(?sm)"+arguments; r0: AST of the arguments alone *)
Definition rx_compile (enabled : bool) (r r0 : re) : rx_compiled :=
  if enabled then RC (min_len r) (prefilter_func r) (extract_exact r0)
  else RC 0 None None.

Section Evaluate.
  (* Go's regexp engine on the compiled pattern: None = no match, Some groups = the
     submatches (group 0 first; None = group did not participate) *)
  Variable engine : bytes -> option (list (option bytes)).

  (* tx.CaptureField(i, ..) for i < 10, "" for a group that did not participate *)
  Definition engine_caps (g : list (option bytes)) : list bytes :=
    firstn 10 (map (fun o => match o with Some b => b | None => [] end) g).

  Definition engine_path (capturing : bool) (w : bytes) : bool * list bytes :=
    match engine w with
    | None => (false, [])
    | Some g => (true, if capturing then engine_caps g else [])
    end.

  (* result and the captured fields 0..n *)
  Definition evaluate (c : rx_compiled) (capturing : bool) (w : bytes) : bool * list bytes :=
    if (length w <? rc_minlen c)%nat then (false, [])
    else if match rc_pf c with Some p => negb (pf_run p w) | None => false end then (false, [])
    else match rc_exact c with
         | Some (rs, ci) =>
             if negb (memN 10 w) then
               let m := exact_eq ci w rs in (m, if m && capturing then [w] else [])
             else engine_path capturing w
         | None => engine_path capturing w
         end.
End Evaluate.
