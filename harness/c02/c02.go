// Package c02 drives the correspondence for C02 (first disruptive match interrupts; the
// interruption is final; engine modes hold; each phase is evaluated at most once whatever the
// order of calls).  A configuration (rule set + engine mode + body limits) is compiled by the real
// seclang parser through coraza.NewWAF; a call sequence is run against a real transaction; after
// every call the returned value, Interruption(), DetectionOnlyInterruption(), LastPhase(),
// RuleEngine and AllowType are recorded, at the end MatchedRules() and the TX counters; the Coq
// model TxPhase.tp_step is evaluated on the same configuration and calls (CorrC02.ok).
package c02

import (
	"bytes"
	"encoding/json"
	"fmt"
	"io"
	"math/rand"
	"os"
	"sort"
	"strconv"
	"strings"

	coraza "github.com/corazawaf/coraza/v3"
	"github.com/corazawaf/coraza/v3/internal/corazatypes"
	"github.com/corazawaf/coraza/v3/internal/corazawaf"
	"github.com/corazawaf/coraza/v3/types"
	"github.com/corazawaf/coraza/v3/verifharness/vh"
)

func init() { vh.Register("C02", Run) }

// ---- configuration (the same struct is rendered as seclang text and as a Coq term) ----

type dact struct {
	K   string `json:"k"`             // deny drop redirect pass block allow
	Arg string `json:"arg,omitempty"` // redirect target / allow scope ("", phase, request)
}

// act is one element of an action list.  K: deny drop redirect pass block allow (disruptive) |
// status ctl skip skipafter | log nolog msg tag setvar (no effect on the model: "inert")
type act struct {
	K   string `json:"k"`
	Arg string `json:"arg,omitempty"`
}

type rawRule struct {
	Marker int    `json:"marker,omitempty"` // > 0: the entry is "SecMarker M<n>"
	ID     int    `json:"id"`
	Phase  int    `json:"phase"`
	Cond   string `json:"cond"`            // true false conn uri reqhdr resphdr
	Chain  string `json:"chain,omitempty"` // "" = no chain
	Acts   []act  `json:"acts,omitempty"`  // explicit action list; when nil the three fields below are laid out
	Ctl    string `json:"ctl,omitempty"`   // "", On, DetectionOnly, Off
	Dacts  []dact `json:"dacts,omitempty"`
	Status int    `json:"status"` // -1 = no status action
}

type defAct struct {
	Phase  int    `json:"phase"`
	Acts   []act  `json:"acts,omitempty"`
	Dacts  []dact `json:"dacts"`
	Status int    `json:"status"`
}

type wafCfg struct {
	Engine   string    `json:"engine"` // On DetectionOnly Off
	Defaults []defAct  `json:"defaults,omitempty"`
	Rules    []rawRule `json:"rules"`
	ReqAcc   bool      `json:"req_access"`
	ReqLim   int       `json:"req_limit"`
	ReqAct   string    `json:"req_action"` // Reject ProcessPartial
	RespAcc  bool      `json:"resp_access"`
	RespLim  int       `json:"resp_limit"`
	RespAct  string    `json:"resp_action"`
}

type call struct {
	K     string `json:"k"` // conn uri reqhdr resphdr prh prb presph prespb log wreq rreq wresp rresp
	N     int    `json:"n,omitempty"`
	Known bool   `json:"known,omitempty"`
}

type caseJSON struct {
	Cfg        wafCfg   `json:"cfg"`
	Calls      []call   `json:"calls"`
	Observed   []string `json:"observed,omitempty"`
	Matched    string   `json:"matched,omitempty"`
	FindingKey string   `json:"finding_key,omitempty"`
}

func condSec(c string) string {
	switch c {
	case "true":
		return `SecRule UNIQUE_ID "@unconditionalMatch"`
	case "false":
		return `SecRule UNIQUE_ID "@streq __never__"`
	case "conn":
		return `SecRule REMOTE_ADDR "@streq 1.2.3.4"`
	case "uri":
		return `SecRule &ARGS_GET:a "@ge 1"`
	case "reqhdr":
		return `SecRule &REQUEST_HEADERS:x-f "@ge 1"`
	case "resphdr":
		return `SecRule &RESPONSE_HEADERS:x-g "@ge 1"`
	}
	panic("cond " + c)
}

func condCoq(c string) string {
	return map[string]string{"true": "CTrue", "false": "CFalse", "conn": "CConn", "uri": "CUri", "reqhdr": "CReqHdr", "resphdr": "CRespHdr"}[c]
}

func dactSec(d dact) string {
	switch d.K {
	case "redirect":
		return "redirect:" + d.Arg
	case "allow":
		if d.Arg != "" {
			return "allow:" + d.Arg
		}
		return "allow"
	}
	return d.K
}

func dactCoq(d dact) string {
	switch d.K {
	case "deny":
		return "DDeny"
	case "drop":
		return "DDrop"
	case "pass":
		return "DPass"
	case "block":
		return "DBlock"
	case "redirect":
		return "(DRedirect " + vh.HxS(d.Arg) + ")"
	case "allow":
		return "(DAllow " + map[string]string{"": "SAll", "phase": "SPhase", "request": "SRequest"}[d.Arg] + ")"
	}
	panic("dact " + d.K)
}

func dactsCoq(l []dact) string {
	it := make([]string, len(l))
	for i, d := range l {
		it[i] = dactCoq(d)
	}
	return vh.List(it)
}

func modeCoq(m string) string {
	return map[string]string{"On": "MOn", "DetectionOnly": "MDet", "Off": "MOff"}[m]
}

func optN(n int) string {
	if n < 0 {
		return "None"
	}
	return fmt.Sprintf("(Some %d)", n)
}

func lactCoq(a string) string {
	if a == "Reject" {
		return "LReject"
	}
	return "LPartial"
}

func isDisruptive(k string) bool {
	switch k {
	case "deny", "drop", "redirect", "pass", "block", "allow":
		return true
	}
	return false
}

// items is the rule's action list (after id, phase, nolog) in written order, the counter included.
func (r rawRule) items() []act {
	var l []act
	if r.Acts != nil {
		l = append(l, r.Acts...)
	} else {
		statusFirst := r.ID%2 == 0
		if r.Status >= 0 && statusFirst {
			l = append(l, act{"status", strconv.Itoa(r.Status)})
		}
		if r.ID%3 == 0 {
			for _, d := range r.Dacts {
				l = append(l, act{d.K, d.Arg})
			}
		}
		if r.Ctl != "" {
			l = append(l, act{"ctl", r.Ctl})
		}
		if r.ID%3 != 0 {
			for _, d := range r.Dacts {
				l = append(l, act{d.K, d.Arg})
			}
		}
		if r.Status >= 0 && !statusFirst {
			l = append(l, act{"status", strconv.Itoa(r.Status)})
		}
	}
	// the per-rule counter: a non-disruptive action whose place in the list is varied
	at := r.ID % (len(l) + 1)
	out := append([]act{}, l[:at]...)
	out = append(out, act{"setvar", fmt.Sprintf("tx.c%d=+1", r.ID)})
	return append(out, l[at:]...)
}

func (d defAct) items() []act {
	if d.Acts != nil {
		return d.Acts
	}
	var l []act
	for _, a := range d.Dacts {
		l = append(l, act{a.K, a.Arg})
	}
	if d.Status >= 0 {
		l = append(l, act{"status", strconv.Itoa(d.Status)})
	}
	return l
}

func actSec(a act) string {
	switch a.K {
	case "redirect":
		return "redirect:" + a.Arg
	case "allow":
		if a.Arg != "" {
			return "allow:" + a.Arg
		}
		return "allow"
	case "status":
		return "status:" + a.Arg
	case "ctl":
		return "ctl:ruleEngine=" + a.Arg
	case "ctlreqlimit":
		return "ctl:requestBodyLimit=" + a.Arg
	case "ctlresplimit":
		return "ctl:responseBodyLimit=" + a.Arg
	case "ctlreqacc":
		return "ctl:requestBodyAccess=" + a.Arg
	case "ctlrespacc":
		return "ctl:responseBodyAccess=" + a.Arg
	case "skip":
		return "skip:" + a.Arg
	case "skipafter":
		return "skipAfter:M" + a.Arg
	case "msg":
		return "msg:'" + a.Arg + "'"
	case "tag":
		return "tag:'" + a.Arg + "'"
	case "setvar":
		return "setvar:" + a.Arg
	}
	return a.K // deny drop pass block log nolog auditlog noauditlog
}

func actCoq(a act) string {
	switch {
	case isDisruptive(a.K):
		return "IDis " + dactCoq(dact{a.K, a.Arg})
	case a.K == "status":
		return "IStatus " + a.Arg
	case a.K == "ctl":
		return "ICtl " + modeCoq(a.Arg)
	case a.K == "ctlreqlimit":
		return "IBody (BReqLimit " + a.Arg + "%Z)"
	case a.K == "ctlresplimit":
		return "IBody (BRespLimit " + a.Arg + "%Z)"
	case a.K == "ctlreqacc":
		return "IBody (BReqAcc " + vh.Bool(a.Arg == "On") + ")"
	case a.K == "ctlrespacc":
		return "IBody (BRespAcc " + vh.Bool(a.Arg == "On") + ")"
	case a.K == "skip":
		return "ISkip " + a.Arg
	case a.K == "skipafter":
		return "ISkipAfter " + a.Arg
	}
	return "II"
}

func actsCoq(l []act) string {
	it := make([]string, len(l))
	for i, a := range l {
		it[i] = actCoq(a)
	}
	return vh.List(it)
}

func (r rawRule) sec() string {
	if r.Marker > 0 {
		return fmt.Sprintf("SecMarker M%d\n", r.Marker)
	}
	acts := []string{fmt.Sprintf("id:%d", r.ID), fmt.Sprintf("phase:%d", r.Phase), "nolog"}
	for _, a := range r.items() {
		acts = append(acts, actSec(a))
	}
	if r.Chain != "" {
		acts = append(acts, "chain")
	}
	al := strings.Join(acts, ",")
	var s string
	if r.Cond == "true" && r.Chain == "" && r.ID%2 == 1 {
		s = fmt.Sprintf("SecAction \"%s\"\n", al)
	} else {
		s = fmt.Sprintf("%s \"%s\"\n", condSec(r.Cond), al)
	}
	if r.Chain != "" {
		s += fmt.Sprintf("  %s \"t:none\"\n", condSec(r.Chain))
	}
	return s
}

func (r rawRule) coq() string {
	if r.Marker > 0 {
		return fmt.Sprintf("MK %d", r.Marker)
	}
	ch := "None"
	if r.Chain != "" {
		ch = "(Some " + condCoq(r.Chain) + ")"
	}
	// id, phase and nolog (the first three, inert, elements of the list parseActions sees) are added by R
	it := r.items()
	if r.Cond == "true" && r.Chain == "" && len(it) == 2 {
		if it[0].K == "setvar" && it[1].K == "pass" {
			return fmt.Sprintf("Ca %d %d", r.ID, r.Phase)
		}
		if it[0].K == "pass" && it[1].K == "setvar" {
			return fmt.Sprintf("Cb %d %d", r.ID, r.Phase)
		}
	}
	return fmt.Sprintf("R %d %d %s %s %s", r.ID, r.Phase, condCoq(r.Cond), ch, actsCoq(it))
}

func onoff(b bool) string {
	if b {
		return "On"
	}
	return "Off"
}

func (w wafCfg) sec() string {
	var b strings.Builder
	fmt.Fprintf(&b, "SecRuleEngine %s\n", w.Engine)
	fmt.Fprintf(&b, "SecRequestBodyAccess %s\nSecRequestBodyLimit %d\nSecRequestBodyLimitAction %s\n", onoff(w.ReqAcc), w.ReqLim, w.ReqAct)
	fmt.Fprintf(&b, "SecResponseBodyAccess %s\nSecResponseBodyMimeType text/plain\nSecResponseBodyLimit %d\nSecResponseBodyLimitAction %s\n", onoff(w.RespAcc), w.RespLim, w.RespAct)
	for _, d := range w.Defaults {
		acts := []string{fmt.Sprintf("phase:%d", d.Phase)}
		for _, a := range d.items() {
			acts = append(acts, actSec(a))
		}
		fmt.Fprintf(&b, "SecDefaultAction \"%s\"\n", strings.Join(acts, ","))
	}
	for _, r := range w.Rules {
		b.WriteString(r.sec())
	}
	return b.String()
}

func (w wafCfg) coq() string {
	ds := make([]string, len(w.Defaults))
	for i, d := range w.Defaults {
		ds[i] = fmt.Sprintf("D %d %s", d.Phase, actsCoq(d.items()))
	}
	rs := make([]string, len(w.Rules))
	for i, r := range w.Rules {
		rs[i] = r.coq()
	}
	return fmt.Sprintf("(W %s %s %s %s %s %s %s %s %s)", modeCoq(w.Engine), vh.List(ds), vh.List(rs),
		vh.Bool(w.ReqAcc), vh.Z(int64(w.ReqLim)), lactCoq(w.ReqAct), vh.Bool(w.RespAcc), vh.Z(int64(w.RespLim)), lactCoq(w.RespAct))
}

func (c call) coq() string {
	switch c.K {
	case "conn":
		return "KConn"
	case "uri":
		return "KUri"
	case "reqhdr":
		return "KReqHdr"
	case "resphdr":
		return "KRespHdr"
	case "prh":
		return "KPRH"
	case "prb":
		return "KPRB"
	case "presph":
		return "KPRespH"
	case "prespb":
		return "KPRespB"
	case "log":
		return "KLog"
	case "wreq":
		return fmt.Sprintf("KWReq %d%%Z", c.N)
	case "rreq":
		return fmt.Sprintf("KRReq %d%%Z %s", c.N, vh.Bool(c.Known))
	case "wresp":
		return fmt.Sprintf("KWResp %d%%Z", c.N)
	case "rresp":
		return fmt.Sprintf("KRResp %d%%Z %s", c.N, vh.Bool(c.Known))
	}
	panic("call " + c.K)
}

func (c call) String() string {
	switch c.K {
	case "wreq", "wresp":
		return fmt.Sprintf("%s(%d)", c.K, c.N)
	case "rreq", "rresp":
		return fmt.Sprintf("%s(%d,%v)", c.K, c.N, c.Known)
	}
	return c.K
}

// ---- running the implementation ----

type onlyReader struct{ r io.Reader } // hides Len(): not a ByteLenger

func (o onlyReader) Read(p []byte) (int, error) { return o.r.Read(p) }

func reader(n int, known bool) io.Reader {
	b := bytes.Repeat([]byte{'x'}, n)
	if known {
		return bytes.NewReader(b)
	}
	return onlyReader{bytes.NewReader(b)}
}

type intrKey struct {
	rule   int
	action string
	status int
	data   string
}

type obs struct {
	ret     string // "void" | "i" | "w"
	retI    *intrKey
	w       int
	intr    *intrKey
	dintr   *intrKey
	last    int
	engine  types.RuleEngineStatus
	allow   corazatypes.AllowType
	skip    int
	skipAft string
	reqAcc  bool
	reqLim  int64
	respAcc bool
	respLim int64
	errText string
}

func keyOf(i *types.Interruption) *intrKey {
	if i == nil {
		return nil
	}
	return &intrKey{i.RuleID, i.Action, i.Status, i.Data}
}

type runner struct {
	wafs  map[string]coraza.WAF
	texts map[string]string
}

func (rn *runner) waf(w wafCfg) (coraza.WAF, error) {
	text := w.sec()
	if wf, ok := rn.wafs[text]; ok {
		return wf, nil
	}
	wf, err := coraza.NewWAF(coraza.NewWAFConfig().WithDirectives(text))
	if err != nil {
		return nil, fmt.Errorf("configuration rejected: %v\n%s", err, text)
	}
	if len(rn.wafs) > 400 {
		rn.wafs = map[string]coraza.WAF{}
	}
	rn.wafs[text] = wf
	return wf, nil
}

type runResult struct {
	obs     []obs
	matched [][2]int // id, disruptive(0/1)
	counts  map[int]int
}

func (rn *runner) run(w wafCfg, calls []call) (*runResult, error) {
	wf, err := rn.waf(w)
	if err != nil {
		return nil, err
	}
	tx := wf.NewTransaction().(*corazawaf.Transaction)
	defer tx.Close()
	res := &runResult{counts: map[int]int{}}
	for _, c := range calls {
		o := obs{ret: "void"}
		var e error
		switch c.K {
		case "conn":
			tx.ProcessConnection("1.2.3.4", 1234, "5.6.7.8", 80)
		case "uri":
			tx.ProcessURI("/p?a=1", "GET", "HTTP/1.1")
		case "reqhdr":
			tx.AddRequestHeader("X-F", "1")
		case "resphdr":
			tx.AddResponseHeader("X-G", "1")
			tx.AddResponseHeader("Content-Type", "text/plain")
		case "prh":
			o.ret, o.retI = "i", keyOf(tx.ProcessRequestHeaders())
		case "prb":
			it, err := tx.ProcessRequestBody()
			o.ret, o.retI, e = "i", keyOf(it), err
		case "presph":
			o.ret, o.retI = "i", keyOf(tx.ProcessResponseHeaders(200, "HTTP/1.1"))
		case "prespb":
			it, err := tx.ProcessResponseBody()
			o.ret, o.retI, e = "i", keyOf(it), err
		case "log":
			tx.ProcessLogging()
		case "wreq":
			it, n, err := tx.WriteRequestBody(bytes.Repeat([]byte{'x'}, c.N))
			o.ret, o.retI, o.w, e = "w", keyOf(it), n, err
		case "rreq":
			it, n, err := tx.ReadRequestBodyFrom(reader(c.N, c.Known))
			o.ret, o.retI, o.w, e = "w", keyOf(it), n, err
		case "wresp":
			it, n, err := tx.WriteResponseBody(bytes.Repeat([]byte{'x'}, c.N))
			o.ret, o.retI, o.w, e = "w", keyOf(it), n, err
		case "rresp":
			it, n, err := tx.ReadResponseBodyFrom(reader(c.N, c.Known))
			o.ret, o.retI, o.w, e = "w", keyOf(it), n, err
		default:
			return nil, fmt.Errorf("unknown call %q", c.K)
		}
		if e != nil {
			o.errText = e.Error()
		}
		o.intr = keyOf(tx.Interruption())
		if (o.intr != nil) != tx.IsInterrupted() {
			o.errText = "IsInterrupted() disagrees with Interruption()"
		}
		o.dintr = keyOf(tx.DetectionOnlyInterruption())
		o.last = int(tx.LastPhase())
		o.engine = tx.RuleEngine
		o.allow = tx.AllowType
		o.skip, o.skipAft = tx.Skip, tx.SkipAfter
		o.reqAcc, o.reqLim, o.respAcc, o.respLim = tx.RequestBodyAccess, tx.RequestBodyLimit, tx.ResponseBodyAccess, tx.ResponseBodyLimit
		res.obs = append(res.obs, o)
	}
	for _, mr := range tx.MatchedRules() {
		d := 0
		if mr.Disruptive() {
			d = 1
		}
		res.matched = append(res.matched, [2]int{mr.Rule().ID(), d})
	}
	for _, r := range w.Rules {
		if r.Marker > 0 {
			continue
		}
		v := tx.Variables().TX().Get(fmt.Sprintf("c%d", r.ID))
		n := 0
		if len(v) > 0 && v[0] != "" {
			n, _ = strconv.Atoi(v[0])
		}
		res.counts[r.ID] = n
	}
	return res, nil
}

// ---- printing observations as Coq terms ----

type interner struct {
	names map[intrKey]string
	defs  []string
}

func (in *interner) term(k *intrKey) string {
	if k == nil {
		return "None"
	}
	if n, ok := in.names[*k]; ok {
		return "(Some " + n + ")"
	}
	kind := map[string]string{"deny": "KDeny", "drop": "KDrop", "redirect": "KRedirect"}[k.action]
	if kind == "" {
		kind = "KUnknown_" + k.action // makes the shard fail loudly
	}
	n := fmt.Sprintf("i%d", len(in.names))
	in.names[*k] = n
	st := strconv.Itoa(k.status)
	if k.status < 0 {
		st = "BAD_NEGATIVE_STATUS"
	}
	in.defs = append(in.defs, fmt.Sprintf("Definition %s := I %d %s %s %s.", n, k.rule, kind, st, vh.HxS(k.data)))
	return "(Some " + n + ")"
}

func (in *interner) obs(o obs) string {
	var ret string
	switch o.ret {
	case "void":
		ret = "RVoid"
	case "i":
		ret = "(RI " + in.term(o.retI) + ")"
	case "w":
		ret = fmt.Sprintf("(RW %s %d%%Z)", in.term(o.retI), o.w)
	}
	eng := map[types.RuleEngineStatus]string{types.RuleEngineOn: "MOn", types.RuleEngineDetectionOnly: "MDet", types.RuleEngineOff: "MOff"}[o.engine]
	al := map[corazatypes.AllowType]string{corazatypes.AllowTypeUnset: "None", corazatypes.AllowTypeAll: "(Some SAll)",
		corazatypes.AllowTypePhase: "(Some SPhase)", corazatypes.AllowTypeRequest: "(Some SRequest)"}[o.allow]
	if o.skip != 0 || o.skipAft != "" {
		sa := "None"
		if o.skipAft != "" {
			n, err := strconv.Atoi(strings.TrimPrefix(o.skipAft, "M"))
			if err != nil {
				n = 999999
			}
			sa = fmt.Sprintf("(Some %d)", n)
		}
		return fmt.Sprintf("OF %s %s %s %d %s %s %d %s", ret, in.term(o.intr), in.term(o.dintr), o.last, eng, al, o.skip, sa)
	}
	return fmt.Sprintf("O %s %s %s %d %s %s", ret, in.term(o.intr), in.term(o.dintr), o.last, eng, al)
}

func (o obs) text() string {
	f := func(k *intrKey) string {
		if k == nil {
			return "nil"
		}
		return fmt.Sprintf("{%d %s %d %q}", k.rule, k.action, k.status, k.data)
	}
	return fmt.Sprintf("ret=%s/%s/%d intr=%s det=%s last=%d engine=%d allow=%d skip=%d skipAfter=%q", o.ret, f(o.retI), o.w, f(o.intr), f(o.dintr), o.last, o.engine, o.allow, o.skip, o.skipAft)
}

// ---- generators ----

var condNames = []string{"true", "false", "conn", "uri", "reqhdr", "resphdr"}

// the disruptive variants placed at every phase and position
type variant struct {
	dacts  []dact
	status int
}

var variants = []variant{
	{[]dact{{K: "deny"}}, -1},
	{[]dact{{K: "deny"}}, 401},
	{[]dact{{K: "deny"}}, 0},
	{[]dact{{K: "drop"}}, -1},
	{[]dact{{K: "drop"}}, 503},
	{[]dact{{K: "redirect", Arg: "http://r.example/a"}}, -1},
	{[]dact{{K: "redirect", Arg: "http://r.example/b"}}, 301},
	{[]dact{{K: "redirect", Arg: "/c"}}, 302},
	{[]dact{{K: "redirect", Arg: "/d"}}, 303},
	{[]dact{{K: "redirect", Arg: "/e"}}, 307},
	{[]dact{{K: "redirect", Arg: "/f"}}, 308},
	{[]dact{{K: "redirect", Arg: "/g"}}, 200},
	{[]dact{{K: "redirect", Arg: "/h"}}, 403},
	{[]dact{{K: "block"}}, -1},
	{[]dact{{K: "block"}}, 402},
	{[]dact{{K: "pass"}}, -1},
	{[]dact{{K: "allow"}}, -1},
	{[]dact{{K: "allow", Arg: "phase"}}, -1},
	{[]dact{{K: "allow", Arg: "request"}}, -1},
	{[]dact{{K: "deny"}, {K: "pass"}}, -1},
	{[]dact{{K: "pass"}, {K: "deny"}}, 405},
	{[]dact{{K: "deny"}, {K: "block"}}, -1},
	{[]dact{{K: "block"}, {K: "drop"}}, -1},
	{[]dact{{K: "drop"}, {K: "redirect", Arg: "/i"}, {K: "deny"}}, 307},
	{nil, -1},
	{nil, 404},
}

var defaultVariants = []defAct{
	{Phase: 0, Dacts: []dact{{K: "deny"}}, Status: 418},
	{Phase: 0, Dacts: []dact{{K: "deny"}}, Status: -1},
	{Phase: 0, Dacts: []dact{{K: "drop"}}, Status: -1},
	{Phase: 0, Dacts: []dact{{K: "redirect", Arg: "http://d.example/"}}, Status: 303},
	{Phase: 0, Dacts: []dact{{K: "pass"}}, Status: -1},
	{Phase: 0, Dacts: []dact{{K: "block"}}, Status: -1},
	{Phase: 0, Dacts: []dact{{K: "pass"}, {K: "deny"}}, Status: 451},
	{Phase: 0, Dacts: []dact{{K: "allow"}}, Status: -1},
}

var engines = []string{"On", "DetectionOnly", "Off"}

func pick[T any](r *rand.Rand, l []T) T { return l[r.Intn(len(l))] }

func marker(id, phase int) rawRule {
	return rawRule{ID: id, Phase: phase, Cond: "true", Dacts: []dact{{K: "pass"}}, Status: -1}
}

// positional template: three rules per phase (ids 10p+0..2); the rule at (phase, pos) carries the
// disruptive variant, the others are counters; optional ctl rule at the head of phase ctlPhase.
func positional(engine string, phase, pos int, v variant, cond string, defs []defAct, ctlPhase int, ctl string) wafCfg {
	w := wafCfg{Engine: engine, Defaults: defs, ReqAcc: true, ReqLim: 8, ReqAct: "Reject", RespAcc: true, RespLim: 8, RespAct: "ProcessPartial"}
	for p := 1; p <= 5; p++ {
		if p == ctlPhase {
			w.Rules = append(w.Rules, rawRule{ID: 100 + p, Phase: p, Cond: "true", Ctl: ctl, Status: -1})
		}
		for k := 0; k < 3; k++ {
			id := 10*p + k
			if p == phase && k == pos {
				w.Rules = append(w.Rules, rawRule{ID: id, Phase: p, Cond: cond, Dacts: v.dacts, Status: v.status})
			} else {
				w.Rules = append(w.Rules, marker(id, p))
			}
		}
	}
	return w
}

func randomRule(r *rand.Rand, id int) rawRule {
	rr := rawRule{ID: id, Phase: 1 + r.Intn(5), Status: -1}
	switch r.Intn(10) {
	case 0, 1, 2, 3:
		rr.Cond = "true"
	case 4:
		rr.Cond = "false"
	default:
		rr.Cond = condNames[2+r.Intn(4)]
	}
	if r.Intn(6) == 0 {
		rr.Chain = pick(r, condNames)
	}
	if r.Intn(7) == 0 {
		rr.Ctl = pick(r, engines)
	}
	switch r.Intn(10) {
	case 0, 1, 2, 3:
		rr.Dacts = []dact{{K: "pass"}}
	case 4:
		rr.Dacts = nil
	default:
		v := pick(r, variants)
		rr.Dacts, rr.Status = v.dacts, v.status
		if r.Intn(3) == 0 {
			rr.Status = pick(r, statusBoundary)
		}
	}
	return rr
}

// statuses around every edge of the redirect whitelist {301,302,303,307}, the deny default (0 / absent
// -> 403) and values far outside; -1 = no status action
var statusBoundary = []int{-1, 0, 200, 300, 301, 302, 303, 304, 305, 306, 307, 308, 401, 403, 503, 999}

// statusCfg: one rule of phase `phase` whose effective disruptive action is `kind` (deny / drop / redirect)
// and whose effective status is `status`, placed in one of three ways:
//   0: both on the rule                      "status:N,<kind>"
//   1: both inherited through block          SecDefaultAction "phase:p,<kind>,status:N" + rule "block"
//   2: the action on the rule, the status inherited from SecDefaultAction "phase:p,pass,status:N"
func statusCfg(engine string, phase int, kind string, status int, placement int, id int) wafCfg {
	w := wafCfg{Engine: engine, ReqAcc: false, ReqLim: 8, ReqAct: "Reject", RespAcc: false, RespLim: 8, RespAct: "ProcessPartial"}
	d := act{K: kind}
	if kind == "redirect" {
		d.Arg = fmt.Sprintf("http://s.example/%d", id)
	}
	var st []act
	if status >= 0 {
		st = []act{{"status", strconv.Itoa(status)}}
	}
	var acts []act
	switch placement {
	case 0:
		if id%2 == 0 {
			acts = append(append(acts, st...), d)
		} else {
			acts = append(append(acts, d), st...)
		}
	case 1:
		w.Defaults = []defAct{{Phase: phase, Acts: append([]act{d}, st...), Status: -1}}
		acts = []act{{K: "block"}}
	case 2:
		w.Defaults = []defAct{{Phase: phase, Acts: append([]act{{K: "pass"}}, st...), Status: -1}}
		acts = []act{d}
	}
	w.Rules = append(w.Rules, marker(7, phase))
	w.Rules = append(w.Rules, rawRule{ID: id, Phase: phase, Cond: "true", Acts: acts, Status: -1})
	w.Rules = append(w.Rules, marker(9, phase), marker(50, 5))
	return w
}

var inertActs = []act{{K: "log"}, {K: "nolog"}, {K: "msg", Arg: "m"}, {K: "tag", Arg: "t"}, {K: "setvar", Arg: "tx.z=1"}, {K: "auditlog"}}

var disruptiveActs = []act{{K: "deny"}, {K: "drop"}, {K: "redirect", Arg: "/u"}, {K: "pass"}, {K: "allow"}, {K: "block"}}

// separators returns n non-disruptive actions (log, nolog, status:N, msg, setvar, tag)
func separators(r *rand.Rand, n int) []act {
	var l []act
	for i := 0; i < n; i++ {
		if r.Intn(4) == 0 {
			l = append(l, act{"status", strconv.Itoa(pick(r, statusBoundary[1:]))})
		} else {
			l = append(l, pick(r, inertActs))
		}
	}
	return l
}

// explicit turns the laid-out fields of a rule into an explicit action list and inserts extra
// actions (separators, skip, skipAfter) at random places
func explicit(r *rand.Rand, rr rawRule, extra []act) rawRule {
	id := rr.ID
	rr.ID = 0 // items() without the counter position depending on the id
	l := rr.items()
	var acts []act
	for _, a := range l {
		if a.K == "setvar" && strings.HasPrefix(a.Arg, "tx.c0=") {
			continue
		}
		acts = append(acts, a)
	}
	for _, e := range extra {
		at := r.Intn(len(acts) + 1)
		acts = append(acts[:at], append([]act{e}, acts[at:]...)...)
	}
	if acts == nil {
		acts = []act{}
	}
	rr.ID, rr.Acts, rr.Dacts, rr.Ctl, rr.Status = id, acts, nil, "", -1
	return rr
}

// actionList: one rule whose list holds the given disruptive actions separated by seps[i]
// non-disruptive actions (before the first, between, after the last)
func actionListCfg(r *rand.Rand, engine string, phase int, ds []act, seps []int, def *defAct) wafCfg {
	w := wafCfg{Engine: engine, ReqAcc: false, ReqLim: 8, ReqAct: "Reject", RespAcc: false, RespLim: 8, RespAct: "ProcessPartial"}
	if def != nil {
		d := *def
		d.Phase = phase
		w.Defaults = []defAct{d}
	}
	var acts []act
	for i, d := range ds {
		acts = append(acts, separators(r, seps[i])...)
		acts = append(acts, d)
	}
	acts = append(acts, separators(r, seps[len(ds)])...)
	w.Rules = append(w.Rules, marker(7, phase))
	w.Rules = append(w.Rules, rawRule{ID: 8, Phase: phase, Cond: "true", Acts: acts, Status: -1})
	w.Rules = append(w.Rules, marker(9, phase), marker(50, 5))
	return w
}

// flowCfg: an interrupting rule in phase `phase` that also carries skip:N or skipAfter:M<k>, followed by
// further rules of the same phase and by logging-phase rules with markers in between
func flowCfg(r *rand.Rand, engine string, phase int, dis act, flow act, markerPresent bool, status int) wafCfg {
	w := wafCfg{Engine: engine, ReqAcc: false, ReqLim: 8, ReqAct: "Reject", RespAcc: false, RespLim: 8, RespAct: "ProcessPartial"}
	acts := []act{dis, flow}
	if r.Intn(2) == 0 {
		acts = []act{flow, dis}
	}
	if status >= 0 {
		acts = append(acts, act{"status", strconv.Itoa(status)})
	}
	w.Rules = append(w.Rules, marker(1, phase))
	w.Rules = append(w.Rules, rawRule{ID: 2, Phase: phase, Cond: "true", Acts: acts, Status: -1})
	w.Rules = append(w.Rules, marker(3, phase))
	if phase != 5 {
		w.Rules = append(w.Rules, rawRule{ID: 4, Phase: phase, Cond: "true", Dacts: []dact{{K: "deny"}}, Status: 401})
	}
	w.Rules = append(w.Rules, marker(50, 5))
	if markerPresent {
		w.Rules = append(w.Rules, rawRule{Marker: 1})
	} else {
		w.Rules = append(w.Rules, rawRule{Marker: 2})
	}
	w.Rules = append(w.Rules, marker(51, 5), marker(52, 5))
	w.Rules = append(w.Rules, rawRule{Marker: 3})
	w.Rules = append(w.Rules, marker(53, 5))
	if phase < 4 {
		w.Rules = append(w.Rules, marker(60, phase+1))
	}
	return w
}

func randomCfg(r *rand.Rand) wafCfg {
	w := wafCfg{ReqLim: 8, RespLim: 8}
	switch r.Intn(10) {
	case 0:
		w.Engine = "Off"
	case 1, 2, 3:
		w.Engine = "DetectionOnly"
	default:
		w.Engine = "On"
	}
	w.ReqAcc = r.Intn(5) != 0
	w.RespAcc = r.Intn(5) != 0
	w.ReqAct = pick(r, []string{"Reject", "ProcessPartial"})
	w.RespAct = pick(r, []string{"Reject", "ProcessPartial"})
	if r.Intn(6) == 0 {
		w.ReqLim = 1 + r.Intn(12)
	}
	if r.Intn(6) == 0 {
		w.RespLim = 1 + r.Intn(12)
	}
	perm := r.Perm(5)
	nd := r.Intn(3)
	for i := 0; i < nd; i++ {
		d := pick(r, defaultVariants)
		d.Phase = perm[i] + 1
		if r.Intn(3) == 0 {
			d.Status = pick(r, statusBoundary)
		}
		w.Defaults = append(w.Defaults, d)
	}
	n := 4 + r.Intn(7)
	ids := r.Perm(40)
	for i := 0; i < n; i++ {
		rr := randomRule(r, ids[i]+1)
		switch r.Intn(8) {
		case 0: // separators between the disruptive actions, flow actions
			var extra []act
			extra = append(extra, separators(r, r.Intn(4))...)
			if r.Intn(2) == 0 {
				extra = append(extra, act{"skip", strconv.Itoa(1 + r.Intn(3))})
			}
			if r.Intn(3) == 0 {
				extra = append(extra, act{"skipafter", strconv.Itoa(1 + r.Intn(3))})
			}
			rr = explicit(r, rr, extra)
		}
		w.Rules = append(w.Rules, rr)
		if r.Intn(6) == 0 {
			w.Rules = append(w.Rules, rawRule{Marker: 1 + r.Intn(3)})
		}
	}
	return w
}

var bodySizes = []int{0, 1, 3, 4, 5, 7, 8, 9, 20}

func allSymbols() []call {
	l := []call{{K: "conn"}, {K: "uri"}, {K: "reqhdr"}, {K: "resphdr"}, {K: "prh"}, {K: "prb"}, {K: "presph"}, {K: "prespb"}, {K: "log"}}
	for _, n := range bodySizes {
		l = append(l, call{K: "wreq", N: n}, call{K: "rreq", N: n, Known: true}, call{K: "rreq", N: n},
			call{K: "wresp", N: n}, call{K: "rresp", N: n, Known: true}, call{K: "rresp", N: n})
	}
	return l
}

// ten-symbol alphabets for the exhaustive enumeration
var alphabets = [][]call{
	{{K: "prh"}, {K: "prb"}, {K: "presph"}, {K: "prespb"}, {K: "log"}, {K: "uri"}, {K: "resphdr"}, {K: "wreq", N: 4}, {K: "wreq", N: 9}, {K: "wresp", N: 9}},
	{{K: "prh"}, {K: "prb"}, {K: "presph"}, {K: "prespb"}, {K: "log"}, {K: "conn"}, {K: "reqhdr"}, {K: "rreq", N: 9}, {K: "rreq", N: 8, Known: true}, {K: "rresp", N: 4}},
	{{K: "prh"}, {K: "prb"}, {K: "presph"}, {K: "prespb"}, {K: "log"}, {K: "wreq", N: 7}, {K: "wreq", N: 1}, {K: "wresp", N: 4}, {K: "rresp", N: 9, Known: true}, {K: "rreq", N: 3}},
}

var canonical = []call{{K: "conn"}, {K: "uri"}, {K: "reqhdr"}, {K: "prh"}, {K: "wreq", N: 4}, {K: "prb"}, {K: "resphdr"}, {K: "presph"}, {K: "wresp", N: 4}, {K: "prespb"}, {K: "log"}}

func randomSeq(r *rand.Rand, syms []call, n int) []call {
	s := make([]call, n)
	for i := range s {
		if r.Intn(2) == 0 {
			s[i] = syms[r.Intn(9)] // data feeding and phase calls
		} else {
			s[i] = syms[r.Intn(len(syms))]
		}
	}
	return s
}

// a canonical order with random repetitions, omissions and swaps
func perturbed(r *rand.Rand, syms []call) []call {
	var s []call
	for _, c := range canonical {
		switch r.Intn(8) {
		case 0: // skip
		case 1: // repeat
			s = append(s, c, c)
		case 2: // insert a random call
			s = append(s, syms[r.Intn(len(syms))], c)
		default:
			s = append(s, c)
		}
	}
	if r.Intn(3) == 0 && len(s) > 1 {
		i, j := r.Intn(len(s)), r.Intn(len(s))
		s[i], s[j] = s[j], s[i]
	}
	return s
}

// ---- the driver ----

func Run(cfg vh.Config) (*vh.Result, error) {
	res := &vh.Result{InputDistribution: map[string]int{}}
	res.Rule = "a case = (configuration compiled by the real seclang parser, sequence of Transaction API calls); non-trivial = at least one rule fired AND (an interruption or would-be interruption was recorded, or an allow / ctl:ruleEngine changed the state, or a body limit was reached, or a phase call was repeated/skipped/out of order); distinct = distinct (configuration text, call sequence)"
	rng := vh.Rng(cfg.Seed, "c02")
	rn := &runner{wafs: map[string]coraza.WAF{}}
	syms := allSymbols()

	type shardAcc struct {
		bytes  int
		terms  []string
		cases  []any
		in     *interner
		cfgs   map[string]string
		cfgDef []string
	}
	newAcc := func() *shardAcc {
		return &shardAcc{in: &interner{names: map[intrKey]string{}}, cfgs: map[string]string{}}
	}
	acc := newAcc()
	shardNo := 0
	perBytes := 450000 // shards are balanced by text size: coqc time is proportional to it
	flush := func() error {
		if len(acc.terms) == 0 {
			return nil
		}
		prelude := "Import TxPhase.\n" + strings.Join(acc.cfgDef, "\n") + "\n" + strings.Join(acc.in.defs, "\n")
		info, err := vh.WriteShard(cfg.OutDir, vh.Shard{
			Name: fmt.Sprintf("C02_%d", shardNo), Imports: "From Verif Require Import Base TxPhase CorrC02.",
			CaseType: "CorrC02.case", MismatchF: "CorrC02.mismatches", Terms: acc.terms, Cases: acc.cases, Prelude: prelude,
		})
		if err != nil {
			return err
		}
		res.Shards = append(res.Shards, info)
		shardNo++
		acc = newAcc()
		return nil
	}

	seen := map[string]bool{}
	nontrivial := 0
	fail := func(key, what string, c any) {
		res.OracleFailures = append(res.OracleFailures, vh.OracleFailure{Key: key, What: what, Case: c})
	}
	knownSeen := map[string]bool{}

	add := func(w wafCfg, calls []call, family string) error {
		rr, err := rn.run(w, calls)
		if err != nil {
			return err
		}
		res.Evaluations++
		res.InputDistribution["family_"+family]++
		res.InputDistribution["engine_"+w.Engine]++
		res.InputDistribution[fmt.Sprintf("len_%02d", min(len(calls), 15))]++
		cj := caseJSON{Cfg: w, Calls: calls}
		for _, o := range rr.obs {
			cj.Observed = append(cj.Observed, o.text())
		}
		cj.Matched = fmt.Sprint(rr.matched)

		// ---- implementation-side oracles: the property's own claims on the real transaction ----
		res.OracleEvaluations++
		var first *intrKey
		engineBefore := map[string]types.RuleEngineStatus{"On": types.RuleEngineOn, "DetectionOnly": types.RuleEngineDetectionOnly, "Off": types.RuleEngineOff}[w.Engine]
		intrBefore := false
		everSwitchedOn := false
		hasCtlOn := false
		for _, r := range w.Rules {
			for _, a := range r.items() {
				if a.K == "ctl" && a.Arg == "On" {
					hasCtlOn = true
				}
			}
		}
		for i, o := range rr.obs {
			if o.errText != "" {
				fail("c02-unexpected-error", fmt.Sprintf("call %d (%s): %s", i, calls[i], o.errText), cj)
			}
			if first != nil && (o.intr == nil || *o.intr != *first) {
				fail("c02-interruption-not-final", fmt.Sprintf("call %d (%s) changed the recorded interruption", i, calls[i]), cj)
			}
			if first == nil && o.intr != nil {
				first = o.intr
			}
			if o.retI != nil && (o.intr == nil || *o.retI != *o.intr) {
				fail("c02-returned-differs-from-recorded", fmt.Sprintf("call %d (%s) returned an interruption that is not the recorded one", i, calls[i]), cj)
			}
			if engineBefore == types.RuleEngineOff && (o.retI != nil || (o.intr != nil) != intrBefore) {
				fail("c02-engine-off-interrupts", fmt.Sprintf("call %d (%s) interrupted with the engine Off", i, calls[i]), cj)
			}
			// DetectionOnly before and after the call, no interruption before: none may appear
			if !hasCtlOn && engineBefore == types.RuleEngineDetectionOnly && o.engine == types.RuleEngineDetectionOnly && !intrBefore && (o.intr != nil || o.retI != nil) {
				// the only known way: body-limit Reject after ctl:ruleEngine=DetectionOnly (F12)
				if o.intr != nil && o.intr.rule == 0 && w.Engine != "DetectionOnly" {
					knownSeen["c02-reject-in-detectiononly-via-ctl"] = true
					res.InputDistribution["known_F12_reproduced"]++
				} else {
					fail("c02-detectiononly-interrupts", fmt.Sprintf("call %d (%s) recorded or returned an interruption in DetectionOnly", i, calls[i]), cj)
				}
			}
			if o.engine == types.RuleEngineOn && engineBefore != types.RuleEngineOn {
				everSwitchedOn = true
			}
			engineBefore, intrBefore = o.engine, o.intr != nil
		}
		if w.Engine == "DetectionOnly" && !everSwitchedOn && !hasCtlOn && first != nil {
			fail("c02-detectiononly-config-interrupts", "a transaction of a DetectionOnly WAF (never switched On) was interrupted", cj)
		}
		// each rule of phases 1-4 evaluated at most once; nothing evaluated with the engine Off
		fired := false
		for _, r := range w.Rules {
			if r.Marker > 0 {
				continue
			}
			n := rr.counts[r.ID]
			if n > 0 {
				fired = true
			}
			if r.Phase <= 4 && n > 1 {
				fail("c02-phase-evaluated-twice", fmt.Sprintf("rule %d of phase %d matched %d times", r.ID, r.Phase, n), cj)
			}
			if w.Engine == "Off" && n > 0 {
				fail("c02-engine-off-evaluates", fmt.Sprintf("rule %d evaluated with SecRuleEngine Off", r.ID), cj)
			}
		}
		// matched rules after the interruption belong to the logging phase
		if first != nil {
			phaseOf := map[int]int{}
			for _, r := range w.Rules {
				phaseOf[r.ID] = r.Phase
			}
			after := false
			for _, m := range rr.matched {
				if after && phaseOf[m[0]] != 5 {
					fail("c02-rule-after-interruption", fmt.Sprintf("rule %d (phase %d) matched after the interrupting rule %d", m[0], phaseOf[m[0]], first.rule), cj)
				}
				if m[0] == first.rule && first.rule != 0 {
					after = true
				}
			}
		}

		// flow actions only work within the phase that raised them: between calls tx.Skip and
		// tx.SkipAfter are at rest
		for i, o := range rr.obs {
			if o.skip != 0 || o.skipAft != "" {
				fail("c02-flow-state-leaks", fmt.Sprintf("after call %d (%s): tx.Skip=%d tx.SkipAfter=%q", i, calls[i], o.skip, o.skipAft), cj)
				break
			}
		}
		// the logging phase evaluates ALL its rules (interrupted or not) whenever none of them carries
		// skip / skipAfter / allow:phase: an unconditional phase-5 rule matches once per ProcessLogging
		// that starts with the engine not Off
		{
			plain5 := true
			for _, r := range w.Rules {
				if r.Marker == 0 && r.Phase == 5 {
					for _, a := range r.items() {
						if a.K == "skip" || a.K == "skipafter" || (a.K == "allow" && a.Arg == "phase") {
							plain5 = false
						}
					}
				}
			}
			for _, d := range w.Defaults {
				if d.Phase == 5 {
					for _, a := range d.items() {
						if a.K == "allow" && a.Arg == "phase" {
							plain5 = false
						}
					}
				}
			}
			if plain5 {
				logs := 0
				eng := map[string]types.RuleEngineStatus{"On": types.RuleEngineOn, "DetectionOnly": types.RuleEngineDetectionOnly, "Off": types.RuleEngineOff}[w.Engine]
				for i, o := range rr.obs {
					if calls[i].K == "log" && eng != types.RuleEngineOff {
						logs++
					}
					eng = o.engine
				}
				for _, r := range w.Rules {
					if r.Marker == 0 && r.Phase == 5 && r.Cond == "true" && rr.counts[r.ID] != logs {
						fail("c02-logging-rule-not-evaluated", fmt.Sprintf("phase-5 rule %d matched %d times in %d ProcessLogging calls", r.ID, rr.counts[r.ID], logs), cj)
						break
					}
				}
			}
		}

		{
			sawAllow, sawSwitch, repeated := false, false, false
			seenCall := map[string]bool{}
			for i, o := range rr.obs {
				if o.allow != 0 {
					sawAllow = true
				}
				if o.engine != rr.obs[0].engine || (i == 0 && modeCoq(w.Engine) != map[types.RuleEngineStatus]string{types.RuleEngineOn: "MOn", types.RuleEngineDetectionOnly: "MDet", types.RuleEngineOff: "MOff"}[o.engine]) {
					sawSwitch = true
				}
				switch calls[i].K {
				case "prh", "prb", "presph", "prespb":
					if seenCall[calls[i].K] {
						repeated = true
					}
					seenCall[calls[i].K] = true
				}
			}
			if sawAllow {
				res.InputDistribution["allow_scope_active"]++
			}
			if sawSwitch {
				res.InputDistribution["engine_switched_by_ctl"]++
			}
			if repeated {
				res.InputDistribution["phase_call_repeated"]++
			}
			for _, r := range w.Rules {
				if r.Chain != "" && rr.counts[r.ID] > 0 {
					res.InputDistribution["chain_starter_matched"]++
					break
				}
			}
		}
		key := w.sec() + "|" + fmt.Sprint(calls)
		if !seen[key] {
			seen[key] = true
			interesting := false
			prevPhase := 0
			for i, o := range rr.obs {
				if o.intr != nil || o.dintr != nil || o.allow != 0 || o.engine != rr.obs[0].engine {
					interesting = true
				}
				switch calls[i].K {
				case "prh", "prb", "presph", "prespb", "log":
					p := map[string]int{"prh": 1, "prb": 2, "presph": 3, "prespb": 4, "log": 5}[calls[i].K]
					if p != prevPhase+1 {
						interesting = true
					}
					prevPhase = p
				}
			}
			if fired && interesting {
				nontrivial++
			}
		}
		if first != nil {
			res.InputDistribution["interrupted_by_"+first.action+"_"+strconv.Itoa(first.status)]++
			for _, r := range w.Rules {
				if r.ID == first.rule && r.Marker == 0 {
					res.InputDistribution[fmt.Sprintf("interrupted_in_phase_%d", r.Phase)]++
				}
			}
			if first.rule == 0 {
				res.InputDistribution["interrupted_by_body_limit"]++
			}
		} else {
			det := false
			for _, o := range rr.obs {
				if o.dintr != nil {
					det = true
				}
			}
			if det {
				res.InputDistribution["would_be_interruption_only"]++
			} else {
				res.InputDistribution["not_interrupted"]++
			}
		}

		// ---- the Coq term ----
		text := w.sec()
		cn, ok := acc.cfgs[text]
		if !ok {
			cn = fmt.Sprintf("w%d", len(acc.cfgs))
			acc.cfgs[text] = cn
			acc.cfgDef = append(acc.cfgDef, fmt.Sprintf("Definition %s := %s.", cn, w.coq()))
		}
		cs := make([]string, len(calls))
		for i, c := range calls {
			cs[i] = c.coq()
		}
		os_ := make([]string, len(rr.obs))
		for i, o := range rr.obs {
			os_[i] = acc.in.obs(o)
			if family == "ctl_body" { // the per-transaction body settings are compared after every call
				os_[i] = fmt.Sprintf("OB (%s) %s %d%%Z %s %d%%Z", os_[i], vh.Bool(o.reqAcc), o.reqLim, vh.Bool(o.respAcc), o.respLim)
			}
		}
		ms := make([]string, len(rr.matched))
		for i, m := range rr.matched {
			ms[i] = fmt.Sprintf("(%d,%s)", m[0], vh.Bool(m[1] == 1))
		}
		var ids []int
		for id := range rr.counts {
			ids = append(ids, id)
		}
		sort.Ints(ids)
		var cts []string
		for _, id := range ids {
			if rr.counts[id] != 0 { // rules not listed are checked against 0 by CorrC02.ok
				cts = append(cts, fmt.Sprintf("(%d,%d)", id, rr.counts[id]))
			}
		}
		term := fmt.Sprintf("Case %s %s %s %s %s", cn, vh.List(cs), vh.List(os_), vh.List(ms), vh.List(cts))
		acc.terms = append(acc.terms, term)
		acc.bytes += len(term)
		acc.cases = append(acc.cases, cj)
		if len(res.Samples) < 6 && (res.Evaluations%997 == 1) {
			res.Samples = append(res.Samples, cj)
		}
		if acc.bytes >= perBytes {
			return flush()
		}
		return nil
	}

	runDoc := func(doc json.RawMessage) error {
		var c caseJSON
		if err := json.Unmarshal(doc, &c); err != nil {
			return err
		}
		if c.Cfg.Engine == "" {
			return fmt.Errorf("replay document has no cfg")
		}
		return add(c.Cfg, c.Calls, "corpus")
	}

	if cfg.Replay != "" {
		b, err := os.ReadFile(cfg.Replay)
		if err != nil {
			return nil, err
		}
		var rp struct {
			Case json.RawMessage `json:"case"`
		}
		if json.Unmarshal(b, &rp) == nil && rp.Case != nil {
			err = runDoc(rp.Case)
		} else {
			err = runDoc(b)
		}
		if err != nil {
			return nil, err
		}
	} else {
		docs, names := vh.LoadCorpus(cfg.Corpus)
		for i, d := range docs {
			if err := runDoc(d); err != nil {
				return nil, fmt.Errorf("corpus %s: %v", names[i], err)
			}
		}

		// (1) a disruptive variant at every phase and position, every engine mode; canonical
		//     order plus perturbed orders
		for phase := 1; phase <= 5; phase++ {
			for pos := 0; pos < 3; pos++ {
				for vi, v := range variants {
					for ei, eng := range engines {
						if eng == "Off" && (vi+phase+pos)%5 != 0 {
							continue
						}
						var defs []defAct
						if v.dacts != nil && (v.dacts[len(v.dacts)-1].K == "block" || vi%4 == 0) || v.dacts == nil && vi%2 == 0 {
							d := defaultVariants[(vi+phase+pos+ei)%len(defaultVariants)]
							d.Phase = phase
							defs = []defAct{d}
						}
						cond := "true"
						if (vi+pos)%4 == 3 {
							cond = condNames[2+(vi+phase)%4]
						}
						w := positional(eng, phase, pos, v, cond, defs, 0, "")
						if cfg.Thorough() || (vi+phase+pos+ei)%2 == 0 {
							if err := add(w, canonical, "positional"); err != nil {
								return nil, err
							}
						}
						for k := 0; k < cfg.Pick(1, 6); k++ {
							if err := add(w, perturbed(rng, syms), "positional"); err != nil {
								return nil, err
							}
						}
					}
				}
			}
		}
		// (2) mode switches by ctl:ruleEngine at each phase, deny at each phase, both limit actions
		for ctlPhase := 1; ctlPhase <= 5; ctlPhase++ {
			for _, ctl := range engines {
				for _, eng := range engines {
					for phase := 1; phase <= 5; phase++ {
						w := positional(eng, phase, (phase+ctlPhase)%3, variants[(phase+ctlPhase)%6], "true", nil, ctlPhase, ctl)
						if (phase+ctlPhase)%2 == 0 {
							w.ReqAct, w.RespAct = "ProcessPartial", "Reject"
						}
						if err := add(w, canonical, "ctl"); err != nil {
							return nil, err
						}
						for k := 0; k < cfg.Pick(1, 6); k++ {
							if err := add(w, perturbed(rng, syms), "ctl"); err != nil {
								return nil, err
							}
						}
					}
				}
			}
		}
		// (2a) effective status of every interrupting action at every edge of the whitelists, on the rule
		//      and inherited from SecDefaultAction (with block / with the rule's own action)
		{
			seqs := [][]call{
				{{K: "prh"}, {K: "prb"}, {K: "presph"}, {K: "prespb"}, {K: "log"}},
				{{K: "log"}, {K: "prh"}},
			}
			n := 0
			for ki, kind := range []string{"redirect", "deny", "drop"} {
				for si, status := range statusBoundary {
					for placement := 0; placement < 3; placement++ {
						n++
						phase := 1 + (ki+si+placement)%5
						eng := "On"
						if (ki+si+placement)%4 == 3 {
							eng = "DetectionOnly" // the would-be interruption carries the same status
						}
						w := statusCfg(eng, phase, kind, status, placement, 100+n)
						sq := seqs[0]
						if phase == 5 && n%2 == 0 {
							sq = seqs[1]
						}
						if err := add(w, sq, "status_boundary"); err != nil {
							return nil, err
						}
					}
				}
			}
		}
		// (2b) action lists: 2-3 disruptive actions separated by 0-3 non-disruptive ones, every order
		//      (the parser keeps only the LAST disruptive action, wherever the earlier ones stand)
		short := []call{{K: "prh"}, {K: "prb"}, {K: "presph"}, {K: "prespb"}, {K: "log"}}
		for i, d1 := range disruptiveActs {
			for j, d2 := range disruptiveActs {
				for sep := 0; sep <= 3; sep++ {
					var def *defAct
					if d1.K == "block" || d2.K == "block" || (i+j+sep)%5 == 0 {
						def = &defaultVariants[(i+j+sep)%len(defaultVariants)]
					}
					phase := 1 + (i+2*j+sep)%4
					w := actionListCfg(rng, engines[(i+j+sep)%2], phase, []act{d1, d2}, []int{rng.Intn(2), sep, rng.Intn(3)}, def)
					if err := add(w, short, "action_list"); err != nil {
						return nil, err
					}
				}
			}
		}
		for k := 0; k < cfg.Pick(200, 2000); k++ {
			ds := []act{pick(rng, disruptiveActs), pick(rng, disruptiveActs), pick(rng, disruptiveActs)}
			var def *defAct
			if rng.Intn(3) == 0 {
				def = &defaultVariants[rng.Intn(len(defaultVariants))]
			}
			w := actionListCfg(rng, engines[rng.Intn(2)], 1+rng.Intn(5), ds, []int{rng.Intn(3), rng.Intn(4), rng.Intn(4), rng.Intn(3)}, def)
			if err := add(w, short, "action_list"); err != nil {
				return nil, err
			}
		}
		// (2c) an interrupting rule that also carries skip:N / skipAfter:M (marker present later /
		//      absent): the logging phase must still evaluate every one of its rules
		flowSeqs := [][]call{
			{{K: "prh"}, {K: "prb"}, {K: "presph"}, {K: "prespb"}, {K: "log"}},
			{{K: "prh"}, {K: "log"}, {K: "log"}},
			{{K: "prh"}, {K: "prb"}, {K: "log"}, {K: "presph"}},
			{{K: "log"}, {K: "prh"}, {K: "log"}},
		}
		for phase := 1; phase <= 5; phase++ {
			for di, dis := range []act{{K: "deny"}, {K: "drop"}, {K: "redirect", Arg: "/f"}, {K: "pass"}, {K: "allow", Arg: "phase"}} {
				for fi, flow := range []act{{K: "skip", Arg: "1"}, {K: "skip", Arg: "2"}, {K: "skip", Arg: "3"}, {K: "skipafter", Arg: "1"}, {K: "skipafter", Arg: "1"}} {
					for ei := 0; ei < 2; ei++ {
						if ei == 1 && (phase+di+fi)%3 != 0 {
							continue
						}
						w := flowCfg(rng, engines[ei], phase, dis, flow, fi != 4, []int{-1, 403, 503}[(phase+di+fi)%3])
						for si, sq := range flowSeqs {
							if si > 0 && (phase+di+fi+si)%2 == 0 && !cfg.Thorough() {
								continue
							}
							if err := add(w, sq, "flow"); err != nil {
								return nil, err
							}
						}
					}
				}
			}
		}
		// (3) exhaustive call sequences over ten-symbol alphabets: every sequence of exactly L calls
		//     (each shorter sequence is a prefix of one of them and is compared call by call)
		//     quick: 2 x 10^3 (L=3, ten symbols) + 8^4 (L=4 over the first eight symbols of an alphabet,
		//     hand-made rich configuration); thorough: 3 x 10^4 + 10^5
		type exPlan struct{ n, length, width int }
		plans := []exPlan{{2, 3, 10}, {1, 4, 8}}
		if cfg.Thorough() {
			plans = []exPlan{{3, 4, 10}, {1, 5, 10}}
		}
		t := int(cfg.Seed%3) + 1
		for _, pl := range plans {
			for k := 0; k < pl.n; k++ {
				var w wafCfg
				for {
					w = randomCfg(rng)
					if w.Engine != "Off" {
						break
					}
				}
				if t%3 == 0 || (pl.length >= 4 && pl.n == 1) { // a hand-made rich template: allow:request in 1, deny late in phase 2, ctl in 3
					w = positional(engines[(t/3)%2], 2, 2, variants[1], "uri", nil, 3, "DetectionOnly")
					w.Rules[0] = rawRule{ID: 10, Phase: 1, Cond: "reqhdr", Dacts: []dact{{K: "allow", Arg: "request"}}, Status: -1}
					if (t/3)%2 == 1 {
						w.Rules[1] = rawRule{ID: 11, Phase: 1, Cond: "uri", Dacts: []dact{{K: "drop"}}, Status: 503}
					}
				}
				alpha := alphabets[t%len(alphabets)][:pl.width]
				if pl.width == 8 { // the data calls the rich configuration's conditions look at, one over-limit write
					alpha = []call{{K: "prh"}, {K: "prb"}, {K: "presph"}, {K: "prespb"}, {K: "log"}, {K: "uri"}, {K: "reqhdr"}, {K: "wreq", N: 9}}
				}
				t++
				var rec func(prefix []call) error
				rec = func(prefix []call) error {
					if len(prefix) == pl.length {
						return add(w, append([]call(nil), prefix...), fmt.Sprintf("exhaustive_len%d", pl.length))
					}
					for _, c := range alpha {
						if err := rec(append(prefix, c)); err != nil {
							return err
						}
					}
					return nil
				}
				if err := rec(nil); err != nil {
					return nil, err
				}
				res.Notes = append(res.Notes, fmt.Sprintf("exhaustive: all %d^%d sequences of %d calls over alphabet %d for one configuration (engine %s)", pl.width, pl.length, pl.length, (t-1)%len(alphabets), w.Engine))
			}
		}
		res.Exhaustive = false
		// (4) random configurations x random / perturbed sequences
		for i := 0; i < cfg.Pick(1000, 15000); i++ {
			w := randomCfg(rng)
			var s []call
			if rng.Intn(2) == 0 {
				s = perturbed(rng, syms)
			} else {
				s = randomSeq(rng, syms, 1+rng.Intn(cfg.Pick(10, 14)))
			}
			if err := add(w, s, "random"); err != nil {
				return nil, err
			}
		}
		// (5) per-transaction body settings changed by ctl (deterministic grid, appended after every other
		//     family, no PRNG draws): WAF-wide limit 8; a ctl rule in phase ph sets the request / response
		//     body limit or access; bodies around the ctl limit and around the WAF-wide limit
		{
			type bc struct {
				k, arg string
				phases []int
			}
			grid := []bc{
				{"ctlreqlimit", "4", []int{1, 2}}, {"ctlreqlimit", "3", []int{1}}, {"ctlreqlimit", "8", []int{1}}, {"ctlreqlimit", "0", []int{1}},
				{"ctlresplimit", "4", []int{1, 3, 4}}, {"ctlresplimit", "3", []int{2}}, {"ctlresplimit", "8", []int{3}},
				{"ctlreqacc", "Off", []int{1, 2}}, {"ctlreqacc", "On", []int{1, 2}},
				{"ctlrespacc", "Off", []int{1, 3, 4}}, {"ctlrespacc", "On", []int{3, 4}},
			}
			n := 0
			for _, g := range grid {
				for _, ph := range g.phases {
					for ai, la := range [][2]string{{"Reject", "Reject"}, {"ProcessPartial", "ProcessPartial"}, {"Reject", "ProcessPartial"}} {
						lim := 8
						if g.k == "ctlreqlimit" || g.k == "ctlresplimit" {
							lim, _ = strconv.Atoi(g.arg)
						}
						for zi, sz := range []int{lim - 1, lim + 1, 7, 9} {
							if sz < 0 || (ai == 2 && zi%2 == 1) {
								continue
							}
							n++
							acts := []act{{g.k, g.arg}, {K: "pass"}}
							if ai == 2 { // F12 shape: the same rule switches to DetectionOnly
								acts = append(acts, act{"ctl", "DetectionOnly"})
							}
							w := wafCfg{Engine: "On", ReqLim: 8, RespLim: 8, ReqAct: la[0], RespAct: la[1],
								ReqAcc: !(g.k == "ctlreqacc" && g.arg == "On"), RespAcc: !(g.k == "ctlrespacc" && g.arg == "On")}
							w.Rules = []rawRule{marker(7, 1), {ID: 20 + ph, Phase: ph, Cond: "true", Acts: acts, Status: -1},
								{ID: 40, Phase: 2, Cond: "uri", Dacts: []dact{{K: "deny"}}, Status: 401}, marker(43, 3), marker(44, 4), marker(50, 5)}
							var sq []call
							switch n % 3 {
							case 0:
								sq = []call{{K: "prh"}, {K: "wreq", N: sz}, {K: "wreq", N: 2}, {K: "prb"}, {K: "resphdr"}, {K: "presph"}, {K: "wresp", N: sz}, {K: "prespb"}, {K: "log"}}
							case 1:
								sq = []call{{K: "wreq", N: 2}, {K: "prh"}, {K: "rreq", N: sz, Known: true}, {K: "prb"}, {K: "presph"}, {K: "rresp", N: sz}, {K: "wresp", N: 1}, {K: "prespb"}}
							default:
								sq = []call{{K: "uri"}, {K: "prh"}, {K: "rreq", N: sz}, {K: "prb"}, {K: "presph"}, {K: "rresp", N: sz, Known: true}, {K: "log"}}
							}
							if err := add(w, sq, "ctl_body"); err != nil {
								return nil, err
							}
						}
					}
				}
			}
		}
	}
	if err := flush(); err != nil {
		return nil, err
	}
	res.DistinctNontrivial = nontrivial
	for k := range knownSeen {
		res.KnownReproduced = append(res.KnownReproduced, k)
	}
	sort.Strings(res.KnownReproduced)
	return res, nil
}
