(* Props/C03.v — the property theorems of C03 and nothing else.
   C03: every piece of request data is visible to rules, decoded once, never dropped.
   [fold] is Go's strings.ToLower (an oracle on non-ASCII names), [ord] the order in which Go's
   range visits a map: every theorem holds for all of them. *)
From Coq Require Import String Permutation.
From Verif Require Import Base Decode DecodeProofs.

(* queryUnescape inverts the percent encoder on every byte string ... *)
Theorem C03_unescape_encode : forall s, wf_bytes s -> query_unescape (pct_enc s) = s.
Proof. exact unescape_encode. Qed.
Print Assumptions C03_unescape_encode.

(* ... and every other valid encoding (raw unreserved bytes, %XY in either case, '+' for space) *)
Theorem C03_unescape_any_encoding : forall reserved s e,
  reserved 43 = true -> reserved 37 = true -> enc_str reserved s e -> query_unescape e = s.
Proof. exact unescape_valid_encoding. Qed.
Print Assumptions C03_unescape_any_encoding.

(* doParseQuery reads back every pair of every list, in order, for every valid encoding of the
   names and values joined with '=' and the separator; no guard on names (the empty name and
   the empty value are kept) *)
Theorem C03_parse_pairs_any_encoding : forall reserved sep l el,
  reserved 43 = true -> reserved 37 = true -> is_delim reserved sep -> is_delim reserved 61 -> sep <> 61 ->
  Forall2 (pair_encodes reserved) l el ->
  parse_pairs sep true (join_pairs sep el) = l.
Proof. exact parse_pairs_roundtrip. Qed.
Print Assumptions C03_parse_pairs_any_encoding.

(* the parsed map of enc_query l is the grouping of l: every pair present, the values of a name
   in the order sent, nothing merged or attributed to another name *)
Theorem C03_query_roundtrip : forall l, wf_pairs l ->
  parse_query (enc_query l) 38 = group_pairs l /\
  (forall k, gmap_get k (group_pairs l) = values_of k l) /\
  Permutation (gmap_flat (group_pairs l)) l /\
  NoDup (map fst (group_pairs l)).
Proof. exact query_roundtrip_full. Qed.
Print Assumptions C03_query_roundtrip.

(* a literal %41 in a value is read back as %41 (decoding it again would give "A") *)
Theorem C03_decoded_once : forall k, wf_bytes k ->
  parse_pairs 38 true (enc_query [(k, str "%41"%string)]) = [(k, str "%41"%string)] /\
  query_unescape (str "%41"%string) = [65%N].
Proof. exact decoded_once. Qed.
Print Assumptions C03_decoded_once.

(* ProcessURI on "/path?" ++ enc_query l with fewer distinct names than SecArgumentsLimit:
   ARGS_GET, ARGS, ARGS_NAMES hold exactly the pairs sent, QUERY_STRING / REQUEST_URI(_RAW) /
   REQUEST_FILENAME / REQUEST_BASENAME are byte-exact, no error is raised *)
Theorem C03_args_visible : forall fold limit l path ord method proto,
  wf_pairs l -> dc_origin_path path = true ->
  (distinct_names fold l < limit)%nat ->
  Permutation ord (parse_query (enc_query l) 38) ->
  let uri := path ++ [63%N] ++ enc_query l in
  let t := process_uri fold dc_simple_parse_uri limit (fun _ => ord) txv_empty uri method proto in
  Permutation (cm_find_all (v_args_get t)) l /\
  Permutation (var_args t) l /\
  Permutation (var_args_names t) (map (fun p => (fst p, fst p)) l) /\
  v_query_string t = enc_query l /\ v_uri_raw t = uri /\ v_uri t = uri /\
  v_filename t = path /\ v_basename t = dc_basename path /\ v_urlencoded_error t = false.
Proof. exact process_uri_visible. Qed.
Print Assumptions C03_args_visible.

(* the same at the level of the collection, for any parsed map *)
Theorem C03_args_visible_collection : forall fold limit l ord,
  (distinct_names fold l < limit)%nat -> Permutation (gmap_flat ord) l ->
  Permutation (cm_find_all (extract_arguments fold limit [] ord)) l.
Proof. exact extract_under_limit. Qed.
Print Assumptions C03_args_visible_collection.

(* REFUTED (finding c03-args-over-limit-silent): beyond the limit an argument is in no variable,
   under every iteration order, and neither URLENCODED_ERROR nor REQBODY_ERROR is raised *)
Theorem C03_over_limit_signalled_refuted :
  exists (l : list kv) (limit : nat), wf_pairs l /\
  forall fold ord, Permutation ord (parse_query (enc_query l) 38) ->
    let t := process_uri fold dc_simple_parse_uri limit (fun _ => ord) txv_empty
                         (str "/?"%string ++ enc_query l) (str "GET"%string) (str "HTTP/1.1"%string) in
    (exists p, In p l /\ ~ In p (cm_find_all (v_args_get t))) /\
    v_urlencoded_error t = false /\ v_reqbody_error t = false.
Proof. exact over_limit_silent_refuted. Qed.
Print Assumptions C03_over_limit_signalled_refuted.

(* every header with a non-empty name is in REQUEST_HEADERS byte-exact with its original
   spelling; REQUEST_HEADERS:key selects by folded name, in order *)
Theorem C03_header_visible : forall fold cookie_ord hs,
  Permutation (cm_find_all (v_headers (add_headers fold cookie_ord txv_empty hs))) (filter nonempty_key hs) /\
  forall k, dc_is_empty k = false ->
    cm_find_string fold (v_headers (add_headers fold cookie_ord txv_empty hs)) k =
    filter (fun e => bytes_eqb (fold (fst e)) (fold k)) (filter nonempty_key hs).
Proof. exact header_visible_full. Qed.
Print Assumptions C03_header_visible.

(* ParseCookies hands back every pair of a Cookie header built from pairs that satisfy the
   guard [cookie_ok] (non-empty name without ';' '=' and without white space at its ends, value
   without ';' and without trailing white space), without any URL decoding ... *)
Theorem C03_cookie_roundtrip_partial : forall l,
  forallb cookie_ok l = true -> cookie_pairs (enc_cookie l) = l.
Proof. exact cookie_roundtrip. Qed.
Print Assumptions C03_cookie_roundtrip_partial.

Example C03_cookie_guard_example :
  forallb cookie_ok [(str "sid"%string, str "a b=c%41"%string); (str "x"%string, []);
                     (str "sid"%string, str " lead"%string)] = true.
Proof. reflexivity. Qed.

(* ... and REQUEST_COOKIES holds exactly these pairs after AddRequestHeader("Cookie", ...) *)
Theorem C03_cookie_visible_partial : forall fold cookie_ord l,
  forallb cookie_ok l = true ->
  Permutation (cookie_ord (enc_cookie l)) (parse_cookies (enc_cookie l)) ->
  let t := add_request_header fold cookie_ord txv_empty (str "Cookie"%string) (enc_cookie l) in
  Permutation (cm_find_all (v_cookies t)) l.
Proof. exact cookie_header_visible. Qed.
Print Assumptions C03_cookie_visible_partial.

(* a urlencoded body (Content-Type: application/x-www-form-urlencoded, body access on):
   ARGS_POST holds exactly the pairs sent (all case variants, repeated names: the F13 repair),
   REQUEST_BODY is the body, no error *)
Theorem C03_urlencoded_visible : forall fold cookie_ord cfg o l,
  wf_pairs l -> bc_access cfg = true ->
  Permutation (bo_post_ord o) (parse_query (enc_urlencoded l) 38) ->
  let t := process_request_body fold cfg o (urlencoded_tx fold cookie_ord) (enc_urlencoded l) in
  Permutation (cm_find_all (v_args_post t)) l /\
  v_request_body t = enc_urlencoded l /\ v_reqbody_error t = false.
Proof. exact urlencoded_visible. Qed.
Print Assumptions C03_urlencoded_visible.

(* the same for every Content-Type value AddRequestHeader accepts: the media type in any letter
   case, optionally surrounded by white space, alone or followed by ';' and parameters (repairs
   70bcddc and 9aa7e7e of findings of this check) *)
Theorem C03_urlencoded_ct_parameter_visible : forall fold cookie_ord cfg o l ct,
  ct_is_urlencoded ct = true ->
  wf_pairs l -> bc_access cfg = true ->
  Permutation (bo_post_ord o) (parse_query (enc_urlencoded l) 38) ->
  let t := process_request_body fold cfg o (urlencoded_tx_ct fold cookie_ord ct) (enc_urlencoded l) in
  Permutation (cm_find_all (v_args_post t)) l /\
  v_request_body t = enc_urlencoded l /\ v_reqbody_error t = false.
Proof. exact urlencoded_visible_ct. Qed.
Print Assumptions C03_urlencoded_ct_parameter_visible.

Example C03_ct_guard_example :
  ct_is_urlencoded (str "Application/X-WWW-Form-Urlencoded; charset=UTF-8"%string) = true /\
  ct_is_urlencoded (str "application/x-www-form-urlencoded;"%string) = true /\
  (* white space around the media type: silently unparsed before repair 9aa7e7e (F49b) *)
  ct_is_urlencoded (str " application/x-www-form-urlencoded ;charset=UTF-8"%string) = true /\
  ct_is_urlencoded (str "application/x-www-form-urlencodedx"%string) = false /\
  ct_is_urlencoded (str "application/x-www-form-urlencoded,x"%string) = false.
Proof. vm_compute. auto. Qed.

(* JSON: when no two flattened paths coincide after case folding, every assignment of the
   flattening is in ARGS_POST under every iteration order *)
Theorem C03_json_visible_partial : forall fold w ord,
  json_unambiguous fold w = true -> Permutation ord (json_res w) ->
  Permutation (cm_find_all (json_apply fold [] ord)) w.
Proof. exact json_visible_partial. Qed.
Print Assumptions C03_json_visible_partial.

(* hence every scalar leaf of a JSON object / array is in ARGS_POST under its dotted path *)
Theorem C03_json_leaves_visible_partial : forall fold t depth w ord,
  dc_leaf t = None -> read_json t depth = (w, false) ->
  json_unambiguous fold w = true -> Permutation ord (json_res w) ->
  forall leaf, In leaf (json_leaves t (str "json"%string)) -> In leaf (cm_find_all (json_apply fold [] ord)).
Proof. exact json_leaves_visible. Qed.
Print Assumptions C03_json_leaves_visible_partial.

(* the guard is satisfiable by a non-trivial body: {"a":"x","B":[1,null],"c":{"d":true}} *)
Example C03_json_guard_example :
  let t := JObj [(str "a"%string, JStr (str "x"%string));
                 (str "B"%string, JArr [JRaw (str "1"%string); JNull]);
                 (str "c"%string, JObj [(str "d"%string, JRaw (str "true"%string))])] in
  json_unambiguous lower_ascii (fst (read_json t 10)) = true /\ length (fst (read_json t 10)) = 5%nat /\
  snd (read_json t 10) = false.
Proof. vm_compute. auto. Qed.

(* REFUTED (finding c03-json-key-collision): {"a.b":1,"a":{"b":2}} loses the leaf json.a.b = 1 *)
Theorem C03_json_collision_refuted :
  exists t leaf, In leaf (json_leaves t (str "json"%string)) /\
  forall fold ord, Permutation ord (json_res (fst (read_json t 10))) ->
    snd (read_json t 10) = false /\ ~ In leaf (cm_find_all (json_apply fold [] ord)).
Proof. exact json_collision_refuted. Qed.
Print Assumptions C03_json_collision_refuted.

(* input that cannot be parsed is signalled: URLENCODED_ERROR for the URI ... *)
Theorem C03_unparseable_uri_signalled : forall fold parse_uri limit qo t uri method proto,
  parse_uri (dc_cut_fragment uri) = None ->
  v_urlencoded_error (process_uri fold parse_uri limit qo t uri method proto) = true.
Proof. exact process_uri_error_signalled. Qed.
Print Assumptions C03_unparseable_uri_signalled.

(* ... REQBODY_ERROR for an unknown body processor, invalid or too deep JSON, a failing
   multipart / XML parser *)
Theorem C03_unparseable_body_signalled : forall fold cfg o t body,
  bc_access cfg = true -> dc_is_empty body = false ->
  match select_processor (eff_rbp cfg t) with
  | PInvalid => True
  | PJson => match bo_json o with
             | None => True
             | Some tree => snd (read_json tree (bc_depth cfg)) = true
             end
  | PMultipart | PXml => bo_ext_err o = true
  | _ => False
  end ->
  v_reqbody_error (process_request_body fold cfg o t body) = true.
Proof. exact body_error_signalled. Qed.
Print Assumptions C03_unparseable_body_signalled.

(* a body over SecRequestBodyLimit is never cut silently: for every sequence of chunks through
   WriteRequestBody / ReadRequestBodyFrom (reader with or without Len), both limit actions - if
   INBOUND_DATA_ERROR is not raised there is no interruption, the buffer is the whole body and the
   body processor ran exactly once on the whole body (so the visibility theorems above apply) *)
Theorem C03_body_limit_signalled : forall limit reject process,
  (0 < limit)%nat -> forall chunks t0,
  let s := body_stream limit reject process chunks t0 in
  bs_inbound s = false ->
  bs_interrupted s = false /\ bs_buf s = concat (map snd chunks) /\
  bs_tx s = process (concat (map snd chunks)) t0.
Proof. exact body_limit_signalled. Qed.
Print Assumptions C03_body_limit_signalled.

(* multipart/form-data. The partial specification of mime/multipart ([mp_parse], validated by the
   correspondence run) reads back exactly the parts that were printed, for every part list that
   satisfies the guard [mp_part_ok]: no CR / LF in names and file names, and the delimiter
   CRLF "--" boundary occurs in CRLF ++ content ++ delimiter at the end only *)
Theorem C03_multipart_roundtrip_partial : forall b parts,
  forallb (mp_part_ok b) parts = true -> mp_parse b (mp_print b parts) = Some parts.
Proof. exact multipart_roundtrip. Qed.
Print Assumptions C03_multipart_roundtrip_partial.

(* the processor's loop (multipart.go) over ANY part list: every field is in ARGS_POST byte-exact,
   every upload in FILES (file name) and FILES_NAMES (form name), FILES_COMBINED_SIZE is the
   number of content bytes of all parts *)
Theorem C03_multipart_visible : forall fold parts,
  let r := mp_collect fold parts in
  Permutation (cm_find_all (mv_post r)) (mp_fields parts) /\
  Permutation (cm_find_all (mv_files r)) (map (fun p => ([], mp_filename p)) (mp_uploads parts)) /\
  Permutation (cm_find_all (mv_files_names r)) (map (fun p => ([], mp_name p)) (mp_uploads parts)) /\
  mv_combined r = mp_total parts.
Proof. exact multipart_collect_visible. Qed.
Print Assumptions C03_multipart_visible.

(* FILES_SIZES holds every upload's size under its file name when no two file names coincide
   after case folding *)
Theorem C03_multipart_sizes_visible_partial : forall fold parts,
  nodup_b (map (fun p => fold (mp_filename p)) (mp_uploads parts)) = true ->
  cm_find_all (mv_files_sizes (mp_collect fold parts)) = mp_size_entries parts.
Proof. exact multipart_sizes_visible. Qed.
Print Assumptions C03_multipart_sizes_visible_partial.

(* end to end for printed bodies *)
Theorem C03_multipart_body_visible_partial : forall fold b parts,
  forallb (mp_part_ok b) parts = true ->
  exists q, mp_parse b (mp_print b parts) = Some q /\
    let r := mp_collect fold q in
    Permutation (cm_find_all (mv_post r)) (mp_fields parts) /\
    Permutation (cm_find_all (mv_files r)) (map (fun p => ([], mp_filename p)) (mp_uploads parts)) /\
    Permutation (cm_find_all (mv_files_names r)) (map (fun p => ([], mp_name p)) (mp_uploads parts)) /\
    mv_combined r = mp_total parts.
Proof. exact multipart_body_visible. Qed.
Print Assumptions C03_multipart_body_visible_partial.

(* Content-Type: multipart/form-data... (any case, any parameters) selects the MULTIPART processor *)
Theorem C03_multipart_ct_selected : forall fold cookie_ord ct,
  is_prefix dc_ct_multipart (lower_ascii ct) = true ->
  select_processor (v_rbp (add_request_header fold cookie_ord txv_empty (str "Content-Type"%string) ct)) = PMultipart.
Proof. exact multipart_ct_selected. Qed.
Print Assumptions C03_multipart_ct_selected.

(* the guard accepts quotes, semicolons, backslashes in names, CRLF and "--" inside contents; it
   rejects a content that starts with "--" boundary *)
Example C03_multipart_guard_example :
  forallb (mp_part_ok (str "XbX"%string))
    [mk_mpart (str "q""uote;semi\back"%string) [] (str "--XbX"%string ++ [13; 10; 45; 45]%N ++ str "Xb"%string);
     mk_mpart (str "up"%string) (str "C:\dir\e"".php"%string) ([13; 10]%N ++ str "-- line"%string ++ [0; 255]%N)] = false
  /\
  forallb (mp_part_ok (str "XbX"%string))
    [mk_mpart (str "q""uote;semi\back"%string) [] (str "x--XbX"%string ++ [13; 10; 45; 45]%N ++ str "Xb"%string);
     mk_mpart (str "up"%string) (str "C:\dir\e"".php"%string) ([13; 10]%N ++ str "-- line"%string ++ [0; 255]%N)] = true.
Proof. exact multipart_guard_example. Qed.

(* a body below SecRequestBodyLimit: what the rules see does not depend on how the body was split
   into chunks nor on the entry point of each chunk (WriteRequestBody, ReadRequestBodyFrom with or
   without Len) - it is the body processor's result on the concatenation; in particular any two
   deliveries of the same bytes give the same variables *)
Theorem C03_body_split_independent : forall limit reject process,
  (0 < limit)%nat -> forall chunks t0,
  (length (concat (map snd chunks)) < limit)%nat ->
  let s := body_stream limit reject process chunks t0 in
  bs_inbound s = false /\ bs_interrupted s = false /\
  bs_buf s = concat (map snd chunks) /\ bs_tx s = process (concat (map snd chunks)) t0.
Proof. exact body_stream_split_independent. Qed.
Print Assumptions C03_body_split_independent.
