(* RegexProofs.v — facts about UTF-8 decoding and the regex semantics of Regex.v (for C11). *)
From Verif Require Import Base Utf8 Regex RegexUtf8Proofs.
From Coq Require Import Arith ZifyN ZifyBool ZifyNat.
Ltac Zify.zify_post_hook ::= idtac.
Open Scope N_scope.

(* ====================================================================================== *)
(* induction principle for the nested AST                                                  *)
(* ====================================================================================== *)

Section ReInd.
  Variable P : re -> Prop.
  Hypothesis HLit : forall f rs, P (Lit f rs).
  Hypothesis HClass : forall f rg, P (Class f rg).
  Hypothesis HOp0 : forall f o, P (Op0 f o).
  Hypothesis HCap : forall f a, P a -> P (Cap f a).
  Hypothesis HStar : forall f a, P a -> P (Star f a).
  Hypothesis HPlus : forall f a, P a -> P (Plus f a).
  Hypothesis HQuest : forall f a, P a -> P (Quest f a).
  Hypothesis HCat : forall f l, Forall P l -> P (Cat f l).
  Hypothesis HAlt : forall f l, Forall P l -> P (Alt f l).
  Hypothesis HRep : forall f mn mx a, P a -> P (Rep f mn mx a).

  Fixpoint re_ind' (r : re) : P r :=
    match r with
    | Lit f rs => HLit f rs
    | Class f rg => HClass f rg
    | Op0 f o => HOp0 f o
    | Cap f a => HCap f a (re_ind' a)
    | Star f a => HStar f a (re_ind' a)
    | Plus f a => HPlus f a (re_ind' a)
    | Quest f a => HQuest f a (re_ind' a)
    | Cat f l => HCat f l ((fix go (l : list re) : Forall P l :=
                             match l with [] => Forall_nil P | a :: l' => Forall_cons a (re_ind' a) (go l') end) l)
    | Alt f l => HAlt f l ((fix go (l : list re) : Forall P l :=
                             match l with [] => Forall_nil P | a :: l' => Forall_cons a (re_ind' a) (go l') end) l)
    | Rep f mn mx a => HRep f mn mx a (re_ind' a)
    end.
End ReInd.

(* ====================================================================================== *)
(* one-rune steps, literals, assertions                                                    *)
(* ====================================================================================== *)

Lemma step1_spec p w i j : step1 p w i = Some j ->
  exists c n, skipn i w <> [] /\ decode_rune (skipn i w) = (c, n) /\ p c = true /\ j = (i + n)%nat.
Proof.
  unfold step1. destruct (skipn i w) as [|b s] eqn:E; [discriminate|].
  destruct (decode_rune (b :: s)) as [c n] eqn:D. cbn [fst snd].
  destruct (p c) eqn:Pc; [|discriminate]. intro H. inversion H. subst.
  exists c, n. repeat split; auto. congruence.
Qed.

Lemma skipn_nonnil_lt {A} (w : list A) i : skipn i w <> [] -> (i < length w)%nat.
Proof.
  intro H. destruct (le_lt_dec (length w) i) as [Hl|Hl]; [|exact Hl].
  rewrite skipn_all2 in H by exact Hl. congruence.
Qed.

Lemma step1_bounds p w i j : step1 p w i = Some j -> (i < j /\ j <= length w)%nat.
Proof.
  intro H. apply step1_spec in H. destruct H as [c [n [Hs [D [_ ->]]]]].
  pose proof (skipn_nonnil_lt _ _ Hs) as Hlt.
  destruct (decode_rune_spec _ _ _ Hs D) as [Hn _].
  pose proof (decode_rune_size_le (skipn i w)) as Hle. rewrite D in Hle. cbn [snd] in Hle.
  rewrite skipn_length in Hle. lia.
Qed.

Lemma lit_end_bounds f rs w : forall i j, lit_end f rs w i = Some j ->
  (i <= j /\ (i <= length w -> j <= length w))%nat.
Proof.
  induction rs as [|lr rs IH]; intros i j H; cbn [lit_end] in H.
  - inversion H. lia.
  - destruct (step1 (lr_test f lr) w i) as [k|] eqn:E; [|discriminate].
    apply step1_bounds in E. apply IH in H. lia.
Qed.

Lemma op0_step_bounds o w i j : op0_step o w i = Some j ->
  (i <= j /\ (i <= length w -> j <= length w))%nat.
Proof.
  destruct o; cbn [op0_step]; intro H;
    try (apply step1_bounds in H; lia);
    try (match type of H with (if ?c then _ else _) = _ => destruct c end; inversion H; lia);
    try (inversion H; lia).
Qed.

(* ====================================================================================== *)
(* the declarative semantics                                                               *)
(* ====================================================================================== *)

Lemma M_bounds w r i j : M w r i j -> (i <= j /\ (i <= length w -> j <= length w))%nat.
Proof.
  intro H.
  apply (M_mind w (fun _ i j => (i <= j /\ (i <= length w -> j <= length w))%nat)
                  (fun _ i j => (i <= j /\ (i <= length w -> j <= length w))%nat)) with (r := r);
    try (intros; lia); auto.
  - intros. eapply lit_end_bounds; eauto.
  - intros f0 rg i0 j0 H0. apply step1_bounds in H0. lia.
  - intros. eapply op0_step_bounds; eauto.
Qed.

Lemma ML_bounds w l i j : ML w l i j -> (i <= j /\ (i <= length w -> j <= length w))%nat.
Proof.
  induction 1 as [|a l i k j Ha Hl IH]; [lia|]. apply M_bounds in Ha. lia.
Qed.

Lemma ML_cons_inv w a l i j : ML w (a :: l) i j -> exists k, M w a i k /\ ML w l k j.
Proof. intro H. inversion H; subst. eauto. Qed.

Lemma ML_nil_inv w i j : ML w [] i j -> i = j.
Proof. intro H. inversion H; subst. reflexivity. Qed.

Lemma ML_app w l1 : forall l2 i j, ML w (l1 ++ l2) i j <-> exists k, ML w l1 i k /\ ML w l2 k j.
Proof.
  induction l1 as [|a l1 IH]; intros l2 i j; cbn [app]; split.
  - intro H. exists i. split; [constructor|exact H].
  - intros [k [H1 H2]]. apply ML_nil_inv in H1. subst. exact H2.
  - intro H. apply ML_cons_inv in H. destruct H as [k [Ha Hl]]. apply IH in Hl. destruct Hl as [k' [H5 H6]].
    exists k'. split; [econstructor; eauto|exact H6].
  - intros [k [H1 H2]]. apply ML_cons_inv in H1. destruct H1 as [k' [Ha Hl]].
    econstructor; [eauto|]. apply IH. eauto.
Qed.

(* every element of a concatenation matches a sub-interval *)
Lemma ML_parts w l : forall i j, ML w l i j -> forall a, In a l ->
  exists k k', (i <= k /\ k' <= j)%nat /\ M w a k k'.
Proof.
  induction l as [|b l IH]; intros i j H a Ha; [destruct Ha|].
  apply ML_cons_inv in H. destruct H as [k [Hb Hl]].
  pose proof (M_bounds _ _ _ _ Hb) as B1. pose proof (ML_bounds _ _ _ _ Hl) as B2.
  destruct Ha as [<-|Ha].
  - exists i, k. split; [lia|exact Hb].
  - destruct (IH _ _ Hl _ Ha) as [k1 [k2 [Hbd Hm]]]. exists k1, k2. split; [lia|exact Hm].
Qed.

Lemma star_snoc w : forall r i k, M w r i k -> forall f a, r = Star f a -> forall j, M w a k j -> M w (Star f a) i j.
Proof.
  intros r i k H.
  apply (M_mind w (fun r i k => forall f a, r = Star f a -> forall j, M w a k j -> M w (Star f a) i j)
                  (fun _ _ _ => True)) with (r := r) (n := i) (n0 := k); try (intros; discriminate); auto.
  - intros f3 a i0 f a0 E j Hj. inversion E; subst. eapply M_starS; [exact Hj|apply M_star0].
  - intros f4 a i0 k0 j0 Ha _ Hs IHs f a0 E j Hj. inversion E; subst.
    eapply M_starS; [exact Ha|]. apply IHs; auto.
Qed.

Lemma plus_snoc w f a i k j : M w (Plus f a) i k -> M w a k j -> M w (Plus f a) i j.
Proof.
  intros H Hj. inversion H; subst. eapply M_plus; [eauto|]. eapply star_snoc; eauto.
Qed.

(* ====================================================================================== *)
(* boundaries                                                                              *)
(* ====================================================================================== *)

Lemma bounds_from_le fuel : forall s i k, In k (bounds_from fuel s i) -> (i <= k /\ k <= i + length s)%nat.
Proof.
  induction fuel as [|f IH]; intros s i k H; cbn [bounds_from] in H.
  - destruct H as [<-|[]]. lia.
  - destruct s as [|b s']; [destruct H as [<-|[]]; cbn; lia|].
    destruct H as [<-|H]; [lia|].
    apply IH in H. rewrite skipn_length in H.
    pose proof (decode_rune_size_le (b :: s')) as Hle.
    pose proof (decode_rune_size_pos b s') as Hp. lia.
Qed.

Lemma boundaries_le w i : In i (boundaries w) -> (i <= length w)%nat.
Proof. intro H. apply bounds_from_le in H. lia. Qed.

(* ====================================================================================== *)
(* soundness of the executable semantics                                                   *)
(* ====================================================================================== *)

Lemma memn_true j l : memn j l = true <-> In j l.
Proof.
  unfold memn. rewrite existsb_exists. split.
  - intros [x [H1 H2]]. apply Nat.eqb_eq in H2. subst. exact H1.
  - intro H. exists j. split; [exact H|apply Nat.eqb_refl].
Qed.

Lemma addn_in x j acc : In x (addn j acc) <-> x = j \/ In x acc.
Proof.
  unfold addn. destruct (memn j acc) eqn:E.
  - apply memn_true in E. split; [auto|]. intros [->|H]; auto.
  - cbn [In]. split; intros [H|H]; auto.
Qed.

Lemma union_in x a b : In x (union a b) <-> In x a \/ In x b.
Proof.
  unfold union. induction a as [|y a IH]; cbn [fold_right].
  - split; [auto|]. intros [[]|H]; exact H.
  - rewrite addn_in, IH. cbn [In]. split; intros [H|H]; auto; destruct H; auto.
Qed.

Lemma map_opt_in f X j : In j (map_opt f X) <-> exists i, In i X /\ f i = Some j.
Proof.
  unfold map_opt. induction X as [|x X IH]; cbn [fold_right].
  - split; [intros []|intros [i [[] _]]].
  - destruct (f x) as [y|] eqn:E.
    + rewrite addn_in, IH. split.
      * intros [->|[i [Hi Hf]]]; [exists x; cbn; auto|exists i; cbn; auto].
      * intros [i [[<-|Hi] Hf]]; [left; congruence|right; eauto].
    + rewrite IH. split.
      * intros [i [Hi Hf]]. exists i. cbn; auto.
      * intros [i [[<-|Hi] Hf]]; [congruence|eauto].
Qed.

Lemma sat_inv (step : list nat -> list nat) (Q : nat -> Prop) :
  (forall Y, (forall k, In k Y -> Q k) -> forall j, In j (step Y) -> Q j) ->
  forall fuel frontier seen, (forall k, In k frontier -> Q k) -> (forall k, In k seen -> Q k) ->
  forall j, In j (sat step fuel frontier seen) -> Q j.
Proof.
  intros Hstep. induction fuel as [|f IH]; intros frontier seen Hf Hs j Hj; cbn [sat] in Hj; [auto|].
  set (new := filter (fun j => negb (memn j seen)) (step frontier)) in *.
  assert (Hnew : forall k, In k new -> Q k).
  { intros k Hk. unfold new in Hk. apply filter_In in Hk. destruct Hk as [Hk _]. exact (Hstep frontier Hf k Hk). }
  destruct new as [|n0 new'] eqn:En; [auto|].
  eapply IH; [exact Hnew| |exact Hj].
  intros k Hk. apply union_in in Hk. destruct Hk; auto.
Qed.

Lemma repeat_snoc {A} (a : A) n : repeat a n ++ [a] = repeat a (S n).
Proof. induction n as [|n IH]; [reflexivity|]. cbn [repeat app] in *. rewrite IH. reflexivity. Qed.

Lemma repeat_plus {A} (a : A) n m : repeat a (n + m) = repeat a n ++ repeat a m.
Proof. induction n as [|n IH]; [reflexivity|]. cbn [repeat app Nat.add]. rewrite IH. reflexivity. Qed.

Lemma iter_n_sound w a :
  (forall X j, In j (endsS a w X) -> exists i, In i X /\ M w a i j) ->
  forall n X j, In j (iter_n n (endsS a w) X) -> exists i, In i X /\ ML w (repeat a n) i j.
Proof.
  intro Hs. induction n as [|n IH]; intros X j Hj; cbn [iter_n repeat] in *.
  - exists j. split; [exact Hj|constructor].
  - destruct (IH _ _ Hj) as [k [Hk Hml]]. destruct (Hs _ _ Hk) as [i [Hi Hm]].
    exists i. split; [exact Hi|econstructor; eauto].
Qed.

Lemma upto_n_sound (step : list nat -> list nat) : forall k Y j, In j (upto_n k step Y) ->
  exists d, (d <= k)%nat /\ In j (iter_n d step Y).
Proof.
  induction k as [|k IH]; intros Y j Hj; cbn [upto_n] in Hj.
  - exists 0%nat. split; [lia|exact Hj].
  - apply union_in in Hj. destruct Hj as [Hj|Hj]; [exists 0%nat; split; [lia|exact Hj]|].
    destruct (IH _ _ Hj) as [d [Hd Hi]]. exists (S d). split; [lia|exact Hi].
Qed.

Theorem endsS_sound w r : forall X j, In j (endsS r w X) -> exists i, In i X /\ M w r i j.
Proof.
  induction r using re_ind'; intros X j Hj; cbn [endsS] in Hj.
  - apply map_opt_in in Hj. destruct Hj as [i [Hi Hf]]. exists i. split; [auto|constructor; auto].
  - apply map_opt_in in Hj. destruct Hj as [i [Hi Hf]]. exists i. split; [auto|constructor; auto].
  - apply map_opt_in in Hj. destruct Hj as [i [Hi Hf]]. exists i. split; [auto|constructor; auto].
  - destruct (IHr _ _ Hj) as [i [Hi Hm]]. exists i. split; [auto|constructor; auto].
  - (* Star *)
    revert j Hj. apply (sat_inv (endsS r w) (fun j => exists i, In i X /\ M w (Star f r) i j)).
    + intros Y HY j Hj. destruct (IHr _ _ Hj) as [k [Hk Hm]]. destruct (HY _ Hk) as [i [Hi Hs]].
      exists i. split; [auto|]. eapply star_snoc; eauto.
    + intros k Hk. exists k. split; [auto|apply M_star0].
    + intros k Hk. exists k. split; [auto|apply M_star0].
  - (* Plus *)
    revert j Hj. apply (sat_inv (endsS r w) (fun j => exists i, In i X /\ M w (Plus f r) i j)).
    + intros Y HY j Hj. destruct (IHr _ _ Hj) as [k [Hk Hm]]. destruct (HY _ Hk) as [i [Hi Hs]].
      exists i. split; [auto|]. eapply plus_snoc; eauto.
    + intros k Hk. destruct (IHr _ _ Hk) as [i [Hi Hm]]. exists i. split; [auto|]. eapply M_plus; [eauto|apply M_star0].
    + intros k Hk. destruct (IHr _ _ Hk) as [i [Hi Hm]]. exists i. split; [auto|]. eapply M_plus; [eauto|apply M_star0].
  - (* Quest *)
    apply union_in in Hj. destruct Hj as [Hj|Hj].
    + destruct (IHr _ _ Hj) as [i [Hi Hm]]. exists i. split; [auto|apply M_quest1; auto].
    + exists j. split; [auto|apply M_quest0].
  - (* Cat *)
    assert (G : forall X j, In j ((fix go (l : list re) (X : list nat) : list nat :=
                  match l with [] => X | a :: l' => go l' (endsS a w X) end) l X) ->
                exists i, In i X /\ ML w l i j).
    { clear X j Hj. induction H as [|a l Ha Hl IHl]; intros X j Hj.
      - exists j. split; [auto|constructor].
      - apply IHl in Hj. destruct Hj as [k [Hk Hml]]. destruct (Ha _ _ Hk) as [i [Hi Hm]].
        exists i. split; [auto|econstructor; eauto]. }
    destruct (G _ _ Hj) as [i [Hi Hm]]. exists i. split; [auto|constructor; auto].
  - (* Alt *)
    assert (G : forall j, In j ((fix go (l : list re) : list nat :=
                  match l with [] => [] | a :: l' => union (endsS a w X) (go l') end) l) ->
                exists a, In a l /\ In j (endsS a w X)).
    { clear j Hj. induction l as [|a l IHl]; intros j Hj; [destruct Hj|].
      apply union_in in Hj. destruct Hj as [Hj|Hj].
      - exists a. cbn; auto.
      - inversion H; subst. destruct (IHl H3 _ Hj) as [b [Hb Hjb]]. exists b. cbn; auto. }
    destruct (G _ Hj) as [a [Ha Hja]].
    rewrite Forall_forall in H. destruct (H _ Ha _ _ Hja) as [i [Hi Hm]].
    exists i. split; [auto|econstructor; eauto].
  - (* Rep *)
    set (X0 := iter_n mn (endsS r w) X) in *.
    assert (HX0 : forall k, In k X0 -> exists i, In i X /\ ML w (repeat r mn) i k) by (intros k Hk; eapply iter_n_sound; eauto).
    destruct mx as [m|].
    + destruct (m <? mn)%nat eqn:Em; [destruct Hj|]. apply Nat.ltb_ge in Em.
      apply upto_n_sound in Hj. destruct Hj as [d [Hd Hj]].
      destruct (iter_n_sound w r IHr _ _ _ Hj) as [k0 [Hk0 Hml2]].
      destruct (HX0 _ Hk0) as [i [Hi Hml1]]. exists i. split; [exact Hi|].
      apply (M_rep w f mn (Some m) r (mn + d)); [|lia|lia].
      rewrite repeat_plus. apply ML_app. eauto.
    + revert j Hj. apply (sat_inv (endsS r w) (fun j => exists i, In i X /\ M w (Rep f mn None r) i j)).
      * intros Y HY j Hj. destruct (IHr _ _ Hj) as [k [Hk Hm]]. destruct (HY _ Hk) as [i [Hi Hr]].
        exists i. split; [exact Hi|]. inversion Hr; subst.
        apply (M_rep w f mn None r (S n)); [|lia|exact I].
        rewrite <- repeat_snoc. apply ML_app. exists k. split; [assumption|]. econstructor; [exact Hm|constructor].
      * intros k Hk. destruct (HX0 _ Hk) as [i [Hi Hml]]. exists i. split; [exact Hi|].
        apply (M_rep w f mn None r mn); [exact Hml|lia|exact I].
      * intros k Hk. destruct (HX0 _ Hk) as [i [Hi Hml]]. exists i. split; [exact Hi|].
        apply (M_rep w f mn None r mn); [exact Hml|lia|exact I].
Qed.

Corollary re_matchb_sound r w : re_matchb r w = true -> re_matches r w.
Proof.
  unfold re_matchb. destruct (endsS r w (boundaries w)) as [|j l] eqn:E; [discriminate|]. intros _.
  destruct (endsS_sound w r (boundaries w) j) as [i [Hi Hm]]; [rewrite E; cbn; auto|].
  exists i, j. auto.
Qed.

(* ====================================================================================== *)
(* completeness of the executable semantics                                                *)
(* ====================================================================================== *)

Definition all_le (w : bytes) (X : list nat) : Prop := forall x, In x X -> (x <= length w)%nat.

Lemma endsS_all_le w r X : all_le w X -> all_le w (endsS r w X).
Proof.
  intros HX j Hj. destruct (endsS_sound w r X j Hj) as [i [Hi HM]].
  apply M_bounds in HM. specialize (HX _ Hi). lia.
Qed.

(* a set closed under one more iteration of a *)
Definition closed (w : bytes) (a : re) (R : list nat) : Prop :=
  forall k j, In k R -> M w a k j -> In j R.

Lemma star_closed w : forall r i j, M w r i j -> forall f a, r = Star f a ->
  forall R, closed w a R -> In i R -> In j R.
Proof.
  intros r i j H.
  apply (M_mind w (fun r i j => forall f a, r = Star f a -> forall R, closed w a R -> In i R -> In j R)
                  (fun _ _ _ => True)) with (r := r) (n := i) (n0 := j); try (intros; discriminate); auto.
  intros f4 a i0 k0 j0 Ha _ Hs IHs f a0 E R Hc Hi. inversion E; subst.
  apply (IHs _ _ eq_refl R Hc). eapply Hc; eauto.
Qed.

(* positions of [0, |w|] not yet seen *)
Definition missing (w : bytes) (seen : list nat) : nat :=
  length (filter (fun p => negb (memn p seen)) (seq 0 (S (length w)))).

Lemma filter_length_lt {A} (f g : A -> bool) l x :
  (forall y, g y = true -> f y = true) -> In x l -> f x = true -> g x = false ->
  (length (filter g l) < length (filter f l))%nat.
Proof.
  intros Himp. induction l as [|y l IH]; intros Hin Hf Hg; [destruct Hin|].
  assert (Hle : forall l', (length (filter g l') <= length (filter f l'))%nat).
  { induction l' as [|z l' IH']; cbn [filter]; [lia|].
    destruct (g z) eqn:Egz; [rewrite (Himp _ Egz); cbn [length]; lia|]. destruct (f z); cbn [length]; lia. }
  cbn [filter]. destruct Hin as [->|Hin].
  - rewrite Hf, Hg. cbn [length]. specialize (Hle l). lia.
  - specialize (IH Hin Hf Hg). destruct (g y) eqn:Egy; [rewrite (Himp _ Egy); cbn [length]; lia|].
    destruct (f y); cbn [length]; lia.
Qed.

Lemma memn_false j l : memn j l = false <-> ~ In j l.
Proof. rewrite <- memn_true. destruct (memn j l); split; congruence. Qed.

Lemma missing_decr w seen new n0 :
  In n0 new -> ~ In n0 seen -> (n0 <= length w)%nat ->
  (missing w (union new seen) < missing w seen)%nat.
Proof.
  intros Hn Hs Hle. unfold missing. apply filter_length_lt with (x := n0).
  - intros y Hy. apply negb_true_iff in Hy. apply negb_true_iff. apply memn_false in Hy. apply memn_false.
    intro H. apply Hy. apply union_in. right. exact H.
  - apply in_seq. lia.
  - apply negb_true_iff. apply memn_false. exact Hs.
  - apply negb_false_iff. apply memn_true. apply union_in. left. exact Hn.
Qed.

Section Sat.
  Variables (w : bytes) (a : re).
  (* the body has the exact executable semantics *)
  Hypothesis a_complete : forall X k j, all_le w X -> In k X -> M w a k j -> In j (endsS a w X).

  Lemma sat_closed : forall fuel frontier seen,
    all_le w seen -> incl frontier seen ->
    (forall k j, In k seen -> ~ In k frontier -> M w a k j -> In j seen) ->
    (missing w seen < fuel)%nat ->
    let R := sat (endsS a w) fuel frontier seen in
    incl seen R /\ closed w a R.
  Proof.
    induction fuel as [|f IH]; intros frontier seen Hle Hfs Hproc Hfuel; [lia|].
    cbn [sat].
    set (new := filter (fun j => negb (memn j seen)) (endsS a w frontier)).
    assert (Hfle : all_le w frontier) by (intros x Hx; apply Hle; apply Hfs; exact Hx).
    assert (Hnew_le : all_le w new).
    { intros x Hx. unfold new in Hx. apply filter_In in Hx. destruct Hx as [Hx _]. eapply endsS_all_le; eauto. }
    assert (Hstep : forall k j, In k frontier -> M w a k j -> In j seen \/ In j new).
    { intros k j Hk HM. pose proof (a_complete _ _ _ Hfle Hk HM) as Hj.
      destruct (memn j seen) eqn:Em; [left; apply memn_true; exact Em|right].
      unfold new. apply filter_In. split; [exact Hj|]. rewrite Em. reflexivity. }
    destruct new as [|n0 new'] eqn:En.
    - (* fixpoint reached *)
      cbv zeta. split; [apply incl_refl|].
      intros k j Hk HM. destruct (in_dec Nat.eq_dec k frontier) as [Hkf|Hkf].
      + destruct (Hstep _ _ Hkf HM) as [H|[]]. exact H.
      + eapply Hproc; eauto.
    - rewrite <- En in *.
      assert (Hn0 : In n0 new) by (rewrite En; left; reflexivity).
      assert (Hn0s : ~ In n0 seen).
      { assert (Hf : In n0 (filter (fun j => negb (memn j seen)) (endsS a w frontier))) by (fold new; exact Hn0).
        apply filter_In in Hf. destruct Hf as [_ Hf].
        apply negb_true_iff in Hf. apply memn_false. exact Hf. }
      destruct (IH new (union new seen)) as [Hincl Hclosed].
      + intros x Hx. apply union_in in Hx. destruct Hx; auto.
      + intros x Hx. apply union_in. left. exact Hx.
      + intros k j Hk Hnk HM. apply union_in in Hk. destruct Hk as [Hk|Hk]; [contradiction|].
        apply union_in. destruct (in_dec Nat.eq_dec k frontier) as [Hkf|Hkf].
        * destruct (Hstep _ _ Hkf HM); auto.
        * right. eapply Hproc; eauto.
      + pose proof (missing_decr w seen new n0 Hn0 Hn0s (Hnew_le _ Hn0)). lia.
      + cbv zeta in *. split; [|exact Hclosed].
        intros x Hx. apply Hincl. apply union_in. right. exact Hx.
  Qed.

  Lemma missing_le_start X i : In i X -> (i <= length w)%nat -> (missing w X < S (length w))%nat.
  Proof.
    intros Hi Hle. unfold missing.
    assert (H : (length (filter (fun p => negb (memn p X)) (seq 0 (S (length w))))
                 < length (filter (fun _ => true) (seq 0 (S (length w)))))%nat).
    { apply filter_length_lt with (x := i); auto.
      - apply in_seq. lia.
      - apply negb_false_iff. apply memn_true. exact Hi. }
    assert (Hall : forall l : list nat, filter (fun _ => true) l = l) by (induction l; cbn; congruence).
    rewrite Hall, seq_length in H. exact H.
  Qed.

  Lemma sat_start_closed X i : all_le w X -> In i X ->
    let R := sat (endsS a w) (S (length w)) X X in incl X R /\ closed w a R.
  Proof.
    intros Hle Hi. apply sat_closed; auto.
    - apply incl_refl.
    - intros k j Hk Hnk. contradiction.
    - eapply missing_le_start; eauto.
  Qed.
End Sat.

Lemma sat_keeps_seen (step : list nat -> list nat) i : forall fuel frontier seen,
  In i seen -> In i (sat step fuel frontier seen).
Proof.
  induction fuel as [|fu IH]; intros frontier seen Hs; cbn [sat]; [exact Hs|].
  destruct (filter (fun j => negb (memn j seen)) (step frontier)) as [|n0 nw] eqn:E; [exact Hs|].
  apply IH. apply union_in. right. exact Hs.
Qed.

Lemma iter_n_all_le w a : forall n X, all_le w X -> all_le w (iter_n n (endsS a w) X).
Proof. induction n as [|n IH]; intros X HX; cbn [iter_n]; [exact HX|]. apply IH. apply endsS_all_le. exact HX. Qed.

Lemma iter_n_complete w a :
  (forall X k j, all_le w X -> In k X -> M w a k j -> In j (endsS a w X)) ->
  forall n X i j, all_le w X -> In i X -> ML w (repeat a n) i j -> In j (iter_n n (endsS a w) X).
Proof.
  intro Hc. induction n as [|n IH]; intros X i j HX Hi Hml; cbn [iter_n repeat] in *.
  - apply ML_nil_inv in Hml. subst. exact Hi.
  - apply ML_cons_inv in Hml. destruct Hml as [k [Ha Hl]].
    apply (IH _ k); [apply endsS_all_le; exact HX|eapply Hc; eauto|exact Hl].
Qed.

Lemma upto_n_incl (step : list nat -> list nat) k Y j : In j Y -> In j (upto_n k step Y).
Proof. destruct k; cbn [upto_n]; [auto|]. intro H. apply union_in. left. exact H. Qed.

Lemma upto_n_complete (step : list nat -> list nat) : forall k d Y j, (d <= k)%nat ->
  In j (iter_n d step Y) -> In j (upto_n k step Y).
Proof.
  induction k as [|k IH]; intros d Y j Hd Hj.
  - assert (d = 0)%nat by lia. subst. exact Hj.
  - destruct d as [|d]; [apply upto_n_incl; exact Hj|]. cbn [upto_n iter_n] in *.
    apply union_in. right. apply (IH d); [lia|exact Hj].
Qed.

Lemma closed_repeat w a R : closed w a R -> forall d k j, In k R -> ML w (repeat a d) k j -> In j R.
Proof.
  intro Hc. induction d as [|d IH]; intros k j Hk Hml; cbn [repeat] in Hml.
  - apply ML_nil_inv in Hml. subst. exact Hk.
  - apply ML_cons_inv in Hml. destruct Hml as [k' [Ha Hl]]. apply (IH k'); [eapply Hc; eauto|exact Hl].
Qed.

Theorem endsS_complete w r : forall i j, M w r i j ->
  forall X, all_le w X -> In i X -> In j (endsS r w X).
Proof.
  induction r using re_ind'; intros i j HM X HX Hi; cbn [endsS].
  - inversion HM; subst. apply map_opt_in. eauto.
  - inversion HM; subst. apply map_opt_in. eauto.
  - inversion HM; subst. apply map_opt_in. eauto.
  - inversion HM; subst. eapply IHr; eauto.
  - (* Star *)
    destruct (sat_start_closed w r (fun X k j HX Hk HM => IHr k j HM X HX Hk) X i HX Hi) as [Hincl Hcl].
    cbv zeta in *. eapply star_closed; [exact HM|reflexivity|exact Hcl|apply Hincl; exact Hi].
  - (* Plus *)
    inversion HM; subst.
    assert (Hk : In k (endsS r w X)) by (eapply IHr; eauto).
    assert (HX1 : all_le w (endsS r w X)) by (apply endsS_all_le; exact HX).
    destruct (sat_start_closed w r (fun X k j HX Hk HM => IHr k j HM X HX Hk) (endsS r w X) k HX1 Hk) as [Hincl Hcl].
    cbv zeta in *. eapply star_closed; [eassumption|reflexivity|exact Hcl|apply Hincl; exact Hk].
  - (* Quest *)
    apply union_in. inversion HM; subst; [right; exact Hi|left; eapply IHr; eauto].
  - (* Cat *)
    assert (HML : ML w l i j) by (inversion HM; subst; assumption). clear HM.
    revert i HML X HX Hi.
    induction H as [|a l Ha Hl IHl]; intros i HML X HX Hi.
    + apply ML_nil_inv in HML. subst. exact Hi.
    + apply ML_cons_inv in HML. destruct HML as [k [Hak Hlk]].
      apply (IHl k); [exact Hlk|apply endsS_all_le; exact HX|]. eapply Ha; eauto.
  - (* Alt *)
    assert (HA : exists a, In a l /\ M w a i j) by (inversion HM; subst; eauto). clear HM.
    destruct HA as [a [Hin Ha]].
    induction H as [|b l Hb Hl IHl]; [destruct Hin|].
    apply union_in. destruct Hin as [->|Hin]; [left; eapply Hb; eauto|right; apply IHl; exact Hin].
  - (* Rep *)
    assert (HR : exists n, ML w (repeat r n) i j /\ (mn <= n)%nat /\ match mx with Some m => (n <= m)%nat | None => True end)
      by (inversion HM; subst; eauto).
    clear HM. destruct HR as [n [Hml [Hmn Hmx]]].
    assert (Hc : forall X k j, all_le w X -> In k X -> M w r k j -> In j (endsS r w X))
      by (intros X' k j' HX' Hk HM'; exact (IHr k j' HM' X' HX' Hk)).
    replace n with (mn + (n - mn))%nat in Hml by lia. rewrite repeat_plus in Hml. apply ML_app in Hml.
    destruct Hml as [k0 [H1 H2]].
    set (X0 := iter_n mn (endsS r w) X).
    assert (HX0 : all_le w X0) by (apply iter_n_all_le; exact HX).
    assert (Hk0 : In k0 X0) by (eapply iter_n_complete; eauto).
    destruct mx as [m|].
    + replace (m <? mn)%nat with false by (symmetry; apply Nat.ltb_ge; lia).
      apply (upto_n_complete _ _ (n - mn)); [lia|]. eapply iter_n_complete; eauto.
    + destruct (sat_start_closed w r Hc X0 k0 HX0 Hk0) as [Hincl Hcl]. cbv zeta in *.
      eapply closed_repeat; [exact Hcl|apply Hincl; exact Hk0|exact H2].
Qed.

Corollary re_matchb_complete r w : re_matches r w -> re_matchb r w = true.
Proof.
  intros [i [j [Hi HM]]]. unfold re_matchb.
  pose proof (endsS_complete w r i j HM (boundaries w) (fun x Hx => boundaries_le w x Hx) Hi) as Hj.
  destruct (endsS r w (boundaries w)); [destruct Hj|reflexivity].
Qed.

Theorem re_matchb_exact r w : re_matchb r w = true <-> re_matches r w.
Proof. split; [apply re_matchb_sound|apply re_matchb_complete]. Qed.
