// Package c11 drives the correspondence for C11 (SecRxPreFilter never changes what @rx matches or
// captures).  For every pattern it serialises Go's parsed+simplified regexp/syntax AST as a Coq
// term (Regex.re), records what the real code computes for it (minLen, prefilterFunc,
// extractLiterals, extractExactMatch through the verif hooks of internal/operators) and, for
// inputs sampled from the pattern's own AST and then perturbed, the result and captured fields
// of the real @rx operator with the prefilter off and on.  Coq evaluates the model of
// Prefilter.v / Regex.v on the same data.  The property's own oracle (on == off, result and
// TX.0-9) is checked here on the implementation, at operator level for every case and through
// two complete WAFs (SecRxPreFilter On / Off) for a sample.
package c11

import (
	"encoding/hex"
	"encoding/json"
	"fmt"
	"io/fs"
	"math/rand"
	"os"
	"path/filepath"
	"regexp"
	"regexp/syntax"
	"sort"
	"strings"
	"unicode"
	"unicode/utf8"

	crs3 "github.com/corazawaf/coraza-coreruleset"
	"github.com/corazawaf/coraza/v3/experimental/plugins/plugintypes"
	"github.com/corazawaf/coraza/v3/internal/corazawaf"
	"github.com/corazawaf/coraza/v3/internal/operators"
	"github.com/corazawaf/coraza/v3/internal/seclang"
	"github.com/corazawaf/coraza/v3/verifharness/vh"
)

func init() { vh.Register("C11", Run) }

type caseJSON struct {
	Pattern    string   `json:"pattern"`
	PatternHex string   `json:"pattern_hex"`
	Inputs     []string `json:"inputs_hex"`
	Source     string   `json:"source,omitempty"`
	Note       string   `json:"note,omitempty"`
	Simplified string   `json:"simplified,omitempty"`
	Lits       string   `json:"go_literals,omitempty"`
	MinLen     int      `json:"go_minlen,omitempty"`
	Obs        []string `json:"observed,omitempty"`
}

// ---------------------------------------------------------------------------------------
// AST -> Coq term
// ---------------------------------------------------------------------------------------

type serializer struct {
	table map[rune]string // runes with a non-trivial lower-case image or fold orbit
}

func orbit(r rune) []rune {
	o := []rune{r}
	for x := unicode.SimpleFold(r); x != r; x = unicode.SimpleFold(x) {
		o = append(o, x)
	}
	sort.Slice(o, func(i, j int) bool { return o[i] < o[j] })
	return o
}

func validRune(r rune) bool { return r >= 0 && (r < 0xD800 || (r > 0xDFFF && r <= unicode.MaxRune)) }

func (s *serializer) lrune(r rune) {
	lo := unicode.ToLower(r)
	o := orbit(r)
	if lo == r && len(o) == 1 {
		return
	}
	items := make([]string, len(o))
	for i, x := range o {
		items[i] = fmt.Sprintf("%d", x)
	}
	s.table[r] = fmt.Sprintf("(%d, LR %d %d [%s])", r, r, lo, strings.Join(items, ";"))
}

func (s *serializer) term(re *syntax.Regexp) (string, int, error) {
	f := vh.Bool(re.Flags&syntax.FoldCase != 0)
	op0 := func(name string) (string, int, error) { return "(Op0 " + f + " " + name + ")", 1, nil }
	switch re.Op {
	case syntax.OpNoMatch:
		return op0("ONoMatch")
	case syntax.OpEmptyMatch:
		return op0("OEmpty")
	case syntax.OpAnyCharNotNL:
		return op0("OAnyNL")
	case syntax.OpAnyChar:
		return op0("OAny")
	case syntax.OpBeginLine:
		return op0("OBeginLine")
	case syntax.OpEndLine:
		return op0("OEndLine")
	case syntax.OpBeginText:
		return op0("OBeginText")
	case syntax.OpEndText:
		return op0("OEndText")
	case syntax.OpWordBoundary:
		return op0("OWordB")
	case syntax.OpNoWordBoundary:
		return op0("ONoWordB")
	case syntax.OpLiteral:
		items := make([]string, len(re.Rune))
		for i, r := range re.Rune {
			if !validRune(r) {
				return "", 0, fmt.Errorf("literal rune %#x is not a scalar value", r)
			}
			s.lrune(r)
			items[i] = fmt.Sprintf("%d", r)
		}
		return "(LitT T " + f + " [" + strings.Join(items, ";") + "])", len(re.Rune), nil
	case syntax.OpCharClass:
		var items []string
		for i := 0; i+1 < len(re.Rune); i += 2 {
			items = append(items, fmt.Sprintf("(%d,%d)", re.Rune[i], re.Rune[i+1]))
		}
		return "(Class " + f + " [" + strings.Join(items, ";") + "])", 1 + len(items)/4, nil
	case syntax.OpCapture, syntax.OpStar, syntax.OpPlus, syntax.OpQuest:
		name := map[syntax.Op]string{syntax.OpCapture: "Cap", syntax.OpStar: "Star", syntax.OpPlus: "Plus", syntax.OpQuest: "Quest"}[re.Op]
		t, n, err := s.term(re.Sub[0])
		if err != nil {
			return "", 0, err
		}
		return "(" + name + " " + f + " " + t + ")", n + 1, nil
	case syntax.OpConcat, syntax.OpAlternate:
		name := "Cat"
		if re.Op == syntax.OpAlternate {
			name = "Alt"
		}
		items := make([]string, len(re.Sub))
		total := 1
		for i, sub := range re.Sub {
			t, n, err := s.term(sub)
			if err != nil {
				return "", 0, err
			}
			items[i] = t
			total += n
		}
		return "(" + name + " " + f + " [" + strings.Join(items, "; ") + "])", total, nil
	}
	if re.Op == syntax.OpRepeat {
		t, n, err := s.term(re.Sub[0])
		if err != nil {
			return "", 0, err
		}
		mx := "None"
		if re.Max >= 0 {
			mx = "(Some " + vh.Nat(re.Max) + ")"
		}
		return "(Rep " + f + " " + vh.Nat(re.Min) + " " + mx + " " + t + ")", n + 1, nil
	}
	return "", 0, fmt.Errorf("op %v is not modelled", re.Op)
}

// ---------------------------------------------------------------------------------------
// inputs sampled from the pattern's AST
// ---------------------------------------------------------------------------------------

var fillers = []string{"a", "x", "Z", "0", " ", "\n", "_", "-", "k", "s", "K", "S", "\u212a", "\u017f", "\xff", "\xc3", "\u00e9", "/", "="}

type sampler struct {
	r *rand.Rand
}

func (sm *sampler) runeBytes(r rune) string {
	if r == utf8.RuneError && sm.r.Intn(2) == 0 {
		return string([]byte{byte(0x80 + sm.r.Intn(0x80))}) // an invalid byte decodes to U+FFFD
	}
	return string(r)
}

func (sm *sampler) classMember(rs []rune) (string, bool) {
	if len(rs) < 2 {
		return "", false
	}
	// prefer ASCII ranges
	var idx []int
	for i := 0; i+1 < len(rs); i += 2 {
		if rs[i] < 128 {
			idx = append(idx, i)
		}
	}
	i := 2 * sm.r.Intn(len(rs)/2)
	if len(idx) > 0 && sm.r.Intn(4) != 0 {
		i = idx[sm.r.Intn(len(idx))]
	}
	lo, hi := rs[i], rs[i+1]
	if lo < 128 && hi >= 128 && sm.r.Intn(3) != 0 {
		hi = 127
	}
	var r rune
	switch sm.r.Intn(4) {
	case 0:
		r = lo
	case 1:
		r = hi
	default:
		span := int64(hi-lo) + 1
		if span > 96 && sm.r.Intn(3) != 0 {
			span = 96
		}
		r = lo + rune(sm.r.Int63n(span))
	}
	if !validRune(r) {
		r = lo
	}
	return sm.runeBytes(r), true
}

func (sm *sampler) sample(re *syntax.Regexp, depth int) (string, bool) {
	switch re.Op {
	case syntax.OpNoMatch:
		return "", false
	case syntax.OpEmptyMatch, syntax.OpBeginLine, syntax.OpEndLine, syntax.OpBeginText, syntax.OpEndText,
		syntax.OpWordBoundary, syntax.OpNoWordBoundary:
		return "", true
	case syntax.OpAnyCharNotNL:
		for {
			f := fillers[sm.r.Intn(len(fillers))]
			if f != "\n" {
				return f, true
			}
		}
	case syntax.OpAnyChar:
		return fillers[sm.r.Intn(len(fillers))], true
	case syntax.OpLiteral:
		var b strings.Builder
		fold := re.Flags&syntax.FoldCase != 0
		for _, r := range re.Rune {
			if fold {
				o := orbit(r)
				r = o[sm.r.Intn(len(o))]
			}
			b.WriteString(sm.runeBytes(r))
		}
		return b.String(), true
	case syntax.OpCharClass:
		return sm.classMember(re.Rune)
	case syntax.OpCapture:
		return sm.sample(re.Sub[0], depth)
	case syntax.OpStar, syntax.OpPlus, syntax.OpQuest:
		n := 0
		switch re.Op {
		case syntax.OpStar:
			n = []int{0, 0, 1, 2, 3}[sm.r.Intn(5)]
		case syntax.OpPlus:
			n = []int{1, 1, 2, 3}[sm.r.Intn(4)]
		default:
			n = sm.r.Intn(2)
		}
		if depth > 6 && n > 1 {
			n = 1
		}
		var b strings.Builder
		for i := 0; i < n; i++ {
			s, ok := sm.sample(re.Sub[0], depth+1)
			if !ok {
				if re.Op == syntax.OpPlus {
					return "", false
				}
				return "", true
			}
			b.WriteString(s)
		}
		return b.String(), true
	case syntax.OpConcat:
		var b strings.Builder
		for _, sub := range re.Sub {
			s, ok := sm.sample(sub, depth+1)
			if !ok {
				return "", false
			}
			b.WriteString(s)
		}
		return b.String(), true
	case syntax.OpAlternate:
		for try := 0; try < 4; try++ {
			s, ok := sm.sample(re.Sub[sm.r.Intn(len(re.Sub))], depth+1)
			if ok {
				return s, true
			}
		}
		return "", false
	}
	return "", false
}

func flipCase(b byte) byte {
	switch {
	case 'a' <= b && b <= 'z':
		return b - 32
	case 'A' <= b && b <= 'Z':
		return b + 32
	}
	return b
}

func (sm *sampler) perturb(s string) string {
	r := sm.r
	fill := func() string { return fillers[r.Intn(len(fillers))] }
	b := []byte(s)
	switch r.Intn(14) {
	case 0:
		return fill() + s
	case 1:
		return s + fill()
	case 2:
		return "\n" + s
	case 3:
		return s + "\n"
	case 4:
		return fill() + fill() + s + fill()
	case 5, 6: // delete one byte
		if len(b) > 0 {
			i := r.Intn(len(b))
			return string(append(append([]byte{}, b[:i]...), b[i+1:]...))
		}
	case 7: // insert
		i := r.Intn(len(b) + 1)
		return s[:i] + fill() + s[i:]
	case 8: // substitute
		if len(b) > 0 {
			i := r.Intn(len(b))
			f := fill()
			return s[:i] + f + s[i+1:]
		}
	case 9, 10: // case flip of one or all letters
		if len(b) > 0 {
			c := append([]byte{}, b...)
			if r.Intn(2) == 0 {
				for i := range c {
					c[i] = flipCase(c[i])
				}
			} else {
				i := r.Intn(len(c))
				c[i] = flipCase(c[i])
			}
			return string(c)
		}
	case 11: // Unicode fold variants of k / s
		rep := strings.NewReplacer("k", "\u212a", "K", "\u212a", "s", "\u017f", "S", "\u017f")
		return rep.Replace(s)
	case 12: // truncate
		if len(b) > 0 {
			return s[:r.Intn(len(b))]
		}
	case 13: // newline in the middle
		i := r.Intn(len(b) + 1)
		return s[:i] + "\n" + s[i:]
	}
	return s + fill()
}

// ---------------------------------------------------------------------------------------
// pattern generator (text of the regexp/syntax grammar)
// ---------------------------------------------------------------------------------------

var words = []string{"select", "set", "sleep", "substr", "substring", "union", "update", "insert", "into", "from",
	"where", "script", "javascript", "onerror", "onload", "eval", "exec", "etc/passwd", "cmd", "alert", "document",
	"cookie", "admin", "Upload", "foo", "bar", "ab", "abc", "abd", "k", "s", "ks", "sk", "kelvin", "ss", "x", "-->",
	"<!--", "../", "%00", "0x", "or", "and", "SELECT", "Kiss", "desk", "10", "00", "100"}

var exotic = []string{"\u00e9", "\u00df", "\u017f", "\u212a", "\u03c3", "\u03c2", "\u03a3", "\u0130", "\u0131", "\u20ac", "\u65e5\u672c", `\x{FFFD}`, "\ufffd", "a\ufffd", "\u00b5", "\u00c9",
	"\u01c5", "\u01c6", "\u01c4", "\u1e9e", "\ufb01", "\u00b5x", "k\u212a", "stra\u00dfe", "\U0001F600", "\x7f", "\u0080"}

type pgen struct {
	r *rand.Rand
}

func (g *pgen) pick(l []string) string { return l[g.r.Intn(len(l))] }

func (g *pgen) lit() string {
	switch x := g.r.Intn(20); {
	case x < 9:
		return regexp.QuoteMeta(g.pick(words))
	case x < 13:
		n := 1 + g.r.Intn(6)
		const alpha = "abcKksS01-_ /.eE"
		b := make([]byte, n)
		for i := range b {
			b[i] = alpha[g.r.Intn(len(alpha))]
		}
		return regexp.QuoteMeta(string(b))
	case x < 16:
		e := g.pick(exotic)
		if strings.HasPrefix(e, `\x`) {
			return e
		}
		return regexp.QuoteMeta(e)
	case x < 17:
		e := g.pick(exotic)
		if strings.HasPrefix(e, `\x`) {
			return regexp.QuoteMeta(g.pick(words)) + e
		}
		return regexp.QuoteMeta(g.pick(words) + e + g.pick(words))
	case x < 18:
		return regexp.QuoteMeta(g.pick(words) + g.pick(words))
	default:
		return regexp.QuoteMeta(g.pick(words)[:1])
	}
}

var classes = []string{`[a-c]`, `[^"]`, `\d`, `\s`, `\w`, `\W`, `.`, `[[:alpha:]]`, `[k-s]`, `[\x{100}-\x{17F}]`, `[^\n]`, `[Kk]`,
	`[sS]`, `[a-zA-Z0-9_]`, `[^a-z]`, `\S`, `\D`, `[\x00-\x{10FFFF}]`, `[\x{e9}-\x{fc}]`, `[\x{FFFD}]`, "[\ufffd]", `[0-9a-f]`}

func (g *pgen) atom(depth int) string {
	x := g.r.Intn(20)
	switch {
	case x < 10 || depth <= 0 && x < 14:
		return g.lit()
	case x < 14:
		open := g.pick([]string{"(?:", "(?:", "(", "(?i:", "(?-i:", "(?s:", "(?P<n>"})
		if open == "(?P<n>" {
			open = "("
		}
		return open + g.alt(depth-1) + ")"
	default:
		return g.pick(classes)
	}
}

func (g *pgen) piece(depth int) string {
	a := g.atom(depth)
	// quantifiers apply to the last character of a multi-character literal: group it sometimes
	q := ""
	switch g.r.Intn(16) {
	case 0:
		q = "?"
	case 1:
		q = "*"
	case 2:
		q = "+"
	case 3:
		q = g.pick([]string{"{2}", "{1,3}", "{0,2}", "{2,}", "*?", "+?", "??"})
	}
	if q != "" && g.r.Intn(2) == 0 && !strings.HasPrefix(a, "(") {
		a = "(?:" + a + ")"
	}
	return a + q
}

func (g *pgen) concat(depth int) string {
	n := 1 + g.r.Intn(4)
	var b strings.Builder
	if g.r.Intn(8) == 0 {
		b.WriteString(g.pick([]string{"^", `\A`, `\b`, `\A`}))
	}
	for i := 0; i < n; i++ {
		if i > 0 && g.r.Intn(10) == 0 {
			b.WriteString(g.pick([]string{`\b`, `\B`, `.*`, `.+`, `\s*`, `.*?`, `[^"]*`}))
		}
		b.WriteString(g.piece(depth))
	}
	if g.r.Intn(8) == 0 {
		b.WriteString(g.pick([]string{"$", `\z`, `\b`, `\z`}))
	}
	return b.String()
}

func (g *pgen) wordAlt(n int) string {
	// alternation of words sharing prefixes, so that Simplify factors a trie out of it
	base := g.pick([]string{"s", "se", "u", "un", "a", "ex", "in", "", "K", "k"})
	var l []string
	for i := 0; i < n; i++ {
		w := g.pick(words)
		if g.r.Intn(2) == 0 {
			w = base + w
		}
		if g.r.Intn(12) == 0 {
			w += g.pick(exotic[:11])
		}
		l = append(l, regexp.QuoteMeta(w))
	}
	return strings.Join(l, "|")
}

func (g *pgen) alt(depth int) string {
	switch g.r.Intn(6) {
	case 0:
		return g.wordAlt(2 + g.r.Intn(5))
	case 1, 2:
		n := 2 + g.r.Intn(3)
		l := make([]string, n)
		for i := range l {
			l[i] = g.concat(depth)
		}
		return strings.Join(l, "|")
	}
	return g.concat(depth)
}

func (g *pgen) longLit(n int) string {
	const alpha = "abcdefghijklmnopqrstuvwxyz"
	b := make([]byte, n)
	for i := range b {
		b[i] = alpha[g.r.Intn(len(alpha))]
	}
	return string(b)
}

func (g *pgen) special() string {
	L := func() string { return g.lit() }
	W := func() string { return regexp.QuoteMeta(g.pick(words)) }
	switch g.r.Intn(24) {
	case 0:
		return `\A` + L() + `.*` + L()
	case 1:
		return `\A.*` + L()
	case 2:
		return L() + `\d*\z`
	case 3:
		return L() + `\z`
	case 4:
		return `^` + L() + `$`
	case 5:
		return `(^` + L() + `$)`
	case 6:
		return `(?i)^` + L() + `$`
	case 7:
		return `\A` + L() + `\z`
	case 8:
		w := g.pick(words)
		return regexp.QuoteMeta(w[:1]) + `(?:.*` + W() + `|` + W() + `)`
	case 9:
		return g.wordAlt(2 + g.r.Intn(11))
	case 10:
		return `(?:` + g.wordAlt(2+g.r.Intn(3)) + `).*` + L()
	case 11:
		return L() + `.*` + L() + `.*(?:` + g.wordAlt(2+g.r.Intn(4)) + `)`
	case 12:
		return `(?:^|["':;=])\s*(?:` + g.wordAlt(3) + `)`
	case 13:
		return `(?i)` + g.wordAlt(2+g.r.Intn(8))
	case 14:
		return `\A` + L() + `.*` + L() + `\z`
	case 15:
		return `(?i)\A` + L() + `[^a]*` + L() + `\z`
	case 16:
		return `(` + L() + `)(` + L() + `)?(` + g.pick(classes) + `+)` + `(a)(b)?(c)(d)(e)(f)(g)(h)`
	case 17:
		return `\A` + g.pick(classes) + `?` + L()
	case 18:
		return L() + g.pick(classes) + `?\z`
	case 19:
		return `\A(?:` + L() + `|` + L() + `)` + `.*\z`
	case 20:
		return `(?i:` + L() + `)` + L() + `|` + L()
	case 22:
		// counted repetitions (expanded by Simplify; the OpRepeat branches see them unsimplified)
		rep := g.pick([]string{"{2}", "{1,3}", "{0,2}", "{2,}", "{3,4}", "{1}", "{0}", "{0,}", "{1,}", "{2,2}?", "{1,2}?"})
		switch g.r.Intn(5) {
		case 0:
			return `(?:` + L() + `)` + rep + L()
		case 1:
			return g.pick([]string{"", "(?i)"}) + `(?:` + g.wordAlt(2+g.r.Intn(3)) + `)` + rep
		case 2:
			return L() + g.pick(classes) + rep + L()
		case 3:
			return `(?:` + L() + g.pick(classes) + rep + `)` + g.pick([]string{"{2}", "{1,2}", "{0,1}"}) + `\z`
		default:
			return `(` + L() + `)` + rep + `.*(?:` + L() + `){2,3}`
		}
	case 21:
		// a short literal followed by a capture group that starts with a literal: trie reconstruction
		// yields a single anyRequired needle (strings.Contains / containsFoldASCII path)
		w1, w2 := g.pick(words), g.pick(words)
		return g.pick([]string{"", "(?i)", "(?i)"}) + regexp.QuoteMeta(w1[:1]) + `(` + regexp.QuoteMeta(w2[:1+g.r.Intn(len(w2))]) + g.pick(classes) + g.pick([]string{"", "*", "+"}) + `)`
	default:
		return `^(?i)` + L() + `$`
	}
}

func (g *pgen) pattern(thorough bool) (string, string) {
	x := g.r.Intn(100)
	switch {
	case x < 35:
		return g.special(), "special"
	case x < 37:
		// long needles: the shift table's uint8 arithmetic (minLen around and above 255)
		n := []int{250, 255, 256, 257, 300, 511, 513}[g.r.Intn(7)]
		a, b := g.longLit(n), g.longLit(n+g.r.Intn(3))
		pre := g.pick([]string{"", "(?i)"})
		return pre + `(?:` + a + `|` + b + `)`, "long-needles"
	case x < 38 && thorough:
		// more needles than anyRequiredMaxN
		var l []string
		for i := 0; i < 257+g.r.Intn(8); i++ {
			l = append(l, fmt.Sprintf("%c%c%s", 'a'+byte(i%26), 'a'+byte((i/26)%26), g.longLit(2+g.r.Intn(3))))
		}
		return `x.(?:` + strings.Join(l, "|") + `)`, "many-needles"
	case x < 60:
		return `(?i)` + g.alt(2), "grammar-ci"
	default:
		return g.alt(2), "grammar"
	}
}

// ---------------------------------------------------------------------------------------
// CRS patterns
// ---------------------------------------------------------------------------------------

var rxLine = regexp.MustCompile(`"@rx ((?:[^"\\]|\\.)*)"`)

func crsPatternsFrom(data string, seen map[string]bool, out *[]string) {
	joined := strings.ReplaceAll(data, "\\\n", "")
	for _, line := range strings.Split(joined, "\n") {
		line = strings.TrimSpace(line)
		if !strings.HasPrefix(line, "SecRule") {
			continue
		}
		m := rxLine.FindStringSubmatch(line)
		if m == nil {
			continue
		}
		p := strings.ReplaceAll(m[1], `\"`, `"`)
		if !seen[p] {
			seen[p] = true
			*out = append(*out, p)
		}
	}
}

func crsPatterns() []string {
	seen := map[string]bool{}
	var out []string
	files, _ := fs.Glob(crs3.FS, "@owasp_crs/*.conf")
	sort.Strings(files)
	for _, f := range files {
		if b, err := fs.ReadFile(crs3.FS, f); err == nil {
			crsPatternsFrom(string(b), seen, &out)
		}
	}
	// rule files available on disk: the repository's own test data and the v4 module, when present
	var roots []string
	if repo := os.Getenv("VERIF_REPO"); repo != "" {
		roots = append(roots, filepath.Join(repo, "testing"))
	} else {
		roots = append(roots, "/repo/testing")
	}
	home, _ := os.UserHomeDir()
	cache := os.Getenv("GOMODCACHE")
	if cache == "" {
		cache = filepath.Join(home, "go", "pkg", "mod")
	}
	if m, _ := filepath.Glob(filepath.Join(cache, "github.com", "corazawaf", "coraza-coreruleset", "v4@*", "rules", "@owasp_crs")); len(m) > 0 {
		sort.Strings(m)
		roots = append(roots, m[len(m)-1])
	}
	for _, root := range roots {
		var confs []string
		_ = filepath.WalkDir(root, func(p string, d fs.DirEntry, err error) error {
			if err == nil && !d.IsDir() && strings.HasSuffix(p, ".conf") {
				confs = append(confs, p)
			}
			return nil
		})
		sort.Strings(confs)
		for _, f := range confs {
			if b, err := os.ReadFile(f); err == nil {
				crsPatternsFrom(string(b), seen, &out)
			}
		}
	}
	return out
}

// ---------------------------------------------------------------------------------------
// the real operator
// ---------------------------------------------------------------------------------------

var theWAF = corazawaf.NewWAF()

type evalRes struct {
	matched bool
	fields  []string // TX.0 .. TX.9 after the evaluation, trailing empty values trimmed (a fresh transaction has all ten set to "")
}

func evalOp(op plugintypes.Operator, in string, capturing bool) (res evalRes, panicked string) {
	defer func() {
		if r := recover(); r != nil {
			panicked = fmt.Sprint(r)
		}
	}()
	tx := theWAF.NewTransaction()
	defer tx.Close()
	tx.Capture = capturing
	res.matched = op.Evaluate(tx, in)
	txc := tx.Variables().TX()
	for i := 0; i < 10; i++ {
		v := txc.Get(fmt.Sprint(i))
		if len(v) == 0 {
			res.fields = append(res.fields, "")
		} else {
			res.fields = append(res.fields, v[0])
		}
	}
	for len(res.fields) > 0 && res.fields[len(res.fields)-1] == "" {
		res.fields = res.fields[:len(res.fields)-1]
	}
	return res, ""
}

func sameFields(a, b []string) bool {
	if len(a) != len(b) {
		return false
	}
	for i := range a {
		if a[i] != b[i] {
			return false
		}
	}
	return true
}

// two complete WAFs that differ only in SecRxPreFilter
func wafPair(pat string) (*corazawaf.WAF, *corazawaf.WAF, error) {
	mk := func(mode string) (*corazawaf.WAF, error) {
		w := corazawaf.NewWAF()
		p := seclang.NewParser(w)
		err := p.FromString("SecRuleEngine On\nSecRxPreFilter " + mode + "\n" +
			"SecRule ARGS_GET:x \"@rx " + pat + "\" \"id:1,phase:1,deny,status:403,capture\"\n")
		return w, err
	}
	on, err := mk("On")
	if err != nil {
		return nil, nil, err
	}
	off, err := mk("Off")
	return on, off, err
}

func wafEval(w *corazawaf.WAF, in string) (bool, []string) {
	tx := w.NewTransaction()
	defer tx.Close()
	tx.AddGetRequestArgument("x", in)
	tx.ProcessRequestHeaders()
	hit := tx.Interruption() != nil
	var f []string
	for i := 0; i < 10; i++ {
		v := tx.Variables().TX().Get(fmt.Sprint(i))
		if len(v) == 0 {
			f = append(f, "<unset>")
		} else {
			f = append(f, v[0])
		}
	}
	return hit, f
}

func wafSafe(pat string) bool {
	if strings.ContainsAny(pat, "\"\n\r\x00") || !utf8.ValidString(pat) || pat == "" {
		return false
	}
	if strings.TrimSpace(pat) != pat || strings.HasSuffix(pat, `\`) || strings.Contains(pat, "%{") {
		return false
	}
	return true
}

// ---------------------------------------------------------------------------------------
// driver
// ---------------------------------------------------------------------------------------

type runner struct {
	cfg     vh.Config
	res     *vh.Result
	rng     *rand.Rand
	terms   []string
	cases   []any
	sizes   []int
	table   map[rune]string
	seen    map[string]bool
	dist    vh.Counter
	semCost int64
	// sampleExtra > 0: also derive this many inputs from the AST when explicit inputs are given
	sampleExtra int
}

func hexs(s string) string { return hex.EncodeToString([]byte(s)) }

func unhex(h string) string {
	b, _ := hex.DecodeString(h)
	return string(b)
}

func (rn *runner) fail(key, what string, c any) {
	rn.res.OracleFailures = append(rn.res.OracleFailures, vh.OracleFailure{Key: key, What: what, Case: c})
}

func litsTerm(l operators.VerifC11Lits) string {
	switch l.Kind {
	case "nil":
		return "GNone"
	case "all":
		return "(GAll " + vh.HxList(l.All) + ")"
	case "any":
		return "(GAny " + vh.HxList(l.Any) + ")"
	case "combined":
		return "(GComb " + vh.HxList(l.All) + " " + vh.HxList(l.Any) + ")"
	}
	return "GNone"
}

// inputsFor derives the inputs of a pattern from its AST.
func (rn *runner) inputsFor(re *syntax.Regexp, lits operators.VerifC11Lits, minLen, n int) []string {
	sm := &sampler{r: rn.rng}
	set := map[string]bool{}
	var out []string
	add := func(s string) {
		if len(s) > 1400 {
			return
		}
		if !set[s] {
			set[s] = true
			out = append(out, s)
		}
	}
	var samples []string
	for try := 0; try < 3*n && len(samples) < n; try++ {
		if s, ok := sm.sample(re, 0); ok {
			samples = append(samples, s)
		}
	}
	if len(samples) == 0 {
		samples = []string{"a"}
	}
	for i := 0; len(out) < n && i < 6*n; i++ {
		s := samples[i%len(samples)]
		switch i % 5 {
		case 0:
			add(s)
		case 1, 2, 3:
			add(sm.perturb(s))
		case 4:
			add(sm.perturb(sm.perturb(s)))
		}
		if i == 2 {
			// the extracted needles alone: passes the literal test without the pattern's other parts
			needles := append([]string{}, lits.All...)
			if len(lits.Any) > 0 {
				needles = append(needles, lits.Any[rn.rng.Intn(len(lits.Any))])
			}
			if len(needles) > 0 {
				add(strings.Join(needles, fillers[rn.rng.Intn(len(fillers))]))
				rev := append([]string{}, needles...)
				sort.Sort(sort.Reverse(sort.StringSlice(rev)))
				add(strings.ToUpper(strings.Join(rev, "")))
			}
		}
		if i == 3 && minLen > 0 && len(s) >= minLen {
			add(s[:minLen-1])
		}
	}
	if rn.rng.Intn(3) == 0 {
		add("")
	}
	if rn.rng.Intn(3) == 0 {
		b := make([]byte, 1+rn.rng.Intn(12))
		rn.rng.Read(b)
		add(string(b))
	}
	return out
}

func hasRepeat(re *syntax.Regexp) bool {
	if re.Op == syntax.OpRepeat {
		return true
	}
	for _, s := range re.Sub {
		if hasRepeat(s) {
			return true
		}
	}
	return false
}

// expandedNodes estimates the work of the executable semantics on an AST with counted repeats.
func expandedNodes(re *syntax.Regexp) int64 {
	n := int64(1 + len(re.Rune)/2)
	for _, s := range re.Sub {
		n += expandedNodes(s)
	}
	if re.Op == syntax.OpRepeat {
		k := int64(re.Max)
		if re.Max < 0 {
			k = int64(re.Min) + 2
		}
		if k < 1 {
			k = 1
		}
		n *= k
	}
	return n
}

func countNodes(re *syntax.Regexp) int {
	n := 1 + len(re.Rune)/2
	for _, s := range re.Sub {
		n += countNodes(s)
	}
	return n
}

// process runs one pattern with the given inputs (nil = derive them) and appends its case.
func (rn *runner) process(pat string, inputs []string, source, note string, nInputs int, emit bool) {
	data := "(?sm)" + pat
	cj := caseJSON{Pattern: pat, PatternHex: hexs(pat), Source: source, Note: note}
	opOff, errOff := operators.Get("rx", plugintypes.OperatorOptions{Arguments: pat, RxPreFilterEnabled: false})
	opOn, errOn := operators.Get("rx", plugintypes.OperatorOptions{Arguments: pat, RxPreFilterEnabled: true})
	if (errOff != nil) != (errOn != nil) {
		rn.fail("c11-compile-differs", fmt.Sprintf("pattern compiles with the prefilter %v but not with it %v", errOn == nil, errOff == nil), cj)
		return
	}
	if errOff != nil {
		rn.dist.Inc("pattern_invalid")
		return
	}
	binary := operators.VerifC11MatchesArbitraryBytes(data)
	var re, re0 *syntax.Regexp
	modelled := !binary
	if !emit {
		rn.dist.Inc("pattern_differential_only")
	}
	var rTerm, r0Term string
	nodes := 0
	ser := &serializer{table: rn.table}
	if modelled {
		p, err := syntax.Parse(data, syntax.Perl)
		if err != nil {
			modelled = false
		} else {
			re = p.Simplify()
			var e1 error
			rTerm, nodes, e1 = ser.term(re)
			if e1 != nil {
				modelled = false
				rn.dist.Inc("pattern_not_serialisable")
			}
		}
	}
	if modelled {
		r0Term = "(Op0 false OEmpty)"
		if p0, err := syntax.Parse(pat, syntax.Perl); err == nil {
			re0 = p0.Simplify()
			if t, _, e := ser.term(re0); e == nil {
				r0Term = t
			} else {
				re0 = nil
			}
		}
	}
	if binary {
		rn.dist.Inc("pattern_binaryregexp")
		re, _ = syntax.Parse(strings.ToValidUTF8(data, "�"), syntax.Perl)
		if re != nil {
			re = re.Simplify()
		}
	}

	var lits operators.VerifC11Lits
	minLen := 0
	var pf func(string) bool
	exactLit, exactCI := "", false
	if modelled {
		lits = operators.VerifC11ExtractLiterals(re, operators.VerifC11HasFoldCase(re))
		minLen = operators.VerifC11MinLen(re)
		if m2 := operators.VerifC11MinMatchLength(data); m2 != minLen {
			rn.fail("c11-minlen-reparse", "minMatchLength(pattern) differs from minLen(parsed AST)", cj)
		}
		pf = operators.VerifC11PrefilterFunc(data)
		if re0 != nil {
			exactLit, exactCI = operators.VerifC11ExtractExactMatch(re0)
		}
		cj.Simplified = re.String()
		cj.Lits = fmt.Sprintf("%s all=%q any=%q", lits.Kind, lits.All, lits.Any)
		cj.MinLen = minLen
		rn.dist.Inc("lits_" + lits.Kind)
		if pf == nil {
			rn.dist.Inc("pattern_prefilter_nil")
		} else {
			rn.dist.Inc("pattern_prefilter_built")
		}
		if operators.VerifC11HasFoldCase(re) {
			rn.dist.Inc("pattern_ci")
		}
		if exactLit != "" {
			rn.dist.Inc("pattern_exact_path")
		}
	}
	if inputs == nil {
		if re != nil {
			inputs = rn.inputsFor(re, lits, minLen, nInputs)
		} else {
			inputs = []string{"", "a"}
		}
	} else if rn.sampleExtra > 0 && re != nil {
		inputs = append(append([]string{}, inputs...), rn.inputsFor(re, lits, minLen, rn.sampleExtra)...)
	}

	// the complete-WAF differential for a sample of the patterns
	var wOn, wOff *corazawaf.WAF
	if wafSafe(pat) && (source == "corpus" || source == "replay" || rn.rng.Intn(4) == 0) {
		var err error
		wOn, wOff, err = wafPair(pat)
		if err != nil {
			wOn, wOff = nil, nil
			rn.dist.Inc("waf_pair_rejected")
		}
	}

	var ios []string
	type verdict struct {
		in string
		m  bool
	}
	var verdicts []verdict
	for k, in := range inputs {
		capturing := k%4 != 3
		off, p1 := evalOp(opOff, in, capturing)
		on, p2 := evalOp(opOn, in, capturing)
		rn.res.Evaluations++
		rn.res.OracleEvaluations++
		cj.Inputs = append(cj.Inputs, hexs(in))
		one := caseJSON{Pattern: pat, PatternHex: hexs(pat), Inputs: []string{hexs(in)}, Source: source, Simplified: cj.Simplified, Lits: cj.Lits, MinLen: minLen}
		if p1 != "" || p2 != "" {
			rn.fail("c11-panic", "@rx panicked: off="+p1+" on="+p2, one)
			continue
		}
		obs := fmt.Sprintf("off=%v%q on=%v%q", off.matched, off.fields, on.matched, on.fields)
		// the property itself, on the implementation
		if off.matched != on.matched {
			obs += " RESULT-DIFFERS"
			rn.fail("c11-result-differs", fmt.Sprintf("@rx %q on %q: prefilter off -> %v, on -> %v", pat, in, off.matched, on.matched), one)
		} else if !sameFields(off.fields, on.fields) {
			obs += " CAPTURES-DIFFER"
			rn.fail("c11-captures-differ", fmt.Sprintf("@rx %q on %q: captured fields off %q, on %q", pat, in, off.fields, on.fields), one)
		}
		if !off.matched && len(off.fields) > 0 {
			rn.fail("c11-capture-without-match", "fields captured without a match", one)
		}
		if wOn != nil {
			rn.res.OracleEvaluations++
			rn.dist.Inc("waf_pair_evaluations")
			h1, f1 := wafEval(wOn, in)
			h0, f0 := wafEval(wOff, in)
			if h1 != h0 || !sameFields(f1, f0) {
				rn.fail("c11-waf-differs", fmt.Sprintf("two WAFs differing only in SecRxPreFilter, rule @rx %q, ARGS_GET:x=%q: Off -> interrupted=%v TX.0-9=%q, On -> interrupted=%v TX.0-9=%q", pat, in, h0, f0, h1, f1), one)
			}
			if capOff, _ := evalOp(opOff, in, true); h0 != capOff.matched {
				rn.fail("c11-waf-vs-operator", "the WAF with SecRxPreFilter Off disagrees with the bare operator", one)
			}
		}
		if !modelled {
			continue
		}
		if !emit {
			if pf != nil && !pf(in) && off.matched {
				rn.fail("c11-prefilter-false-negative", fmt.Sprintf("prefilterFunc(%q)(%q) = false but the engine matches", pat, in), one)
			}
			continue
		}
		pfv := true
		if pf != nil {
			pfv = pf(in)
		}
		// input classes
		switch {
		case pf == nil:
			rn.dist.Inc("input_no_prefilter")
		case !pfv && len(in) < minLen:
			rn.dist.Inc("input_rejected_by_length")
		case !pfv:
			rn.dist.Inc("input_rejected_by_literals")
		case off.matched:
			rn.dist.Inc("input_passed_and_matches")
		default:
			rn.dist.Inc("input_passed_no_match")
		}
		if exactLit != "" && !strings.Contains(in, "\n") && pfv && len(in) >= minLen {
			rn.dist.Inc("input_exact_path_taken")
		}
		if off.matched {
			rn.dist.Inc("engine_matches")
		}
		key := pat + "\x00" + in
		if !rn.seen[key] {
			rn.seen[key] = true
			if pf != nil && (off.matched || !pfv) || exactLit != "" {
				rn.res.DistinctNontrivial++
			}
		}
		cost := int64(nodes) * int64(len(in)+1) * int64(len(in)+1)
		sem := cost < 20_000_000 && rn.semCost < rn.semBudget()
		if sem {
			rn.semCost += cost
			rn.dist.Inc("semantics_compared_with_engine")
		}
		offT := "None"
		if off.matched {
			offT = "(Some " + vh.HxList(off.fields) + ")"
		}
		onT := "None" // the same fields as with the prefilter off
		if !sameFields(off.fields, on.fields) {
			onT = "(Some " + vh.HxList(on.fields) + ")"
		}
		ios = append(ios, fmt.Sprintf("IO %s %s %s %s %s %s %s", vh.HxS(in), vh.Bool(pfv), vh.Bool(capturing), offT,
			vh.Bool(on.matched), onT, vh.Bool(sem)))
		cj.Obs = append(cj.Obs, fmt.Sprintf("pf=%v %s", pfv, obs))
		verdicts = append(verdicts, verdict{in, off.matched})
	}
	if !modelled {
		rn.dist.Inc("pattern_oracle_only")
		return
	}
	if !emit {
		return
	}
	exT := "None"
	if exactLit != "" {
		exT = "(Some (" + vh.HxS(exactLit) + ", " + vh.Bool(exactCI) + "))"
	}
	term := fmt.Sprintf("CP %s %s %s %s %s %s %s", rTerm, r0Term, vh.Nat(minLen), vh.Bool(pf == nil), litsTerm(lits), exT, vh.List(ios))
	rn.terms = append(rn.terms, term)
	rn.cases = append(rn.cases, cj)
	rn.sizes = append(rn.sizes, len(term))
	rn.dist.Inc("source_" + source)

	// the parsed but not simplified AST: the OpRepeat branches of minLen / extractLiterals and the
	// semantics of counted repetition
	if pu, err := syntax.Parse(data, syntax.Perl); err == nil && hasRepeat(pu) {
		uTerm, _, e := ser.term(pu)
		if e != nil {
			return
		}
		ulits := operators.VerifC11ExtractLiterals(pu, operators.VerifC11HasFoldCase(pu))
		uMin := operators.VerifC11MinLen(pu)
		if uMin < 0 {
			return
		}
		exp := expandedNodes(pu)
		var ms []string
		ucj := caseJSON{Pattern: pat, PatternHex: hexs(pat), Source: source, Note: "unsimplified AST (OpRepeat)", Simplified: pu.String(),
			Lits: fmt.Sprintf("%s all=%q any=%q", ulits.Kind, ulits.All, ulits.Any), MinLen: uMin}
		for _, v := range verdicts {
			cost := exp * int64(len(v.in)+1) * int64(len(v.in)+1)
			if cost < 20_000_000 && rn.semCost < rn.semBudget() {
				rn.semCost += cost
				ms = append(ms, "("+vh.HxS(v.in)+", "+vh.Bool(v.m)+")")
				ucj.Inputs = append(ucj.Inputs, hexs(v.in))
				rn.dist.Inc("repeat_semantics_compared_with_engine")
			}
		}
		ut := fmt.Sprintf("CU %s %s %s %s", uTerm, vh.N(int64(uMin)), litsTerm(ulits), vh.List(ms))
		rn.terms = append(rn.terms, ut)
		rn.cases = append(rn.cases, ucj)
		rn.sizes = append(rn.sizes, len(ut))
		rn.dist.Inc("pattern_unsimplified_with_repeat")
		rn.dist.Inc("unsimplified_lits_" + ulits.Kind)
	}
}

func (rn *runner) semBudget() int64 {
	return int64(rn.cfg.Pick(10_000_000_000, 200_000_000_000))
}

func (rn *runner) runDoc(doc json.RawMessage, source string) {
	var c caseJSON
	if json.Unmarshal(doc, &c) != nil {
		return
	}
	pat := c.Pattern
	if c.PatternHex != "" {
		pat = unhex(c.PatternHex)
	}
	var inputs []string
	for _, h := range c.Inputs {
		inputs = append(inputs, unhex(h))
	}
	rn.process(pat, inputs, source, c.Note, rn.cfg.Pick(12, 40), true)
}

func Run(cfg vh.Config) (*vh.Result, error) {
	res := &vh.Result{}
	rn := &runner{cfg: cfg, res: res, rng: vh.Rng(cfg.Seed, "c11"), table: map[rune]string{}, seen: map[string]bool{}, dist: vh.Counter{}}
	res.Rule = "one case = one pattern with its inputs; inputs are sampled from the pattern's own simplified AST (branches, repetition counts, class members, fold-orbit members, invalid bytes for U+FFFD) and perturbed (prefix/suffix, newline context, one-byte deletion/insertion/substitution, case flips, Kelvin/long-s variants, truncation to minLen-1, the extracted needles alone). An evaluation (pattern,input) is non-trivial when a prefilter was built for the pattern and the engine matches or the prefilter rejects, or when the pattern takes the exact-match path; distinct = distinct (pattern,input)"

	if cfg.Replay != "" {
		b, err := os.ReadFile(cfg.Replay)
		if err != nil {
			return nil, err
		}
		var rp struct {
			Case json.RawMessage `json:"case"`
		}
		if json.Unmarshal(b, &rp) == nil && rp.Case != nil {
			rn.runDoc(rp.Case, "replay")
		} else {
			rn.runDoc(b, "replay")
		}
	} else {
		docs, _ := vh.LoadCorpus(cfg.Corpus)
		for _, d := range docs {
			rn.runDoc(d, "corpus")
		}
		rn.grids()
		nIn := cfg.Pick(12, 24)
		g := &pgen{r: rn.rng}
		for i := 0; i < cfg.Pick(330, 6000); i++ {
			p, kind := g.pattern(cfg.Thorough())
			rn.process(p, nil, "grammar", kind, nIn, true)
		}
		// the on/off differential alone (no Coq terms) on many more patterns
		for i := 0; i < cfg.Pick(1500, 24000); i++ {
			p, kind := g.pattern(cfg.Thorough())
			rn.process(p, nil, "grammar", kind, cfg.Pick(12, 40), false)
		}
		crs := crsPatterns()
		rn.dist["crs_patterns_available"] = len(crs)
		if !cfg.Thorough() {
			rn.rng.Shuffle(len(crs), func(i, j int) { crs[i], crs[j] = crs[j], crs[i] })
			if len(crs) > 60 {
				crs = crs[:60]
			}
		}
		for _, p := range crs {
			rn.process(p, nil, "crs", "", nIn, true)
		}
	}
	res.InputDistribution = rn.dist

	// the table of literal runes with a non-trivial lower-case image / fold orbit
	var keys []int
	for r := range rn.table {
		keys = append(keys, int(r))
	}
	sort.Ints(keys)
	items := make([]string, len(keys))
	for i, k := range keys {
		items[i] = rn.table[rune(k)]
	}
	prelude := "Definition T : list (N * lrune) := [" + strings.Join(items, "; ") + "]."

	// shards balanced by term size
	const maxBytes = 230_000
	start, size, k := 0, 0, 0
	flush := func(end int) error {
		if end <= start {
			return nil
		}
		info, err := vh.WriteShard(cfg.OutDir, vh.Shard{
			Name: fmt.Sprintf("C11_%d", k), Imports: "From Verif Require Import Base Utf8 Regex Prefilter CorrC11.",
			CaseType: "CorrC11.case", MismatchF: "CorrC11.mismatches", Terms: rn.terms[start:end], Cases: rn.cases[start:end], Prelude: prelude,
		})
		if err != nil {
			return err
		}
		res.Shards = append(res.Shards, info)
		k++
		start, size = end, 0
		return nil
	}
	for i := range rn.terms {
		if size > 0 && size+rn.sizes[i] > maxBytes {
			if err := flush(i); err != nil {
				return nil, err
			}
		}
		size += rn.sizes[i]
	}
	if err := flush(len(rn.terms)); err != nil {
		return nil, err
	}
	for i := 0; i < len(rn.cases) && len(res.Samples) < 6; i += 1 + len(rn.cases)/6 {
		res.Samples = append(res.Samples, rn.cases[i])
	}
	return res, nil
}
