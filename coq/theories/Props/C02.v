(* Props/C02.v — the property theorems of C02 and nothing else.
   C02: first disruptive match interrupts; the interruption is final; engine modes hold; each
   phase is evaluated at most once whatever the order of calls.
   [tp_run c ks] is the state after the arbitrary call list [ks]; [st_trace] is the history of
   evaluations (EvPhase p = RuleGroup.Eval entered, EvRule p r st = Rule.Evaluate, EvLimit =
   body-limit rejection). *)
From Verif Require Import Base TxPhase TxPhaseProofs.
Open Scope N_scope.

(* ---- first disruptive match interrupts ---- *)

(* for every configuration and every call list: the recorded interruption is the one of the first
   event of the history that interrupts under engine On (a rule that fired with deny / drop /
   redirect while the engine was On, or a body-limit rejection) *)
Theorem C02_first_disruptive : forall c ks,
  st_intr (tp_run c ks) = tp_first_intr MOn (st_trace (tp_run c ks)).
Proof. exact first_disruptive_holds. Qed.
Print Assumptions C02_first_disruptive.

(* the remembered would-be interruption is the first rule that fired with deny / drop / redirect
   while the engine was DetectionOnly *)
Theorem C02_would_be_first : forall c ks,
  st_dintr (tp_run c ks) = tp_first_intr MDet (st_trace (tp_run c ks)).
Proof. exact would_be_first_holds. Qed.
Print Assumptions C02_would_be_first.

(* one phase, read declaratively (rule sets without ctl:ruleEngine, allow, skip, skipAfter; engine On): the
   interruption is the one of the first rule of that phase in configuration order whose condition
   and chain hold and whose action is deny / drop / redirect; exactly the rules of the phase up to
   and including it are evaluated (all of them in the logging phase) *)
Theorem C02_phase_first_disruptive : forall c p s,
  tp_plain c = true -> st_engine s = MOn -> st_allow s = None -> st_intr s = None ->
  st_skip s = 0 -> st_skipafter s = None ->
  let s' := tp_eval_phase c p s in
  st_intr s' = tp_spec_first s p (c_rules c) /\
  st_trace s' = st_trace s ++ EvPhase p ::
     map (fun r => EvRule p r (tp_plain_stat s r)) (tp_spec_evaluated s p false (c_rules c)).
Proof. exact phase_first_disruptive_holds. Qed.
Print Assumptions C02_phase_first_disruptive.

(* id, action, status and target of the interruption a rule builds: deny 403 unless status:N,
   drop with the rule's status, redirect 302 unless the status is 301/302/303/307 *)
Theorem C02_status_mapping : forall r i,
  tp_intr_of r = Some i ->
  i_rule i = r_id r /\
  match i_kind i with
  | KDeny => r_act r = Some DDeny /\ i_data i = [] /\
             (r_status r = 0 -> i_status i = 403) /\ (r_status r <> 0 -> i_status i = r_status r)
  | KDrop => r_act r = Some DDrop /\ i_data i = [] /\ i_status i = r_status r
  | KRedirect => r_act r = Some (DRedirect (i_data i)) /\ In (i_status i) tp_redirect_codes /\
                 (In (r_status r) tp_redirect_codes -> i_status i = r_status r) /\
                 (~ In (r_status r) tp_redirect_codes -> i_status i = 302)
  end.
Proof. exact status_mapping_holds. Qed.
Print Assumptions C02_status_mapping.

(* for every configuration and every call list: a recorded (or would-be) redirect interruption carries
   a status of the whitelist 301 / 302 / 303 / 307, whatever status the rule or its SecDefaultAction has *)
Theorem C02_redirect_status_whitelisted : forall c ks i,
  (st_intr (tp_run c ks) = Some i \/ st_dintr (tp_run c ks) = Some i) -> i_kind i = KRedirect ->
  In (i_status i) tp_redirect_codes.
Proof. exact redirect_status_whitelisted_holds. Qed.
Print Assumptions C02_redirect_status_whitelisted.

(* pass, block (not inherited), allow and rules without disruptive action never interrupt *)
Theorem C02_only_three_interrupt : forall r,
  tp_intr_of r = None <->
  match r_act r with Some DDeny | Some DDrop | Some (DRedirect _) => False | _ => True end.
Proof. exact only_three_interrupt. Qed.
Print Assumptions C02_only_three_interrupt.

(* parser (appendRuleAction with its index tracking, exactly as coded): of all the disruptive actions
   written in an action list exactly one survives - the LAST one, wherever the earlier ones stand and
   whatever non-disruptive actions separate them; the non-disruptive actions are all kept in order *)
Theorem C02_parse_one_disruptive : forall l,
  dis_items (tp_parse_actions l) = match tp_last_dis l with Some d => [IDis d] | None => [] end /\
  nondis_items (tp_parse_actions l) = nondis_items l.
Proof. exact parse_one_disruptive. Qed.
Print Assumptions C02_parse_one_disruptive.

Theorem C02_last_disruptive_wins : forall l, tp_first_dis (tp_parse_actions l) = tp_last_dis l.
Proof. exact last_disruptive_wins. Qed.
Print Assumptions C02_last_disruptive_wins.

(* the compiled rule: without SecDefaultAction of its phase the last disruptive action written; with
   one, block (or no disruptive action) inherits the default's disruptive action *)
Theorem C02_compiled_action : forall ds r,
  rr_mark r = None -> tp_defaults_for ds (rr_phase r) = None ->
  r_act (tp_compile_rule ds r) = tp_last_dis (rr_acts r).
Proof. exact compile_act_no_default. Qed.
Print Assumptions C02_compiled_action.

Theorem C02_block_inherits_default : forall ds r d,
  rr_mark r = None -> tp_defaults_for ds (rr_phase r) = Some d ->
  r_act (tp_compile_rule ds r) =
  match tp_last_dis (rr_acts r) with
  | Some a => if tp_is_block_item (IDis a) then tp_last_dis (df_acts d) else Some a
  | None => tp_last_dis (df_acts d)
  end.
Proof. exact compile_act_with_default. Qed.
Print Assumptions C02_block_inherits_default.

(* ---- the interruption is final ---- *)

(* any state (reachable or not), any call: a recorded interruption is never replaced or cleared *)
Theorem C02_interruption_final : forall c s k i,
  st_intr s = Some i -> st_intr (fst (tp_step c s k)) = Some i.
Proof. exact interruption_final_step. Qed.
Print Assumptions C02_interruption_final.

Theorem C02_interruption_final_run : forall c ks ks' i,
  st_intr (tp_run c ks) = Some i -> st_intr (tp_run c (ks ++ ks')) = Some i.
Proof. exact interruption_final_run. Qed.
Print Assumptions C02_interruption_final_run.

(* every later phase call reports that same interruption (engine not switched Off meanwhile) *)
Theorem C02_interruption_reported : forall c s k i,
  st_intr s = Some i -> is_off s = false -> tp_is_phase_call k = true ->
  snd (tp_step c s k) = RI (Some i).
Proof. exact interruption_reported. Qed.
Print Assumptions C02_interruption_reported.

(* no call ever returns an interruption other than the recorded one *)
Theorem C02_returned_is_recorded : forall c s k,
  tp_ret_intr (snd (tp_step c s k)) = None \/
  tp_ret_intr (snd (tp_step c s k)) = st_intr (fst (tp_step c s k)).
Proof. exact step_ret. Qed.
Print Assumptions C02_returned_is_recorded.

(* ---- body limits / body access changed per transaction by ctl (machine tb_step / tb_run) ---- *)

(* tb_step is tp_step except that the four body calls use the settings ctl:requestBodyLimit /
   responseBodyLimit / requestBodyAccess / responseBodyAccess of earlier matched rules left behind
   (tp_body_of); without such ctls it IS tp_step *)
Theorem C02_ctl_body_conservative : forall c s k, tb_step c [] s k = tp_step c s k.
Proof. exact tb_step_nil. Qed.
Print Assumptions C02_ctl_body_conservative.

(* the ctl takes effect while the request (response) headers phase has not been passed, later it is ignored *)
Theorem C02_ctl_body_effect : forall p b n a,
  b_reqlim (tp_exec_bctl1 p b (BReqLimit n)) = (if p <=? 1 then n else b_reqlim b) /\
  b_resplim (tp_exec_bctl1 p b (BRespLimit n)) = (if p <=? 3 then n else b_resplim b) /\
  b_reqacc (tp_exec_bctl1 p b (BReqAcc a)) = (if p <=? 1 then a else b_reqacc b) /\
  b_respacc (tp_exec_bctl1 p b (BRespAcc a)) = (if p <=? 3 then a else b_respacc b).
Proof. exact bctl_effect. Qed.
Print Assumptions C02_ctl_body_effect.

(* with such ctls, for every configuration and every call list: the first interruption is still the first
   interrupting event of the history, it is final, and only logging-phase evaluations follow it *)
Theorem C02_ctl_body_first_disruptive : forall c bm ks,
  st_intr (tb_run c bm ks) = tp_first_intr MOn (st_trace (tb_run c bm ks)).
Proof. exact tb_first_disruptive_holds. Qed.
Print Assumptions C02_ctl_body_first_disruptive.

Theorem C02_ctl_body_interruption_final : forall c bm s k i,
  st_intr s = Some i -> st_intr (fst (tb_step c bm s k)) = Some i.
Proof. exact tb_interruption_final_step. Qed.
Print Assumptions C02_ctl_body_interruption_final.

Theorem C02_ctl_body_interruption_final_run : forall c bm ks ks' i,
  st_intr (tb_run c bm ks) = Some i -> st_intr (tb_run c bm (ks ++ ks')) = Some i.
Proof. exact tb_interruption_final_run. Qed.
Print Assumptions C02_ctl_body_interruption_final_run.

Theorem C02_ctl_body_no_eval_after_interrupt : forall c bm ks t1 t2,
  st_trace (tb_run c bm ks) = t1 ++ t2 -> tp_first_intr MOn t1 <> None ->
  Forall (fun e => tp_late_ok e = true) t2.
Proof. exact tb_no_eval_after_interrupt_holds. Qed.
Print Assumptions C02_ctl_body_no_eval_after_interrupt.

(* a write that reaches the transaction's CURRENT limit (WAF-wide or set by ctl) under Reject records and
   returns the interruption with the right status (413 request, 500 response) and buffers nothing; the
   engine mode is not looked at (finding F12 kept as it is) *)
Theorem C02_ctl_limit_reject_request : forall c bm s n,
  let b := tp_body_of c bm (st_trace s) in
  is_off s = false -> b_reqacc b = true -> c_reqact c = LReject -> st_intr s = None ->
  b_reqlim b <> st_reqlen s -> (b_reqlim b <= st_reqlen s + n)%Z ->
  let r := tb_step c bm s (KWReq n) in
  st_intr (fst r) = Some (mkIntr 0 KDeny 413 []) /\
  tp_ret_intr (snd r) = Some (mkIntr 0 KDeny 413 []) /\ st_reqlen (fst r) = st_reqlen s.
Proof. exact tb_limit_reject_req. Qed.
Print Assumptions C02_ctl_limit_reject_request.

Theorem C02_ctl_limit_reject_response : forall c bm s n,
  let b := tp_body_of c bm (st_trace s) in
  is_off s = false -> b_respacc b = true -> c_respact c = LReject -> st_intr s = None ->
  b_resplim b <> st_resplen s -> (b_resplim b <= st_resplen s + n)%Z ->
  let r := tb_step c bm s (KWResp n) in
  st_intr (fst r) = Some (mkIntr 0 KDeny 500 []) /\
  tp_ret_intr (snd r) = Some (mkIntr 0 KDeny 500 []) /\ st_resplen (fst r) = st_resplen s.
Proof. exact tb_limit_reject_resp. Qed.
Print Assumptions C02_ctl_limit_reject_response.

(* below the current limit nothing is recorded or evaluated; with access switched off the write is ignored *)
Theorem C02_ctl_limit_below : forall c bm s n,
  let b := tp_body_of c bm (st_trace s) in
  is_off s = false -> b_reqacc b = true -> b_reqlim b <> st_reqlen s -> (st_reqlen s + n < b_reqlim b)%Z ->
  let r := tb_step c bm s (KWReq n) in
  st_intr (fst r) = st_intr s /\ st_reqlen (fst r) = (st_reqlen s + n)%Z /\ st_trace (fst r) = st_trace s.
Proof. exact tb_limit_below_req. Qed.
Print Assumptions C02_ctl_limit_below.

Theorem C02_ctl_access_off : forall c bm s n,
  b_reqacc (tp_body_of c bm (st_trace s)) = false ->
  fst (tb_step c bm s (KWReq n)) = s /\ tp_ret_intr (snd (tb_step c bm s (KWReq n))) = None.
Proof. exact tb_access_off. Qed.
Print Assumptions C02_ctl_access_off.

(* ---- afterwards only logging-phase rules run ---- *)

(* for every call list: whatever follows the first interrupting event in the history is a
   logging-phase evaluation (or a body-limit notice); no Eval and no rule of phases 1-4 *)
Theorem C02_no_eval_after_interrupt : forall c ks t1 t2,
  st_trace (tp_run c ks) = t1 ++ t2 -> tp_first_intr MOn t1 <> None ->
  Forall (fun e => tp_late_ok e = true) t2.
Proof. exact no_eval_after_interrupt_holds. Qed.
Print Assumptions C02_no_eval_after_interrupt.

(* skip / skipAfter / allow:phase only work within the phase that raised them: after every call of
   every call list tx.Skip = 0, tx.SkipAfter = "" and no allow:phase is pending (also when the phase
   was left because of an interruption) *)
Theorem C02_flow_reset : forall c ks,
  st_skip (tp_run c ks) = 0 /\ st_skipafter (tp_run c ks) = None /\ st_allow (tp_run c ks) <> Some SPhase.
Proof. exact flow_run. Qed.
Print Assumptions C02_flow_reset.

(* ... and ALL logging-phase rules still run: ProcessLogging in any reachable state (interrupted or
   not, whatever flow actions the interrupting rule carried) evaluates exactly the rules of the logging
   phase, all of them, in configuration order (guard: the logging-phase rules themselves carry no
   skip / skipAfter / allow:phase) *)
Theorem C02_logging_runs_all : forall c ks,
  tp_log_plain c = true -> is_off (tp_run c ks) = false ->
  exists evs, st_trace (tp_log c (tp_run c ks)) = st_trace (tp_run c ks) ++ EvPhase 5 :: evs /\
    Forall2 (is_rule_event 5) evs (tp_phase_rules c 5).
Proof. exact logging_runs_all_holds. Qed.
Print Assumptions C02_logging_runs_all.

(* without the guard: ProcessLogging behaves exactly as it would from a fresh flow state *)
Theorem C02_logging_as_fresh : forall c ks,
  tp_log c (tp_run c ks) = tp_log c (set_flow (tp_run c ks) 0 None).
Proof. exact logging_as_fresh_holds. Qed.
Print Assumptions C02_logging_as_fresh.

(* ---- DetectionOnly ---- *)

(* a WAF configured DetectionOnly whose rules never switch the engine to On: no call of any call
   list returns an interruption and none is recorded (waf.go forces ProcessPartial) *)
Theorem C02_detection_only : forall w ks,
  w_engine w = MDet -> tp_no_ctl_on (tp_compile w) = true ->
  st_intr (tp_run (tp_compile w) ks) = None /\
  Forall (fun r => tp_ret_intr r = None) (tp_rets (tp_compile w) (tp_init (tp_compile w)) ks).
Proof. exact detection_only_holds. Qed.
Print Assumptions C02_detection_only.

(* DetectionOnly reached in any way (also by ctl:ruleEngine), guard: the call is not a body write
   whose limit action is Reject *)
Theorem C02_detection_only_partial : forall c s k,
  tp_no_ctl_on c = true -> tp_call_cannot_reject c k = true ->
  st_engine s = MDet -> st_intr s = None ->
  st_intr (fst (tp_step c s k)) = None /\ tp_ret_intr (snd (tp_step c s k)) = None /\
  st_engine (fst (tp_step c s k)) <> MOn.
Proof. exact detection_only_partial_holds. Qed.
Print Assumptions C02_detection_only_partial.

(* without the guard the statement is false (finding F12, c02-reject-in-detectiononly-via-ctl) *)
Theorem C02_detection_only_refuted :
  exists w ks k,
    let c := tp_compile w in
    let s := tp_run c ks in
    tp_no_ctl_on c = true /\ st_engine s = MDet /\ st_intr s = None /\
    st_intr (fst (tp_step c s k)) <> None /\ tp_ret_intr (snd (tp_step c s k)) <> None.
Proof. exact detection_only_refuted_holds. Qed.
Print Assumptions C02_detection_only_refuted.

(* ---- engine Off ---- *)

Theorem C02_engine_off : forall c s k,
  st_engine s = MOff ->
  let s' := fst (tp_step c s k) in
  st_trace s' = st_trace s /\ st_intr s' = st_intr s /\ st_dintr s' = st_dintr s /\
  st_engine s' = MOff /\ st_last s' = st_last s /\ tp_ret_intr (snd (tp_step c s k)) = None.
Proof. exact engine_off_step. Qed.
Print Assumptions C02_engine_off.

Theorem C02_engine_off_run : forall c ks,
  c_engine c = MOff ->
  st_trace (tp_run c ks) = [] /\ st_intr (tp_run c ks) = None /\ st_dintr (tp_run c ks) = None.
Proof. exact engine_off_run. Qed.
Print Assumptions C02_engine_off_run.

(* ---- each request / response phase at most once, for EVERY order of calls ---- *)

Theorem C02_phase_at_most_once : forall c ks p,
  1 <= p <= 4 -> (tp_count_phase p (st_trace (tp_run c ks)) <= 1)%nat.
Proof. exact phase_at_most_once_holds. Qed.
Print Assumptions C02_phase_at_most_once.

(* every rule of the request and response phases is evaluated at most once, for EVERY order of
   calls (rule ids are unique, as the parser enforces; SecMarker entries have no id) *)
Theorem C02_rule_at_most_once : forall c ks r,
  NoDup (map r_id (tp_real_rules c)) -> In r (c_rules c) -> r_mark r = None -> 1 <= r_phase r <= 4 ->
  (tp_count_rule (r_id r) (st_trace (tp_run c ks)) <= 1)%nat.
Proof. intros c ks r H. exact (rule_at_most_once_holds c H ks r). Qed.
Print Assumptions C02_rule_at_most_once.

(* ---- "by phase, then configuration order" ---- *)

(* the history of every call list is ordered by phase: an evaluation of phase p1 that precedes one
   of phase p2 has p1 <= p2 *)
Theorem C02_phase_order : forall c ks t1 e1 t2 e2 t3 p1 p2,
  st_trace (tp_run c ks) = t1 ++ e1 :: t2 ++ e2 :: t3 ->
  tp_ev_phase e1 = Some p1 -> tp_ev_phase e2 = Some p2 -> p1 <= p2.
Proof. exact phase_order_holds. Qed.
Print Assumptions C02_phase_order.

(* one Eval, any state, any rule set (allow, ctl, skip, skipAfter included): the rules evaluated are a
   subsequence, in configuration order, of the rules of that phase (for rule sets without flow actions
   C02_phase_first_disruptive gives the exact prefix, C02_logging_runs_all the whole logging phase) *)
Theorem C02_eval_in_order : forall c p s,
  exists evs l, st_trace (tp_eval_phase c p s) = st_trace s ++ EvPhase p :: evs /\
    Forall2 (is_rule_event p) evs l /\ subseq l (tp_phase_rules c p).
Proof. exact eval_phase_in_order_holds. Qed.
Print Assumptions C02_eval_in_order.

(* every evaluated rule is a rule (not a marker) of the configuration, evaluated in its own phase *)
Theorem C02_rules_in_config : forall c ks,
  Forall (fun e => match e with
                   | EvRule p r _ => In r (c_rules c) /\ r_mark r = None /\ (r_phase r = p \/ r_phase r = 0)
                   | _ => True end)
         (st_trace (tp_run c ks)).
Proof. exact rules_in_config_holds. Qed.
Print Assumptions C02_rules_in_config.
