(* ConcProofs.v — C06: theorems over ALL schedules of the interleaving models of Conc.v. *)
From Verif Require Import Base Conc.
From Coq Require Import Arith PeanoNat Permutation.
Open Scope nat_scope.

(* ------------------------------------------------------------------------------------------ *)
(* list helpers                                                                                 *)
(* ------------------------------------------------------------------------------------------ *)
Lemma nth_error_cset_nth {A} (l : list A) i j x :
  nth_error (cset_nth l i x) j = if i =? j then option_map (fun _ => x) (nth_error l j) else nth_error l j.
Proof.
  revert i j; induction l as [|y l IH]; intros i j.
  - destruct i, j; cbn; try reflexivity. destruct (i =? j); reflexivity.
  - destruct i, j; cbn [cset_nth nth_error Nat.eqb option_map]; try reflexivity. apply IH.
Qed.

Lemma nth_error_cset_nth_eq {A} (l : list A) i x y :
  nth_error l i = Some y -> nth_error (cset_nth l i x) i = Some x.
Proof. intro H. rewrite nth_error_cset_nth, Nat.eqb_refl, H. reflexivity. Qed.

Lemma nth_error_cset_nth_neq {A} (l : list A) i j x :
  i <> j -> nth_error (cset_nth l i x) j = nth_error l j.
Proof. intro H. rewrite nth_error_cset_nth. apply Nat.eqb_neq in H. rewrite H. reflexivity. Qed.

Lemma cset_nth_same {A} (l : list A) i x : nth_error l i = Some x -> cset_nth l i x = l.
Proof.
  revert i; induction l as [|y l IH]; intros [|i] H; cbn in *; try discriminate; try reflexivity.
  - congruence.
  - f_equal. apply IH, H.
Qed.

Lemma cset_nth_length {A} (l : list A) i x : length (cset_nth l i x) = length l.
Proof. revert i; induction l as [|y l IH]; intros [|i]; cbn; auto. Qed.

Lemma In_cremove_nth {A} (l : list A) i x : In x (cremove_nth l i) -> In x l.
Proof.
  revert i; induction l as [|y l IH]; intros [|i] H; cbn in *; auto.
  destruct H as [H|H]; [left; exact H | right; eapply IH, H].
Qed.

Lemma NoDup_cremove_nth {A} (l : list A) i : NoDup l -> NoDup (cremove_nth l i).
Proof.
  revert i; induction l as [|y l IH]; intros [|i] H; cbn; auto; inversion H; subst; auto.
  constructor; [intro HI; apply In_cremove_nth in HI; contradiction | apply IH; assumption].
Qed.

Lemma NoDup_cremove_nth_notin {A} (l : list A) i o :
  NoDup l -> nth_error l i = Some o -> ~ In o (cremove_nth l i).
Proof.
  revert i; induction l as [|y l IH]; intros [|i] H E; cbn in *; try discriminate; inversion H; subst.
  - inversion E; subst. assumption.
  - intros [HI|HI].
    + subst. apply nth_error_In in E. contradiction.
    + eapply IH; eauto.
Qed.

(* ------------------------------------------------------------------------------------------ *)
(* 1. outcome of a transaction is independent of the schedule                                   *)
(* ------------------------------------------------------------------------------------------ *)
Section GMProofs.
  Variables W Inp Act Cont Rec : Type.
  Variable init : W -> Inp -> Cont.
  Variable eval : W -> Inp -> Act -> Cont -> W * Cont.
  Variable render : Cont -> Rec.
  (* an evaluation step does not write the shared WAF *)
  Hypothesis eval_ro : forall w i a c, fst (eval w i a c) = w.

  Notation tstep := (gm_tstep init eval render).
  Notation sh := (gm_sh W Cont Rec).
  Notation lo := (gm_lo Inp Act Cont).

  (* tx in the concurrent system vs the same tx running alone *)
  Definition gm_rel (s : sh) (l : lo) (ss : sh) (l2 : lo) : Prop :=
    s_waf s = s_waf ss /\ l_inp l = l_inp l2 /\ l_pc l = l_pc l2 /\ l_out l = l_out l2 /\
    match l_obj l, l_obj l2 with
    | None, None => True
    | Some o, Some o' => s_objs s o = s_objs ss o'
    | _, _ => False
    end.

  Lemma gm_upd_same (f : nat -> Cont) o c : gm_upd f o c o = c.
  Proof. unfold gm_upd. rewrite Nat.eqb_refl. reflexivity. Qed.
  Lemma gm_upd_other (f : nat -> Cont) o c x : x <> o -> gm_upd f o c x = f x.
  Proof. unfold gm_upd. intro H. apply Nat.eqb_neq in H. rewrite H. reflexivity. Qed.

  Lemma gm_rel_self ch ch' s l ss l2 :
    gm_rel s l ss l2 ->
    gm_rel (fst (tstep ch s l)) (snd (tstep ch s l)) (fst (tstep ch' ss l2)) (snd (tstep ch' ss l2)).
  Proof.
    destruct l as [inp pc ob out], l2 as [inp2 pc2 ob2 out2].
    unfold gm_rel; cbn [l_inp l_pc l_obj l_out]. intros (Hw & Hi & Hp & Ho & Hob). subst inp2 pc2 out2.
    unfold gm_tstep; cbn [l_inp l_pc l_obj l_out].
    destruct pc as [|[|a| |] pc].
    - cbn. repeat split; auto.
    - destruct (nth_error (s_pool s) ch), (nth_error (s_pool ss) ch');
        cbn [fst snd s_waf s_objs l_inp l_pc l_obj l_out]; rewrite !gm_upd_same, Hw; repeat split; auto.
    - destruct ob as [o|], ob2 as [o2|]; try contradiction.
      + rewrite Hob, Hw.
        destruct (eval (s_waf ss) inp a (s_objs ss o2)) as [w' c'] eqn:E.
        pose proof (eval_ro (s_waf ss) inp a (s_objs ss o2)) as R. rewrite E in R. cbn in R. subst w'.
        cbn [fst snd s_waf s_objs l_inp l_pc l_obj l_out]. rewrite !gm_upd_same. repeat split; auto.
      + cbn. repeat split; auto.
    - destruct ob as [o|], ob2 as [o2|]; try contradiction; cbn; repeat split; auto.
    - destruct ob as [o|], ob2 as [o2|]; try contradiction; cbn; repeat split; auto. congruence.
  Qed.

  Lemma gm_tstep_waf ch s l : s_waf (fst (tstep ch s l)) = s_waf s.
  Proof.
    unfold gm_tstep. destruct (l_pc l) as [|[|a| |] pc]; cbn; auto.
    - destruct (nth_error (s_pool s) ch); reflexivity.
    - destruct (l_obj l) as [o|]; [|reflexivity].
      destruct (eval (s_waf s) (l_inp l) a (s_objs s o)) as [w' c'] eqn:E.
      pose proof (eval_ro (s_waf s) (l_inp l) a (s_objs s o)) as R. rewrite E in R. cbn in *. congruence.
    - destruct (l_obj l); reflexivity.
    - destruct (l_obj l); reflexivity.
  Qed.

  (* a step of one transaction leaves every object it does not hold, that is neither pooled nor
     unallocated, untouched *)
  Lemma gm_tstep_frame ch s l o :
    o < s_next s -> ~ In o (s_pool s) -> l_obj l <> Some o ->
    s_objs (fst (tstep ch s l)) o = s_objs s o.
  Proof.
    intros Hlt Hnp Hne. unfold gm_tstep. destruct (l_pc l) as [|[|a| |] pc]; cbn; auto.
    - destruct (nth_error (s_pool s) ch) as [o'|] eqn:E; cbn.
      + apply gm_upd_other. intro; subst. apply nth_error_In in E. contradiction.
      + apply gm_upd_other. lia.
    - destruct (l_obj l) as [o'|]; [|reflexivity].
      destruct (eval (s_waf s) (l_inp l) a (s_objs s o')) as [w' c']. cbn.
      apply gm_upd_other. congruence.
    - destruct (l_obj l); reflexivity.
    - destruct (l_obj l); reflexivity.
  Qed.

  (* the shape of what a step does to (pool, next, held object) *)
  Inductive gm_effect (s : sh) (l : lo) (s' : sh) (l' : lo) : Prop :=
    | EffNone : s_pool s' = s_pool s -> s_next s' = s_next s -> l_obj l' = l_obj l -> gm_effect s l s' l'
    | EffGetPool ch o : nth_error (s_pool s) ch = Some o -> s_pool s' = cremove_nth (s_pool s) ch ->
                        s_next s' = s_next s -> l_obj l' = Some o -> gm_effect s l s' l'
    | EffGetNew : s_pool s' = s_pool s -> s_next s' = S (s_next s) -> l_obj l' = Some (s_next s) -> gm_effect s l s' l'
    | EffPut o : l_obj l = Some o -> s_pool s' = o :: s_pool s -> s_next s' = s_next s -> l_obj l' = None ->
                 gm_effect s l s' l'.

  Lemma gm_tstep_effect ch s l : gm_effect s l (fst (tstep ch s l)) (snd (tstep ch s l)).
  Proof.
    unfold gm_tstep. destruct l as [inp pc ob out]; cbn [l_inp l_pc l_obj l_out].
    destruct pc as [|[|a| |] pc].
    - apply EffNone; reflexivity.
    - destruct (nth_error (s_pool s) ch) as [o|] eqn:E.
      + eapply EffGetPool; eauto.
      + apply EffGetNew; reflexivity.
    - destruct ob as [o|]; [|apply EffNone; reflexivity].
      destruct (eval (s_waf s) inp a (s_objs s o)). apply EffNone; reflexivity.
    - destruct ob as [o|]; apply EffNone; reflexivity.
    - destruct ob as [o|]; [|apply EffNone; reflexivity].
      eapply EffPut; reflexivity.
  Qed.

  Lemma gm_inv_step s ls j lj s' l' :
    gm_inv s ls -> nth_error ls j = Some lj -> gm_effect s lj s' l' -> gm_inv s' (cset_nth ls j l').
  Proof.
    intros (Ha & Hb & Hc & Hd) Hj Eff.
    assert (Hnth : forall i l, nth_error (cset_nth ls j l') i = Some l ->
                               (i = j /\ l = l') \/ (i <> j /\ nth_error ls i = Some l)).
    { intros i l H. rewrite nth_error_cset_nth in H. destruct (j =? i) eqn:E.
      - apply Nat.eqb_eq in E. subst i. rewrite Hj in H. cbn in H. left. split; congruence.
      - apply Nat.eqb_neq in E. right. split; auto. }
    destruct Eff as [Ep En Eo | ch o Eg Ep En Eo | Ep En Eo | o Eh Ep En Eo].
    - (* nothing changes *)
      unfold gm_inv. rewrite Ep, En. repeat split; auto.
      + destruct (Hnth _ _ H) as [[-> ->]|[Hne Hi]].
        * rewrite Eo in H0. eapply Ha; eauto.
        * eapply Ha; eauto.
      + destruct (Hnth _ _ H) as [[-> ->]|[Hne Hi]].
        * rewrite Eo in H0. eapply Ha; eauto.
        * eapply Ha; eauto.
      + intros i k li lk o Hik Hi Hk Hoi.
        destruct (Hnth _ _ Hi) as [[-> ->]|[Hne1 Hi']]; destruct (Hnth _ _ Hk) as [[-> ->]|[Hne2 Hk']].
        * congruence.
        * rewrite Eo in Hoi. eapply (Hb j k lj lk o); eauto.
        * rewrite Eo. eapply (Hb i j li lj o); eauto.
        * eapply (Hb i k li lk o); eauto.
    - (* Get hands out a pooled object *)
      unfold gm_inv. rewrite Ep, En.
      assert (Hin : In o (s_pool s)) by (eapply nth_error_In; eauto).
      repeat split.
      + destruct (Hnth _ _ H) as [[-> ->]|[Hne Hi]].
        * rewrite Eo in H0. inversion H0; subst. apply Hd, Hin.
        * eapply Ha; eauto.
      + destruct (Hnth _ _ H) as [[-> ->]|[Hne Hi]].
        * rewrite Eo in H0. inversion H0; subst. eapply NoDup_cremove_nth_notin; eauto.
        * intro HI. apply In_cremove_nth in HI. eapply Ha; eauto.
      + intros i k li lk o' Hik Hi Hk Hoi.
        destruct (Hnth _ _ Hi) as [[-> ->]|[Hne1 Hi']]; destruct (Hnth _ _ Hk) as [[-> ->]|[Hne2 Hk']].
        * congruence.
        * rewrite Eo in Hoi. inversion Hoi; subst. intro Hx. eapply Ha; eauto.
        * rewrite Eo. intro Hx. inversion Hx; subst. eapply Ha; eauto.
        * eapply (Hb i k li lk o'); eauto.
      + apply NoDup_cremove_nth, Hc.
      + intros o' HI. apply In_cremove_nth in HI. auto.
    - (* Get allocates *)
      unfold gm_inv. rewrite Ep, En. repeat split; auto.
      + destruct (Hnth _ _ H) as [[-> ->]|[Hne Hi]].
        * rewrite Eo in H0. inversion H0; subst. lia.
        * assert (o < s_next s) by (eapply Ha; eauto). lia.
      + destruct (Hnth _ _ H) as [[-> ->]|[Hne Hi]].
        * rewrite Eo in H0. inversion H0; subst. intro HI. apply Hd in HI. lia.
        * eapply Ha; eauto.
      + intros i k li lk o' Hik Hi Hk Hoi.
        destruct (Hnth _ _ Hi) as [[-> ->]|[Hne1 Hi']]; destruct (Hnth _ _ Hk) as [[-> ->]|[Hne2 Hk']].
        * congruence.
        * rewrite Eo in Hoi. inversion Hoi; subst. intro Hx.
          assert (s_next s < s_next s) by (eapply Ha; eauto). lia.
        * rewrite Eo. intro Hx. inversion Hx; subst.
          assert (s_next s < s_next s) by (eapply Ha; eauto). lia.
        * eapply (Hb i k li lk o'); eauto.
      + intros o' HI. apply Hd in HI. lia.
    - (* Put *)
      unfold gm_inv. rewrite Ep, En.
      assert (Hoj : o < s_next s /\ ~ In o (s_pool s)) by (eapply Ha; eauto).
      repeat split.
      + destruct (Hnth _ _ H) as [[-> ->]|[Hne Hi]].
        * rewrite Eo in H0. discriminate.
        * eapply Ha; eauto.
      + destruct (Hnth _ _ H) as [[-> ->]|[Hne Hi]].
        * rewrite Eo in H0. discriminate.
        * intros [HI|HI].
          -- subst o0. eapply (Hb i j l lj o); eauto.
          -- eapply Ha; eauto.
      + intros i k li lk o' Hik Hi Hk Hoi.
        destruct (Hnth _ _ Hi) as [[-> ->]|[Hne1 Hi']]; destruct (Hnth _ _ Hk) as [[-> ->]|[Hne2 Hk']].
        * congruence.
        * rewrite Eo in Hoi. discriminate.
        * rewrite Eo. discriminate.
        * eapply (Hb i k li lk o'); eauto.
      + constructor; tauto.
      + intros o' [HI|HI]; [subst; tauto | auto].
  Qed.

  Lemma gm_solo_S n s l :
    gm_solo init eval render (S n) s l = gm_solo init eval render n (fst (tstep 0 s l)) (snd (tstep 0 s l)).
  Proof. unfold gm_solo. cbn [citerate fst snd]. destruct (tstep 0 s l). reflexivity. Qed.

  Lemma gm_sim : forall sched s ls i li ss l2,
    gm_inv s ls -> nth_error ls i = Some li -> gm_rel s li ss l2 ->
    exists li', nth_error (snd (gm_run init eval render sched (s, ls))) i = Some li' /\
      gm_rel (fst (gm_run init eval render sched (s, ls))) li'
             (fst (gm_solo init eval render (gm_count i sched) ss l2))
             (snd (gm_solo init eval render (gm_count i sched) ss l2)).
  Proof.
    induction sched as [|[j ch] sched IH]; intros s ls i li ss l2 Hinv Hi Hrel.
    - cbn. eauto.
    - cbn [gm_run fold_left gm_sys_step fst snd gm_count].
      destruct (nth_error ls j) as [lj|] eqn:Hj.
      + destruct (tstep ch s lj) as [s' l'] eqn:Est.
        assert (Eff := gm_tstep_effect ch s lj). rewrite Est in Eff. cbn [fst snd] in Eff.
        assert (Hinv' : gm_inv s' (cset_nth ls j l')) by (eapply gm_inv_step; eauto).
        destruct (j =? i) eqn:Eji.
        * apply Nat.eqb_eq in Eji. subst j. rewrite Hi in Hj. inversion Hj; subst lj.
          change (1 + gm_count i sched) with (S (gm_count i sched)). rewrite gm_solo_S.
          apply (IH s' (cset_nth ls i l') i l').
          -- exact Hinv'.
          -- eapply nth_error_cset_nth_eq; eauto.
          -- pose proof (gm_rel_self ch 0 s li ss l2 Hrel) as R. rewrite Est in R. exact R.
        * apply Nat.eqb_neq in Eji. cbn [plus].
          apply (IH s' (cset_nth ls j l') i li).
          -- exact Hinv'.
          -- rewrite nth_error_cset_nth_neq; auto.
          -- destruct Hrel as (Hw & Hin & Hp & Ho & Hob). unfold gm_rel.
             pose proof (gm_tstep_waf ch s lj) as Rw. rewrite Est in Rw. cbn in Rw.
             repeat split; auto; try congruence.
             destruct (l_obj li) as [o|] eqn:Eo; destruct (l_obj l2) as [o2|]; auto.
             destruct Hinv as (Ha & Hb & _).
             pose proof (gm_tstep_frame ch s lj o) as Fr. rewrite Est in Fr. cbn in Fr.
             destruct (Ha i li o Hi Eo) as [F1 F2].
             assert (F3 : l_obj lj <> Some o) by (apply (Hb i j li lj o); auto).
             rewrite (Fr F1 F2 F3). exact Hob.
      + destruct (j =? i) eqn:Eji.
        * apply Nat.eqb_eq in Eji. subst j. congruence.
        * cbn [plus]. apply (IH s ls i li); auto.
  Qed.

  Lemma gm_rel_refl s l : gm_rel s l s l.
  Proof. unfold gm_rel. repeat split; auto. destruct (l_obj l); auto. Qed.

  Lemma gm_rel_obs s l ss l2 : gm_rel s l ss l2 -> gm_obs s l = gm_obs ss l2.
  Proof.
    intros (Hw & Hin & Hp & Ho & Hob). unfold gm_obs. rewrite Hp, Ho.
    destruct (l_obj l), (l_obj l2); try contradiction; cbn; congruence.
  Qed.

  (* THE theorem: whatever the scheduler does (and whichever pooled objects Get hands out),
     what transaction i observes equals what it observes running alone for as many steps *)
  Theorem gm_outcome_schedule_independent : forall sched s ls i li,
    gm_inv s ls -> nth_error ls i = Some li ->
    exists li', nth_error (snd (gm_run init eval render sched (s, ls))) i = Some li' /\
      gm_obs (fst (gm_run init eval render sched (s, ls))) li' =
      gm_obs (fst (gm_solo init eval render (gm_count i sched) s li))
             (snd (gm_solo init eval render (gm_count i sched) s li)).
  Proof.
    intros sched s ls i li Hinv Hi.
    destruct (gm_sim sched s ls i li s li Hinv Hi (gm_rel_refl s li)) as (li' & H1 & H2).
    exists li'. split; auto. apply gm_rel_obs, H2.
  Qed.

  (* live transactions never share an object, in every interleaving *)
  Theorem gm_inv_run : forall sched s ls,
    gm_inv s ls -> gm_inv (fst (gm_run init eval render sched (s, ls))) (snd (gm_run init eval render sched (s, ls))).
  Proof.
    induction sched as [|[j ch] sched IH]; intros s ls Hinv; [exact Hinv|].
    cbn [gm_run fold_left gm_sys_step fst snd].
    destruct (nth_error ls j) as [lj|] eqn:Hj.
    - destruct (tstep ch s lj) as [s' l'] eqn:Est. apply IH.
      assert (Eff := gm_tstep_effect ch s lj). rewrite Est in Eff. eapply gm_inv_step; eauto.
    - apply IH, Hinv.
  Qed.
End GMProofs.

Lemma gm_inv_start {W Inp Act Cont Rec} (s : gm_sh W Cont Rec) (ls : list (gm_lo Inp Act Cont)) :
  (forall l, In l ls -> l_obj l = None) -> NoDup (s_pool s) -> (forall o, In o (s_pool s) -> o < s_next s) ->
  gm_inv s ls.
Proof.
  intros Hn Hd Hp. unfold gm_inv. repeat split; auto.
  - apply nth_error_In in H. apply Hn in H. congruence.
  - apply nth_error_In in H. apply Hn in H. congruence.
  - intros i j li lj o _ Hi _ Ho. apply nth_error_In in Hi. apply Hn in Hi. congruence.
Qed.

(* ------------------------------------------------------------------------------------------ *)
(* 2. the exclusion merge: the clipped append never writes the shared rule                      *)
(* ------------------------------------------------------------------------------------------ *)
Lemma cc_go_append_clip w loc s x :
  cc_go_append w loc (cc_clip s) x =
  (w, loc ++ [cc_elems w loc (cc_clip s) ++ x :: repeat [] (sl_len s)],
   mk_slice RLocal (length loc) (S (sl_len s)) (S (sl_len s) + sl_len s)).
Proof. unfold cc_go_append, cc_clip; cbn [sl_len sl_cap sl_reg sl_arr]. rewrite Nat.ltb_irrefl. reflexivity. Qed.

Lemma cc_append_clipped_shared_unchanged w loc s x :
  fst (fst (cc_merge_append true w loc s x)) = w.
Proof. unfold cc_merge_append. rewrite cc_go_append_clip. reflexivity. Qed.

Lemma cc_elems_clip w loc s : cc_elems w loc (cc_clip s) = cc_elems w loc s.
Proof. reflexivity. Qed.

(* ... and still produces the merged list: old elements, then the new one *)
Lemma cc_append_clipped_elems w loc s x :
  sl_len s <= length (cc_array w loc s) ->
  let '(w', loc', s') := cc_merge_append true w loc s x in
  cc_elems w' loc' s' = cc_elems w loc s ++ [x].
Proof.
  intro Hwf. unfold cc_merge_append. rewrite cc_go_append_clip, cc_elems_clip.
  unfold cc_elems at 1, cc_array at 1; cbn [sl_reg sl_arr sl_len].
  rewrite app_nth2, Nat.sub_diag by lia. cbn [nth].
  assert (L : length (cc_elems w loc s) = sl_len s).
  { unfold cc_elems. rewrite firstn_length. lia. }
  replace (S (sl_len s)) with (length (cc_elems w loc s) + 1) by lia.
  rewrite firstn_app_2. cbn. reflexivity.
Qed.

(* the unclipped append of the code before 9f1a0e9 writes the shared array when cap > len *)
Lemma cc_append_unclipped_writes_shared : exists w loc s x,
  fst (fst (cc_merge_append false w loc s x)) <> w.
Proof.
  exists [[[120%N]; []]], [], (mk_slice RShared 0 1 2), [97%N]. vm_compute. discriminate.
Qed.

Lemma cc_eval_clipped_ro : forall w i a c, fst (cc_eval true w i a c) = w.
Proof.
  intros w i a c. destruct a; cbn [cc_eval fst]; auto.
  unfold cc_merge_append. rewrite cc_go_append_clip. destruct w; reflexivity.
Qed.

Definition cc_run := gm_run cc_init (cc_eval true) cc_render.
Definition cc_solo := gm_solo cc_init (cc_eval true) cc_render.

Theorem cc_outcome_schedule_independent : forall sched s ls i li,
  gm_inv s ls -> nth_error ls i = Some li ->
  exists li', nth_error (snd (cc_run sched (s, ls))) i = Some li' /\
    gm_obs (fst (cc_run sched (s, ls))) li' =
    gm_obs (fst (cc_solo (gm_count i sched) s li)) (snd (cc_solo (gm_count i sched) s li)).
Proof. exact (gm_outcome_schedule_independent _ _ _ _ _ cc_init (cc_eval true) cc_render cc_eval_clipped_ro). Qed.

(* the shared WAF is the same after any schedule *)
Theorem cc_waf_unchanged : forall sched s ls, s_waf (fst (cc_run sched (s, ls))) = s_waf s.
Proof.
  induction sched as [|[j ch] sched IH]; intros s ls; [reflexivity|].
  unfold cc_run in *. cbn [gm_run fold_left gm_sys_step fst snd].
  destruct (nth_error ls j) as [lj|]; [|apply IH].
  destruct (gm_tstep cc_init (cc_eval true) cc_render ch s lj) as [s' l'] eqn:E.
  fold (gm_run cc_init (cc_eval true) cc_render sched (s', cset_nth ls j l')). rewrite IH.
  pose proof (gm_tstep_waf _ _ _ _ _ cc_init (cc_eval true) cc_render cc_eval_clipped_ro ch s lj) as R.
  rewrite E in R. exact R.
Qed.

(* F27: with the unclipped append there is a schedule of two transactions on the rule
   ARGS|!ARGS:x|!ARGS:y|!ARGS:z (len 3, cap 4) in which transaction 0 ends with another outcome
   than when it runs alone: its exclusion of "a" is overwritten by transaction 1's exclusion of "b" *)
Definition f27_waf := cc_waf_of [[120%N]; [121%N]; [122%N]] [101%N; 118%N].
Definition f27_args := [([97%N], [101%N; 118%N; 49%N]); ([98%N], [101%N; 118%N; 50%N])].
Definition f27_inA := mk_cc_inp f27_args [[97%N]].
Definition f27_inB := mk_cc_inp f27_args [[98%N]].
Definition f27_sched := [(0,0);(0,0);(0,0);(1,0);(1,0);(1,0);(0,0);(0,0);(0,0)].
Definition f27_state : gm_sh cc_waf cc_cont (list (bytes * bytes)) * list (gm_lo cc_inp cc_act cc_cont) :=
  (gm_sh0 f27_waf (cc_init f27_waf f27_inA), [cc_tx f27_waf f27_inA; cc_tx f27_waf f27_inB]).

Theorem cc_unclipped_refuted :
  gm_inv (fst f27_state) (snd f27_state) /\
  let st := gm_run cc_init (cc_eval false) cc_render f27_sched f27_state in
  let alone := gm_solo cc_init (cc_eval false) cc_render (gm_count 0 f27_sched) (fst f27_state) (cc_tx f27_waf f27_inA) in
  option_map (fun l => option_map lc_matched (l_out l)) (nth_error (snd st) 0) <>
  Some (option_map lc_matched (l_out (snd alone))) /\
  s_waf (fst st) <> f27_waf.
Proof.
  split.
  - apply gm_inv_start; cbn.
    + intros l [<-|[<-|[]]]; reflexivity.
    + constructor.
    + intros o [].
  - split; vm_compute; discriminate.
Qed.

(* ------------------------------------------------------------------------------------------ *)
(* 3. the intern table                                                                          *)
(* ------------------------------------------------------------------------------------------ *)
Definition it_wf (t : it_table) : Prop :=
  (forall i c n, nth_error t i = Some (c, n) -> c <= i) /\ NoDup t.

Definition it_dec (t : it_table) (id : nat) : list bytes := it_decode (length t) t id.

Lemma it_find_some : forall t cur name k i,
  it_find t cur name k = Some i -> k <= i /\ nth_error t (i - k) = Some (cur, name).
Proof.
  induction t as [|[c n] t IH]; intros cur name k i H; cbn in H; [discriminate|].
  destruct ((c =? cur) && bytes_eqb n name) eqn:E.
  - inversion H; subst. apply andb_true_iff in E as [E1 E2]. apply Nat.eqb_eq in E1. apply bytes_eqb_eq in E2.
    subst. rewrite Nat.sub_diag. split; [lia | reflexivity].
  - apply IH in H as [H1 H2]. split; [lia|].
    replace (i - k) with (S (i - S k)) by lia. exact H2.
Qed.

Lemma it_find_none : forall t cur name k, it_find t cur name k = None -> ~ In (cur, name) t.
Proof.
  induction t as [|[c n] t IH]; intros cur name k H; cbn in *; [tauto|].
  destruct ((c =? cur) && bytes_eqb n name) eqn:E; [discriminate|].
  intros [HI|HI].
  - inversion HI; subst. rewrite Nat.eqb_refl, bytes_eqb_refl in E. discriminate.
  - eapply IH; eauto.
Qed.

Lemma it_decode_fuel : forall t, it_wf t -> forall f1 f2 id, id <= f1 -> id <= f2 ->
  it_decode f1 t id = it_decode f2 t id.
Proof.
  intros t [Hwf _]. induction f1 as [|f1 IH]; intros f2 id H1 H2.
  - assert (id = 0) by lia. subst. destruct f2; reflexivity.
  - destruct id as [|i]; [destruct f2; reflexivity|].
    destruct f2 as [|f2]; [lia|]. cbn [it_decode].
    destruct (nth_error t i) as [[c n]|] eqn:E; [|reflexivity].
    apply Hwf in E. rewrite (IH f2 c) by lia. reflexivity.
Qed.

Lemma it_decode_app : forall t ext, it_wf t -> forall f id, id <= length t ->
  it_decode f (t ++ ext) id = it_decode f t id.
Proof.
  intros t ext [Hwf _]. induction f as [|f IH]; intros id Hid; [reflexivity|].
  destruct id as [|i]; [reflexivity|]. cbn [it_decode].
  rewrite nth_error_app1 by lia.
  destruct (nth_error t i) as [[c n]|] eqn:E; [|reflexivity].
  apply Hwf in E. rewrite IH by lia. reflexivity.
Qed.

Lemma it_dec_app t ext id : it_wf t -> it_wf (t ++ ext) -> id <= length t -> it_dec (t ++ ext) id = it_dec t id.
Proof.
  intros H1 H2 Hid. unfold it_dec.
  rewrite (it_decode_fuel _ H2 (length (t ++ ext)) (length t) id) by (rewrite ?app_length; lia).
  apply it_decode_app; auto.
Qed.

Lemma it_decode_inj : forall t, it_wf t -> forall f id1 id2,
  id1 <= f -> id2 <= f -> id1 <= length t -> id2 <= length t ->
  it_decode f t id1 = it_decode f t id2 -> id1 = id2.
Proof.
  intros t [Hwf Hnd]. induction f as [|f IH]; intros id1 id2 H1 H2 L1 L2 E; [lia|].
  destruct id1 as [|i1], id2 as [|i2]; auto; cbn [it_decode] in E.
  - destruct (nth_error t i2) as [[c n]|] eqn:E2.
    + symmetry in E. apply app_eq_nil in E as [_ E]. discriminate.
    + apply nth_error_None in E2. lia.
  - destruct (nth_error t i1) as [[c n]|] eqn:E1.
    + apply app_eq_nil in E as [_ E]. discriminate.
    + apply nth_error_None in E1. lia.
  - destruct (nth_error t i1) as [[c1 n1]|] eqn:E1; [|apply nth_error_None in E1; lia].
    destruct (nth_error t i2) as [[c2 n2]|] eqn:E2; [|apply nth_error_None in E2; lia].
    apply app_inj_tail in E as [Ed En]. subst n2.
    pose proof (Hwf _ _ _ E1) as B1. pose proof (Hwf _ _ _ E2) as B2.
    assert (c1 = c2) by (apply IH; auto; lia). subst c2.
    f_equal. rewrite NoDup_nth_error in Hnd. apply Hnd; [lia | congruence].
Qed.

Lemma it_dec_inj t id1 id2 :
  it_wf t -> id1 <= length t -> id2 <= length t -> it_dec t id1 = it_dec t id2 -> id1 = id2.
Proof. intros. eapply (it_decode_inj t H (length t)); eauto. Qed.

(* one call of transformationID *)
Lemma it_intern_spec t cur name :
  it_wf t -> cur <= length t ->
  let '(t', id) := it_intern t cur name in
  it_wf t' /\ (exists ext, t' = t ++ ext) /\ id <= length t' /\ it_dec t' id = it_dec t cur ++ [name].
Proof.
  intros Hwf Hc. unfold it_intern. destruct (it_find t cur name 0) as [i|] eqn:E.
  - apply it_find_some in E as [_ E]. rewrite Nat.sub_0_r in E.
    assert (Hi : i < length t) by (apply nth_error_Some; congruence).
    split; [exact Hwf|]. split; [exists []; rewrite app_nil_r; reflexivity|]. split; [lia|].
    unfold it_dec. rewrite (it_decode_fuel t Hwf (length t) (S i) (S i)) by lia.
    cbn [it_decode]. rewrite E. f_equal.
    assert (cur <= i) by (destruct Hwf as [Hb _]; eapply Hb; eauto).
    apply it_decode_fuel; auto; lia.
  - apply it_find_none in E.
    assert (Hwf' : it_wf (t ++ [(cur, name)])).
    { destruct Hwf as [Hb Hn]. split.
      - intros i c n H. destruct (Nat.lt_ge_cases i (length t)) as [Hl|Hl].
        + rewrite nth_error_app1 in H by lia. eauto.
        + rewrite nth_error_app2 in H by lia. destruct (i - length t) as [|d] eqn:D; cbn in H.
          * inversion H; subst. lia.
          * destruct d; discriminate.
      - apply Permutation_NoDup with (l := (cur, name) :: t).
        + apply Permutation_cons_append.
        + constructor; auto. }
    split; [exact Hwf'|]. split; [eexists; reflexivity|]. rewrite app_length; cbn. split; [lia|].
    unfold it_dec at 1. rewrite app_length; cbn. replace (length t + 1) with (S (length t)) by lia.
    cbn [it_decode]. rewrite nth_error_app2, Nat.sub_diag by lia. cbn.
    f_equal. rewrite it_decode_app; auto.
Qed.

(* invariant of the system: the table is well formed; every thread's current id and every
   recorded (chain, id) pair decode to the chain they were obtained for *)
Definition it_lo_ok (t : it_table) (l : it_lo) : Prop :=
  b_cur l <= length t /\ it_dec t (b_cur l) = b_pref l /\
  forall ch id, In (ch, id) (b_done l) -> id <= length t /\ it_dec t id = ch.

Definition it_J (t : it_table) (ls : list it_lo) : Prop :=
  it_wf t /\ forall l, In l ls -> it_lo_ok t l.

Lemma it_lo_ok_grow t ext l : it_wf t -> it_wf (t ++ ext) -> it_lo_ok t l -> it_lo_ok (t ++ ext) l.
Proof.
  intros H1 H2 (Hc & Hp & Hd). unfold it_lo_ok. rewrite app_length. split; [lia|]. split.
  - rewrite it_dec_app; auto.
  - intros ch id HI. destruct (Hd _ _ HI) as [Hl He]. split; [lia|]. rewrite it_dec_app; auto.
Qed.

Lemma it_dec_zero t : it_dec t 0 = [].
Proof. unfold it_dec. destruct (length t); reflexivity. Qed.

Lemma it_tstep_ok t l :
  it_wf t -> it_lo_ok t l ->
  let '(t', l') := it_tstep t l in
  it_wf t' /\ (exists ext, t' = t ++ ext) /\ it_lo_ok t' l'.
Proof.
  intros Hwf (Hc & Hp & Hd). unfold it_tstep. destruct (b_todo l) as [|[|n ns] rest] eqn:Et.
  - split; auto. split; [exists []; rewrite app_nil_r; reflexivity|]. exact (conj Hc (conj Hp Hd)).
  - split; auto. split; [exists []; rewrite app_nil_r; reflexivity|].
    unfold it_lo_ok; cbn. split; [lia|]. split; [apply it_dec_zero | exact Hd].
  - pose proof (it_intern_spec t (b_cur l) n Hwf Hc) as S.
    destruct (it_intern t (b_cur l) n) as [t' id]. destruct S as (Hwf' & [ext ->] & Hid & Hdec).
    split; auto. split; [eexists; reflexivity|].
    unfold it_lo_ok; cbn [b_cur b_pref b_done]. split; [exact Hid|]. split.
    + rewrite Hdec, Hp. reflexivity.
    + intros ch id' HI. apply in_app_or in HI as [HI|[HI|[]]].
      * destruct (Hd _ _ HI) as [Hl He]. rewrite app_length. split; [lia|]. rewrite it_dec_app; auto.
      * inversion HI; subst. split; [exact Hid|]. rewrite Hdec, Hp. reflexivity.
Qed.

Lemma In_cset_nth {A} (l : list A) i x y : In y (cset_nth l i x) -> y = x \/ In y l.
Proof.
  revert i; induction l as [|z l IH]; intros [|i] H; cbn in *; auto.
  - destruct H; auto.
  - destruct H as [H|H]; auto. apply IH in H. tauto.
Qed.

Lemma it_J_run : forall sched t ls, it_J t ls ->
  it_J (fst (it_run sched (t, ls))) (snd (it_run sched (t, ls))).
Proof.
  induction sched as [|i sched IH]; intros t ls HJ; [exact HJ|].
  cbn [it_run fold_left it_sys_step]. destruct (nth_error ls i) as [l|] eqn:El; [|apply IH, HJ].
  destruct HJ as [Hwf Hall].
  pose proof (it_tstep_ok t l Hwf (Hall _ (nth_error_In _ _ El))) as S.
  destruct (it_tstep t l) as [t' l']. destruct S as (Hwf' & [ext ->] & Hok).
  apply IH. split; auto. intros y Hy. apply In_cset_nth in Hy as [->|Hy]; auto.
  apply it_lo_ok_grow; auto.
Qed.

Lemma it_J_start t chainss : it_wf t -> it_J t (map it_start chainss).
Proof.
  intro Hwf. split; auto. intros l Hl. apply in_map_iff in Hl as (c & <- & _).
  unfold it_lo_ok, it_start; cbn. split; [lia|]. split; [apply it_dec_zero | tauto].
Qed.

(* in EVERY interleaving of goroutines interning transformation chains, two recorded ids are
   equal exactly when the chains (lists of names) are equal *)
Theorem it_intern_injective : forall sched t0 chainss,
  it_wf t0 ->
  let st := it_run sched (t0, map it_start chainss) in
  forall li lj c1 id1 c2 id2,
    In li (snd st) -> In lj (snd st) -> In (c1, id1) (b_done li) -> In (c2, id2) (b_done lj) ->
    (id1 = id2 <-> c1 = c2).
Proof.
  intros sched t0 chainss Hwf st li lj c1 id1 c2 id2 Hi Hj H1 H2.
  destruct (it_J_run sched t0 _ (it_J_start t0 chainss Hwf)) as [Hwf' Hall]. fold st in Hwf', Hall.
  destruct (Hall _ Hi) as (_ & _ & Hd1). destruct (Hall _ Hj) as (_ & _ & Hd2).
  destruct (Hd1 _ _ H1) as [L1 E1]. destruct (Hd2 _ _ H2) as [L2 E2].
  split; intro H.
  - subst. congruence.
  - subst. eapply it_dec_inj; eauto. congruence.
Qed.

Lemma it_wf_nil : it_wf [].
Proof. split; [intros [|i] c n H; discriminate | constructor]. Qed.
