(* Base.v — shared data representation for every model.
   byte = N (< 256 by well-formedness), bytes = list N.
   Case files written by the Go harness carry byte strings as [hx "6869"]. *)
From Coq Require Export List NArith ZArith Bool Lia.
From Coq Require Import String Ascii.
Export ListNotations.
Open Scope N_scope.

Definition byte := N.
Definition bytes := list N.

Definition wf_byte (b : byte) : Prop := b < 256.
Definition wf_bytes (s : bytes) : Prop := Forall wf_byte s.

(* ---- equality ---- *)
Fixpoint bytes_eqb (a b : bytes) : bool :=
  match a, b with
  | [], [] => true
  | x :: a', y :: b' => N.eqb x y && bytes_eqb a' b'
  | _, _ => false
  end.

Lemma bytes_eqb_eq a b : bytes_eqb a b = true <-> a = b.
Proof.
  revert b; induction a as [|x a IH]; intros [|y b]; cbn [bytes_eqb]; split; intro H;
    try reflexivity; try discriminate.
  - apply andb_true_iff in H as [H1 H2]. apply N.eqb_eq in H1. apply IH in H2. congruence.
  - inversion H; subst. apply andb_true_iff; split; [apply N.eqb_refl | apply IH; reflexivity].
Qed.

Lemma bytes_eqb_refl a : bytes_eqb a a = true.
Proof. apply bytes_eqb_eq; reflexivity. Qed.

Lemma bytes_eqb_neq a b : bytes_eqb a b = false <-> a <> b.
Proof.
  split; intro H.
  - intro E. apply bytes_eqb_eq in E. congruence.
  - destruct (bytes_eqb a b) eqn:E; [|reflexivity]. apply bytes_eqb_eq in E. contradiction.
Qed.

(* ---- hex literals (the harness prints every byte string as hx "..") ---- *)
Definition hexval (c : ascii) : N :=
  let n := N_of_ascii c in
  if (48 <=? n) && (n <=? 57) then n - 48
  else if (97 <=? n) && (n <=? 102) then n - 87
  else if (65 <=? n) && (n <=? 70) then n - 55
  else 0.

Fixpoint hx (s : string) : bytes :=
  match s with
  | String a (String b r) => (16 * hexval a + hexval b) :: hx r
  | _ => []
  end.

(* bytes of an ASCII Coq string, for readable constants in models *)
Fixpoint str (s : string) : bytes :=
  match s with
  | EmptyString => []
  | String a r => N_of_ascii a :: str r
  end.

(* ---- decimal rendering (strconv.Itoa on non-negative ints) ---- *)
Fixpoint itoa_fuel (fuel : nat) (n : N) (acc : bytes) : bytes :=
  match fuel with
  | O => acc
  | S f => let acc' := (48 + n mod 10) :: acc in
           if n / 10 =? 0 then acc' else itoa_fuel f (n / 10) acc'
  end.
Definition itoa (n : N) : bytes := itoa_fuel (S (N.to_nat (N.log2 n))) n [].

(* ---- correspondence plumbing: indices of cases whose check fails ---- *)
Fixpoint mismatches_from {A} (ok : A -> bool) (i : nat) (l : list A) : list nat :=
  match l with
  | [] => []
  | c :: r => if ok c then mismatches_from ok (S i) r else i :: mismatches_from ok (S i) r
  end.
Definition mismatches_of {A} (ok : A -> bool) (l : list A) : list nat := mismatches_from ok 0 l.

(* ---- small list helpers used by several models ---- *)
Fixpoint is_prefix (p s : bytes) : bool :=
  match p, s with
  | [], _ => true
  | x :: p', y :: s' => N.eqb x y && is_prefix p' s'
  | _ :: _, [] => false
  end.

Fixpoint is_substring (p s : bytes) : bool :=
  is_prefix p s || match s with [] => false | _ :: s' => is_substring p s' end.

Definition is_suffix (p s : bytes) : bool := is_prefix (rev p) (rev s).

Definition ascii_lower (b : byte) : byte := if (65 <=? b) && (b <=? 90) then b + 32 else b.
Definition ascii_upper (b : byte) : byte := if (97 <=? b) && (b <=? 122) then b - 32 else b.
Definition lower_ascii (s : bytes) : bytes := map ascii_lower s.

Definition is_ascii (s : bytes) : bool := forallb (fun b => b <? 128) s.
