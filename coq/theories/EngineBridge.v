(* EngineBridge.v — composition of the C01 model (Match.v: rule evaluation WITHOUT the
   transformation cache) with the C12 model (TCache.v: transformArg WITH the cache), at the
   place where they meet in the code: (Rule).doEvaluate -> transformArg / transformMultiMatchArg
   (/repo/internal/corazawaf/rule.go) and RuleGroup.Eval (clearing of the cache at phase start).

   Definitions only (proofs: EngineBridgeProofs.v).

   - the cache model is instantiated with T := Transform.tid, tf := TCacheProofs.tcp_tf_builtin
     (= Transform.apply_t), i.e. the transformations Match.v executes through exec_tfs;
   - what transformArg sees of a types.MatchData beyond its value - the variable number and the
     pointer identity of Key() - is NOT derived from Match.v's match data: it is supplied by a
     KEY ORACLE (bkor), one arbitrary answer per call site (addressed by the same path of
     indices as Match.v's order oracle), position and match data.  Theorems quantify over every
     key oracle: colliding key pointers, colliding variables, the TX bypass, all are covered;
   - argIdx is what the Go code passes: the index of the value within the result of ONE
     GetField call (for i, arg := range values);
   - the interned prefix ids of a link's transformation list are supplied by pidf : link ->
     list nat, constrained only by C12's tc_rule_wf (one meaning function sem for all links);
     TCacheProofs.it_compile_wf shows that rules compiled through the intern table satisfy it. *)
From Coq Require Import String.
From Verif Require Import Base Utf8 Transform TCache TCacheProofs Match.
Local Open Scope nat_scope.

(* ------------------------------------------------------------------------------------ *)
(* the two transformation semantics side by side                                         *)
(* ------------------------------------------------------------------------------------ *)
Definition b_tf : tid -> bytes -> tres := tcp_tf_builtin.
Definition b_cst := tc_state tid.

(* number of failing steps of executeTransformationsMultimatch (Match.v does not need it:
   errors are only logged; exec_tfs_multi returns the values only) *)
Fixpoint exec_tfs_multi_errs (ts : list tid) (s : bytes) : nat :=
  match ts with
  | [] => 0
  | t :: r => let x := apply_t t s in
              if t_err x then S (exec_tfs_multi_errs r s)
              else if t_changed x then exec_tfs_multi_errs r (t_out x)
              else exec_tfs_multi_errs r s
  end.

(* number of transformation errors doEvaluate logs for one value *)
Definition transform_errs (l : link) (v : bytes) : nat :=
  if l_multi l then exec_tfs_multi_errs (l_tfs l) v else snd (exec_tfs (l_tfs l) v).

(* the rule as transformArg sees it *)
Definition b_rule (pidf : link -> list nat) (l : link) : tc_rule tid :=
  TCache.mk_rule (l_tfs l) (pidf l) (l_multi l).

(* ------------------------------------------------------------------------------------ *)
(* operator inputs                                                                       *)
(* ------------------------------------------------------------------------------------ *)
(* what the transformations hand on for ONE selected value: the values given to the operator
   (one, or the multiMatch list) and the number of errors given to the logger *)
Definition b_input := (list bytes * nat)%type.

(* (variable number, pointer identity of Key()) as transformArg sees them *)
Definition b_key := (nat * nat)%type.
Definition b_sel := (mdata * b_key)%type.              (* a selected entry with its key identity *)
Definition b_arg (e : b_sel) : tc_arg := mk_arg (fst (snd e)) (snd (snd e)) (md_value (fst e)).

(* ---- cache-free: what Match.v computes ---- *)
Definition input_uncached (l : link) (md : mdata) : b_input :=
  (transform_values l (md_value md), transform_errs l (md_value md)).
(* one GetField result *)
Definition field_inputs_uncached (l : link) (mds : list mdata) : list b_input := map (input_uncached l) mds.
(* one link: one GetField result per target, in order *)
Definition link_inputs_uncached (l : link) (mdss : list (list mdata)) : list (list b_input) :=
  map (field_inputs_uncached l) mdss.
(* one phase: the links evaluated, in order *)
Definition phase_inputs_uncached (ls : list (link * list (list mdata))) : list (list (list b_input)) :=
  map (fun c => link_inputs_uncached (fst c) (snd c)) ls.

(* ---- through the cache (chk / clip: the two earlier designs of TCache.tc_transform_arg_gen;
        the code in /repo is chk = clip = true) ---- *)
(* for i, arg := range values { args[0], errs = r.transformArg(arg, i, cache) } *)
Fixpoint field_inputs_cached_gen (chk clip : bool) (pidf : link -> list nat) (l : link) (idx : nat)
         (sel : list b_sel) (cs : b_cst) : list b_input * b_cst :=
  match sel with
  | [] => ([], cs)
  | e :: r =>
    let '(vs, es, cs1) := tc_transform_arg_gen tid b_tf chk clip (b_rule pidf l) (b_arg e) idx cs in
    let '(ins, cs2) := field_inputs_cached_gen chk clip pidf l (S idx) r cs1 in
    ((vs, length es) :: ins, cs2)
  end.

(* for _, v := range r.variables { values = tx.GetField(v); ... } : argIdx restarts at 0 *)
Fixpoint link_inputs_cached_gen (chk clip : bool) (pidf : link -> list nat) (l : link)
         (sels : list (list b_sel)) (cs : b_cst) : list (list b_input) * b_cst :=
  match sels with
  | [] => ([], cs)
  | sel :: r =>
    let '(ins, cs1) := field_inputs_cached_gen chk clip pidf l 0 sel cs in
    let '(rest, cs2) := link_inputs_cached_gen chk clip pidf l r cs1 in
    (ins :: rest, cs2)
  end.

Fixpoint links_inputs_cached_gen (chk clip : bool) (pidf : link -> list nat)
         (ls : list (link * list (list b_sel))) (cs : b_cst) : list (list (list b_input)) * b_cst :=
  match ls with
  | [] => ([], cs)
  | c :: r =>
    let '(ins, cs1) := link_inputs_cached_gen chk clip pidf (fst c) (snd c) cs in
    let '(rest, cs2) := links_inputs_cached_gen chk clip pidf r cs1 in
    (ins :: rest, cs2)
  end.

(* RuleGroup.Eval: the cache is emptied, then the rules are evaluated in order *)
Definition phase_inputs_cached_gen (chk clip : bool) (pidf : link -> list nat)
           (ls : list (link * list (list b_sel))) (cs : b_cst) : list (list (list b_input)) * b_cst :=
  links_inputs_cached_gen chk clip pidf ls (tc_phase_start tid cs).

Definition field_inputs_cached := field_inputs_cached_gen true true.
Definition link_inputs_cached := link_inputs_cached_gen true true.
Definition links_inputs_cached := links_inputs_cached_gen true true.
Definition phase_inputs_cached := phase_inputs_cached_gen true true.

(* forgetting the key identities *)
Definition sel_mds (sel : list b_sel) : list mdata := map fst sel.
Definition link_call_mds (c : link * list (list b_sel)) : link * list (list mdata) :=
  (fst c, map sel_mds (snd c)).

(* ------------------------------------------------------------------------------------ *)
(* Match.v's match data as a function of the operator inputs                             *)
(* ------------------------------------------------------------------------------------ *)
Definition matches_of_input (X : sem) (neg : bool) (o : op) (md : mdata) (i : b_input) : list mdata :=
  map (fun cv => (fst md, cv)) (filter (exec_operator X neg o) (fst i)).

Fixpoint matches_of_inputs (X : sem) (neg : bool) (o : op) (mds : list mdata) (ins : list b_input) : list mdata :=
  match mds, ins with
  | md :: r, i :: ri => matches_of_input X neg o md i ++ matches_of_inputs X neg o r ri
  | _, _ => []
  end.

(* ------------------------------------------------------------------------------------ *)
(* the key oracle                                                                        *)
(* ------------------------------------------------------------------------------------ *)
(* path of the call site (as Match.oracle) -> position in the GetField result -> match data ->
   (variable number, key pointer identity) *)
Definition bkor := list nat -> nat -> mdata -> b_key.
Definition ksub (ko : bkor) (i : nat) : bkor := fun p => ko (i :: p).

Fixpoint attach_keys (ka : nat -> mdata -> b_key) (idx : nat) (mds : list mdata) : list b_sel :=
  match mds with
  | [] => []
  | md :: r => (md, ka idx md) :: attach_keys ka (S idx) r
  end.

(* ------------------------------------------------------------------------------------ *)
(* Match.v's evaluation, every transformed value obtained through the cache              *)
(* ------------------------------------------------------------------------------------ *)
Fixpoint eval_targets_c (X : sem) (ord : oracle) (ko : bkor) (pidf : link -> list nat) (st : state)
         (l : link) (neg : bool) (o : op) (i : nat) (cps : list cparams) (cs : b_cst) : (list mdata * state) * b_cst :=
  match cps with
  | [] => (([], st), cs)
  | c :: r =>
    let mds := get_field X (sub ord i) st (with_rt st c) in
    let '(ins, cs1) := field_inputs_cached pidf l 0 (attach_keys (ko [i]) 0 mds) cs in
    let ms := matches_of_inputs X neg o mds ins in
    (* every match runs tx.matchVariable at once: the next target reads the updated MATCHED_* *)
    let '((rest, st'), cs2) := eval_targets_c X ord ko pidf (fold_left match_variable ms st) l neg o (S i) r cs1 in
    ((ms ++ rest, st'), cs2)
  end.

Definition link_matches_c (X : sem) (ord : oracle) (ko : bkor) (pidf : link -> list nat) (st : state)
           (l : link) (cs : b_cst) : (list mdata * state) * b_cst :=
  match l_kind l with
  | LAction svs => (([unknown_md], fold_left apply_action svs (match_variable st unknown_md)), cs)
  | LRule neg o => eval_targets_c X ord ko pidf st l neg o 0 (compile_items X (l_items l) []) cs
  end.

Fixpoint eval_chain_c (X : sem) (ord : oracle) (ko : bkor) (pidf : link -> list nat) (st : state)
         (lvl : nat) (ls : list link) (cs : b_cst) : (option (list (mdata * nat)) * state) * b_cst :=
  match ls with
  | [] => ((Some [], st), cs)
  | l :: r =>
    let '((ms, st'), cs1) := link_matches_c X (sub ord lvl) (ksub ko lvl) pidf st l cs in
    if is_nil ms then ((None, st'), cs1)
    else match eval_chain_c X ord ko pidf st' (S lvl) r cs1 with
         | ((Some rest, st''), cs2) => ((Some (tag lvl ms ++ rest), st''), cs2)
         | ((None, st''), cs2) => ((None, st''), cs2)
         end
  end.

Definition eval_rule_c (X : sem) (ord : oracle) (ko : bkor) (pidf : link -> list nat) (st : state)
           (r : rule) (cs : b_cst) := eval_chain_c X ord ko pidf st 0 (rule_links r) cs.

Definition rule_fires_c (X : sem) (ord : oracle) (ko : bkor) (pidf : link -> list nat) (st : state)
           (r : rule) (cs : b_cst) : bool :=
  match fst (fst (eval_rule_c X ord ko pidf st r cs)) with Some _ => true | None => false end.

(* the loop over the rules of RuleGroup.Eval, the cache handed from rule to rule *)
Fixpoint eval_rules_c (X : sem) (ord : oracle) (ko : bkor) (pidf : link -> list nat) (st : state)
         (ph : N) (i : nat) (rules : list rule) (cs : b_cst) : (list fired * state) * b_cst :=
  match rules with
  | [] => (([], st), cs)
  | r :: rest =>
    if in_phase ph r then
      let '((res, st'), cs1) := eval_rule_c X (sub ord i) (ksub ko i) pidf (rule_start st r) r cs in
      let '((out, st''), cs2) := eval_rules_c X ord ko pidf st' ph (S i) rest cs1 in
      ((match res with
        | Some mds => if (r_id r =? 0)%N then out else (r_id r, mds) :: out
        | None => out
        end, st''), cs2)
    else eval_rules_c X ord ko pidf st ph (S i) rest cs
  end.

(* RuleGroup.Eval: for k := range transformationCache { delete(transformationCache, k) } first *)
Definition eval_phase_c (X : sem) (ord : oracle) (ko : bkor) (pidf : link -> list nat) (st : state)
           (ph : N) (rules : list rule) (cs : b_cst) : (list fired * state) * b_cst :=
  eval_rules_c X ord ko pidf st ph 0 rules (tc_phase_start tid cs).

(* Match.run_tx with the transaction's cache (tx.transformationCache lives as long as the
   transaction; whatever it holds when the transaction starts is cs) *)
Definition run_tx_c (X : sem) (ord : oracle) (ko : bkor) (pidf : link -> list nat) (q : request)
           (rules : list rule) (cs : b_cst) : list fired * b_cst :=
  let '((o1, st1), cs1) := eval_phase_c X (sub ord 1) (ksub ko 1) pidf (build1 q) 1 rules cs in
  let st2 := set_post st1 (map_of_list (q_post q)) in
  let '((o2, _), cs2) := eval_phase_c X (sub ord 2) (ksub ko 2) pidf st2 2 rules cs1 in
  (o1 ++ o2, cs2).

(* every link of a rule set is well formed for the cache (C12's hypothesis) *)
Definition links_wf (sm : nat -> list tid) (pidf : link -> list nat) (ls : list link) : Prop :=
  Forall (fun l => tc_rule_wf tid sm (b_rule pidf l)) ls.
Definition rules_wf (sm : nat -> list tid) (pidf : link -> list nat) (rules : list rule) : Prop :=
  Forall (fun r => links_wf sm pidf (rule_links r)) rules.

(* ------------------------------------------------------------------------------------ *)
(* prefix ids assigned by the intern table (TCache.it_compile) to the links of a rule set *)
(* ------------------------------------------------------------------------------------ *)
Definition tid_eq_dec : forall a b : tid, {a = b} + {a <> b}.
Proof. decide equality. Defined.
Definition tids_eq_dec : forall a b : list tid, {a = b} + {a <> b} := list_eq_dec tid_eq_dec.

(* transformation list -> prefix ids: the ids are a function of the list of names (the table is
   looked up by the rendered chain name) *)
Fixpoint pid_lookup (tbl : list (list tid * list nat)) (ts : list tid) : list nat :=
  match tbl with
  | [] => []
  | e :: r => if tids_eq_dec (fst e) ts then snd e else pid_lookup r ts
  end.

Definition all_links (rules : list rule) : list link := flat_map rule_links rules.

(* nm : the name a transformation is written with in the t: action *)
Definition link_names (nm : tid -> bytes) (l : link) : list bytes * bool := (map nm (l_tfs l), l_multi l).
Definition pid_table (nm : tid -> bytes) (tb : it_table) (ls : list link) : list (list tid * list nat) :=
  combine (map (@l_tfs) ls)
          (map (fun rm : it_rule * bool => ir_pids (fst rm)) (snd (it_compile tb (map (link_names nm) ls)))).
(* the rule set compiled in configuration order against the table tb *)
Definition pidf_compiled (nm : tid -> bytes) (tb : it_table) (rules : list rule) (l : link) : list nat :=
  pid_lookup (pid_table nm tb (all_links rules)) (l_tfs l).
