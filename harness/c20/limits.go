package c20

// The limit family (oracle only): chunk histories whose partial sums hit the body limit EXACTLY before
// more data arrives, through every entry point the model does not cover - ReadRequestBodyFrom (reader
// of known and of unknown length), WriteResponseBody, ReadResponseBodyFrom - and, for completeness,
// WriteRequestBody, for both limit actions.  Oracle of the property on the real code: whenever more
// than the limit was supplied, an interruption, a returned error or INBOUND/OUTBOUND_DATA_ERROR = 1
// must be observed, and the stored body differs from the supplied one only together with that signal
// (a cut body is never presented as complete).

import (
	"bytes"
	"fmt"
	"io"

	"github.com/corazawaf/coraza/v3/internal/corazawaf"
	"github.com/corazawaf/coraza/v3/types"
	"github.com/corazawaf/coraza/v3/verifharness/vh"
)

type limitCaseJ struct {
	Kind   string `json:"kind"`  // "limit"
	Entry  string `json:"entry"` // wreq | rreq | rreq-unknown | wresp | rresp | rresp-unknown
	Reject bool   `json:"reject"`
	Limit  int    `json:"limit"`
	Chunks []int  `json:"chunks"`
	// observed
	Signal     bool   `json:"obs_signal"`
	DataError  bool   `json:"obs_data_error"`
	Intr       bool   `json:"obs_interruption"`
	Err        string `json:"obs_err,omitempty"`
	Stored     int    `json:"obs_stored"`
	StoredSame bool   `json:"obs_stored_equals_supplied"`
	BodyVar    string `json:"obs_body_variable,omitempty"`
}

func limitWAF(e *env, reject, resp bool, limit int) (*corazawaf.WAF, error) {
	c := cfgJ{Limit: int64(limit), Mem: int64(limit), Reject: reject, Keep: "off", Proc: "url", Audit: "off", LogRule: true}
	if !resp {
		we, err := e.get(c)
		if err != nil {
			return nil, err
		}
		return we.waf, nil
	}
	// response side: its own WAF (response limit / action), cached under a distinct key
	key := fmt.Sprintf("resp|%d|%v", limit, reject)
	if w, ok := e.wafs[key]; ok {
		return w.waf, nil
	}
	c.Limit, c.Mem = 1000, 1000
	c.Deny = 7 + limit*2 // distinct cache key of the underlying environment
	if reject {
		c.Deny++
	}
	we, err := e.get(c)
	if err != nil {
		return nil, err
	}
	we.waf.ResponseBodyAccess = true
	we.waf.ResponseBodyLimit = int64(limit)
	we.waf.ResponseBodyMimeTypes = []string{"text/plain"}
	if reject {
		we.waf.ResponseBodyLimitAction = types.BodyLimitActionReject
	} else {
		we.waf.ResponseBodyLimitAction = types.BodyLimitActionProcessPartial
	}
	e.wafs[key] = we
	return we.waf, nil
}

type unknownLen struct{ r io.Reader }

func (u unknownLen) Read(p []byte) (int, error) { return u.r.Read(p) }

func runLimitCase(e *env, c *limitCaseJ) ([]vh.OracleFailure, error) {
	resp := c.Entry == "wresp" || c.Entry == "rresp" || c.Entry == "rresp-unknown"
	waf, err := limitWAF(e, c.Reject, resp, c.Limit)
	if err != nil {
		return nil, err
	}
	total := 0
	for _, k := range c.Chunks {
		total += k
	}
	supplied := make([]byte, total)
	for i := range supplied {
		supplied[i] = "a=1&b=23&c=456&d=7890"[i%21]
	}
	tx := waf.NewTransaction()
	defer tx.Close()
	tx.AddRequestHeader("Content-Type", "application/x-www-form-urlencoded")
	tx.ProcessRequestHeaders()
	if resp {
		tx.ProcessRequestBody()
		tx.AddResponseHeader("Content-Type", "text/plain")
		tx.ProcessResponseHeaders(200, "HTTP/1.1")
	}
	rest := supplied
	var pan any
	func() {
		defer func() { pan = recover() }()
		for _, k := range c.Chunks {
			chunk := rest[:k]
			rest = rest[k:]
			var it *types.Interruption
			var err error
			switch c.Entry {
			case "wreq":
				it, _, err = tx.WriteRequestBody(chunk)
			case "rreq":
				it, _, err = tx.ReadRequestBodyFrom(bytes.NewReader(chunk))
			case "rreq-unknown":
				it, _, err = tx.ReadRequestBodyFrom(unknownLen{bytes.NewReader(chunk)})
			case "wresp":
				it, _, err = tx.WriteResponseBody(chunk)
			case "rresp":
				it, _, err = tx.ReadResponseBodyFrom(bytes.NewReader(chunk))
			case "rresp-unknown":
				it, _, err = tx.ReadResponseBodyFrom(unknownLen{bytes.NewReader(chunk)})
			}
			if it != nil {
				c.Intr = true
			}
			if err != nil {
				c.Err = err.Error()
			}
		}
		if resp {
			if it, err := tx.ProcessResponseBody(); it != nil || err != nil {
				c.Intr = c.Intr || it != nil
			}
		} else {
			if it, _ := tx.ProcessRequestBody(); it != nil {
				c.Intr = true
			}
		}
	}()
	v := tx.Variables()
	var rd io.Reader
	if resp {
		c.DataError = v.OutboundDataError().Get() == "1"
		rd, _ = tx.ResponseBodyReader()
		c.BodyVar = v.ResponseBody().Get()
	} else {
		c.DataError = v.InboundDataError().Get() == "1"
		rd, _ = tx.RequestBodyReader()
		c.BodyVar = v.RequestBody().Get()
	}
	stored, _ := io.ReadAll(rd)
	c.Stored = len(stored)
	c.StoredSame = bytes.Equal(stored, supplied)
	c.Signal = c.DataError || c.Intr || c.Err != ""
	var fails []vh.OracleFailure
	bad := func(key, what string) { fails = append(fails, vh.OracleFailure{Key: key, What: what, Case: c}) }
	if pan != nil {
		bad("c20-panic", fmt.Sprintf("limit family %s chunks %v limit %d: panic %v", c.Entry, c.Chunks, c.Limit, pan))
	}
	if total > c.Limit && !c.Signal {
		bad("c20-over-limit-no-signal", fmt.Sprintf("%s (reject=%v) chunks %v, limit %d: %d bytes supplied, %d stored, but no interruption, no returned error and no %s", c.Entry, c.Reject, c.Chunks, c.Limit, total, c.Stored, map[bool]string{true: "OUTBOUND_DATA_ERROR", false: "INBOUND_DATA_ERROR"}[resp]))
	}
	if !c.StoredSame && !c.Signal {
		bad("c20-body-cut-presented-as-complete", fmt.Sprintf("%s (reject=%v) chunks %v, limit %d: the stored body (%d bytes) is not the supplied one (%d bytes) and nothing signals it; body variable %q", c.Entry, c.Reject, c.Chunks, c.Limit, c.Stored, total, c.BodyVar))
	}
	if c.Stored > c.Limit {
		bad("c20-stored-beyond-limit", fmt.Sprintf("%s chunks %v: %d bytes stored for a limit of %d", c.Entry, c.Chunks, c.Stored, c.Limit))
	}
	return fails, nil
}

func runLimitFamily(e *env, res *vh.Result) {
	const L = 5
	var comps [][]int
	for a := 1; a <= L; a++ {
		if a == L {
			comps = append(comps, []int{a})
			continue
		}
		for b := 1; a+b <= L; b++ {
			if a+b == L {
				comps = append(comps, []int{a, b})
			} else {
				comps = append(comps, []int{a, b, L - a - b})
			}
		}
	}
	for _, entry := range []string{"wreq", "rreq", "rreq-unknown", "wresp", "rresp", "rresp-unknown"} {
		for _, reject := range []bool{true, false} {
			for _, comp := range comps {
				for _, more := range [][]int{{}, {3}, {1, 2}} {
					c := &limitCaseJ{Kind: "limit", Entry: entry, Reject: reject, Limit: L, Chunks: append(append([]int{}, comp...), more...)}
					fails, err := runLimitCase(e, c)
					if err != nil {
						res.Notes = append(res.Notes, "limit family: "+err.Error())
						return
					}
					res.OracleFailures = append(res.OracleFailures, fails...)
					res.OracleEvaluations++
					res.InputDistribution["limit:"+entry]++
				}
			}
		}
	}
}
