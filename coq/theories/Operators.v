(* Operators.v — executable models of Coraza's built-in operators (property C15), written by
   reading the Go code line by line:
     internal/operators/{streq,contains,strmatch,begins_with,ends_with,within}.go
     internal/operators/{eq,ge,gt,le,lt}.go                (strconv.Atoi with ignored errors)
     internal/operators/{pm,pm_from_file,pm_from_dataset}.go
     internal/operators/validate_byte_range.go, validate_url_encoding.go, validate_utf8_encoding.go
     internal/operators/unconditional_match.go, no_match.go
     internal/operators/rx.go                              (capture loop only; the engine is an oracle)
     experimental/plugins/macro/macro.go                   (compile / Expand, TX collection only)
     internal/seclang/rule_parser.go ParseOperator, internal/corazawaf/rule.go SetOperator/executeOperator
   No proofs here (see OperatorsProofs.v). *)
From Verif Require Import Base Utf8.
From Coq Require Import String.
Open Scope N_scope.
Notation length := List.length (only parsing).
Notation sstr x := (str x%string) (only parsing).

(* ------------------------------------------------------------------------------------ *)
(* Go standard-library helpers                                                           *)
(* ------------------------------------------------------------------------------------ *)

(* strings.HasPrefix(s, p), strings.HasSuffix(s, p), strings.Contains(s, p) *)
Definition go_has_prefix (s p : bytes) : bool := is_prefix p s.
Definition go_has_suffix (s p : bytes) : bool :=
  (length p <=? length s)%nat && bytes_eqb (skipn (length s - length p) s) p.
(* strings.Index as the brute-force scanner: first offset i with s[i:i+len p] == p *)
Fixpoint go_index_from (p s : bytes) (i : nat) : option nat :=
  if is_prefix p s then Some i
  else match s with [] => None | _ :: s' => go_index_from p s' (S i) end.
Definition go_contains (s p : bytes) : bool :=
  match go_index_from p s 0 with Some _ => true | None => false end.

(* strings.Cut(s, string(sep)) -> (before, after, found) *)
Fixpoint cut_byte (sep : N) (s : bytes) : bytes * bytes * bool :=
  match s with
  | [] => ([], [], false)
  | c :: r => if c =? sep then ([], r, true)
              else let '(a, b, f) := cut_byte sep r in (c :: a, b, f)
  end.

(* strings.Split(s, string(sep)) : always at least one piece *)
Fixpoint split_byte (sep : N) (s : bytes) : list bytes :=
  match s with
  | [] => [[]]
  | c :: r => if c =? sep then [] :: split_byte sep r
              else match split_byte sep r with
                   | x :: xs => (c :: x) :: xs
                   | [] => [[c]]
                   end
  end.

(* utf8.RuneStart, utf8.DecodeLastRuneInString *)
Definition rune_start (b : N) : bool := negb ((128 <=? b) && (b <? 192)).
Definition dlr_try (s : bytes) (k : nat) : N * nat :=
  let '(r, sz) := decode_rune (skipn (length s - k) s) in
  if Nat.eqb sz k then (r, k) else (rune_error, 1%nat).
Definition decode_last_rune (s : bytes) : N * nat :=
  match rev s with
  | [] => (rune_error, 0%nat)
  | l :: rest =>
    if l <? 128 then (l, 1%nat) else
    match rest with
    | b1 :: rest2 =>
      if rune_start b1 then dlr_try s 2 else
      match rest2 with
      | b2 :: rest3 =>
        if rune_start b2 then dlr_try s 3 else
        match rest3 with
        | b3 :: _ => if rune_start b3 then dlr_try s 4 else (rune_error, 1%nat)
        | [] => (rune_error, 1%nat)
        end
      | [] => (rune_error, 1%nat)
      end
    | [] => (rune_error, 1%nat)
    end
  end.

(* strings.TrimSpace == TrimFunc(s, unicode.IsSpace): rune-wise from both ends *)
Fixpoint trim_left_fuel (fuel : nat) (s : bytes) : bytes :=
  match fuel with
  | O => s
  | S f => match s with
           | [] => []
           | _ => let '(r, n) := decode_rune s in
                  if is_unicode_space r then trim_left_fuel f (skipn n s) else s
           end
  end.
Fixpoint trim_right_fuel (fuel : nat) (s : bytes) : bytes :=
  match fuel with
  | O => s
  | S f => match s with
           | [] => []
           | _ => let '(r, n) := decode_last_rune s in
                  if is_unicode_space r then trim_right_fuel f (firstn (length s - n) s) else s
           end
  end.
Definition trim_space (s : bytes) : bytes :=
  let l := trim_left_fuel (length s) s in trim_right_fuel (length l) l.

(* strings.ToLower: byte-wise on pure ASCII; otherwise strings.Map(unicode.ToLower, s), which
   re-encodes every rune and replaces every invalid byte by U+FFFD. unicode.ToLower on
   non-ASCII runes is an oracle: [tbl] lists (rune, lower rune) for the runes that change. *)
Definition rune_lower (tbl : list (N * N)) (r : N) : N :=
  if r <? 128 then ascii_lower r
  else match find (fun p => fst p =? r) tbl with Some p => snd p | None => r end.
Fixpoint to_lower_runes (fuel : nat) (tbl : list (N * N)) (s : bytes) : bytes :=
  match fuel with
  | O => []
  | S f => match s with
           | [] => []
           | _ => let '(r, n) := decode_rune s in
                  encode_rune (rune_lower tbl r) ++ to_lower_runes f tbl (skipn n s)
           end
  end.
Definition go_to_lower (tbl : list (N * N)) (s : bytes) : bytes :=
  if is_ascii s then lower_ascii s else to_lower_runes (length s) tbl s.

(* strconv.Atoi == ParseInt(s, 10, 0) on a 64-bit platform (the fast path for short strings
   computes the same function). Result: (value, err) with err 0 = nil, 1 = syntax, 2 = range.
   The uint64 wrap-around test of ParseUint (n1 < n || n1 > maxVal) is modelled on unbounded N
   as 2^64 <= n1. *)
Definition is_digit (c : N) : bool := (48 <=? c) && (c <=? 57).
Definition two64 : N := 18446744073709551616.
Definition two63 : N := 9223372036854775808.
Definition pu_cutoff : N := 1844674407370955162. (* maxUint64/10 + 1 *)
Fixpoint parse_uint_loop (s : bytes) (n : N) : N * N :=
  match s with
  | [] => (n, 0)
  | c :: r =>
    if negb (is_digit c) then (0, 1)
    else if pu_cutoff <=? n then (two64 - 1, 2)
    else let n1 := n * 10 + (c - 48) in
         if two64 <=? n1 then (two64 - 1, 2) else parse_uint_loop r n1
  end.
Definition parse_uint (s : bytes) : N * N :=
  match s with [] => (0, 1) | _ => parse_uint_loop s 0 end.
Definition go_atoi (s : bytes) : Z * N :=
  match s with
  | [] => (0%Z, 1)
  | c :: r =>
    let neg := c =? 45 in
    let body := if (c =? 43) || neg then r else s in
    let '(un, e) := parse_uint body in
    if e =? 1 then (0%Z, 1)
    else if negb neg && (two63 <=? un) then ((Z.of_N two63 - 1)%Z, 2)
    else if neg && (two63 <? un) then ((- Z.of_N two63)%Z, 2)
    else ((if neg then - Z.of_N un else Z.of_N un)%Z, 0)
  end.
Definition atoi_val (s : bytes) : Z := fst (go_atoi s).

(* ------------------------------------------------------------------------------------ *)
(* transaction state seen by operators: the TX collection (keys are stored lower-cased)   *)
(* ------------------------------------------------------------------------------------ *)
Definition txvars := list (bytes * bytes).
Fixpoint tx_get (tx : txvars) (k : bytes) : option bytes :=
  match tx with
  | [] => None
  | (k', v) :: r => if bytes_eqb k' k then Some v else tx_get r k
  end.
Definition tx_set (tx : txvars) (k v : bytes) : txvars := (k, v) :: tx.
(* WAF.newTransaction: TX.0 .. TX.9 exist from the start and hold "" *)
Definition tx_init : txvars := map (fun i => (itoa (N.of_nat i), [])) (seq 0 10).
(* Transaction.CaptureField(i, v): TX:<itoa i> := v, only while the rule has `capture` *)
Definition capture_field (capturing : bool) (tx : txvars) (i : nat) (v : bytes) : txvars :=
  if capturing then tx_set tx (itoa (N.of_nat i)) v else tx.

(* ------------------------------------------------------------------------------------ *)
(* macro.NewMacro / compile / Expand (variables: TX only; any other name is "unknown")    *)
(* ------------------------------------------------------------------------------------ *)
Inductive mtoken :=
  | MText (t : bytes)
  | MTx (text key : bytes).     (* %{tx.key}: text = "tx.key" as written, key lower-cased *)

Definition valid_macro_char (c : N) : bool :=
  (c =? 91) || (c =? 93) || (c =? 46) || (c =? 95) || (c =? 45)
  || is_digit c || ((65 <=? c) && (c <=? 90)) || ((97 <=? c) && (c <=? 122)).

Definition flush_text (cur : bytes) (toks : list mtoken) : list mtoken :=
  match cur with [] => toks | _ => toks ++ [MText cur] end.

(* the scanner of macro.compile: [prev] = input[i-1], [cur] = currentToken, [ism] = isMacro *)
Fixpoint mc_scan (inp : bytes) (prev : N) (cur : bytes) (ism : bool) (toks : list mtoken)
  : option (list mtoken) :=
  match inp with
  | [] => Some (flush_text cur toks)
  | c :: r =>
    let general :=
      if ism then
        if c =? 125 then
          if prev =? 46 then None
          else let '(var, key, _) := cut_byte 46 cur in
               if bytes_eqb (lower_ascii var) (sstr "tx") then
                 mc_scan r c [] false (toks ++ [MTx cur (lower_ascii key)])
               else None
        else if negb (valid_macro_char c) then None
        else match r with
             | [] => None                      (* i+1 == l: no closing braces *)
             | _ => mc_scan r c (cur ++ [c]) true toks
             end
      else mc_scan r c (cur ++ [c]) false toks in
    if c =? 37 then
      match r with
      | c2 :: r' => if c2 =? 123 then mc_scan r' 123 [] true (flush_text cur toks) else general
      | [] => general
      end
    else general
  end.

Definition macro_compile (data : bytes) : option (list mtoken) :=
  match data with
  | [] => None                                  (* errEmptyData *)
  | _ => mc_scan data 0 [] false []
  end.

Definition expand_token (tx : txvars) (t : mtoken) : bytes :=
  match t with
  | MText s => s
  | MTx text key => match tx_get tx key with Some v => v | None => text end
  end.
Definition macro_expand (tx : txvars) (toks : list mtoken) : bytes :=
  flat_map (expand_token tx) toks.

(* ------------------------------------------------------------------------------------ *)
(* string and numeric operators (argument = macro)                                       *)
(* ------------------------------------------------------------------------------------ *)
Inductive mop := OStreq | OContains | OStrmatch | OBeginsWith | OEndsWith | OWithin
               | OEq | OGe | OGt | OLe | OLt.

(* Evaluate of each operator once the argument macro is expanded to [data] *)
Definition eval_mop (o : mop) (data value : bytes) : bool :=
  match o with
  | OStreq => bytes_eqb data value
  | OContains => go_contains value data
  | OStrmatch => go_contains value data
  | OBeginsWith => go_has_prefix value data
  | OEndsWith => go_has_suffix value data
  | OWithin => go_contains data value
  | OEq => (atoi_val data =? atoi_val value)%Z
  | OGe => (atoi_val data <=? atoi_val value)%Z      (* v >= data *)
  | OGt => (atoi_val data <? atoi_val value)%Z       (* k < v *)
  | OLe => (atoi_val value <=? atoi_val data)%Z      (* v <= d *)
  | OLt => (atoi_val value <? atoi_val data)%Z       (* v < data *)
  end.

(* constructor + Evaluate; None = the constructor returns an error *)
Definition run_mop (o : mop) (arg : bytes) (tx : txvars) (value : bytes) : option bool :=
  match macro_compile arg with
  | None => None
  | Some toks => Some (eval_mop o (macro_expand tx toks) value)
  end.

(* ------------------------------------------------------------------------------------ *)
(* @pm family                                                                            *)
(* ------------------------------------------------------------------------------------ *)
Definition prefix_ci (p s : bytes) : bool := is_prefix (lower_ascii p) (lower_ascii s).

(* minPatternLen *)
Fixpoint min_pattern_len_from (ps : list bytes) (mn : nat) : nat :=
  match ps with
  | [] => mn
  | p :: r => match p with
              | [] => 0%nat
              | _ => if Nat.eqb mn 0 || (length p <? mn)%nat then min_pattern_len_from r (length p)
                     else min_pattern_len_from r mn
              end
  end.
Definition min_pattern_len (ps : list bytes) : nat := min_pattern_len_from ps 0.

(* The Aho-Corasick automaton (library petar-dambovaliev/aho-corasick, LeftMostLongest,
   AsciiCaseInsensitive) is NOT modelled; this is its specification as a naive matcher:
   findIter.Next reports the leftmost-longest match at or after pos and continues from
   (start of that match) + 1, so the reported matches are: for every offset in order, the
   longest phrase matching there, if any. *)
Definition longest_at (ps : list bytes) (s : bytes) : option nat :=
  fold_left (fun best p =>
               if prefix_ci p s then
                 match best with
                 | Some l => if (l <? length p)%nat then Some (length p) else best
                 | None => Some (length p)
                 end
               else best) ps None.
Fixpoint ac_matches (ps : list bytes) (s : bytes) : list bytes :=
  (match longest_at ps s with Some l => [firstn l s] | None => [] end)
  ++ match s with [] => [] | _ :: r => ac_matches ps r end.

(* pm.Evaluate + pmEvaluate: result and the CaptureField calls (index = position in list) *)
Definition pm_eval (ps : list bytes) (capturing : bool) (value : bytes) : bool * list bytes :=
  if (length value <? min_pattern_len ps)%nat then (false, [])
  else let ms := ac_matches ps value in
       (match ms with [] => false | _ => true end, if capturing then firstn 10 ms else []).

(* dropEmpty (commit 81c7a71): empty phrases are removed before the automaton is built *)
Definition nonempty (p : bytes) : bool := match p with [] => false | _ => true end.
Definition drop_empty (ps : list bytes) : list bytes := filter nonempty ps.
(* newPM: ToLower, Split on ' ', dropEmpty *)
Definition pm_phrases (tbl : list (N * N)) (arg : bytes) : list bytes :=
  drop_empty (split_byte 32 (go_to_lower tbl arg)).
(* newPMFromDataset: the data set's entries as given (no lower-casing), dropEmpty *)
Definition pmd_phrases (dataset : list bytes) : list bytes := drop_empty dataset.

(* newPMFromFile: bufio.ScanLines (split on \n, drop one trailing \r), TrimSpace, skip empty
   lines and lines starting with '#', ToLower (lines longer than bufio.MaxScanTokenSize are
   out of scope) *)
Definition drop_cr (l : bytes) : bytes :=
  match rev l with 13 :: r => rev r | _ => l end.
Definition pmf_keep (l : bytes) : bool :=
  match l with [] => false | c :: _ => negb (c =? 35) end.
Definition pmf_phrases (tbl : list (N * N)) (data : bytes) : list bytes :=
  map (go_to_lower tbl)
      (filter pmf_keep (map (fun l => trim_space (drop_cr l)) (split_byte 10 data))).

(* ------------------------------------------------------------------------------------ *)
(* @validateByteRange                                                                    *)
(* ------------------------------------------------------------------------------------ *)
Definition vbr_table := list bool.              (* [256]bool *)
Definition vbr_empty : vbr_table := repeat false 256.
Fixpoint set_nth (i : nat) (t : vbr_table) : vbr_table :=
  match t with
  | [] => []
  | b :: r => match i with O => true :: r | S i' => b :: set_nth i' r end
  end.
(* for i := s; i <= e; i++ { validBytes[i] = true }   (cnt = number of iterations left) *)
Fixpoint set_range (cnt : nat) (i : nat) (t : vbr_table) : vbr_table :=
  match cnt with
  | O => t
  | S c => set_range c (S i) (set_nth i t)
  end.
Definition valid_byte_z (z : Z) : bool := (0 <=? z)%Z && (z <=? 255)%Z.

(* one comma-separated item; None = constructor error *)
Definition vbr_item (item : bytes) (t : vbr_table) : option vbr_table :=
  let br := trim_space item in
  let '(st, en, found) := cut_byte 45 br in
  let '(s, es) := go_atoi st in
  if negb (es =? 0) then None
  else if negb (valid_byte_z s) then None
  else if negb found then Some (set_nth (Z.to_nat s) t)
  else let '(e, ee) := go_atoi en in
       if negb (ee =? 0) then None
       else if negb (valid_byte_z e) then None
       else Some (set_range (Z.to_nat (e + 1 - s)) (Z.to_nat s) t).
Fixpoint vbr_items (items : list bytes) (t : vbr_table) : option vbr_table :=
  match items with
  | [] => Some t
  | it :: r => match vbr_item it t with None => None | Some t' => vbr_items r t' end
  end.
(* None = error; Some None = unconditionalMatch (empty argument); Some (Some t) = table *)
Definition vbr_new (arg : bytes) : option (option vbr_table) :=
  match arg with
  | [] => Some None
  | _ => match vbr_items (split_byte 44 arg) vbr_empty with
         | None => None
         | Some t => Some (Some t)
         end
  end.
Definition vbr_lookup (t : vbr_table) (b : N) : bool := nth (N.to_nat b) t false.
Definition vbr_eval (t : vbr_table) (data : bytes) : bool :=
  match data with
  | [] => false
  | _ => existsb (fun c => negb (vbr_lookup t c)) data
  end.
Definition run_vbr (arg value : bytes) : option bool :=
  match vbr_new arg with
  | None => None
  | Some None => Some true
  | Some (Some t) => Some (vbr_eval t value)
  end.

(* ------------------------------------------------------------------------------------ *)
(* @validateUrlEncoding                                                                  *)
(* ------------------------------------------------------------------------------------ *)
Definition is_hex_digit (c : N) : bool :=
  is_digit c || ((97 <=? c) && (c <=? 102)) || ((65 <=? c) && (c <=? 70)).
(* validateURLEncodingInternal: 0 valid, 1 non-hex, 2 truncated.  [skip] = bytes of a %XX
   still to be jumped over (i += 3) *)
Fixpoint vue_scan (s : bytes) (skip : nat) : N :=
  match s with
  | [] => 0
  | c :: r =>
    match skip with
    | S k => vue_scan r k
    | O =>
      if negb (c =? 37) then vue_scan r 0
      else match r with
           | h1 :: h2 :: _ => if negb (is_hex_digit h1) || negb (is_hex_digit h2) then 1
                              else vue_scan r 2
           | _ => 2
           end
    end
  end.
Definition vue_eval (value : bytes) : bool :=
  match value with [] => false | _ => negb (vue_scan value 0 =? 0) end.

(* ------------------------------------------------------------------------------------ *)
(* @validateUtf8Encoding: !utf8.ValidString(value)                                        *)
(* ------------------------------------------------------------------------------------ *)
Fixpoint utf8_valid_fuel (fuel : nat) (s : bytes) : bool :=
  match fuel with
  | O => match s with [] => true | _ => false end
  | S f => match s with
           | [] => true
           | b :: _ => let '(_, n) := decode_rune s in
                       if (128 <=? b) && Nat.eqb n 1 then false
                       else utf8_valid_fuel f (skipn n s)
           end
  end.
Definition utf8_valid (s : bytes) : bool := utf8_valid_fuel (length s) s.
Definition vutf8_eval (value : bytes) : bool := negb (utf8_valid value).

(* ------------------------------------------------------------------------------------ *)
(* @rx: the regexp engine is an oracle. [m] is what FindStringSubmatchIndex returned:     *)
(* None = no match, Some [s0;e0;s1;e1;...] with -1 for groups that did not participate.   *)
(* ------------------------------------------------------------------------------------ *)
Definition slice (s : bytes) (a b : Z) : bytes :=
  firstn (Z.to_nat b - Z.to_nat a) (skipn (Z.to_nat a) s).
(* for i := 0; i < len(match)/2; i++ { if i == 10 {return true}; CaptureField(i, ...) } *)
Fixpoint rx_groups (m : list Z) (value : bytes) (i : nat) : list bytes :=
  match m with
  | st :: en :: r =>
    if Nat.eqb i 10 then []
    else (if (0 <=? st)%Z then slice value st en else []) :: rx_groups r value (S i)
  | _ => []
  end.
Definition rx_eval (m : option (list Z)) (capturing : bool) (value : bytes) : bool * list bytes :=
  match m with
  | None => (false, [])
  | Some idx => (true, if capturing then rx_groups idx value 0 else [])
  end.

(* storing a list of captured texts: CaptureField(0, c0), CaptureField(1, c1), ... *)
Fixpoint store_captures (capturing : bool) (tx : txvars) (i : nat) (caps : list bytes) : txvars :=
  match caps with
  | [] => tx
  | c :: r => store_captures capturing (capture_field capturing tx i c) (S i) r
  end.

(* ------------------------------------------------------------------------------------ *)
(* RuleParser.ParseOperator, operators.Get, Rule.SetOperator, Rule.executeOperator         *)
(* ------------------------------------------------------------------------------------ *)
Definition hd0 (s : bytes) : N := match s with [] => 0 | c :: _ => c end.

(* returns (opRaw, operator name handed to operators.Get, argument) *)
Definition parse_operator (o : bytes) : bytes * bytes * bytes :=
  let o1 :=
    match o with
    | [] => sstr "@rx " ++ o
    | c :: r =>
      if negb (c =? 64) && negb (c =? 33) then sstr "@rx " ++ o
      else match r with
           | [] => if c =? 33 then sstr "!@rx" else o
           | c1 :: _ => if (c =? 33) && negb (c1 =? 64) then sstr "!@rx " ++ r else o
           end
    end in
  let '(op_raw, data_raw, _) := cut_byte 32 o1 in
  let op := trim_space op_raw in
  let data := trim_space data_raw in
  let name :=
    match op with
    | c :: r =>
      if c =? 64 then r
      else match r with
           | c1 :: r2 => if (2 <? length op)%nat && (c =? 33) && (c1 =? 64) then r2 else op
           | [] => op
           end
    | [] => op
    end in
  (op_raw, name, data).
(* SetOperator: Negation = functionName starts with '!' *)
Definition op_negated (op_raw : bytes) : bool := hd0 op_raw =? 33.

(* the registry entries modelled here (names are case-sensitive map keys) *)
Inductive opname :=
  | NMop (o : mop) | NPm | NVbr | NVue | NVutf8 | NRx | NUncond | NNoMatch.
Definition op_table : list (bytes * opname) :=
  [ (sstr "streq", NMop OStreq); (sstr "contains", NMop OContains); (sstr "strmatch", NMop OStrmatch);
    (sstr "beginsWith", NMop OBeginsWith); (sstr "endsWith", NMop OEndsWith); (sstr "within", NMop OWithin);
    (sstr "eq", NMop OEq); (sstr "ge", NMop OGe); (sstr "gt", NMop OGt); (sstr "le", NMop OLe); (sstr "lt", NMop OLt);
    (sstr "pm", NPm); (sstr "validateByteRange", NVbr); (sstr "validateUrlEncoding", NVue);
    (sstr "validateUtf8Encoding", NVutf8); (sstr "rx", NRx);
    (sstr "unconditionalMatch", NUncond); (sstr "noMatch", NNoMatch) ].
Fixpoint op_lookup (tbl : list (bytes * opname)) (name : bytes) : option opname :=
  match tbl with
  | [] => None
  | (n, o) :: r => if bytes_eqb n name then Some o else op_lookup r name
  end.

(* Operator.Evaluate for a registry entry: None = constructor error;
   Some (result, captured texts in CaptureField order) *)
Definition eval_named (o : opname) (ltbl : list (N * N)) (rxm : option (list Z))
           (arg : bytes) (capturing : bool) (tx : txvars) (value : bytes)
  : option (bool * list bytes) :=
  match o with
  | NMop m => match run_mop m arg tx value with Some b => Some (b, []) | None => None end
  | NPm => Some (pm_eval (pm_phrases ltbl arg) capturing value)
  | NVbr => match run_vbr arg value with Some b => Some (b, []) | None => None end
  | NVue => Some (vue_eval value, [])
  | NVutf8 => Some (vutf8_eval value, [])
  | NRx => Some (rx_eval rxm capturing value)
  | NUncond => Some (true, [])
  | NNoMatch => Some (false, [])
  end.

(* executeOperator: the operator's result, complemented when the rule's operator is negated *)
Definition exec_operator (negation : bool) (op_result : bool) : bool :=
  if negation then negb op_result else op_result.

(* A single SecRule "<optext>" with (optionally) `capture`, evaluated on one value with a
   TX collection [tx]: None = the rule does not compile; Some (rule matched, TX afterwards) *)
Definition rule_eval (optext : bytes) (ltbl : list (N * N)) (rxm : option (list Z))
           (capturing : bool) (tx : txvars) (value : bytes) : option (bool * txvars) :=
  let '(op_raw, name, arg) := parse_operator optext in
  match op_lookup op_table name with
  | None => None
  | Some o =>
    match eval_named o ltbl rxm arg capturing tx value with
    | None => None
    | Some (r, caps) =>
      Some (exec_operator (op_negated op_raw) r, store_captures capturing tx 0 caps)
    end
  end.

(* setvar:tx.cI=%{tx.I} after the match: what the copy holds *)
Definition copy_of_capture (tx : txvars) (i : nat) : bytes :=
  let k := itoa (N.of_nat i) in
  expand_token tx (MTx (sstr "tx." ++ k) k).

(* ------------------------------------------------------------------------------------ *)
(* several evaluations in the same transaction state: nothing resets TX.0-9 between them  *)
(* (Transaction.resetCaptures is never called), every capturing evaluation overwrites the  *)
(* entries of the groups / hits it has and leaves the others as they were                  *)
(* ------------------------------------------------------------------------------------ *)
Inductive cap_step :=
  | SRx (m : option (list Z)) (value : bytes)              (* capturing @rx, m = index vector *)
  | SPm (ltbl : list (N * N)) (arg value : bytes).         (* capturing @pm *)
Definition step_eval (s : cap_step) : bool * list bytes :=
  match s with
  | SRx m v => rx_eval m true v
  | SPm t a v => pm_eval (pm_phrases t a) true v
  end.
(* result and TX state after each step *)
Fixpoint capture_seq (tx : txvars) (steps : list cap_step) : list (bool * txvars) :=
  match steps with
  | [] => []
  | s :: r => let '(b, caps) := step_eval s in
              let tx' := store_captures true tx 0 caps in
              (b, tx') :: capture_seq tx' r
  end.

(* consecutive rules of one phase, each on its own value: (operator text, lower table, rx
   index vector, capture?, value); None = some rule does not compile *)
Definition rule_in := (bytes * list (N * N) * option (list Z) * bool * bytes)%type.
Fixpoint rules_eval (tx : txvars) (rules : list rule_in) : option (list bool * txvars) :=
  match rules with
  | [] => Some ([], tx)
  | (o, t, m, cap, v) :: r =>
    match rule_eval o t m cap tx v with
    | None => None
    | Some (b, tx') => match rules_eval tx' r with
                       | None => None
                       | Some (bs, tx'') => Some (b :: bs, tx'')
                       end
    end
  end.

(* ------------------------------------------------------------------------------------ *)
(* @ipMatch / @ipMatchFromFile (IPv4; items and values containing ':' are IPv6 forms and   *)
(* stay on the implementation-side oracle)                                               *)
(* ------------------------------------------------------------------------------------ *)
(* netip.parseIPv4Fields: [val] current octet, [pos] fields stored, [dig] digits of the current
   octet, [prevdot] s[i-1] == '.', [first] i == 0, [acc] the address built so far *)
Fixpoint ipv4_scan (s : bytes) (val : N) (pos dig : nat) (prevdot first : bool) (acc : N) : option N :=
  match s with
  | [] => if (pos <? 3)%nat then None else Some (acc * 256 + val)
  | c :: r =>
    if is_digit c then
      if Nat.eqb dig 1 && (val =? 0) then None                  (* leading zero *)
      else let val' := val * 10 + (c - 48) in
           if 255 <? val' then None else ipv4_scan r val' pos (S dig) false false acc
    else if c =? 46 then
      if first || (match r with [] => true | _ => false end) || prevdot then None
      else if Nat.eqb pos 3 then None
      else ipv4_scan r 0 (S pos) 0 true false (acc * 256 + val)
    else None
  end.
(* netip.ParseAddr restricted to strings without ':' : the first of '.', '%' decides *)
Fixpoint first_dot_or_pct (s : bytes) : N :=
  match s with
  | [] => 0
  | c :: r => if (c =? 46) || (c =? 37) then c else first_dot_or_pct r
  end.
Definition parse_ipv4 (s : bytes) : option N :=
  if first_dot_or_pct s =? 46 then ipv4_scan s 0 0 0 false true 0 else None.

(* net.dtoi on the whole mask text + the range test of ParseCIDR *)
Definition dec_value (ds : bytes) : N := fold_left (fun a d => a * 10 + (d - 48)) ds 0.
Definition parse_plen (mask : bytes) : option N :=
  match mask with
  | [] => None
  | _ => if forallb is_digit mask && (dec_value mask <=? 32) then Some (dec_value mask) else None
  end.
(* net.ParseCIDR: (address, prefix length); the stored network address is masked *)
Definition parse_cidr4 (s : bytes) : option (N * N) :=
  let '(addr, mask, found) := cut_byte 47 s in
  if negb found then None
  else match parse_ipv4 addr, parse_plen mask with
       | Some a, Some n => Some (a, n)
       | _, _ => None
       end.
(* newIPMatch: Split on ',', TrimSpace, skip empty items, "/32" for a bare dotted address,
   items that do not parse are silently skipped *)
Definition has_byte (b : N) (s : bytes) : bool := existsb (fun c => c =? b) s.
Definition ipm_item (item : bytes) : option (N * N) :=
  let sb := trim_space item in
  match sb with
  | [] => None
  | _ => let sb' := if has_byte 46 sb && negb (has_byte 47 sb) then sb ++ sstr "/32" else sb in
         parse_cidr4 sb'
  end.
Fixpoint ipm_nets (items : list bytes) : list (N * N) :=
  match items with
  | [] => []
  | it :: r => match ipm_item it with Some n => n :: ipm_nets r | None => ipm_nets r end
  end.
Definition ipm_new (arg : bytes) : list (N * N) := ipm_nets (split_byte 44 arg).
(* IPNet.Contains: equal under the mask = equal after dropping the 32 - plen host bits *)
Definition net_contains (net : N * N) (ip : N) : bool :=
  let '(a, n) := net in N.shiftr ip (32 - n) =? N.shiftr a (32 - n).
Definition ipm_eval (nets : list (N * N)) (value : bytes) : bool :=
  match parse_ipv4 value with
  | None => false                                   (* net.ParseIP returns nil *)
  | Some ip => existsb (fun net => net_contains net ip) nets
  end.
(* newIPMatchFromFile: every non-empty, non-comment line (trimmed) becomes ",line" *)
Definition ipmf_arg (data : bytes) : bytes :=
  flat_map (fun l => 44 :: l)
           (filter pmf_keep (map (fun l => trim_space (drop_cr l)) (split_byte 10 data))).
