package c07

import (
	"math"
	"strings"
)

// ---- generators of inputs for the modelled functions ----

func (r *runner) pick(l []string) string { return l[r.rng.Intn(len(l))] }

func (r *runner) concat(tokens []string, maxN int) string {
	n := r.rng.Intn(maxN + 1)
	var sb strings.Builder
	for i := 0; i < n; i++ {
		sb.WriteString(r.pick(tokens))
	}
	return sb.String()
}

// mutate applies one byte-level mutation: delete / duplicate / insert a delimiter / truncate.
func (r *runner) mutate(s string, delims string) string {
	if len(s) == 0 {
		return string(delims[r.rng.Intn(len(delims))])
	}
	i := r.rng.Intn(len(s))
	switch r.rng.Intn(5) {
	case 0:
		return s[:i] + s[i+1:]
	case 1:
		return s[:i] + s[i:i+1] + s[i:]
	case 2:
		return s[:i] + string(delims[r.rng.Intn(len(delims))]) + s[i:]
	case 3:
		return s[:i]
	default:
		b := []byte(s)
		b[i] = delims[r.rng.Intn(len(delims))]
		return string(b)
	}
}

func enumerate(alpha string, maxLen int) []string {
	res := []string{""}
	prev := []string{""}
	for l := 1; l <= maxLen; l++ {
		var cur []string
		for _, p := range prev {
			for i := 0; i < len(alpha); i++ {
				cur = append(cur, p+string(alpha[i]))
			}
		}
		res = append(res, cur...)
		prev = cur
	}
	return res
}

func (r *runner) randCase(s string) string {
	switch r.rng.Intn(3) {
	case 0:
		return strings.ToLower(s)
	case 1:
		return s
	default:
		b := []byte(strings.ToLower(s))
		for i := range b {
			if r.rng.Intn(2) == 0 && b[i] >= 'a' && b[i] <= 'z' {
				b[i] -= 32
			}
		}
		return string(b)
	}
}

// bytes >= 0x80 that can never form the UTF-8 encoding of a Unicode space or of a rune whose
// case mapping is ASCII (Kelvin sign, long s, dotless i): e-acute and two invalid bytes
var hiBytes = []string{"\xc3\xa9", "\x80", "\xff"}

var txKeyPool = []string{"a", "b", "score", "0", "1", "x.y", "k-1"}
var txValPool = []string{"", "1", "-5", "abc", "9223372036854775807", "-9223372036854775808", "+3", "007", "tx.foo", "12abc", "9223372036854775808", " 4", "0"}

func (r *runner) randTX() [][2]string {
	n := r.rng.Intn(4)
	var kv [][2]string
	seen := map[string]bool{}
	for i := 0; i < n; i++ {
		k := r.pick(txKeyPool)
		if seen[k] {
			continue
		}
		seen[k] = true
		kv = append(kv, [2]string{k, r.pick(txValPool)})
	}
	return kv
}

func (r *runner) stableVar() string {
	for {
		v := r.pick(tabVariables)
		if !volatileVars[v] {
			return v
		}
	}
}

func (r *runner) randMacroRef() string {
	v := r.randCase(r.stableVar())
	switch r.rng.Intn(6) {
	case 0:
		return "%{" + v + "}"
	case 1:
		return "%{" + v + "." + r.pick([]string{"a", "b", "x", "host", "c", "p", "score", "0", "x.y", "id", "msg", "Content-Type"}) + "}"
	case 2:
		return "%{tx." + r.pick(txKeyPool) + "}"
	case 3:
		return "%{" + v + ".}"
	case 4:
		return "%{" + v
	default:
		return "%{" + v + "." + r.pick(txKeyPool) + "}"
	}
}

func (r *runner) genMacro() string {
	toks := []string{"%{", "}", ".", "%", "{", " ", "-", "[", "]", "_", "a", "tx", "TX.a", "%{tx.a}", "%{unknown.x}", "%{}", "%{.}", "%{tx.}", "%{json.x}", "%{JSON}", "$", ":"}
	switch r.rng.Intn(5) {
	case 0:
		return r.concat(toks, 6)
	case 1:
		return r.randMacroRef()
	case 2:
		return r.pick([]string{"", "x ", "a="}) + r.randMacroRef() + r.pick([]string{"", " y", r.randMacroRef()})
	case 3:
		return r.mutate(r.randMacroRef()+r.pick([]string{"", "z", "%{tx.b}"}), "%{}.")
	default:
		return r.concat(toks, 3) + r.pick(hiBytes) + r.concat(toks, 2)
	}
}

func (r *runner) genSetvar() string {
	bang := r.pick([]string{"", "", "!", "!!"})
	col := r.pick([]string{"tx", "TX", "Tx", "tx", "tx", "ip", "", "txx", " tx"})
	dot := r.pick([]string{".", ".", ".", ".", "", ".."})
	key := r.pick(append([]string{"%{tx.a}", "%{matched_var}", "a.%{tx.b}", " ", "", "%{", "%{json.x}", "A", "%{rule.id}-x"}, txKeyPool...))
	val := ""
	switch r.rng.Intn(8) {
	case 0:
	case 1:
		val = "="
	case 2:
		val = "=" + r.pick(txValPool)
	case 3:
		val = "=" + r.pick([]string{"+", "-"}) + r.pick(txValPool)
	case 4:
		val = "=" + r.pick([]string{"+", "-", ""}) + r.randMacroRef()
	case 5:
		val = "=" + r.pick([]string{"+", "-", "+-", "-+", "++", "+ 1", "+tx.a", "-tx.", "+0x10", "+1_0", "=", "+=1"})
	case 6:
		val = "=%{tx." + r.pick(txKeyPool) + "}"
	default:
		val = "=" + r.pick([]string{"+", "-"}) + r.pick([]string{"1", "5", "9223372036854775807", "9223372036854775808", "-1", "+2", "00", "99999999999999999999"})
	}
	s := bang + col + dot + key + val
	if r.rng.Intn(6) == 0 {
		s = r.mutate(s, "!.=+-%{}")
	}
	return s
}

func (r *runner) genCqs() string {
	return r.concat([]string{`"`, `"`, `\`, `\\`, `\"`, "a", " ", ",", "'", "@rx ", "x"}, 8)
}

func (r *runner) genPao() string {
	vars := r.pick([]string{"ARGS", "ARGS|TX:a", "&ARGS", "", "REQUEST_URI", "ARGS:'x y'"})
	op := r.pick([]string{`"@rx a"`, `"a\"b"`, `"@streq x\\"`, `""`, `"@eq 1`, `'@rx a'`, `"!@rx \"q\" z"`, `"\\\"x"`, `@rx`})
	acts := r.pick([]string{"", ` "id:1,pass"`, ` "id:1`, ` id:1"`, ` "`, ` ""`, `  "id:2,msg:'a b'"  `, ` "a" "b"`, `"id:3"`})
	s := r.pick([]string{"", " ", "  "}) + vars + r.pick([]string{" ", "  ", ""}) + op + acts
	if r.rng.Intn(3) == 0 {
		s = r.mutate(s, "\"\\ '")
	}
	return s
}

func (r *runner) genPa() string {
	toks := []string{"id:1", "deny", "msg:'a,b'", "t:none", "setvar:tx.a=1", "pass", "allow", "block", "status:403", "drop",
		"redirect:http://x", "phase:2", "log", "tag:'x:y'", "logdata:'%{tx.0}'", "severity:'2'", "ctl:ruleRemoveById=1", "chain",
		"skipAfter:END", "multiMatch", "capture", "nosuch", "Deny", "PASS", " deny ", "msg:\"q\"", "msg:'it\\'s'", "msg:a\\",
		"\\", "'", ",", ":", " ", "x", ",,", "::", "':'", "\t"}
	var parts []string
	n := r.rng.Intn(6)
	for i := 0; i < n; i++ {
		parts = append(parts, r.pick(toks))
	}
	s := strings.Join(parts, r.pick([]string{",", ",", ", ", " ,", ""}))
	switch r.rng.Intn(5) {
	case 0:
		s = r.mutate(s, ",:'\\ ")
	case 1:
		s = r.mutate(r.mutate(s, ",:'\\ "), ",:'\\")
	case 2:
		s += r.pick(hiBytes)
	}
	return s
}

func (r *runner) genOp() string {
	toks := []string{"@", "!", "!@", "rx", "streq", "eq", " ", "a", "pm", "within", "foo", "@rx", "@streq", "!@eq", "  ", "\t", "@@", "!!", "contains", "unconditionalMatch", "1", "@ge", "noMatch"}
	s := r.concat(toks, 5)
	if r.rng.Intn(4) == 0 {
		s = r.pick([]string{"@", "!@", "!", ""}) + r.pick(tabOperators) + r.pick([]string{"", " ", " 1", " a b"})
	}
	if r.rng.Intn(8) == 0 {
		s += r.pick(hiBytes)
	}
	return s
}

func (r *runner) genPv() string {
	toks := []string{"|", ":", "!", "&", "/", "'", "\\", "a", "b.c", "/x/", "/^a\\/b/", ":'/x y/'", ":/a|b/", "XML", "JSON", "XML:/*", "ARGS", "TX", "args", "REQUEST_HEADERS", "REQUEST_URI", "ARGS_NAMES", "FILES", ":a", ":'a b'", "|!ARGS:a", "&ARGS", "GEO:c", "/[/", "/(/"}
	var s string
	switch r.rng.Intn(4) {
	case 0:
		s = r.concat(toks, 6)
	case 1:
		s = r.randCase(r.pick(tabVariables)) + r.pick([]string{"", ":a", ":/a/", ":'a'", ":'/a/'", ":", ":/", ":'", ":/a", ":a/b", ":/a\\/b/"})
	case 2:
		n := 1 + r.rng.Intn(3)
		var ps []string
		for i := 0; i < n; i++ {
			ps = append(ps, r.pick([]string{"", "!", "&"})+r.pick(tabVariables)+r.pick([]string{"", ":k", ":/k./", ":'k'"}))
		}
		s = strings.Join(ps, "|")
	default:
		s = r.mutate(r.pick(tabVariables)+":"+r.pick([]string{"a", "/a/", "'a'", "'/a b/'"})+"|"+r.pick(tabVariables), "|:/'\\!&")
	}
	return s
}

// systematicEdits: truncation of a well-formed input at EVERY offset, deletion of each single
// byte, and duplication / deletion of each delimiter (the shapes a typo produces; in particular
// inputs that END inside an open quote, key, regex or macro).
func systematicEdits(seed string, delims string) []string {
	seen := map[string]bool{}
	var out []string
	add := func(x string) {
		if !seen[x] {
			seen[x] = true
			out = append(out, x)
		}
	}
	for k := 0; k <= len(seed); k++ {
		add(seed[:k])
	}
	for k := 0; k < len(seed); k++ {
		add(seed[:k] + seed[k+1:])
		if strings.IndexByte(delims, seed[k]) >= 0 {
			add(seed[:k] + seed[k:k+1] + seed[k:])
			add(seed[:k+1] + seed[len(seed)-1:]) // cut the middle, keep the last byte
		}
	}
	for i := 0; i < len(delims); i++ {
		add(seed + delims[i:i+1])
	}
	return out
}

var wellFormed = map[string][]string{
	"pv": {"ARGS:'/^id_/'", "ARGS:'a b'", "ARGS|!ARGS:'x'|&TX:/^a\\/b/", "REQUEST_HEADERS:/^x-/|XML:/*", "!ARGS:/a|b/|ARGS_NAMES", "TX:'/a/'|FILES:'q'",
		"REQUEST_COOKIES:'/^s/'", "&ARGS:'k'", "JSON:a.b|ARGS:k"},
	"pa": {"id:1,phase:2,deny,status:403,msg:'a,b:c',tag:'x'", "pass,allow,block,id:2,t:none,t:lowercase", "id:3,msg:'it\\'s',logdata:'%{tx.0}',setvar:'tx.a=+1',deny",
		"chain,id:4,ctl:ruleRemoveTargetById=1;ARGS:a,skipAfter:END"},
	"pao":    {"ARGS \"@rx a\\\"b\" \"id:1,deny\"", "ARGS:'x y'|TX \"!@streq q\" \"id:2,msg:'m'\"", "  REQUEST_URI  \"@rx ^/\\\\\"  \"id:3\"  ", "ARGS \"@eq 1\""},
	"cqs":    {"\"@rx a\\\"b\\\\\" rest", "\"\\\\\\\"x\" \"y\""},
	"op":     {"!@rx  ^a b$", "@streq x", "!@within a b", "! @rx x", "@ rx"},
	"macro":  {"a%{tx.a}b%{request_headers.host}", "%{TX.a.b}-%{unknown.x}%{rule.id}", "%{matched_var}%%{tx.0}{x}"},
	"setvar": {"!tx.a", "tx.a=+%{tx.b}", "TX.%{tx.a}_x=-5", "tx.score=%{matched_var}x", "tx.a=+9223372036854775807"},
}

var editDelims = map[string]string{"pv": "'/|:!&\\", "pa": ",:'\\ ", "pao": "\"\\' ", "cqs": "\"\\", "op": "@! ", "macro": "%{}.", "setvar": "!.=+-%{}"}

func (r *runner) generateModelled() {
	// systematic truncations / single-byte deletions of well-formed inputs, for every scanner
	for _, kind := range []string{"pv", "pa", "pao", "cqs", "op", "macro", "setvar"} {
		for _, seed := range wellFormed[kind] {
			for _, in := range systematicEdits(seed, editDelims[kind]) {
				c := caseJSON{Kind: kind, InHex: hexOf(in), Family: "systematic-edits"}
				if kind == "macro" || kind == "setvar" {
					c.TX = [][2]string{{"a", "k1"}, {"b", "3"}, {"0", "cap"}}
				}
				r.runCase(c)
			}
		}
	}
	// every selectable variable with a key that ends inside an open quote / regex
	for _, v := range tabVariables {
		if !selectable(v) {
			continue
		}
		for _, f := range []string{v + ":'a", v + ":'/^id_/", v + ":'/a", "ARGS|" + v + ":'", v + ":'a'|" + v + ":'b", v + ":/a", v + ":'a'x"} {
			r.runCase(caseJSON{Kind: "pv", InHex: hexOf(f), Family: "open-quote"})
		}
	}
	quick := !r.cfg.Thorough()
	n := func(q, t int) int { return r.cfg.Pick(q, t) }
	// exhaustive small scopes
	cqsLen, paLen := 5, 4
	if !quick {
		cqsLen, paLen = 7, 5
	}
	for _, s := range enumerate("\"\\a", cqsLen) {
		r.runCase(caseJSON{Kind: "cqs", InHex: hexOf(s), Family: "exhaustive"})
	}
	for _, s := range enumerate(",:'\\a ", paLen) {
		r.runCase(caseJSON{Kind: "pa", InHex: hexOf(s), Family: "exhaustive"})
	}
	for _, s := range enumerate("@! r", 4) {
		r.runCase(caseJSON{Kind: "op", InHex: hexOf(s), Family: "exhaustive"})
	}
	for _, s := range enumerate("%{}.a", r.cfg.Pick(4, 6)) {
		r.runCase(caseJSON{Kind: "macro", InHex: hexOf(s), Family: "exhaustive"})
	}
	// every variable in a macro, with and without key, in three spellings
	for _, v := range tabVariables {
		for _, f := range []string{"%{" + v + "}", "%{" + strings.ToLower(v) + ".a}", "x%{" + v + ".x}y%{tx.a}", "%{" + v + "."} {
			r.runCase(caseJSON{Kind: "macro", InHex: hexOf(f), TX: [][2]string{{"a", "A1"}}, Family: "every-variable"})
		}
		r.runCase(caseJSON{Kind: "setvar", InHex: hexOf("tx.k=%{" + v + ".a}"), TX: [][2]string{{"k", "1"}}, Family: "every-variable"})
		r.runCase(caseJSON{Kind: "setvar", InHex: hexOf("tx.%{" + v + "}=+1"), Family: "every-variable"})
		for _, f := range []string{v, "&" + v, "!" + v, v + ":a", v + ":/a/", strings.ToLower(v) + "|" + v + ":'b'"} {
			r.runCase(caseJSON{Kind: "pv", InHex: hexOf(f), Family: "every-variable"})
		}
	}
	for _, o := range tabOperators {
		for _, f := range []string{"@" + o, "!@" + o + " x", "@" + o + " 1", o, "@" + strings.ToLower(o) + " a"} {
			r.runCase(caseJSON{Kind: "op", InHex: hexOf(f), Family: "every-operator"})
		}
	}
	for _, a := range tabActions {
		for _, f := range []string{a, a + ":1", a + ":'x'", "id:1," + a + ",deny," + a + ":a", strings.ToUpper(a) + ":", "deny,pass," + a + ",allow"} {
			r.runCase(caseJSON{Kind: "pa", InHex: hexOf(f), Family: "every-action"})
		}
	}
	// random
	for i := 0; i < n(400, 8000); i++ {
		r.runCase(caseJSON{Kind: "macro", InHex: hexOf(r.genMacro()), TX: r.randTX(), Family: "random"})
	}
	for i := 0; i < n(500, 10000); i++ {
		r.runCase(caseJSON{Kind: "setvar", InHex: hexOf(r.genSetvar()), TX: r.randTX(), Family: "random"})
	}
	for i := 0; i < n(150, 3000); i++ {
		r.runCase(caseJSON{Kind: "cqs", InHex: hexOf(r.genCqs()), Family: "random"})
	}
	for i := 0; i < n(300, 6000); i++ {
		r.runCase(caseJSON{Kind: "pao", InHex: hexOf(r.genPao()), Family: "random"})
	}
	for i := 0; i < n(400, 8000); i++ {
		r.runCase(caseJSON{Kind: "pa", InHex: hexOf(r.genPa()), Family: "random"})
	}
	for i := 0; i < n(250, 5000); i++ {
		r.runCase(caseJSON{Kind: "op", InHex: hexOf(r.genOp()), Family: "random"})
	}
	for i := 0; i < n(350, 7000); i++ {
		r.runCase(caseJSON{Kind: "pv", InHex: hexOf(r.genPv()), Family: "random"})
	}
	// DeleteByMsg
	msgs := []string{"a", "b", "foo bar", "A"}
	for i := 0; i < n(60, 600); i++ {
		k := r.rng.Intn(6)
		var rules []delRule
		for j := 0; j < k; j++ {
			ru := delRule{ID: 10 + j}
			switch r.rng.Intn(4) {
			case 0:
				ru.Marker = true
			case 1:
			default:
				ru.HasMsg = true
				ru.Msg = r.pick(msgs)
			}
			rules = append(rules, ru)
		}
		r.runCase(caseJSON{Kind: "del", Rules: rules, Msg: r.pick(msgs), Family: r.pick([]string{"method", "directive"})})
	}
	// b[:writingBytes]: limits over the whole int64 range
	limits := []int64{math.MinInt64, math.MinInt64 + 1, -1 << 62, -100, -8, -1, 0, 1, 2, 5, 13, 14, 100, 1 << 40, math.MaxInt64 - 1, math.MaxInt64}
	for _, lim := range limits {
		for _, buf := range []int64{0, 1, 13} {
			for _, bl := range []int64{0, 1, 7} {
				for _, partial := range []bool{true, false} {
					for _, resp := range []bool{false, true} {
						r.runCase(caseJSON{Kind: "wb", Partial: partial, Response: resp, Limit: lim, Buffered: buf, Blen: bl, Family: "grid"})
					}
				}
			}
		}
	}
	for i := 0; i < n(150, 3000); i++ {
		var lim int64
		switch r.rng.Intn(4) {
		case 0:
			lim = r.rng.Int63n(40) - 10
		case 1:
			lim = int64(r.rng.Uint64())
		case 2:
			lim = math.MinInt64 + r.rng.Int63n(40)
		default:
			lim = math.MaxInt64 - r.rng.Int63n(40)
		}
		r.runCase(caseJSON{Kind: "wb", Partial: r.rng.Intn(4) != 0, Response: r.rng.Intn(2) == 0, Limit: lim,
			Buffered: r.rng.Int63n(30), Blen: r.rng.Int63n(30), Family: "random"})
	}
	// memoize roles sharing a text
	texts := []string{"foo", "bar", "abc", "x", "re:foo", "pm:foo", "re:pm:foo", "binrx:foo", "pmf:foo", "schema:foo"}
	for i := 0; i < n(160, 2000); i++ {
		k := 2 + r.rng.Intn(4)
		var calls []memoCall
		for j := 0; j < k; j++ {
			calls = append(calls, memoCall{Site: r.rng.Intn(7), Text: r.pick(texts)})
		}
		r.runCase(caseJSON{Kind: "memo", Calls: calls, Family: "random"})
	}
}
