(* Props/C19.v — the property theorems of C19 and nothing else.
   C19: audit and error logging record exactly what happened, once, intact.
   [rel] is the relevant-status regexp (Go's regexp), a parameter of every statement. *)
From Coq Require Import Permutation.
From Verif Require Import Base Audit AuditProofs AuditJson AuditJsonProofs.

(* the coded nesting of conditions of ProcessLogging is the documented table, for every engine mode,
   rule flag, pattern configuration, status and interruption kind *)
Theorem C19_decision_table : forall (rel : bytes -> bool) c t,
  should_audit rel c t = audit_table rel c t.
Proof. exact should_audit_table. Qed.
Print Assumptions C19_decision_table.

(* the table row by row: On -> always; Off -> never; RelevantOnly with a pattern -> the status matches;
   RelevantOnly without a pattern -> a rule asked for it *)
Theorem C19_decision_rows : forall (rel : bytes -> bool) c t,
  (t_ae t = AEOn -> audit_table rel c t = true)
  /\ (t_ae t = AEOff -> audit_table rel c t = false)
  /\ (t_ae t = AERelevant -> c_pattern c = true -> audit_table rel c t = rel (status_of t))
  /\ (t_ae t = AERelevant -> c_pattern c = false -> audit_table rel c t = t_audit t).
Proof. exact audit_table_rows. Qed.
Print Assumptions C19_decision_rows.

(* the status consulted is the real interruption's, else the would-be (DetectionOnly) one's, else the
   response status *)
Theorem C19_status_source : forall t,
  (forall s, t_intr t = Some s -> status_of t = itoa s)
  /\ (forall s, t_intr t = None -> t_det t = Some s -> status_of t = itoa s)
  /\ (t_intr t = None -> t_det t = None -> status_of t = t_resp t).
Proof. exact status_of_cases. Qed.
Print Assumptions C19_status_source.

(* a finished transaction writes exactly one record when the table says so, none otherwise — for every
   configuration, rule set (any ctl:auditEngine / ruleEngine / auditLogParts inside) and connector script *)
Theorem C19_one_record_per_tx : forall (rel : bytes -> bool) c x,
  length (o_records (run_tx rel c x)) = if audit_table rel c (run_phases c x) then 1%nat else 0%nat.
Proof. exact one_record_per_tx. Qed.
Print Assumptions C19_one_record_per_tx.

(* over a sequence of transactions: the ids in the audit log are exactly the selected transactions *)
Theorem C19_log_of_transactions : forall (rel : bytes -> bool) c xs,
  map rc_id (flat_map (fun x => o_records (run_tx rel c x)) xs)
  = map x_id (filter (fun x => audit_table rel c (run_phases c x)) xs).
Proof. exact log_of_txs. Qed.
Print Assumptions C19_log_of_transactions.

(* the record carries the transaction id, the transaction's (well-formed) parts and exactly the fired
   rules that are audit-enabled, in firing order: once per matched value with part K, once per rule
   (data-less, error message only) with H and no K, nothing when neither part is asked for *)
Theorem C19_record_content : forall (rel : bytes -> bool) c x r,
  wf_parts (c_parts c) = true ->
  In r (o_records (run_tx rel c x)) ->
  let t := run_phases c x in
  rc_id r = x_id x
  /\ rc_parts r = t_parts t
  /\ wf_parts (rc_parts r) = true
  /\ (au_mem au_K (rc_parts r) = true -> map m_rule (rc_msgs r) = audit_ids_per_value (t_matched t))
  /\ (au_mem au_K (rc_parts r) = false -> au_mem au_H (rc_parts r) = true ->
        map m_rule (rc_msgs r) = audit_ids (t_matched t))
  /\ (au_mem au_K (rc_parts r) = false -> au_mem au_H (rc_parts r) = false -> rc_msgs r = []).
Proof. exact record_content. Qed.
Print Assumptions C19_record_content.

(* what "fired" means: every recorded match is a rule of the rule set, with that rule's flags, and the
   matches are an order-preserving selection of the rules phase by phase (so each rule at most once) *)
Theorem C19_fired_rules : forall c x,
  (forall f, In f (t_matched (run_phases c x)) -> exists r, In r (x_rules x) /\ f = fired_of c r)
  /\ sublist (map f_id (t_matched (run_phases c x))) (map r_id (phase_order (x_rules x)))
  /\ t_audit (run_phases c x) = existsb f_audit (t_matched (run_phases c x)).
Proof.
  intros c x. split; [intros f; apply matched_are_rules|].
  split; [apply matched_in_phase_order | apply audit_flag_of_tx].
Qed.
Print Assumptions C19_fired_rules.

(* the error callback fires for exactly the fired rules with logging enabled, in firing order, and at most
   once per rule *)
Theorem C19_error_callback_once : forall (rel : bytes -> bool) c x,
  o_cbs (run_tx rel c x) = (if c_cb c then map f_id (filter f_log (t_matched (run_phases c x))) else [])
  /\ (NoDup (map r_id (x_rules x)) -> NoDup (o_cbs (run_tx rel c x))).
Proof. intros rel c x. split; [apply callbacks_of_tx | apply callbacks_nodup]. Qed.
Print Assumptions C19_error_callback_once.

(* log / nolog / auditlog / noauditlog: the last action wins; the documented combinations *)
Theorem C19_log_flags : forall l,
  flags_of (l ++ [LLog]) = (true, true)
  /\ flags_of (l ++ [LNolog]) = (false, false)
  /\ flags_of (l ++ [LAuditlog]) = (fst (flags_of l), true)
  /\ flags_of (l ++ [LNoauditlog]) = (fst (flags_of l), false).
Proof. exact flags_last_wins. Qed.
Print Assumptions C19_log_flags.

(* native format: well-formed parts render as the A boundary with the id line, one section per part in
   order, the Z boundary last; no part twice *)
Theorem C19_native_balanced : forall pre l,
  wf_parts (al_parts l) = true ->
  exists mid,
    al_parts l = au_A :: mid ++ [au_Z]
    /\ format_native pre l
       = boundary pre au_A ++ a_line l ++ flat_map (section pre l) mid ++ boundary pre au_Z ++ [nl]
    /\ NoDup (al_parts l).
Proof. exact native_balanced. Qed.
Print Assumptions C19_native_balanced.

(* ... and a reader splitting the record on its own boundary finds exactly the parts, in order, whatever
   bytes the headers / bodies / messages hold, as long as no content line is itself a boundary line *)
Theorem C19_native_scan : forall pre l,
  nl_free pre = true ->
  (forall p, In p (al_parts l) -> (p =? nl)%N = false) ->
  (forall f, al_files l = Some f -> aligned f) ->
  (forall p, In p (al_parts l) -> clean pre (chunk l p)) ->
  scan_lines pre (format_native pre l) = al_parts l.
Proof. exact scan_format_native. Qed.
Print Assumptions C19_native_scan.

(* parts algebra: SecAuditLogParts values that parse are well-formed, the default is well-formed, an
   accepted ctl:auditLogParts leaves well-formed parts whatever the base, hence the parts of a
   transaction stay well-formed through any rule set *)
Theorem C19_parts_algebra :
  (forall s ps, parse_parts s = Some ps -> ps = s /\ wf_parts s = true)
  /\ wf_parts default_parts = true
  /\ (forall base m ps, ctl_parts base m = Some ps -> wf_parts ps = true)
  /\ (forall c x, wf_parts (c_parts c) = true -> wf_parts (t_parts (run_phases c x)) = true).
Proof.
  split; [exact parse_parts_some|]. split; [exact wf_default_parts|].
  split; [exact ctl_parts_wf | exact run_phases_wf].
Qed.
Print Assumptions C19_parts_algebra.

(* the bare types.ApplyAuditLogParts leaves A and Z implicit (its behaviour is pinned by the suite):
   well-formedness is NOT preserved by it alone; ctl.go re-attaches them (the F23 repair) *)
Theorem C19_parts_algebra_bare_refuted :
  exists base m ps, wf_parts base = true /\ apply_parts base m = Some ps /\ wf_parts ps = false.
Proof. exact apply_parts_not_wf. Qed.
Print Assumptions C19_parts_algebra_bare_refuted.

(* writers: any schedule of the atomic appends of G writers leaves a file that reads back, line by line,
   as a permutation of all the records, whole; each writer's records keep their order *)
Theorem C19_whole_records : forall (ls : list (list bytes)) out,
  interleave ls out ->
  Forall (fun r => nl_free r = true) (concat ls) ->
  Permutation (split_lines [] (file_of out)) (concat ls)
  /\ (forall l, In l ls -> sublist l out).
Proof.
  intros ls out Hi Hf. split; [apply whole_records; assumption | apply interleave_order; exact Hi].
Qed.
Print Assumptions C19_whole_records.

(* contrast: a writer that appends record and newline separately tears records under some schedule *)
Theorem C19_chunked_writer_refuted :
  exists (r1 r2 : bytes) out,
    nl_free r1 = true /\ nl_free r2 = true
    /\ interleave [chunks_of r1; chunks_of r2] out
    /\ ~ Permutation (split_lines [] (concat out)) [r1; r2].
Proof. exact chunked_writer_tears. Qed.
Print Assumptions C19_chunked_writer_refuted.

(* JSON format. encoding/json's string encoder followed by a JSON string reader gives the bytes back and
   stops exactly at the closing quote, for ARBITRARY bytes (quotes, backslashes, control characters,
   <, >, &, U+2028/9, invalid UTF-8) and whatever follows; invalid UTF-8 bytes come back as U+FFFD *)
Theorem C19_json_string_roundtrip : forall s rest,
  wf_bytes s -> js_unquote (js_string s ++ rest) = Some (js_sanitize s, rest).
Proof. exact js_roundtrip. Qed.
Print Assumptions C19_json_string_roundtrip.

(* ... and valid UTF-8 comes back unchanged *)
Theorem C19_json_string_intact : forall s rest,
  wf_bytes s -> valid_utf8 s = true -> js_unquote (js_string s ++ rest) = Some (s, rest).
Proof. exact js_roundtrip_valid. Qed.
Print Assumptions C19_json_string_intact.

(* a printed string holds no raw control byte, in particular no newline: one JSON document per line *)
Theorem C19_json_one_line : forall s, wf_bytes s -> Forall (fun x => (32 <= x)%N) (js_string s).
Proof. exact js_string_one_line. Qed.
Print Assumptions C19_json_one_line.

(* the printed record carries the transaction id as one string literal of its head, and a reader gets
   the id back from it whatever the rest of the record holds *)
Theorem C19_json_record_id : forall h middle ms,
  wf_bytes (jh_id h) ->
  json_record h middle ms = json_head_pre h ++ js_string (jh_id h) ++ (json_head_post h ++ middle ++ json_tail ms)
  /\ js_unquote (js_string (jh_id h) ++ (json_head_post h ++ middle ++ json_tail ms))
     = Some (js_sanitize (jh_id h), json_head_post h ++ middle ++ json_tail ms).
Proof. exact json_record_id. Qed.
Print Assumptions C19_json_record_id.

(* rule flow (chains, SecMarker, skip, skipAfter, allow, interruption): C19_record_content,
   C19_fired_rules and C19_error_callback_once above are stated over run_phases, whose rule loop now has
   these actions; the two statements below say what the loop never records. A rule whose chain did not
   match entirely, a SecMarker, a rule that matched nothing: no match is recorded (no callback, no audit
   flag, no message) *)
Theorem C19_flow_unrecorded : forall c p w t r,
  chain_ok r = false \/ is_some (r_marker r) = true \/ r_nmatch r = 0%nat ->
  same_log t (snd (eval_step c p (w, t) r)).
Proof. exact step_unrecorded. Qed.
Print Assumptions C19_flow_unrecorded.

(* a rule reached while skip:N is counting, while a skipAfter marker is pending, after allow left the
   loop, or after a real interruption outside the logging phase, is not evaluated at all *)
Theorem C19_flow_skipped : forall c p w t r,
  w_break w = true \/ (w_skip w <> 0)%nat \/ w_after w <> None \/ (is_some (t_intr t) = true /\ p <> 5%N) ->
  snd (eval_step c p (w, t) r) = t.
Proof. exact step_skipped. Qed.
Print Assumptions C19_flow_skipped.
