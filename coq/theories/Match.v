(* Match.v — executable model of Coraza's rule matching (property C01).

   Modelled code (read line by line):
     internal/collections/map.go      Map.Add / Set / FindAll / FindString / FindRegex
     internal/collections/named.go    NamedCollectionNames.FindAll / FindString / FindRegex
     internal/collections/concat.go   ConcatKeyed (ARGS, ARGS_NAMES) incl. replaceVariable
     internal/collections/single.go, sized.go, noop.go
     internal/corazawaf/transaction.go  Transaction.GetField, matchVariable (MATCHED_VAR only)
     internal/corazawaf/rule.go       newRuleVariableParams, AddVariable, AddVariableNegation,
                                      doEvaluate (targets, transformations, operator, negation,
                                      SecAction, chain walk, MatchRule), executeOperator,
                                      executeTransformations(Multimatch) through Transform.exec_tfs
     internal/corazawaf/rulegroup.go  RuleGroup.Eval: phase filter, configuration order
     internal/actions/setvar.go       constant  setvar:tx.k=v  of operator-less rules only

   Go's randomised map iteration is the explicit ORDER ORACLE [ord] (one permutation per
   call site and call, addressed by a path of indices).  Go's regexp engine, the lower-casing of a
   regex source text and the operators enter through the record [sem]; theorems quantify over
   every [sem], the correspondence instantiates it with [csem] (a tiny matcher on the pattern
   family ^lit$ / ^lit / lit$ / lit / . and the obvious operator semantics).

   NOT modelled here: the transformation cache (C12's subject: transformArg is modelled WITHOUT
   the cache), non-disruptive actions of SecRule links, MATCHED_VARS(_NAMES), captures, ctl
   target removal (tx.ruleRemoveTargetByID is empty), skip/skipAfter/allow/removals/interruptions
   (C02/C08/C17), multiphase evaluation and the case-sensitive-args build tag (both off by
   default).  strings.ToLower is modelled by lower_ascii: exact for ASCII names.  For names with
   other bytes (invalid UTF-8, letters whose lower-case form has another length) Go groups the
   entries under another map key, which no GROUPING-INVARIANT observable sees: the FindAll
   multisets of keyless targets, the '&' counts, ARGS_COMBINED_SIZE (sum of |original name| + |value|
   over ARGS_GET and ARGS_POST: size_of_request in MatchProofs.v) - only these are claimed and
   compared for such names; string / regex keys and exclusions are claimed for ASCII names. *)
From Coq Require Import String.
From Coq Require Import Permutation.
From Verif Require Import Base Utf8 Transform.
Open Scope N_scope.

(* ------------------------------------------------------------------------------------ *)
(* variables                                                                             *)
(* ------------------------------------------------------------------------------------ *)
Inductive var :=
  | VUnknown | VArgs | VArgsGet | VArgsPost | VArgsNames | VArgsGetNames | VArgsPostNames
  | VReqHeaders | VReqHeadersNames | VReqCookies | VReqCookiesNames | VTx
  | VReqUri | VReqMethod | VQueryString | VMatchedVar | VArgsCombinedSize
  | VMatchedVarName | VMatchedVars | VMatchedVarsNames | VFilesCombinedSize.

Definition var_code (v : var) : N :=
  match v with
  | VUnknown => 0 | VArgs => 1 | VArgsGet => 2 | VArgsPost => 3 | VArgsNames => 4
  | VArgsGetNames => 5 | VArgsPostNames => 6 | VReqHeaders => 7 | VReqHeadersNames => 8
  | VReqCookies => 9 | VReqCookiesNames => 10 | VTx => 11 | VReqUri => 12 | VReqMethod => 13
  | VQueryString => 14 | VMatchedVar => 15 | VArgsCombinedSize => 16
  | VMatchedVarName => 17 | VMatchedVars => 18 | VMatchedVarsNames => 19 | VFilesCombinedSize => 20
  end.
Definition var_eqb (a b : var) : bool := var_code a =? var_code b.

(* RuleVariable.Name() *)
Definition var_name (v : var) : bytes :=
  match v with
  | VUnknown => str "UNKNOWN"%string | VArgs => str "ARGS"%string | VArgsGet => str "ARGS_GET"%string
  | VArgsPost => str "ARGS_POST"%string | VArgsNames => str "ARGS_NAMES"%string
  | VArgsGetNames => str "ARGS_GET_NAMES"%string | VArgsPostNames => str "ARGS_POST_NAMES"%string
  | VReqHeaders => str "REQUEST_HEADERS"%string | VReqHeadersNames => str "REQUEST_HEADERS_NAMES"%string
  | VReqCookies => str "REQUEST_COOKIES"%string | VReqCookiesNames => str "REQUEST_COOKIES_NAMES"%string
  | VTx => str "TX"%string | VReqUri => str "REQUEST_URI"%string | VReqMethod => str "REQUEST_METHOD"%string
  | VQueryString => str "QUERY_STRING"%string | VMatchedVar => str "MATCHED_VAR"%string
  | VArgsCombinedSize => str "ARGS_COMBINED_SIZE"%string | VMatchedVarName => str "MATCHED_VAR_NAME"%string
  | VMatchedVars => str "MATCHED_VARS"%string | VMatchedVarsNames => str "MATCHED_VARS_NAMES"%string
  | VFilesCombinedSize => str "FILES_COMBINED_SIZE"%string
  end.
(* the variables tx.matchVariable writes *)
Definition matched_family (v : var) : bool :=
  match v with VMatchedVar | VMatchedVarName | VMatchedVars | VMatchedVarsNames => true | _ => false end.

(* rule.go caseSensitiveVariable: the ARGS family keeps selector keys / regex sources as written *)
Definition args_family (v : var) : bool :=
  match v with
  | VArgs | VArgsNames | VArgsGet | VArgsPost | VArgsGetNames | VArgsPostNames => true
  | _ => false
  end.

(* ------------------------------------------------------------------------------------ *)
(* external semantics (oracles): regex keys, operators                                   *)
(* ------------------------------------------------------------------------------------ *)
(* key-pattern family:  RxAny = "."   RxLit al ar lit = [^]lit[$]  (lit has no metacharacter);
   the two escape-class patterns check that folding a pattern's source keeps escape classes
   (before commit 45c27b9 the whole source was lower-cased: \D became \d) *)
Inductive rxpat := RxAny | RxLit (al ar : bool) (lit : bytes)
  | RxNonDigits      (* ^\D+$ *)
  | RxDigits         (* ^\d+$ *)
  | RxNonSpace.      (* ^\S+$ *)

Inductive opk := OpStreq | OpContains | OpBeginsWith | OpEndsWith | OpEq | OpGt | OpUncond | OpNoMatch.
Record op := mk_op { op_kind : opk; op_arg : bytes }.

Record sem := mk_sem {
  rxm   : rxpat -> bytes -> bool;   (* regexp.MatchString of the compiled pattern *)
  rxlow : rxpat -> rxpat;           (* the pattern whose source is lowerRegexSource(source): literal
                                       text lower-cased, escape sequences kept (commit 45c27b9) *)
  rxsrc : rxpat -> bytes;           (* source text between the slashes *)
  opev  : op -> bytes -> bool       (* Operator.Evaluate(tx, value) *)
}.

(* ------------------------------------------------------------------------------------ *)
(* Map: map[string][]keyValue, keys lower-cased, original key kept in the entry          *)
(* ------------------------------------------------------------------------------------ *)
Definition entry := (bytes * bytes)%type.            (* (original key, value) *)
Definition bucket := (bytes * list entry)%type.       (* (lower-cased key, entries in insertion order) *)
Definition gomap := list bucket.

Definition key_lower (k : bytes) : bytes := lower_ascii k.
Definition is_empty (s : bytes) : bool := match s with [] => true | _ => false end.

(* Map.Add *)
Fixpoint map_add (m : gomap) (k v : bytes) : gomap :=
  match m with
  | [] => [(key_lower k, [(k, v)])]
  | b :: r => if bytes_eqb (fst b) (key_lower k) then (fst b, snd b ++ [(k, v)]) :: r
              else b :: map_add r k v
  end.
Definition map_of_list (l : list entry) : gomap :=
  fold_left (fun m e => map_add m (fst e) (snd e)) l [].

(* Map.Set key [v] (the only form setvar uses with a constant value) *)
Fixpoint map_set1 (m : gomap) (k v : bytes) : gomap :=
  match m with
  | [] => [(key_lower k, [(k, v)])]
  | b :: r => if bytes_eqb (fst b) (key_lower k) then (fst b, [(k, v)]) :: r
              else b :: map_set1 r k v
  end.

(* c.data[key] *)
Fixpoint map_lookup (m : gomap) (lk : bytes) : list entry :=
  match m with
  | [] => []
  | b :: r => if bytes_eqb (fst b) lk then snd b else map_lookup r lk
  end.

Definition flat_entries (m : gomap) : list entry := flat_map snd m.

(* ------------------------------------------------------------------------------------ *)
(* transaction state (the collections rules read)                                        *)
(* ------------------------------------------------------------------------------------ *)
Inductive mapid := MGet | MPost | MPath | MHdr | MCookie | MTx | MMvars.
Inductive sid := SUri | SMethod | SQuery | SMvar | SMvarName.

(* an exclusion as GetField tests it: ruleVariableException{KeyStr, KeyRx} *)
Record cexc := mk_cexc { x_keystr : bytes; x_keyrx : option rxpat }.
(* tx.ruleRemoveTargetByID: exclusions added at run time by ctl:ruleRemoveTargetById/ByTag/ByMsg for
   the rules with lo <= id <= hi, on one variable *)
Record rtexc := mk_rtexc { rx_lo : N; rx_hi : N; rx_var : var; rx_exc : cexc }.

Record state := mk_state {
  s_get : gomap; s_post : gomap; s_path : gomap; s_hdr : gomap; s_cookie : gomap; s_tx : gomap;
  s_mvars : gomap;                       (* MATCHED_VARS (its names view is MATCHED_VARS_NAMES) *)
  s_uri : bytes; s_method : bytes; s_query : bytes;
  s_mvar : bytes; s_mvarname : bytes;    (* MATCHED_VAR, MATCHED_VAR_NAME *)
  s_excl : list rtexc;                   (* tx.ruleRemoveTargetByID *)
  s_rid : N                              (* id of the rule being evaluated (chain links: the parent's) *)
}.

Definition get_map (st : state) (i : mapid) : gomap :=
  match i with
  | MGet => s_get st | MPost => s_post st | MPath => s_path st
  | MHdr => s_hdr st | MCookie => s_cookie st | MTx => s_tx st | MMvars => s_mvars st
  end.
Definition get_single (st : state) (i : sid) : bytes :=
  match i with SUri => s_uri st | SMethod => s_method st | SQuery => s_query st | SMvar => s_mvar st
  | SMvarName => s_mvarname st end.

Definition set_mvar (st : state) (x : bytes) : state :=
  mk_state (s_get st) (s_post st) (s_path st) (s_hdr st) (s_cookie st) (s_tx st) (s_mvars st)
           (s_uri st) (s_method st) (s_query st) x (s_mvarname st) (s_excl st) (s_rid st).
Definition set_mvarname (st : state) (x : bytes) : state :=
  mk_state (s_get st) (s_post st) (s_path st) (s_hdr st) (s_cookie st) (s_tx st) (s_mvars st)
           (s_uri st) (s_method st) (s_query st) (s_mvar st) x (s_excl st) (s_rid st).
Definition set_mvars (st : state) (m : gomap) : state :=
  mk_state (s_get st) (s_post st) (s_path st) (s_hdr st) (s_cookie st) (s_tx st) m
           (s_uri st) (s_method st) (s_query st) (s_mvar st) (s_mvarname st) (s_excl st) (s_rid st).
Definition set_tx (st : state) (m : gomap) : state :=
  mk_state (s_get st) (s_post st) (s_path st) (s_hdr st) (s_cookie st) m (s_mvars st)
           (s_uri st) (s_method st) (s_query st) (s_mvar st) (s_mvarname st) (s_excl st) (s_rid st).
Definition set_post (st : state) (m : gomap) : state :=
  mk_state (s_get st) m (s_path st) (s_hdr st) (s_cookie st) (s_tx st) (s_mvars st)
           (s_uri st) (s_method st) (s_query st) (s_mvar st) (s_mvarname st) (s_excl st) (s_rid st).
Definition set_excl (st : state) (l : list rtexc) : state :=
  mk_state (s_get st) (s_post st) (s_path st) (s_hdr st) (s_cookie st) (s_tx st) (s_mvars st)
           (s_uri st) (s_method st) (s_query st) (s_mvar st) (s_mvarname st) l (s_rid st).
Definition set_rid (st : state) (id : N) : state :=
  mk_state (s_get st) (s_post st) (s_path st) (s_hdr st) (s_cookie st) (s_tx st) (s_mvars st)
           (s_uri st) (s_method st) (s_query st) (s_mvar st) (s_mvarname st) (s_excl st) id.

(* what a variable is made of (NewTransactionVariables):
   keyed = concatenation of (names-view?, underlying map); single; sized; noop *)
Inductive shape :=
  | ShKeyed (parts : list (bool * mapid))
  | ShSingle (f : sid)
  | ShSized (ms : list mapid)
  | ShConst (v : bytes)
  | ShNoop.

Definition var_shape (v : var) : shape :=
  match v with
  | VUnknown => ShNoop
  | VArgs => ShKeyed [(false, MGet); (false, MPost); (false, MPath)]
  | VArgsGet => ShKeyed [(false, MGet)]
  | VArgsPost => ShKeyed [(false, MPost)]
  | VArgsNames => ShKeyed [(true, MGet); (true, MPost); (true, MPath)]
  | VArgsGetNames => ShKeyed [(true, MGet)]
  | VArgsPostNames => ShKeyed [(true, MPost)]
  | VReqHeaders => ShKeyed [(false, MHdr)]
  | VReqHeadersNames => ShKeyed [(true, MHdr)]
  | VReqCookies => ShKeyed [(false, MCookie)]
  | VReqCookiesNames => ShKeyed [(true, MCookie)]
  | VTx => ShKeyed [(false, MTx)]
  | VReqUri => ShSingle SUri
  | VReqMethod => ShSingle SMethod
  | VQueryString => ShSingle SQuery
  | VMatchedVar => ShSingle SMvar
  | VArgsCombinedSize => ShSized [MGet; MPost]
  | VMatchedVarName => ShSingle SMvarName
  | VMatchedVars => ShKeyed [(false, MMvars)]
  | VMatchedVarsNames => ShKeyed [(true, MMvars)]
  (* a Single that NewTransaction sets to "0"; only a multipart body changes it (not modelled) *)
  | VFilesCombinedSize => ShConst [48]
  end.

(* the Go objects: a keyed collection is a list of leaves (a plain Map / NamedCollection is the
   one-leaf case: ConcatKeyed over one leaf only re-writes Variable_ with the same variable) *)
Inductive leaf := LMap (m : gomap) | LNames (m : gomap).
Inductive coll := CKeyed (ls : list leaf) | CSingle (v : bytes) | CSized (ms : list gomap) | CNoop.

Definition collection (st : state) (v : var) : coll :=
  match var_shape v with
  | ShKeyed parts => CKeyed (map (fun p : bool * mapid => if fst p then LNames (get_map st (snd p)) else LMap (get_map st (snd p))) parts)
  | ShSingle f => CSingle (get_single st f)
  | ShSized ms => CSized (map (get_map st) ms)
  | ShConst v => CSingle v
  | ShNoop => CNoop
  end.

(* ------------------------------------------------------------------------------------ *)
(* order oracle                                                                          *)
(* ------------------------------------------------------------------------------------ *)
Definition oracle := list nat -> gomap -> gomap.
Definition sub (ord : oracle) (i : nat) : oracle := fun p => ord (i :: p).
Definition ord_id : oracle := fun _ m => m.

(* ------------------------------------------------------------------------------------ *)
(* Find* of the collections                                                              *)
(* ------------------------------------------------------------------------------------ *)
Definition names_view (es : list entry) : list entry := map (fun e => (fst e, fst e)) es.
Definition leaf_map (l : leaf) : gomap := match l with LMap m => m | LNames m => m end.
Definition leaf_view (l : leaf) (es : list entry) : list entry :=
  match l with LMap _ => es | LNames _ => names_view es end.

(* FindAll: range over c.data *)
Definition leaf_find_all (o : gomap -> gomap) (l : leaf) : list entry :=
  leaf_view l (flat_entries (o (leaf_map l))).
(* FindRegex: range over c.data, key.MatchString(k) on the stored (lower-cased) key *)
Definition leaf_find_regex (X : sem) (r : rxpat) (o : gomap -> gomap) (l : leaf) : list entry :=
  leaf_view l (flat_entries (filter (fun b => rxm X r (fst b)) (o (leaf_map l)))).
(* FindString: Map: "" means FindAll; key lower-cased (case-insensitive maps); one bucket.
   NamedCollectionNames: key lower-cased (commit 1583cb7), one bucket *)
Definition leaf_find_string (k : bytes) (o : gomap -> gomap) (l : leaf) : list entry :=
  match l with
  | LMap m => if is_empty k then leaf_find_all o l else map_lookup m (key_lower k)
  | LNames m => names_view (map_lookup m (key_lower k))
  end.

(* ConcatKeyed: the leaves in order, each with its own map iteration *)
Fixpoint concat_find (f : (gomap -> gomap) -> leaf -> list entry) (ord : oracle) (i : nat) (ls : list leaf) : list entry :=
  match ls with
  | [] => []
  | l :: r => f (ord [i]) l ++ concat_find f ord (S i) r
  end.

Definition entry_size (e : entry) : N := N.of_nat (length (fst e) + length (snd e)).
Definition maps_size (ms : list gomap) : N :=
  fold_right N.add 0 (map entry_size (flat_map flat_entries ms)).

Definition find_all (ord : oracle) (c : coll) : list entry :=
  match c with
  | CKeyed ls => concat_find leaf_find_all ord 0 ls
  | CSingle v => [([], v)]
  | CSized ms => [([], itoa (maps_size ms))]
  | CNoop => []
  end.

(* ------------------------------------------------------------------------------------ *)
(* targets: raw (as written in the rule) and compiled (ruleVariableParams)               *)
(* ------------------------------------------------------------------------------------ *)
Inductive sel := SelAll | SelStr (k : bytes) | SelRx (p : rxpat).
Inductive titem := TPos (count : bool) (v : var) (s : sel) | TNeg (v : var) (s : sel).

Record cparams := mk_cparams {
  c_count : bool; c_var : var; c_keystr : bytes; c_keyrx : option rxpat; c_excs : list cexc }.

(* the key text rule_parser hands to AddVariable / AddVariableNegation *)
Definition sel_text (X : sem) (s : sel) : bytes :=
  match s with SelAll => [] | SelStr k => k | SelRx p => 47 :: rxsrc X p ++ [47] end.
(* hasRegex + (unless ARGS family) lowerRegexSource(rx) + regexp.Compile *)
Definition sel_rx (X : sem) (v : var) (s : sel) : option rxpat :=
  match s with SelRx p => Some (if args_family v then p else rxlow X p) | _ => None end.

(* newRuleVariableParams *)
Definition new_params (X : sem) (count : bool) (v : var) (s : sel) : cparams :=
  mk_cparams count v (if args_family v then sel_text X s else key_lower (sel_text X s)) (sel_rx X v s) [].
(* ruleVariableException{key, re}: the key text is stored as written *)
Definition new_exc (X : sem) (v : var) (s : sel) : cexc := mk_cexc (sel_text X s) (sel_rx X v s).

(* AddVariableNegation: appended to every variable of the same name added so far *)
Definition add_neg (X : sem) (v : var) (s : sel) (ps : list cparams) : list cparams :=
  map (fun p => if var_eqb (c_var p) v
                then mk_cparams (c_count p) (c_var p) (c_keystr p) (c_keyrx p) (c_excs p ++ [new_exc X v s])
                else p) ps.

(* ParseVariables: left to right *)
Fixpoint compile_items (X : sem) (items : list titem) (acc : list cparams) : list cparams :=
  match items with
  | [] => acc
  | TPos c v s :: r => compile_items X r (acc ++ [new_params X c v s])
  | TNeg v s :: r => compile_items X r (add_neg X v s acc)
  end.

(* ------------------------------------------------------------------------------------ *)
(* GetField                                                                              *)
(* ------------------------------------------------------------------------------------ *)
Definition mdata := (var * bytes * bytes)%type.     (* Variable, Key, Value *)
Definition md_value (m : mdata) : bytes := snd m.

Definition exc_hits (X : sem) (x : cexc) (lkey : bytes) : bool :=
  match x_keyrx x with Some r => rxm X r lkey | None => false end
  || bytes_eqb (key_lower (x_keystr x)) lkey
  || (is_empty (x_keystr x) && match x_keyrx x with None => true | Some _ => false end).
Definition is_exception (X : sem) (excs : list cexc) (lkey : bytes) : bool := existsb (fun x => exc_hits X x lkey) excs.

Definition field_matches (X : sem) (ord : oracle) (col : coll) (c : cparams) : list entry :=
  match c_keyrx c with
  | Some r => match col with CKeyed ls => concat_find (leaf_find_regex X r) ord 0 ls | _ => [] end
  | None =>
    if is_empty (c_keystr c) then find_all ord col
    else match col with CKeyed ls => concat_find (leaf_find_string (c_keystr c)) ord 0 ls | _ => [] end
  end.

(* doEvaluate: for _, c := range tx.ruleRemoveTargetByID[rid] { if c.Variable == v.Variable { v.Exceptions = append(...) } } *)
Definition rt_excs (st : state) (v : var) : list cexc :=
  map rx_exc (filter (fun e => (rx_lo e <=? s_rid st) && (s_rid st <=? rx_hi e) && var_eqb (rx_var e) v) (s_excl st)).
Definition with_rt (st : state) (c : cparams) : cparams :=
  mk_cparams (c_count c) (c_var c) (c_keystr c) (c_keyrx c) (c_excs c ++ rt_excs st (c_var c)).

Definition get_field (X : sem) (ord : oracle) (st : state) (c : cparams) : list mdata :=
  let matches := field_matches X ord (collection st (c_var c)) c in
  let filtered := filter (fun e => negb (is_exception X (c_excs c) (key_lower (fst e)))) matches in
  if c_count c then [(c_var c, c_keystr c, itoa (N.of_nat (length filtered)))]
  else map (fun e => (c_var c, fst e, snd e)) filtered.

(* ------------------------------------------------------------------------------------ *)
(* rules                                                                                 *)
(* ------------------------------------------------------------------------------------ *)
(* non-disruptive actions of operator-less rules: constant setvar:tx.k=v;
   ctl:ruleRemoveTargetById=lo-hi;VAR[:key|:/rx/]  (ByTag / ByMsg resolve to ids the same way) *)
Inductive action :=
  | ASetvar (k v : bytes)
  | ACtlRmTarget (lo hi : N) (v : var) (s : sel).

Inductive lkind :=
  | LAction (acts : list action)                 (* operator-less: SecAction *)
  | LRule (neg : bool) (o : op).

Record link := mk_link { l_items : list titem; l_kind : lkind; l_tfs : list tid; l_multi : bool }.
Record rule := mk_rule { r_id : N; r_phase : N; r_head : link; r_chain : list link }.

(* transformArg (cache-free) / transformMultiMatchArg *)
Definition transform_values (l : link) (v : bytes) : list bytes :=
  if l_multi l then multimatch_values (l_tfs l) v else [fst (exec_tfs (l_tfs l) v)].

(* executeOperator *)
Definition exec_operator (X : sem) (neg : bool) (o : op) (v : bytes) : bool := xorb (opev X o v) neg.

(* the inner loops of doEvaluate for one value of one variable *)
Definition satisfying (X : sem) (l : link) (neg : bool) (o : op) (md : mdata) : list mdata :=
  map (fun cv => (fst md, cv)) (filter (exec_operator X neg o) (transform_values l (md_value md))).

(* transaction.go matchVariable, run for EVERY match as soon as it is found:
   MATCHED_VARS.Add(name, value); MATCHED_VAR := value; MATCHED_VAR_NAME := name
   where name = VARIABLE or VARIABLE:key *)
Definition md_name (m : mdata) : bytes :=
  let '(v, k, _) := m in if is_empty k then var_name v else var_name v ++ 58 :: k.
Definition match_variable (st : state) (m : mdata) : state :=
  set_mvarname (set_mvar (set_mvars st (map_add (s_mvars st) (md_name m) (md_value m))) (md_value m)) (md_name m).

(* the loop over r.variables: tx.GetField(v) is called when variable v is reached, i.e. AFTER the
   matches of the earlier variables of the same link have updated MATCHED_VAR / _NAME / MATCHED_VARS *)
Definition target_matches (X : sem) (o : oracle) (st : state) (l : link) (neg : bool) (op0 : op) (c : cparams) : list mdata :=
  flat_map (satisfying X l neg op0) (get_field X o st (with_rt st c)).
Definition target_post (X : sem) (o : oracle) (st : state) (l : link) (neg : bool) (op0 : op) (c : cparams) : state :=
  fold_left match_variable (target_matches X o st l neg op0 c) st.

Fixpoint eval_targets (X : sem) (ord : oracle) (st : state) (l : link) (neg : bool) (o : op)
         (i : nat) (cs : list cparams) : list mdata * state :=
  match cs with
  | [] => ([], st)
  | c :: r =>
    let ms := target_matches X (sub ord i) st l neg o c in
    let p := eval_targets X ord (fold_left match_variable ms st) l neg o (S i) r in
    (ms ++ fst p, snd p)
  end.

(* setvar.go with a constant, non-arithmetic value: key lower-cased, col.Set(key, [value]) *)
Definition apply_setvar (st : state) (kv : bytes * bytes) : state :=
  set_tx st (map_set1 (s_tx st) (key_lower (fst kv)) (snd kv)).

(* actions/ctl.go parseCtl: a regex key is compiled AS WRITTEN (no case folding) and the string key
   is blanked; a string key is lower-cased; no key: the whole collection.
   transaction.go RemoveRuleTargetByID appends to tx.ruleRemoveTargetByID *)
Definition ctl_exc (s : sel) : cexc :=
  match s with
  | SelAll => mk_cexc [] None
  | SelStr k => mk_cexc (key_lower k) None
  | SelRx p => mk_cexc [] (Some p)
  end.
Definition apply_action (st : state) (a : action) : state :=
  match a with
  | ASetvar k v => apply_setvar st (k, v)
  | ACtlRmTarget lo hi v s => set_excl st (s_excl st ++ [mk_rtexc lo hi v (ctl_exc s)])
  end.

Definition unknown_md : mdata := (VUnknown, [], []).

(* one link: its matches and the state it leaves.  An operator-less rule matches the empty
   MatchData (matchVariable runs for it too) and then runs its setvar actions *)
Definition link_eval (X : sem) (ord : oracle) (st : state) (l : link) : list mdata * state :=
  match l_kind l with
  | LAction acts => ([unknown_md], fold_left apply_action acts (match_variable st unknown_md))
  | LRule neg o => eval_targets X ord st l neg o 0 (compile_items X (l_items l) [])
  end.
Definition link_matches (X : sem) (ord : oracle) (st : state) (l : link) : list mdata := fst (link_eval X ord st l).
Definition link_post (X : sem) (ord : oracle) (st : state) (l : link) : state := snd (link_eval X ord st l).

Definition tag (lvl : nat) (ms : list mdata) : list (mdata * nat) := map (fun m => (m, lvl)) ms.

Definition is_nil {A} (l : list A) : bool := match l with [] => true | _ => false end.

(* doEvaluate at chain level lvl, then the chain walk (a failing link ends the walk) *)
Fixpoint eval_chain (X : sem) (ord : oracle) (st : state) (lvl : nat) (ls : list link)
  : option (list (mdata * nat)) * state :=
  match ls with
  | [] => (Some [], st)
  | l :: r =>
    let p := link_eval X (sub ord lvl) st l in
    let ms := fst p in
    let st' := snd p in
    if is_nil ms then (None, st')
    else match eval_chain X ord st' (S lvl) r with
         | (Some rest, st'') => (Some (tag lvl ms ++ rest), st'')
         | (None, st'') => (None, st'')
         end
  end.

Definition rule_links (r : rule) : list link := r_head r :: r_chain r.
Definition eval_rule (X : sem) (ord : oracle) (st : state) (r : rule) := eval_chain X ord st 0 (rule_links r).
Definition rule_fires (X : sem) (ord : oracle) (st : state) (r : rule) : bool :=
  match fst (eval_rule X ord st r) with Some _ => true | None => false end.

(* RuleGroup.Eval: r.Phase_ != 0 && r.Phase_ != phase -> continue; MatchRule when ID_ != 0 *)
Definition in_phase (ph : N) (r : rule) : bool := (r_phase r =? 0) || (r_phase r =? ph).
Definition fired := (N * list (mdata * nat))%type.

(* before a rule is evaluated: MATCHED_VARS is reset; rid := the rule's id *)
Definition rule_start (st : state) (r : rule) : state := set_rid (set_mvars st []) (r_id r).

Fixpoint eval_rules (X : sem) (ord : oracle) (st : state) (ph : N) (i : nat) (rules : list rule)
  : list fired * state :=
  match rules with
  | [] => ([], st)
  | r :: rest =>
    if in_phase ph r then
      (* tx.variables.matchedVars.Reset() before every evaluated rule *)
      let '(res, st') := eval_rule X (sub ord i) (rule_start st r) r in
      let '(out, st'') := eval_rules X ord st' ph (S i) rest in
      (match res with
       | Some mds => if r_id r =? 0 then out else (r_id r, mds) :: out
       | None => out
       end, st'')
    else eval_rules X ord st ph (S i) rest
  end.

(* ---- a transaction: request data, phase 1 (headers; ARGS_POST still empty), phase 2 ---- *)
Record request := mk_request {
  q_get : list entry; q_post : list entry; q_hdr : list entry; q_cookie : list entry;
  q_uri : bytes; q_method : bytes; q_query : bytes }.

(* waf.go NewTransaction: TX.0 .. TX.10 are created empty ("set capture variables", i <= 10) *)
Definition tx_init : list entry := map (fun n => (itoa n, [])) [0; 1; 2; 3; 4; 5; 6; 7; 8; 9; 10].

Definition build1 (q : request) : state :=
  mk_state (map_of_list (q_get q)) [] [] (map_of_list (q_hdr q)) (map_of_list (q_cookie q)) (map_of_list tx_init) []
           (q_uri q) (q_method q) (q_query q) [] [] [] 0.

Definition run_tx (X : sem) (ord : oracle) (q : request) (rules : list rule) : list fired :=
  let '(o1, st1) := eval_rules X (sub ord 1) (build1 q) 1 0 rules in
  let st2 := set_post st1 (map_of_list (q_post q)) in
  let '(o2, _) := eval_rules X (sub ord 2) st2 2 0 rules in
  o1 ++ o2.

(* SecRuleRemoveById ID|RANGE ...: RuleGroup.DeleteByID (the first rule with that id; the tail is
   shifted: order kept) / DeleteByRange *)
Inductive removal := RmId (id : N) | RmRange (lo hi : N).
Fixpoint delete_by_id (id : N) (rules : list rule) : list rule :=
  match rules with
  | [] => []
  | r :: rest => if r_id r =? id then rest else r :: delete_by_id id rest
  end.
Definition apply_removal (rules : list rule) (rm : removal) : list rule :=
  match rm with
  | RmId id => delete_by_id id rules
  | RmRange lo hi => filter (fun r => (r_id r <? lo) || (hi <? r_id r)) rules
  end.
Definition remove_rules (rms : list removal) (rules : list rule) : list rule := fold_left apply_removal rms rules.

(* ------------------------------------------------------------------------------------ *)
(* the concrete semantics used by the correspondence                                     *)
(* ------------------------------------------------------------------------------------ *)
Definition rx_space (c : N) : bool := (c =? 9) || (c =? 10) || (c =? 12) || (c =? 13) || (c =? 32).   (* \s *)
Definition rx_small (p : rxpat) (k : bytes) : bool :=
  match p with
  | RxAny => existsb (fun c => negb (c =? 10)) k
  | RxLit al ar lit =>
    if al then (if ar then bytes_eqb lit k else is_prefix lit k)
    else (if ar then is_suffix lit k else is_substring lit k)
  | RxNonDigits => negb (is_empty k) && forallb (fun c => negb (in_rng 48 57 c)) k
  | RxDigits => negb (is_empty k) && forallb (fun c => in_rng 48 57 c) k
  | RxNonSpace => negb (is_empty k) && forallb (fun c => negb (rx_space c)) k
  end.
Definition rx_small_low (p : rxpat) : rxpat :=
  match p with
  | RxAny => RxAny
  | RxLit al ar lit => RxLit al ar (lower_ascii lit)
  | RxNonDigits => RxNonDigits   (* lowerRegexSource copies escape sequences as written (45c27b9) *)
  | RxDigits => RxDigits
  | RxNonSpace => RxNonSpace
  end.
Definition rx_small_src (p : rxpat) : bytes :=
  match p with
  | RxAny => [46]
  | RxLit al ar lit => (if al then [94] else []) ++ lit ++ (if ar then [36] else [])
  | RxNonDigits => [94; 92; 68; 43; 36]
  | RxDigits => [94; 92; 100; 43; 36]
  | RxNonSpace => [94; 92; 83; 43; 36]
  end.

(* strconv.Atoi with the error dropped.  ParseUint scans left to right and stops at the FIRST of:
   a non-digit (syntax error: result 0) or the accumulated value exceeding 2^64-1 (range error:
   the clamped value - whatever follows is not looked at).  A value that fits 64 bits is then
   clamped to the int64 range by ParseInt. *)
Open Scope Z_scope.
Fixpoint scan_uint (s : bytes) (acc : Z) : option Z :=
  match s with
  | [] => Some acc
  | c :: r => if in_rng 48 57 c
              then let acc' := acc * 10 + Z.of_N (c - 48)%N in
                   if acc' >? 18446744073709551615 then Some acc' else scan_uint r acc'
              else None
  end.
Definition atoi_go (s : bytes) : Z :=
  let '(negv, ds) := match s with
                     | c :: r => if (c =? 43)%N then (false, r) else if (c =? 45)%N then (true, r) else (false, s)
                     | [] => (false, s)
                     end in
  match ds with
  | [] => 0
  | _ => match scan_uint ds 0 with
         | None => 0
         | Some v => if negv then (if v >? 9223372036854775808 then -9223372036854775808 else - v)
                     else (if v >? 9223372036854775807 then 9223372036854775807 else v)
         end
  end.
Open Scope N_scope.

Definition op_small (o : op) (v : bytes) : bool :=
  match op_kind o with
  | OpStreq => bytes_eqb (op_arg o) v
  | OpContains => is_substring (op_arg o) v
  | OpBeginsWith => is_prefix (op_arg o) v
  | OpEndsWith => is_suffix (op_arg o) v
  | OpEq => Z.eqb (atoi_go (op_arg o)) (atoi_go v)
  | OpGt => Z.ltb (atoi_go (op_arg o)) (atoi_go v)
  | OpUncond => true
  | OpNoMatch => false
  end.

Definition csem : sem := mk_sem rx_small rx_small_low rx_small_src op_small.

(* ------------------------------------------------------------------------------------ *)
(* the DECLARATIVE specification                                                         *)
(* ------------------------------------------------------------------------------------ *)
(* the entries of a variable: the (key, value) pairs it consists of *)
Definition view (names : bool) (es : list entry) : list entry := if names then names_view es else es.
Definition spec_entries (st : state) (v : var) : list entry :=
  match var_shape v with
  | ShKeyed parts => flat_map (fun p : bool * mapid => view (fst p) (flat_entries (get_map st (snd p)))) parts
  | ShSingle f => [([], get_single st f)]
  | ShSized ms => [([], itoa (maps_size (map (get_map st) ms)))]
  | ShConst v => [([], v)]
  | ShNoop => []
  end.
Definition selectable (v : var) : bool := match var_shape v with ShKeyed _ => true | _ => false end.

(* a raw target: one positive item with the negations that apply to it *)
Record rtarget := mk_rtarget { rt_count : bool; rt_var : var; rt_sel : sel; rt_negs : list sel }.

(* "a negation applies to every earlier target of the same variable" *)
Fixpoint negs_for (v : var) (items : list titem) : list sel :=
  match items with
  | [] => []
  | TPos _ _ _ :: r => negs_for v r
  | TNeg v' s :: r => if var_eqb v v' then s :: negs_for v r else negs_for v r
  end.
Fixpoint targets_of_items (items : list titem) : list rtarget :=
  match items with
  | [] => []
  | TPos c v s :: r => mk_rtarget c v s (negs_for v r) :: targets_of_items r
  | TNeg _ _ :: r => targets_of_items r
  end.

Definition compile_target (X : sem) (t : rtarget) : cparams :=
  mk_cparams (rt_count t) (rt_var t)
             (if args_family (rt_var t) then sel_text X (rt_sel t) else key_lower (sel_text X (rt_sel t)))
             (sel_rx X (rt_var t) (rt_sel t))
             (map (new_exc X (rt_var t)) (rt_negs t)).

(* the pattern the engine applies for a regex key of variable v (as coded: F24b - not folded for
   the ARGS family although the keys it is applied to are lower-cased) *)
Definition eff_rx (X : sem) (v : var) (p : rxpat) : rxpat := if args_family v then p else rxlow X p.

(* does the selector accept this key?  string keys: case-insensitive equality; no key: everything;
   regex keys: the effective pattern on the case-folded key; a selector on a non-keyed
   collection selects nothing *)
Definition sel_accepts (X : sem) (v : var) (s : sel) (key : bytes) : bool :=
  match s with
  | SelAll => true
  | SelStr k => if is_empty k then true else selectable v && bytes_eqb (key_lower k) (key_lower key)
  | SelRx p => selectable v && rxm X (eff_rx X v p) (key_lower key)
  end.
(* does the exclusion remove this key?  (the last disjunct is a quirk of the code: the text
   "/src/" of a regex exclusion is also compared as a plain key) *)
Definition neg_accepts (X : sem) (v : var) (s : sel) (key : bytes) : bool :=
  match s with
  | SelAll => true
  | SelStr k => if is_empty k then true else bytes_eqb (key_lower k) (key_lower key)
  | SelRx p => rxm X (eff_rx X v p) (key_lower key)
               || bytes_eqb (key_lower (47 :: rxsrc X p ++ [47])) (key_lower key)
  end.

Definition spec_selected (X : sem) (st : state) (t : rtarget) : list entry :=
  filter (fun e => sel_accepts X (rt_var t) (rt_sel t) (fst e)
                   && negb (existsb (fun n => neg_accepts X (rt_var t) n (fst e)) (rt_negs t)))
         (spec_entries st (rt_var t)).

Definition spec_selects (X : sem) (st : state) (t : rtarget) : list mdata :=
  if rt_count t
  then [(rt_var t, c_keystr (compile_target X t), itoa (N.of_nat (length (spec_selected X st t))))]
  else map (fun e => (rt_var t, fst e, snd e)) (spec_selected X st t).

(* with the exclusions added at run time (ctl) for the rule being evaluated: an entry is also
   removed when one of them hits its folded key (regex on the key, or the stored string equal to
   it, or neither given = the whole collection) *)
Definition rt_excluded (X : sem) (st : state) (v : var) (key : bytes) : bool :=
  existsb (fun x => exc_hits X x (key_lower key)) (rt_excs st v).
Definition spec_selected_rt (X : sem) (st : state) (t : rtarget) : list entry :=
  filter (fun e => negb (rt_excluded X st (rt_var t) (fst e))) (spec_selected X st t).
Definition spec_selects_rt (X : sem) (st : state) (t : rtarget) : list mdata :=
  if rt_count t
  then [(rt_var t, c_keystr (compile_target X t), itoa (N.of_nat (length (spec_selected_rt X st t))))]
  else map (fun e => (rt_var t, fst e, snd e)) (spec_selected_rt X st t).

(* match data of one link, EXACT: the satisfying (variable, key, transformed value) triples of
   every target, each target selected in the state the earlier targets of the link left
   (MATCHED_VAR / MATCHED_VAR_NAME / MATCHED_VARS move with every match) *)
Fixpoint spec_targets (X : sem) (ord : oracle) (st : state) (l : link) (neg : bool) (o : op)
         (i : nat) (ts : list rtarget) : list mdata :=
  match ts with
  | [] => []
  | t :: r => flat_map (satisfying X l neg o) (spec_selects_rt X st t)
              ++ spec_targets X ord (target_post X (sub ord i) st l neg o (compile_target X t)) l neg o (S i) r
  end.
Definition spec_link_matches_t (X : sem) (ord : oracle) (st : state) (l : link) : list mdata :=
  match l_kind l with
  | LAction _ => [unknown_md]
  | LRule neg o => spec_targets X ord st l neg o 0 (targets_of_items (l_items l))
  end.
Definition link_holds_t (X : sem) (ord : oracle) (st : state) (l : link) : Prop :=
  match l_kind l with
  | LAction _ => True
  | LRule _ _ => exists md, In md (spec_link_matches_t X ord st l)
  end.

(* the same for a link that reads none of the MATCHED_* variables: every target selected in the
   state before the link - no order oracle, no threading (= spec_link_matches_t, proved) *)
Definition spec_link_matches_rt (X : sem) (st : state) (l : link) : list mdata :=
  match l_kind l with
  | LAction _ => [(VUnknown, [], [])]
  | LRule neg o => flat_map (fun t => flat_map (satisfying X l neg o) (spec_selects_rt X st t))
                            (targets_of_items (l_items l))
  end.
Definition link_holds_rt (X : sem) (st : state) (l : link) : Prop :=
  match l_kind l with
  | LAction _ => True
  | LRule neg o =>
    exists t md cv, In t (targets_of_items (l_items l)) /\ In md (spec_selects_rt X st t)
                    /\ In cv (transform_values l (md_value md)) /\ xorb (opev X o cv) neg = true
  end.
(* ... and, when no run-time exclusion applies to the rule being evaluated, the plain versions: *)
Definition spec_link_matches (X : sem) (st : state) (l : link) : list mdata :=
  match l_kind l with
  | LAction _ => [(VUnknown, [], [])]
  | LRule neg o => flat_map (fun t => flat_map (satisfying X l neg o) (spec_selects X st t))
                            (targets_of_items (l_items l))
  end.

(* a link holds: some selected value satisfies the operator after the transformations, xor '!' *)
Definition link_holds (X : sem) (st : state) (l : link) : Prop :=
  match l_kind l with
  | LAction _ => True
  | LRule neg o =>
    exists t md cv, In t (targets_of_items (l_items l)) /\ In md (spec_selects X st t)
                    /\ In cv (transform_values l (md_value md)) /\ xorb (opev X o cv) neg = true
  end.

(* a chain holds: every link holds, in order, each against the state its predecessor left *)
Fixpoint chain_holds (X : sem) (ord : oracle) (st : state) (lvl : nat) (ls : list link) : Prop :=
  match ls with
  | [] => True
  | l :: r => link_holds_t X (sub ord lvl) st l /\ chain_holds X ord (link_post X (sub ord lvl) st l) (S lvl) r
  end.

Fixpoint spec_chain_data (X : sem) (ord : oracle) (st : state) (lvl : nat) (ls : list link) : list (mdata * nat) :=
  match ls with
  | [] => []
  | l :: r => tag lvl (spec_link_matches_t X (sub ord lvl) st l)
              ++ spec_chain_data X ord (link_post X (sub ord lvl) st l) (S lvl) r
  end.

(* which variables a link reads *)
Definition item_var (i : titem) : var := match i with TPos _ v _ => v | TNeg v _ => v end.
(* does the link read one of the variables matchVariable writes (MATCHED_VAR, MATCHED_VAR_NAME,
   MATCHED_VARS, MATCHED_VARS_NAMES)? *)
Definition reads_mvar (l : link) : bool :=
  existsb (fun t => matched_family (rt_var t)) (targets_of_items (l_items l)).
Definition is_action (l : link) : bool := match l_kind l with LAction _ => true | LRule _ _ => false end.

(* well-formed maps: every entry sits in the bucket of its lower-cased key; bucket keys distinct *)
Definition bucket_ok (b : bucket) : Prop := Forall (fun e => key_lower (fst e) = fst b) (snd b).
Definition wf_map (m : gomap) : Prop := Forall bucket_ok m /\ NoDup (map fst m).
Definition wf_state (st : state) : Prop := forall i, wf_map (get_map st i).

Definition ok_oracle (ord : oracle) : Prop := forall p m, Permutation (ord p m) m.

(* the ids a phase reports: exactly the in-phase rules (non-zero id) that fire in the state their
   predecessors left, in configuration order *)
Fixpoint spec_fired (X : sem) (ord : oracle) (st : state) (ph : N) (i : nat) (rules : list rule) : list N :=
  match rules with
  | [] => []
  | r :: rest =>
    let st' := if in_phase ph r then snd (eval_rule X (sub ord i) (rule_start st r) r) else st in
    (if in_phase ph r && rule_fires X (sub ord i) (rule_start st r) r && negb (r_id r =? 0) then [r_id r] else [])
    ++ spec_fired X ord st' ph (S i) rest
  end.
