(* Props/C12.v — the property theorems of C12 and nothing else.
   C12: sharing transformation work between rules never substitutes a wrong value.
   T is any type of transformations with semantics tf : T -> bytes -> tres (the Go signature
   func(string) (string, bool, error)); sem maps an interned prefix id to the transformation
   list it stands for; a tc_call is (rule, argument = (variable, key-pointer identity, value),
   position) and is chosen by an adversary: colliding key pointers / positions / variables and
   values that change between rules are all covered by the universal quantification. *)
From Verif Require Import Base Transform CaseMap TCache TCacheProofs.
Local Open Scope nat_scope.

(* one call of transformArg on a cache satisfying the invariant: the rule is evaluated against
   its own transformation list applied to the current value (and is handed exactly that run's
   errors), whatever the cache holds, and the invariant is kept *)
Theorem C12_cache_sound : forall (T : Type) (tf : T -> bytes -> tres) (sem : nat -> list T) r a idx st,
  tc_rule_wf T sem r -> tc_cache_inv T tf sem st ->
  forall vs es st', tc_transform_arg T tf r a idx st = (vs, es, st') ->
  (vs, es) = tc_uncached T tf r a /\ tc_cache_inv T tf sem st'.
Proof. exact tc_transform_arg_sound. Qed.
Print Assumptions C12_cache_sound.

(* the invariant is preserved over EVERY sequence of calls of a phase and every call returns the
   uncached result *)
Theorem C12_cache_inv_preserved : forall (T : Type) (tf : T -> bytes -> tres) (sem : nat -> list T)
  (cs : list (tc_call T)) st,
  Forall (fun c => tc_rule_wf T sem (c_rule c)) cs -> tc_cache_inv T tf sem st ->
  fst (tc_eval_calls T tf cs st) = tc_uncached_calls T tf cs /\
  tc_cache_inv T tf sem (snd (tc_eval_calls T tf cs st)).
Proof. exact tc_eval_calls_sound. Qed.
Print Assumptions C12_cache_inv_preserved.

(* whole transactions: any number of phases (the cache is cleared at the start of each), any
   starting state: evaluation with the cache = evaluation without *)
Theorem C12_equals_uncached : forall (T : Type) (tf : T -> bytes -> tres) (sem : nat -> list T)
  (ps : list (list (tc_call T))) st,
  Forall (Forall (fun c => tc_rule_wf T sem (c_rule c))) ps ->
  fst (tc_eval_phases T tf ps st) = map (tc_uncached_calls T tf) ps.
Proof. exact tc_eval_phases_sound. Qed.
Print Assumptions C12_equals_uncached.

(* with the input check the result does not even depend on the clearing between phases *)
Theorem C12_clearing_not_needed : forall (T : Type) (tf : T -> bytes -> tres) (sem : nat -> list T)
  (ps : list (list (tc_call T))),
  Forall (Forall (fun c => tc_rule_wf T sem (c_rule c))) ps ->
  fst (tc_eval_calls T tf (concat ps) tc_empty) = concat (map (tc_uncached_calls T tf) ps).
Proof. exact tc_no_clear_sound. Qed.
Print Assumptions C12_clearing_not_needed.

(* fmt.Sprintf("%d+%s", prefix id, name) determines both components *)
Theorem C12_intern_name_injective : forall p n q m, it_render p n = it_render q m -> p = q /\ n = m.
Proof. exact it_render_inj. Qed.
Print Assumptions C12_intern_name_injective.

(* after any history of the process-global intern table, two prefixes of the transformation
   lists of a rule set get the same id only if they are the same list of names *)
Theorem C12_intern_injective : forall (hist rules : list (list bytes * bool)) tb' rs,
  it_compile (fst (it_compile it_init hist)) rules = (tb', rs) ->
  forall rm1 rm2 k1 k2, In rm1 rs -> In rm2 rs ->
    k1 < length (ir_names (fst rm1)) -> k2 < length (ir_names (fst rm2)) ->
    nth k1 (ir_pids (fst rm1)) 0 = nth k2 (ir_pids (fst rm2)) 0 ->
    firstn (S k1) (ir_names (fst rm1)) = firstn (S k2) (ir_names (fst rm2)).
Proof.
  intros hist rules tb' rs H. destruct (it_history_ok hist) as (ch & Hok).
  exact (it_intern_injective rules _ ch tb' rs Hok H).
Qed.
Print Assumptions C12_intern_injective.

(* end to end: rule sets compiled through the intern table (t: lists as written, t:none clears,
   any registry reg from names to transformations, any history of the table), any phases, any
   calls of compiled rules: every rule sees its own transformation list applied to the current
   value of the target *)
Theorem C12_compiled_equals_uncached : forall (T : Type) (tf : T -> bytes -> tres) (reg : bytes -> T)
  (hist rules : list (list bytes * bool)) tb' rs,
  it_compile (fst (it_compile it_init hist)) rules = (tb', rs) ->
  forall (ps : list (list (tc_call T))) st,
  Forall (Forall (fun c => In (c_rule c) (map (it_to_rule reg) rs))) ps ->
  fst (tc_eval_phases T tf ps st) = map (tc_uncached_calls T tf) ps.
Proof. exact tc_compiled_phases_sound. Qed.
Print Assumptions C12_compiled_equals_uncached.

(* ---- the three earlier designs violate the statement (documentation of F09, F10, F37, F38) ---- *)

(* lookup by key only (before 95501c1): a repeated argument name at a colliding position *)
Theorem C12_key_only_refuted :
  exists cs : list (tc_call tid),
    Forall (fun c => tc_rule_wf tid tcp_sem1 (c_rule c)) cs /\
    fst (tc_eval_calls_gen tid tcp_tf_builtin false true cs tc_empty) <> tc_uncached_calls tid tcp_tf_builtin cs.
Proof. exact tc_key_only_refuted. Qed.
Print Assumptions C12_key_only_refuted.

(* lookup by key only: MATCHED_VAR changed between two rules *)
Theorem C12_key_only_stale_refuted :
  exists cs : list (tc_call tid),
    Forall (fun c => tc_rule_wf tid tcp_sem1 (c_rule c)) cs /\
    fst (tc_eval_calls_gen tid tcp_tf_builtin false true cs tc_empty) <> tc_uncached_calls tid tcp_tf_builtin cs.
Proof. exact tc_key_only_stale_refuted. Qed.
Print Assumptions C12_key_only_stale_refuted.

(* appending to the cached entry's error slice (before 508c5cb) *)
Theorem C12_errs_alias_refuted :
  exists cs : list (tc_call nat),
    Forall (fun c => tc_rule_wf nat tcp_sem_fail (c_rule c)) cs /\
    fst (tc_eval_calls_gen nat tcp_tf_fail true false cs tc_empty) <> tc_uncached_calls nat tcp_tf_fail cs.
Proof. exact tc_errs_alias_refuted. Qed.
Print Assumptions C12_errs_alias_refuted.

(* '+'-joined chain names (before 8fe3f95): the name "lowercase+trim" gets the id of the chain
   lowercase, trim *)
Theorem C12_intern_plus_refuted :
  exists rules : list (list bytes * bool),
    let rs := snd (it_compile_gen true it_init rules) in
    exists rm1 rm2, In rm1 rs /\ In rm2 rs /\
      nth 1 (ir_pids (fst rm1)) 0 = nth 0 (ir_pids (fst rm2)) 0 /\
      firstn 2 (ir_names (fst rm1)) <> firstn 1 (ir_names (fst rm2)).
Proof. exact it_intern_plus_refuted. Qed.
Print Assumptions C12_intern_plus_refuted.

(* ---- transactions: variables whose content changes between phases and between rules ---- *)

(* the transaction as /repo evaluates it (doEvaluate's loops over the rule's variables and over
   GetField's result, the cache emptied at the start of every phase): whatever every variable
   contains in each phase and at each rule (REQUEST_BODY before and after the body is read, ARGS
   after the body is parsed, RESPONSE_*, MATCHED_VAR, RULE, ENV, counts) and whichever key
   pointers GetField hands out, every rule sees its own list applied to the content at the moment
   it runs *)
Theorem C12_tx_sees_current_content : forall (T : Type) (tf : T -> bytes -> tres) (sem : nat -> list T)
  (ps : list (tc_txphase T)) st,
  Forall (fun p => Forall (fun c => tc_rule_wf T sem (c_rule c)) (tc_phase_calls T p)) ps ->
  fst (tc_eval_tx T tf ps st) = tc_uncached_tx T tf ps.
Proof. exact tc_eval_tx_sound. Qed.
Print Assumptions C12_tx_sees_current_content.

(* after a phase nothing in the cache predates the phase: every entry was computed from a value
   some rule of this phase started from *)
Theorem C12_phase_cache_fresh : forall (T : Type) (tf : T -> bytes -> tres) (cs : list (tc_call T)) st e,
  In e (st_cache (snd (tc_eval_calls T tf cs (tc_phase_start T st)))) ->
  exists c, In c cs /\ e_in e = a_val (c_arg c).
Proof.
  intros T tf cs st e H. destruct (tc_phase_cache_fresh T tf cs (tc_phase_start T st) e H) as [[]|Hc]. exact Hc.
Qed.
Print Assumptions C12_phase_cache_fresh.

(* the two safety nets depend on each other (seeded defect g).
   Skipping the input check for variables whose slots hold ONE value throughout a phase (the
   bodies) is sound as long as the cache is emptied at the start of every phase ... *)
Theorem C12_unchecked_fixed_slots_need_clearing : forall (T : Type) (tf : T -> bytes -> tres)
  (sem : nat -> list T) (fixed : nat -> bool) (ps : list (tc_txphase T)) first st,
  Forall (fun p => Forall (fun c => tc_rule_wf T sem (c_rule c)) (tc_phase_calls T p)) ps ->
  Forall (fun p => exists sv, tc_slots_fixed T fixed sv (tc_phase_calls T p)) ps ->
  fst (tc_eval_tx_gen T tf true fixed first ps st) = tc_uncached_tx T tf ps.
Proof. exact tc_fixed_with_clearing_sound. Qed.
Print Assumptions C12_unchecked_fixed_slots_need_clearing.

(* ... emptying the cache in the first phase only is sound as long as every lookup is checked ... *)
Theorem C12_first_phase_clearing_needs_check : forall (T : Type) (tf : T -> bytes -> tres)
  (sem : nat -> list T) (ps : list (tc_txphase T)) st,
  Forall (fun p => Forall (fun c => tc_rule_wf T sem (c_rule c)) (tc_phase_calls T p)) ps ->
  fst (tc_eval_tx_gen T tf false tc_no_fixed true ps st) = tc_uncached_tx T tf ps.
Proof. exact tc_first_phase_clearing_sound. Qed.
Print Assumptions C12_first_phase_clearing_needs_check.

(* ... and both together are wrong: REQUEST_BODY looked at in phase 1 (empty) and in phase 2 by
   rules sharing t:lowercase; the guard of the first theorem holds in each phase *)
Theorem C12_unchecked_and_uncleared_refuted :
  exists ps : list (tc_txphase tid),
    Forall (fun p => Forall (fun c => tc_rule_wf tid tcp_sem_g (c_rule c)) (tc_phase_calls tid p)) ps /\
    Forall (fun p => exists sv, tc_slots_fixed tid tc_body_fixed sv (tc_phase_calls tid p)) ps /\
    fst (tc_eval_tx_gen tid tcp_tf_builtin false tc_body_fixed true ps tc_empty) <> tc_uncached_tx tid tcp_tf_builtin ps.
Proof. exact tc_first_phase_clearing_with_fixed_refuted. Qed.
Print Assumptions C12_unchecked_and_uncleared_refuted.

(* ---- the Unicode registry ----
   The theorems above hold for EVERY transformation semantics tf. The correspondence (CorrC12)
   evaluates them at CaseMap.apply_tu lo up - the registry in which t:lowercase / t:uppercase are
   strings.ToLower / ToUpper on arbitrary bytes (non-ASCII runes mapped through the case tables lo / up
   regenerated from Go's unicode package, invalid UTF-8 rewritten to U+FFFD, lengths changing). Stated
   for that instance, for all tables: *)
Theorem C12_unicode_registry_tx : forall (lo up : list CaseMap.case_range) (sem : nat -> list tid)
  (ps : list (tc_txphase tid)) st,
  Forall (fun p => Forall (fun c => tc_rule_wf tid sem (c_rule c)) (tc_phase_calls tid p)) ps ->
  fst (tc_eval_tx tid (CaseMap.apply_tu lo up) ps st) = tc_uncached_tx tid (CaseMap.apply_tu lo up) ps.
Proof. intros lo up. exact (tc_eval_tx_sound tid (CaseMap.apply_tu lo up)). Qed.
Print Assumptions C12_unicode_registry_tx.

Theorem C12_unicode_registry_cache_sound : forall (lo up : list CaseMap.case_range) (sem : nat -> list tid) r a idx st,
  tc_rule_wf tid sem r -> tc_cache_inv tid (CaseMap.apply_tu lo up) sem st ->
  forall vs es st', tc_transform_arg tid (CaseMap.apply_tu lo up) r a idx st = (vs, es, st') ->
  (vs, es) = tc_uncached tid (CaseMap.apply_tu lo up) r a /\ tc_cache_inv tid (CaseMap.apply_tu lo up) sem st'.
Proof. intros lo up. exact (tc_transform_arg_sound tid (CaseMap.apply_tu lo up)). Qed.
Print Assumptions C12_unicode_registry_cache_sound.
