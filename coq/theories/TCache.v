(* TCache.v — executable model of the per-phase transformation cache of Coraza
   (/repo/internal/corazawaf/rule.go: transformArg, transformMultiMatchArg,
   executeTransformations, executeTransformationsMultimatch, transformationID,
   AddTransformation, ClearTransformations; rulegroup.go: transformationKey,
   transformationValue, the clearing loop at the start of RuleGroup.Eval).

   - a transformation is an element of an abstract type T with semantics
     tf : T -> bytes -> tres (output, changed flag, error bit), exactly the Go signature
     func(string) (string, bool, error);
   - the cache is an association list from tc_key = (pointer identity of the key string,
     position of the value, variable, interned prefix id) to (input, output, errs);
   - errs is a Go slice: (backing array, len, cap) into a heap of backing arrays; append
     writes in place when len < cap (this is what the code does and it matters: see
     TCacheProofs.tc_errs_alias_refuted);
   - the intern table is the list transformationIDToName (index = id); names are joined
     with '+' as fmt.Sprintf("%s+%s", ...) does.
   No proofs here (TCacheProofs.v). *)
From Coq Require Import String.
From Verif Require Import Base Transform.
Local Open Scope nat_scope.

(* ------------------------------------------------------------------------------------- *)
(* Go slices of errors                                                                    *)
(* ------------------------------------------------------------------------------------- *)
Record tc_slice := mk_slice { s_arr : nat; s_len : nat; s_cap : nat }.
Definition tc_nil_slice : tc_slice := mk_slice 0 0 0.

(* runtime.growslice for appending ONE 16-byte element to a slice whose cap < 256:
   nil -> 1, otherwise the capacity doubles (16,32,64,... bytes are all malloc size classes) *)
Definition tc_grow (cap : nat) : nat := if Nat.eqb cap 0 then 1 else 2 * cap.

Section TC.
Variable T : Type.
Variable tf : T -> bytes -> tres.

Definition tc_heap := list (list T).

Definition tc_read (h : tc_heap) (s : tc_slice) : list T := firstn (s_len s) (nth (s_arr s) h []).

Fixpoint tc_set_nth {A} (l : list A) (i : nat) (x : A) : list A :=
  match l, i with
  | [], _ => [x]                       (* first write of the slot just behind the written part *)
  | _ :: r, O => x :: r
  | y :: r, S i' => y :: tc_set_nth r i' x
  end.

Fixpoint tc_set_arr (h : tc_heap) (a : nat) (arr : list T) : tc_heap :=
  match h, a with
  | [], _ => []
  | _ :: r, O => arr :: r
  | y :: r, S a' => y :: tc_set_arr r a' arr
  end.

(* errs = append(errs, e) *)
Definition tc_append (h : tc_heap) (s : tc_slice) (e : T) : tc_heap * tc_slice :=
  if Nat.ltb (s_len s) (s_cap s)
  then (tc_set_arr h (s_arr s) (tc_set_nth (nth (s_arr s) h []) (s_len s) e),
        mk_slice (s_arr s) (S (s_len s)) (s_cap s))
  else (h ++ [tc_read h s ++ [e]], mk_slice (length h) (S (s_len s)) (tc_grow (s_cap s))).

(* ------------------------------------------------------------------------------------- *)
(* uncached execution                                                                      *)
(* ------------------------------------------------------------------------------------- *)
(* one iteration of the loop of Rule.executeTransformations (and of the fill loop of
   transformArg): a failing step is recorded and skipped, the value stays *)
Definition tc_step (acc : bytes * list T) (t : T) : bytes * list T :=
  let x := tf t (fst acc) in
  if t_err x then (fst acc, snd acc ++ [t]) else (t_out x, snd acc).

Definition tc_run (ts : list T) (acc : bytes * list T) : bytes * list T := fold_left tc_step ts acc.

(* Rule.executeTransformations *)
Definition tc_exec (ts : list T) (v : bytes) : bytes * list T := tc_run ts (v, []).

(* Rule.executeTransformationsMultimatch *)
Fixpoint tc_multi_loop (ts : list T) (v : bytes) : list bytes * list T :=
  match ts with
  | [] => ([], [])
  | t :: r =>
    let x := tf t v in
    if t_err x then let '(vs, es) := tc_multi_loop r v in (vs, t :: es)
    else if t_changed x then let '(vs, es) := tc_multi_loop r (t_out x) in (t_out x :: vs, es)
    else tc_multi_loop r v
  end.
Definition tc_exec_multi (ts : list T) (v : bytes) : list bytes * list T :=
  let '(vs, es) := tc_multi_loop ts v in (v :: vs, es).

(* ------------------------------------------------------------------------------------- *)
(* the cache                                                                               *)
(* ------------------------------------------------------------------------------------- *)
Record tc_key := mk_key { k_kid : nat; k_idx : nat; k_var : nat; k_pid : nat }.
Definition tc_key_eqb (a b : tc_key) : bool :=
  Nat.eqb (k_kid a) (k_kid b) && Nat.eqb (k_idx a) (k_idx b) &&
  Nat.eqb (k_var a) (k_var b) && Nat.eqb (k_pid a) (k_pid b).

Record tc_entry := mk_entry { e_key : tc_key; e_in : bytes; e_out : bytes; e_errs : tc_slice }.
Definition tc_cache := list tc_entry.

Record tc_state := mk_state { st_cache : tc_cache; st_heap : tc_heap }.
Definition tc_empty : tc_state := mk_state [] [].

(* cached, ok := cache[key] *)
Fixpoint tc_find (k : tc_key) (c : tc_cache) : option tc_entry :=
  match c with
  | [] => None
  | e :: r => if tc_key_eqb (e_key e) k then Some e else tc_find k r
  end.

(* cache[key] = value : one entry per key *)
Definition tc_put (e : tc_entry) (c : tc_cache) : tc_cache :=
  e :: filter (fun x => negb (tc_key_eqb (e_key x) (e_key e))) c.

(* a rule as transformArg sees it *)
Record tc_rule := mk_rule { r_ts : list T; r_pids : list nat; r_multi : bool }.
(* types.MatchData as transformArg sees it: variable, pointer identity of Key(), Value() *)
Record tc_arg := mk_arg { a_var : nat; a_kid : nat; a_val : bytes }.

Definition tc_var_tx : nat := 63.     (* variables.TX *)

Definition tc_mkkey (a : tc_arg) (idx pid : nat) : tc_key := mk_key (a_kid a) idx (a_var a) pid.

(* for i := len(prefixIDs)-1; i >= 0; i-- { if cached, ok := cache[key]; ok && cached.input == arg.Value() {...} }
   chk = true is the code in /repo; chk = false is the design before commit 95501c1 (key only) *)
Fixpoint tc_search (chk : bool) (n : nat) (pids : list nat) (a : tc_arg) (idx : nat) (c : tc_cache)
  : option (nat * tc_entry) :=
  match n with
  | O => None
  | S i =>
    match tc_find (tc_mkkey a idx (nth i pids 0)) c with
    | Some e => if negb chk || bytes_eqb (e_in e) (a_val a) then Some (i, e)
                else tc_search chk i pids a idx c
    | None => tc_search chk i pids a idx c
    end
  end.

(* for i := startIdx; i < len(r.transformations); i++ { ...; cache[key] = {input, value, errs} } *)
Fixpoint tc_fill (i : nat) (rest : list T) (pids : list nat) (a : tc_arg) (idx : nat)
                 (v : bytes) (es : tc_slice) (st : tc_state) : bytes * tc_slice * tc_state :=
  match rest with
  | [] => (v, es, st)
  | t :: rest' =>
    let x := tf t v in
    let '(h', es', v') :=
      if t_err x then let '(h', es') := tc_append (st_heap st) es t in (h', es', v)
      else (st_heap st, es, t_out x) in
    let e := mk_entry (tc_mkkey a idx (nth i pids 0)) (a_val a) v' es' in
    tc_fill (S i) rest' pids a idx v' es' (mk_state (tc_put e (st_cache st)) h')
  end.

(* result of one transformation of one argument: the values handed to the operator, the
   errors handed to the logger (read at return time), the new state *)
Definition tc_result := (list bytes * list T * tc_state)%type.

(* errs = cached.errs[:len(cached.errs):len(cached.errs)] (commit 508c5cb); clip = false is the
   code before that commit (errs = cached.errs) *)
Definition tc_clip (clip : bool) (s : tc_slice) : tc_slice :=
  if clip then mk_slice (s_arr s) (s_len s) (s_len s) else s.

Definition tc_transform_arg_gen (chk clip : bool) (r : tc_rule) (a : tc_arg) (idx : nat) (st : tc_state) : tc_result :=
  if r_multi r then
    (* doEvaluate: r.MultiMatch -> transformMultiMatchArg, no cache *)
    let '(vs, es) := tc_exec_multi (r_ts r) (a_val a) in (vs, es, st)
  else match r_ts r with
  | [] => ([a_val a], [], st)
  | _ :: _ =>
    if Nat.eqb (a_var a) tc_var_tx then
      let '(v, es) := tc_exec (r_ts r) (a_val a) in ([v], es, st)
    else
      match tc_search chk (length (r_pids r)) (r_pids r) a idx (st_cache st) with
      | Some (i, e) =>
        if Nat.eqb (S i) (length (r_pids r)) then ([e_out e], tc_read (st_heap st) (e_errs e), st)
        else
          let '(v, es, st') := tc_fill (S i) (skipn (S i) (r_ts r)) (r_pids r) a idx (e_out e)
                                       (tc_clip clip (e_errs e)) st in
          ([v], tc_read (st_heap st') es, st')
      | None =>
        let '(v, es, st') := tc_fill 0 (r_ts r) (r_pids r) a idx (a_val a) tc_nil_slice st in
        ([v], tc_read (st_heap st') es, st')
      end
  end.

Definition tc_transform_arg := tc_transform_arg_gen true true.

(* what the rule must be evaluated against, by definition of the property *)
Definition tc_uncached (r : tc_rule) (a : tc_arg) : list bytes * list T :=
  if r_multi r then tc_exec_multi (r_ts r) (a_val a)
  else let '(v, es) := tc_exec (r_ts r) (a_val a) in ([v], es).

(* ------------------------------------------------------------------------------------- *)
(* a phase: any sequence of (rule, argument, position) — the caller (doEvaluate / GetField /
   actions changing MATCHED_VAR, RULE, ENV, counts between rules) is an adversary that
   chooses every component freely, including colliding key pointers and positions *)
(* ------------------------------------------------------------------------------------- *)
Record tc_call := mk_call { c_rule : tc_rule; c_arg : tc_arg; c_idx : nat }.

Fixpoint tc_eval_calls_gen (chk clip : bool) (cs : list tc_call) (st : tc_state) : list (list bytes * list T) * tc_state :=
  match cs with
  | [] => ([], st)
  | c :: r =>
    let '(vs, es, st') := tc_transform_arg_gen chk clip (c_rule c) (c_arg c) (c_idx c) st in
    let '(outs, st'') := tc_eval_calls_gen chk clip r st' in
    ((vs, es) :: outs, st'')
  end.
Definition tc_eval_calls := tc_eval_calls_gen true true.

(* RuleGroup.Eval: for k := range cache { delete(cache, k) } — the backing arrays stay garbage *)
Definition tc_phase_start (st : tc_state) : tc_state := mk_state [] (st_heap st).

Fixpoint tc_eval_phases (ps : list (list tc_call)) (st : tc_state) : list (list (list bytes * list T)) * tc_state :=
  match ps with
  | [] => ([], st)
  | p :: r =>
    let '(o, st') := tc_eval_calls p (tc_phase_start st) in
    let '(os, st'') := tc_eval_phases r st' in
    (o :: os, st'')
  end.

Definition tc_uncached_calls (cs : list tc_call) : list (list bytes * list T) :=
  map (fun c => tc_uncached (c_rule c) (c_arg c)) cs.

(* ------------------------------------------------------------------------------------- *)
(* the invariant (boolean form is what the correspondence evaluates on dumps of the real
   cache; TCacheProofs relates it to the Prop form)                                       *)
(* ------------------------------------------------------------------------------------- *)
(* sem : interned prefix id -> the transformation list it stands for *)
Definition tc_entry_ok (sem : nat -> list T) (h : tc_heap) (e : tc_entry) : Prop :=
  e_out e = fst (tc_exec (sem (k_pid (e_key e))) (e_in e)) /\
  tc_read h (e_errs e) = snd (tc_exec (sem (k_pid (e_key e))) (e_in e)) /\
  s_len (e_errs e) = length (snd (tc_exec (sem (k_pid (e_key e))) (e_in e))).
Definition tc_cache_inv (sem : nat -> list T) (st : tc_state) : Prop :=
  forall e, In e (st_cache st) -> tc_entry_ok sem (st_heap st) e.

Definition tc_rule_wf (sem : nat -> list T) (r : tc_rule) : Prop :=
  length (r_pids r) = length (r_ts r) /\
  forall k, k < length (r_ts r) -> sem (nth k (r_pids r) 0) = firstn (S k) (r_ts r).

End TC.

Arguments tc_read {T}.
Arguments tc_append {T}.
Arguments mk_rule {T}.
Arguments mk_call {T}.
Arguments mk_state {T}.
Arguments tc_empty {T}.
Arguments r_ts {T}.
Arguments r_pids {T}.
Arguments r_multi {T}.
Arguments c_rule {T}.
Arguments c_arg {T}.
Arguments c_idx {T}.
Arguments st_cache {T}.
Arguments st_heap {T}.

(* ------------------------------------------------------------------------------------- *)
(* the intern table (rule.go: transformationIDToName / transformationNameToID)            *)
(* ------------------------------------------------------------------------------------- *)
Definition it_table := list bytes.          (* index = id; element = interned name *)
Definition it_init : it_table := [[]].      (* []string{""} *)
Definition it_plus : N := 43%N.

Fixpoint it_index (name : bytes) (tb : it_table) (i : nat) : option nat :=
  match tb with
  | [] => None
  | x :: r => if bytes_eqb x name then Some i else it_index name r (S i)
  end.

(* fmt.Sprintf("%d+%s", currentID, transformationName)   (commit 8fe3f95) *)
Definition it_render (cur : nat) (name : bytes) : bytes := itoa (N.of_nat cur) ++ it_plus :: name.
(* fmt.Sprintf("%s+%s", transformationIDToName[currentID], transformationName)  (before) *)
Definition it_render_old (tb : it_table) (cur : nat) (name : bytes) : bytes := nth cur tb [] ++ it_plus :: name.

(* transformationID(currentID, transformationName); old = true is the design before 8fe3f95 *)
Definition it_intern_gen (old : bool) (tb : it_table) (cur : nat) (name : bytes) : nat * it_table :=
  let next := if old then it_render_old tb cur name else it_render cur name in
  match it_index next tb 0 with
  | Some id => (id, tb)
  | None => (length tb, tb ++ [next])
  end.

(* the rule under construction: names as written in the t: actions, current id, prefix ids *)
Record it_rule := mk_it_rule { ir_names : list bytes; ir_cur : nat; ir_pids : list nat }.
Definition it_rule0 : it_rule := mk_it_rule [] 0 [].

(* actions/t.go Init: "none" (exactly) clears (ClearTransformations), anything else is looked
   up and added (AddTransformation) *)
Definition it_add_t_gen (old : bool) (tb : it_table) (r : it_rule) (name : bytes) : it_table * it_rule :=
  if bytes_eqb name (str "none"%string) then (tb, it_rule0)
  else let '(id, tb') := it_intern_gen old tb (ir_cur r) name in
       (tb', mk_it_rule (ir_names r ++ [name]) id (ir_pids r ++ [id])).

Fixpoint it_add_ts_gen (old : bool) (tb : it_table) (r : it_rule) (names : list bytes) : it_table * it_rule :=
  match names with
  | [] => (tb, r)
  | n :: rest => let '(tb', r') := it_add_t_gen old tb r n in it_add_ts_gen old tb' r' rest
  end.

(* compiling a rule set: each rule is its list of t: arguments and its multiMatch flag *)
Fixpoint it_compile_gen (old : bool) (tb : it_table) (rules : list (list bytes * bool)) : it_table * list (it_rule * bool) :=
  match rules with
  | [] => (tb, [])
  | (ns, m) :: rest =>
    let '(tb', r) := it_add_ts_gen old tb it_rule0 ns in
    let '(tb'', rs) := it_compile_gen old tb' rest in
    (tb'', (r, m) :: rs)
  end.

Definition it_intern := it_intern_gen false.
Definition it_add_t := it_add_t_gen false.
Definition it_add_ts := it_add_ts_gen false.
Definition it_compile := it_compile_gen false.

Section ITSem.
Variable T : Type.
Variable reg : bytes -> T.     (* transformations.GetTransformation (case-folds the name itself) *)
Definition it_to_rule (rm : it_rule * bool) : tc_rule T :=
  mk_rule (map reg (ir_names (fst rm))) (ir_pids (fst rm)) (snd rm).
End ITSem.
Arguments it_to_rule {T}.

(* ------------------------------------------------------------------------------------- *)
(* a transaction: phases of rules over variables whose content changes                     *)
(* (rule.go doEvaluate's loops over r.variables and over GetField's result; rulegroup.go    *)
(*  Eval per phase).  The content of a variable is whatever GetField returns at the moment  *)
(*  the rule runs: it differs from phase to phase (REQUEST_BODY, ARGS after the body is     *)
(*  parsed, RESPONSE_xxx) and from rule to rule (MATCHED_VAR, RULE, ENV, counts).             *)
(* ------------------------------------------------------------------------------------- *)
Section TX.
Variable T : Type.
Variable tf : T -> bytes -> tres.

Record tc_txrule := mk_txrule { x_rule : tc_rule T; x_vars : list nat }.
(* variable -> list of (pointer identity of the key string, value), in GetField's order *)
Definition tc_content := nat -> list (nat * bytes).

(* for i, arg := range values { r.transformArg(arg, i, cache) } *)
Fixpoint tc_args_calls (r : tc_rule T) (v : nat) (l : list (nat * bytes)) (i : nat) : list (tc_call T) :=
  match l with
  | [] => []
  | (kid, val) :: rest => mk_call r (mk_arg v kid val) i :: tc_args_calls r v rest (S i)
  end.

(* for _, v := range r.variables { values = tx.GetField(v); ... } *)
Definition tc_rule_calls (x : tc_txrule) (content : tc_content) : list (tc_call T) :=
  flat_map (fun v => tc_args_calls (x_rule x) v (content v) 0) (x_vars x).

(* a phase: its rules in order, each with the content of the variables when it runs *)
Definition tc_txphase := list (tc_txrule * tc_content).
Definition tc_phase_calls (p : tc_txphase) : list (tc_call T) :=
  flat_map (fun xc => tc_rule_calls (fst xc) (snd xc)) p.

(* design space around the code in /repo (clear_each = true, fixed = nothing):
   fixed v = true  : lookups for variable v accept an entry by its key alone
   clear_each = false : the cache is emptied by the first phase of the transaction only *)
Definition tc_transform_arg_fx (fixed : nat -> bool) (r : tc_rule T) (a : tc_arg) (idx : nat) (st : tc_state T) :=
  tc_transform_arg_gen T tf (negb (fixed (a_var a))) true r a idx st.

Fixpoint tc_eval_calls_fx (fixed : nat -> bool) (cs : list (tc_call T)) (st : tc_state T)
  : list (list bytes * list T) * tc_state T :=
  match cs with
  | [] => ([], st)
  | c :: r =>
    let '(vs, es, st') := tc_transform_arg_fx fixed (c_rule c) (c_arg c) (c_idx c) st in
    let '(outs, st'') := tc_eval_calls_fx fixed r st' in
    ((vs, es) :: outs, st'')
  end.

Fixpoint tc_eval_tx_gen (clear_each : bool) (fixed : nat -> bool) (first : bool) (ps : list tc_txphase)
                        (st : tc_state T) : list (list (list bytes * list T)) * tc_state T :=
  match ps with
  | [] => ([], st)
  | p :: r =>
    let st0 := if clear_each || first then tc_phase_start T st else st in
    let '(o, st') := tc_eval_calls_fx fixed (tc_phase_calls p) st0 in
    let '(os, st'') := tc_eval_tx_gen clear_each fixed false r st' in
    (o :: os, st'')
  end.

Definition tc_no_fixed (v : nat) : bool := false.
(* the variables seed g exempts from the input check: variables.RequestBody, variables.ResponseBody *)
Definition tc_body_fixed (v : nat) : bool := Nat.eqb v 21 || Nat.eqb v 29.
(* the transaction as /repo evaluates it *)
Definition tc_eval_tx (ps : list tc_txphase) (st : tc_state T) := tc_eval_tx_gen true tc_no_fixed true ps st.

(* what every rule must see: its own list applied to the content at the moment it runs *)
Definition tc_uncached_tx (ps : list tc_txphase) : list (list (list bytes * list T)) :=
  map (fun p => tc_uncached_calls T tf (tc_phase_calls p)) ps.
End TX.
Arguments mk_txrule {T}.
Arguments x_rule {T}.
Arguments x_vars {T}.
