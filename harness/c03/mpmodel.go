package c03

import (
	"fmt"
	"strings"
)

// mpQuote / mpPrint: the harness' multipart printer (mirror of Decode.mp_quote / mp_print)
func mpQuote(s string) string {
	return strings.NewReplacer("\\", "\\\\", "\"", "\\\"").Replace(s)
}

func mpPrint(b string, parts [][3]string) string {
	var sb strings.Builder
	sb.WriteString("--" + b)
	for _, p := range parts {
		name, filename, content := unhx(p[0]), unhx(p[1]), unhx(p[2])
		sb.WriteString("\r\nContent-Disposition: form-data; name=\"" + mpQuote(name) + "\"")
		if filename != "" {
			sb.WriteString("; filename=\"" + mpQuote(filename) + "\"\r\nContent-Type: application/octet-stream")
		}
		sb.WriteString("\r\n\r\n" + content + "\r\n--" + b)
	}
	sb.WriteString("--\r\n")
	return sb.String()
}

// mpPartsOK: the guard of C03_multipart_roundtrip_partial (no CR / LF in names, the delimiter
// CRLF "--" boundary first occurs in CRLF+content+delimiter at the end of the content)
func mpPartsOK(b string, parts [][3]string) bool {
	d := "\r\n--" + b
	for _, p := range parts {
		if strings.ContainsAny(unhx(p[0])+unhx(p[1]), "\r\n") {
			return false
		}
		c := unhx(p[2])
		// "\r\n" + content: a content that starts with "--" boundary directly after the blank line of
		// the headers is a delimiter for mime/multipart
		if strings.Index("\r\n"+c+d, d) != len(c)+2 {
			return false
		}
	}
	return true
}

// runMPModel: a well-formed multipart body printed from a list of parts, through the real
// Transaction API; compared with Decode.mp_collect (mp_parse body) inside Coq and with the part
// list itself (round trip).
func (rn *runner) runMPModel(c *caseJSON) error {
	b := c.Boundary
	body := mpPrint(b, c.Parts)
	c.BodyHex = hx(body)
	w, err := getWAF(wafKey{access: true})
	if err != nil {
		return err
	}
	tx := w.NewTransaction()
	defer tx.Close()
	tx.ProcessURI("/upload", "POST", "HTTP/1.1")
	tx.AddRequestHeader("Content-Type", "multipart/form-data; boundary="+b)
	tx.ProcessRequestHeaders()
	if _, _, err := tx.WriteRequestBody([]byte(body)); err != nil {
		return err
	}
	if _, err := tx.ProcessRequestBody(); err != nil {
		return err
	}
	v := vars(tx)
	post, files, names, sizes := findAll(v.ArgsPost()), findAll(v.Files()), findAll(v.FilesNames()), findAll(v.FilesSizes())
	hdrs := findAll(v.MultipartPartHeaders())
	combined := single(v.FilesCombinedSize())
	rerr := single(v.RequestBodyError()) == "1" || single(v.MultipartStrictError()) == "1"
	c.Obs = map[string]any{"args_post": pairsHex(sortPairs(post)), "files": pairsHex(files), "files_names": pairsHex(names),
		"files_sizes": pairsHex(sortPairs(sizes)), "files_combined_size": combined, "error": rerr}
	pt := make([]string, len(c.Parts))
	var fields, wantFiles, wantNames []pair
	total := 0
	for i, p := range c.Parts {
		name, filename, content := unhx(p[0]), unhx(p[1]), unhx(p[2])
		pt[i] = "(" + H(name) + ", " + H(filename) + ", " + H(content) + ")"
		total += len(content)
		if filename == "" {
			fields = append(fields, pair{name, content})
		} else {
			wantFiles = append(wantFiles, pair{"", filename})
			wantNames = append(wantNames, pair{"", name})
		}
	}
	rn.emit(fmt.Sprintf("CM %s [%s] %s %s %s %s %s %s %s %s", H(b), strings.Join(pt, "; "), H(body), kvList(post), kvList(files), kvList(names),
		kvList(sizes), kvList(hdrs), H(combined), fmt.Sprint(rerr)), c, len(c.Parts) > 0)
	// the round trip against the part list
	rn.oracleN++
	if rerr {
		rn.fail("c03-multipart-error", "a well-formed multipart body raised REQBODY_ERROR / MULTIPART_STRICT_ERROR", c)
		return nil
	}
	if !sameMultiset(post, fields) {
		rn.fail("c03-roundtrip-multipart-fields", "ARGS_POST differs from the multipart fields", c)
	}
	if !sameMultiset(files, wantFiles) || !sameMultiset(names, wantNames) {
		rn.fail("c03-roundtrip-multipart-files", "FILES / FILES_NAMES differ from the uploaded files", c)
	}
	if combined != fmt.Sprint(total) {
		rn.fail("c03-multipart-combined-size", "FILES_COMBINED_SIZE is not the sum of the part sizes", c)
	}
	return nil
}
