(* Props/C14.v — the property theorems of C14 and nothing else.
   C14: transformations are total, pure functions with sound change reports. *)
From Verif Require Import Base Transform TransformProofs.

(* never 'unchanged' when the output differs — for every modelled transformation, every input *)
Theorem C14_flag_sound : forall t s,
  t_err (apply_t t s) = false -> t_out (apply_t t s) <> s -> t_changed (apply_t t s) = true.
Proof. exact all_flags_sound_holds. Qed.
Print Assumptions C14_flag_sound.

(* same output for the same input (the model is a function of the input only) *)
Theorem C14_pure : forall t s1 s2, s1 = s2 -> apply_t t s1 = apply_t t s2.
Proof. exact apply_t_pure. Qed.
Print Assumptions C14_pure.

(* with multiMatch the operator sees the original and every intermediate value of the chain *)
Theorem C14_multimatch_sees_all : forall ts s v,
  v = s \/ In v (chain_values ts s) -> In v (multimatch_values ts s).
Proof. exact multimatch_sees_all_holds. Qed.
Print Assumptions C14_multimatch_sees_all.

(* the last value of the chain is the value a non-multiMatch rule is evaluated against *)
Theorem C14_chain_last : forall ts s, last (chain_values ts s) s = fst (exec_tfs ts s).
Proof. exact chain_last. Qed.
Print Assumptions C14_chain_last.

(* defining identities *)
Theorem C14_hex_roundtrip : forall s, wf_bytes s -> t_out (t_hex_decode (t_out (t_hex_encode s))) = s.
Proof. exact t_hex_roundtrip. Qed.
Print Assumptions C14_hex_roundtrip.

Theorem C14_url_roundtrip : forall s, wf_bytes s -> t_out (t_url_decode (t_out (t_url_encode s))) = s.
Proof. exact t_url_roundtrip. Qed.
Print Assumptions C14_url_roundtrip.

Theorem C14_base64_roundtrip : forall s, wf_bytes s -> t_out (t_base64_decode (t_out (t_base64_encode s))) = s.
Proof. exact t_base64_roundtrip. Qed.
Print Assumptions C14_base64_roundtrip.

Theorem C14_length_spec : forall s, t_out (t_length s) = itoa (N.of_nat (length s)).
Proof. exact t_length_spec. Qed.
Print Assumptions C14_length_spec.

Theorem C14_lowercase_spec : forall s, t_out (t_lowercase s) = map ascii_lower s.
Proof. exact t_lowercase_spec. Qed.
Print Assumptions C14_lowercase_spec.

Theorem C14_uppercase_spec : forall s, t_out (t_uppercase s) = map ascii_upper s.
Proof. exact t_uppercase_spec. Qed.
Print Assumptions C14_uppercase_spec.

(* idempotence *)
Theorem C14_trim_idem : forall s, t_out (t_trim (t_out (t_trim s))) = t_out (t_trim s).
Proof. exact trim_idem. Qed.
Print Assumptions C14_trim_idem.

Theorem C14_trim_left_idem : forall s, trim_left_b (trim_left_b s) = trim_left_b s.
Proof. exact trim_left_idem. Qed.
Print Assumptions C14_trim_left_idem.

Theorem C14_trim_right_idem : forall s, trim_right_b (trim_right_b s) = trim_right_b s.
Proof. exact trim_right_idem. Qed.
Print Assumptions C14_trim_right_idem.

Theorem C14_remove_nulls_idem : forall s,
  t_out (t_remove_nulls (t_out (t_remove_nulls s))) = t_out (t_remove_nulls s).
Proof. exact remove_nulls_idem. Qed.
Print Assumptions C14_remove_nulls_idem.
