(* CorrC15.v — correspondence checker for C15: evaluates the Operators.v models on the
   arguments/inputs the Go harness ran the real operators on and compares with what was observed. *)
From Verif Require Import Base Utf8 Operators.
From Coq Require Import String.
Open Scope N_scope.
Notation sstr x := (str x%string) (only parsing).

Inductive case :=
  (* direct registry call of a macro-argument operator; res = None: constructor error *)
  | CMop (o : mop) (arg : bytes) (tx : list (bytes * bytes)) (value : bytes) (res : option bool)
  (* @pm: ltbl = unicode.ToLower on the non-ASCII runes of arg (oracle); caps = TX.0-9 afterwards *)
  | CPm (ltbl : list (N * N)) (arg value : bytes) (capturing : bool) (res : bool) (caps : list bytes)
  (* @pmFromFile: data = file content *)
  | CPmf (ltbl : list (N * N)) (data value : bytes) (capturing : bool) (res : bool) (caps : list bytes)
  (* @pmFromDataset: the data set itself *)
  | CPmd (phrases : list bytes) (value : bytes) (capturing : bool) (res : bool) (caps : list bytes)
  | CVbr (arg value : bytes) (res : option bool)
  | CVue (value : bytes) (res : bool)
  | CVutf8 (value : bytes) (res : bool)
  (* @rx: m = FindStringSubmatchIndex of Go's regexp on the same pattern (oracle) *)
  | CRx (m : option (list Z)) (value : bytes) (capturing : bool) (res : bool) (caps : list bytes)
  (* ParseOperator + SetOperator observed through the verif hook: compiled?, Function, Data, Negation *)
  | CParse (optext : bytes) (known : bool) (fn data : bytes) (neg : bool)
  (* single-rule WAF: res = None: the rule does not compile;
     Some (matched, TX.0-9 read directly, copies tx.c0-9 made by setvar when matched) *)
  | CRule (optext : bytes) (ltbl : list (N * N)) (m : option (list Z)) (capturing : bool)
          (tx : list (bytes * bytes)) (value : bytes)
          (res : option (bool * list bytes * list bytes))
  (* capturing evaluations one after the other on the same transaction: result and TX.0-9
     after each step (a later evaluation starts from what the earlier ones left) *)
  | CCapSeq (steps : list cap_step) (obs : list (bool * list bytes))
  (* several rules in one WAF, each on its own header: matched flags and the final TX.0-9 *)
  | CRuleSeq (rules : list rule_in) (res : option (list bool * list bytes))
  (* @ipMatch (file = false) / @ipMatchFromFile (file = true, arg = file content), IPv4 forms *)
  | CIpm (file : bool) (arg value : bytes) (res : bool).

Definition opt_bytes_eqb (a b : option bytes) : bool :=
  match a, b with
  | Some x, Some y => bytes_eqb x y
  | None, None => true
  | _, _ => false
  end.
Fixpoint list_eqb {A} (e : A -> A -> bool) (a b : list A) : bool :=
  match a, b with
  | [], [] => true
  | x :: a', y :: b' => e x y && list_eqb e a' b'
  | _, _ => false
  end.
Definition opt_bool_eqb (a b : option bool) : bool :=
  match a, b with
  | Some x, Some y => Bool.eqb x y
  | None, None => true
  | _, _ => false
  end.

(* TX.0 .. TX.9 (always present: WAF.newTransaction sets them to ""), with trailing empty
   entries dropped to keep the case files small *)
Fixpoint trim_empties (l : list bytes) : list bytes :=
  match l with
  | [] => []
  | x :: r => match x, trim_empties r with
              | [], [] => []
              | _, r' => x :: r'
              end
  end.
Definition caps_of (tx : txvars) : list bytes :=
  trim_empties (map (fun i => match tx_get tx (itoa (N.of_nat i)) with Some v => v | None => sstr "<absent>" end) (seq 0 10)).

Definition check_caps (r : bool * list bytes) (capturing res : bool) (caps : list bytes) : bool :=
  Bool.eqb (fst r) res && list_eqb bytes_eqb (caps_of (store_captures capturing tx_init 0 (snd r))) caps.

Definition ok (c : case) : bool :=
  match c with
  | CMop o arg tx v res => opt_bool_eqb (run_mop o arg (tx ++ tx_init) v) res
  | CPm t arg v cap res caps => check_caps (pm_eval (pm_phrases t arg) cap v) cap res caps
  | CPmf t data v cap res caps => check_caps (pm_eval (pmf_phrases t data) cap v) cap res caps
  | CPmd ps v cap res caps => check_caps (pm_eval (pmd_phrases ps) cap v) cap res caps
  | CVbr arg v res => opt_bool_eqb (run_vbr arg v) res
  | CVue v res => Bool.eqb (vue_eval v) res
  | CVutf8 v res => Bool.eqb (vutf8_eval v) res
  | CRx m v cap res caps => check_caps (rx_eval m cap v) cap res caps
  | CParse o known fn data neg =>
    let '(op_raw, name, arg) := parse_operator o in
    Bool.eqb (match op_lookup op_table name with
              | Some o => match eval_named o [] None arg false [] [] with Some _ => true | None => false end
              | None => false
              end) known
    && (negb known || (bytes_eqb op_raw fn && bytes_eqb arg data && Bool.eqb (op_negated op_raw) neg))
  | CRule o t m cap tx v res =>
    match rule_eval o t m cap (tx ++ tx_init) v, res with
    | None, None => true
    | Some (matched, tx'), Some (matched', caps, copies) =>
      Bool.eqb matched matched' && list_eqb bytes_eqb (caps_of tx') caps
      && (negb matched || list_eqb bytes_eqb (trim_empties (map (copy_of_capture tx') (seq 0 10))) copies)
    | _, _ => false
    end
  | CCapSeq steps obs =>
    list_eqb (fun a b => Bool.eqb (fst a) (fst b) && list_eqb bytes_eqb (snd a) (snd b))
             (map (fun p => (fst p, caps_of (snd p))) (capture_seq tx_init steps)) obs
  | CIpm file arg v res => Bool.eqb (ipm_eval (ipm_new (if file then ipmf_arg arg else arg)) v) res
  | CRuleSeq rules res =>
    match rules_eval tx_init rules, res with
    | None, None => true
    | Some (bs, tx'), Some (bs', caps) => list_eqb Bool.eqb bs bs' && list_eqb bytes_eqb (caps_of tx') caps
    | _, _ => false
    end
  end.

Definition mismatches (l : list case) : list nat := mismatches_of ok l.
