(* Props/C17.v — the property theorems of C17 and nothing else.
   C17: rule exclusions and updates equal the rewritten rule set.
   cf_compile = the parser on the source; cf_apply = the directive as coded on the compiled rules;
   cf_rewrite = the explicit rewriting of the source; rx = Go's regexp (any function). *)
From Coq Require Import String.
From Verif Require Import Base Config ConfigProofs.
Open Scope N_scope.

(* SecRuleRemoveById / ByTag / ByMsg = the configuration that never contained the rules
   (id lists and ranges that do not cover id 0, see C17_remove_id_zero_refuted) *)
Theorem C17_remove_equiv_partial : forall rx dflt src c d c' rq,
  cf_compile dflt src = Some c -> is_remove d = true -> zero_free d = true -> cf_apply d c = Some c' ->
  exists c'', cf_compile dflt (cf_rewrite d src) = Some c'' /\ cf_outcome rx c' rq = cf_outcome rx c'' rq.
Proof. exact remove_equiv. Qed.
Print Assumptions C17_remove_equiv_partial.

(* the tag and message forms need no guard *)
Theorem C17_remove_by_tag_msg_equiv : forall rx dflt src c d c' rq,
  cf_compile dflt src = Some c -> (exists t, d = DRemoveByTag t) \/ (exists m, d = DRemoveByMsg m) ->
  cf_apply d c = Some c' ->
  exists c'', cf_compile dflt (cf_rewrite d src) = Some c'' /\ cf_outcome rx c' rq = cf_outcome rx c'' rq.
Proof. exact remove_by_tag_msg_equiv. Qed.
Print Assumptions C17_remove_by_tag_msg_equiv.

Theorem C17_remove_guard_instance :
  exists c c', cf_compile w_dflt w0_src = Some c /\ zero_free (DRemoveById [IdRange 5 6; IdOne 9]) = true /\
    cf_apply (DRemoveById [IdRange 5 6; IdOne 9]) c = Some c' /\
    cf_outcome simple_rx c' w_req = ([(7, [(VArgs, str "a"%string, str "x"%string)])], None).
Proof. exact remove_guard_instance. Qed.
Print Assumptions C17_remove_guard_instance.

(* SecRuleUpdateTargetById / ByTag = the rule written with the added targets and exclusions
   (the id form is proved for id fields not covering 0: a SecMarker in the range would gain unused variables) *)
Theorem C17_update_target_equiv_partial : forall rx dflt src c d c' rq,
  cf_compile dflt src = Some c -> zero_free d = true ->
  (exists l items, d = DUpdTargetById l items) \/ (exists t items, d = DUpdTargetByTag t items) ->
  cf_apply d c = Some c' ->
  exists c'', cf_compile dflt (cf_rewrite d src) = Some c'' /\ cf_outcome rx c' rq = cf_outcome rx c'' rq.
Proof. exact update_target_equiv. Qed.
Print Assumptions C17_update_target_equiv_partial.

Theorem C17_update_target_by_tag_equiv : forall rx dflt src c t items c' rq,
  cf_compile dflt src = Some c -> cf_apply (DUpdTargetByTag t items) c = Some c' ->
  exists c'', cf_compile dflt (cf_rewrite (DUpdTargetByTag t items) src) = Some c'' /\
              cf_outcome rx c' rq = cf_outcome rx c'' rq.
Proof. exact update_target_by_tag_equiv. Qed.
Print Assumptions C17_update_target_by_tag_equiv.

Theorem C17_update_target_guard_instance :
  exists c c', cf_compile w_dflt w0_src = Some c /\
    zero_free (DUpdTargetById [IdOne 6; IdOne 7] [TNeg VArgs (KStr (str "a"%string)); TPos false VMethod KNone]) = true /\
    cf_apply (DUpdTargetById [IdOne 6; IdOne 7] [TNeg VArgs (KStr (str "a"%string)); TPos false VMethod KNone]) c = Some c' /\
    cf_outcome simple_rx c' w_req = ([(5, [(VMethod, [], str "GET"%string)])], None).
Proof. exact update_target_guard_instance. Qed.
Print Assumptions C17_update_target_guard_instance.

(* what the written exclusion means: no entry hit by it is selected by a target of that variable *)
Theorem C17_update_target_excludes : forall rx v k l ecol rq cv m,
  In cv (cl_vars (update_target [TNeg v k] l)) -> cv_var cv = v -> cv_count cv = false ->
  In m (select rx cv ecol rq) ->
  exc_hit rx (mkExc (key_text k) (key_rx (var_cs v) k)) (lower_ascii (snd (fst m))) = false.
Proof. exact update_target_excludes. Qed.
Print Assumptions C17_update_target_excludes.

(* SecRuleUpdateActionById = the rule written with the new actions; guards: ids not covering 0 and no
   "block" among the new actions (both refuted below without the guard) *)
Theorem C17_update_action_equiv_partial : forall rx dflt src c l acts c' rq,
  cf_compile dflt src = Some c -> forallb spec_zero_free l = true -> no_block acts = true ->
  cf_apply (DUpdActionById l acts) c = Some c' ->
  exists c'', cf_compile dflt (cf_rewrite (DUpdActionById l acts) src) = Some c'' /\
              cf_outcome rx c' rq = cf_outcome rx c'' rq.
Proof. exact update_action_equiv_partial. Qed.
Print Assumptions C17_update_action_equiv_partial.

Theorem C17_update_action_guard_instance :
  exists c c', cf_compile w_dflt w0_src = Some c /\
    forallb spec_zero_free [IdRange 5 6; IdOne 7] = true /\ no_block [ADisr DDeny; AStatus 500] = true /\
    cf_apply (DUpdActionById [IdRange 5 6; IdOne 7] [ADisr DDeny; AStatus 500]) c = Some c' /\
    cf_outcome simple_rx c' w_req = ([(5, [(VMethod, [], str "GET"%string)])], Some (500%N, 5%N, DDeny)).
Proof. exact update_action_guard_instance. Qed.
Print Assumptions C17_update_action_guard_instance.

(* lists of id fields = the fields one after the other; a range = its present members one by one *)
Theorem C17_lists_ranges_enumerate :
  (forall l1 l2 rs, cf_apply (DRemoveById (l1 ++ l2)) rs
                    = match l1, l2 with
                      | [], _ => cf_apply (DRemoveById l2) rs
                      | _, [] => cf_apply (DRemoveById l1) rs
                      | _, _ => obind (cf_apply (DRemoveById l1) rs) (cf_apply (DRemoveById l2))
                      end) /\
  (forall single f l1 l2 rs,
      upd_specs single f (l1 ++ l2) rs = obind (upd_specs single f l1 rs) (upd_specs single f l2)) /\
  (forall a b rs, (a <= b)%N ->
      cf_apply (DRemoveById [IdRange a b]) rs
      = Some (fold_left (fun rs i => del_first i rs) (present a b rs) rs)) /\
  (forall a b f rs, (forall r, cr_id (f r) = cr_id r) -> in_rng a b 0 = false -> uniq rs ->
      upd_range a b f rs = fold_left (fun rs i => upd_first_or_skip i f rs) (present a b rs) rs).
Proof. exact lists_ranges_enumerate. Qed.
Print Assumptions C17_lists_ranges_enumerate.

(* run-time removal: after the ctl executed (any state st), every later evaluation of any rules rs of
   the WAF, in any phase, behaves as over the rule list without the rules carrying the removed ids *)
Theorem C17_ctl_equiv_remove : forall rx all c st rs ph rq,
  is_rm_ctl c = true ->
  obs (eval_list rx all rs ph rq (cf_ctl_step all c st))
  = obs (eval_list rx (allP all (rm_set all c)) (filter (keepP (rm_set all c)) rs) ph rq st).
Proof. exact ctl_remove_equiv. Qed.
Print Assumptions C17_ctl_equiv_remove.

(* run-time target exclusion: as over the rule list with the exclusion written into every link of the
   rules carrying the selected ids (chain members included) *)
Theorem C17_ctl_equiv_target : forall rx all c st rs ph rq,
  is_tgt_ctl c = true ->
  obs (eval_list rx all rs ph rq (cf_ctl_step all c st))
  = obs (eval_list rx (allT all (tgt_ids all c) (tgt_var c) (tgt_exc c))
                   (map (rwT (tgt_ids all c) (tgt_var c) (tgt_exc c)) rs) ph rq st).
Proof. exact ctl_target_equiv. Qed.
Print Assumptions C17_ctl_equiv_target.

(* the whole rest of the transaction (remaining rules of the phase, then the later phases over the whole
   rule list; cf_run = cf_rest rules rules 1 [2]) *)
Theorem C17_ctl_equiv_remove_rest : forall rx all c st rs ph phs rq,
  is_rm_ctl c = true ->
  obs (cf_rest rx all rs ph phs rq (cf_ctl_step all c st))
  = obs (cf_rest rx (allP all (rm_set all c)) (filter (keepP (rm_set all c)) rs) ph phs rq st).
Proof. exact ctl_remove_equiv_rest. Qed.
Print Assumptions C17_ctl_equiv_remove_rest.

Theorem C17_ctl_equiv_target_rest : forall rx all c st rs ph phs rq,
  is_tgt_ctl c = true ->
  obs (cf_rest rx all rs ph phs rq (cf_ctl_step all c st))
  = obs (cf_rest rx (allT all (tgt_ids all c) (tgt_var c) (tgt_exc c))
                 (map (rwT (tgt_ids all c) (tgt_var c) (tgt_exc c)) rs) ph phs rq st).
Proof. exact ctl_target_equiv_rest. Qed.
Print Assumptions C17_ctl_equiv_target_rest.

(* a LIST of target exclusions executed in one transaction (one trigger rule or several; any mix of by-id,
   by-tag, by-msg, regex / string / whole-collection keys, the same rule and collection hit repeatedly):
   the rest of the transaction behaves as over the rule list with ALL of them written in (rw_list) *)
Theorem C17_ctl_equiv_target_list : forall rx all cs st rs ph phs rq,
  forallb is_tgt_ctl cs = true ->
  obs (cf_rest rx all rs ph phs rq (fold_left (fun s c => cf_ctl_step all c s) cs st))
  = obs (cf_rest rx (rw_list all cs all) (rw_list all cs rs) ph phs rq st).
Proof. exact ctl_target_list_equiv. Qed.
Print Assumptions C17_ctl_equiv_target_list.

(* a LIST of removals executed in one transaction (3-6 ranges in any order, ids, tags, msgs mixed): the rest
   of the transaction behaves as over the rule list without the rules whose id is in the UNION *)
Theorem C17_ctl_equiv_remove_list : forall rx all cs st rs ph phs rq,
  forallb is_rm_ctl cs = true ->
  obs (cf_rest rx all rs ph phs rq (fold_left (fun s c => cf_ctl_step all c s) cs st))
  = obs (cf_rest rx (allP all (rm_set_list all cs)) (filter (keepP (rm_set_list all cs)) rs) ph phs rq st).
Proof. exact ctl_remove_list_equiv. Qed.
Print Assumptions C17_ctl_equiv_remove_list.

(* ranges enumerate their members: an id is in the union iff some entry is that id or a valid range around it *)
Theorem C17_ctl_ranges_enumerate : forall all (l : list idspec) id,
  rm_set_list all (map CRmId l) id = existsb (fun sp => spec_valid sp && spec_has sp id) l.
Proof. exact rm_set_list_ids. Qed.
Print Assumptions C17_ctl_ranges_enumerate.

(* the order of execution is irrelevant: same removed ids, same rest of the transaction for any permutation *)
Theorem C17_ctl_remove_order_irrelevant : forall all cs cs' st id,
  Permutation.Permutation cs cs' -> forallb is_rm_ctl cs = true ->
  is_removed (fold_left (fun s c => cf_ctl_step all c s) cs st) id
  = is_removed (fold_left (fun s c => cf_ctl_step all c s) cs' st) id.
Proof. exact ctl_remove_order_irrelevant. Qed.
Print Assumptions C17_ctl_remove_order_irrelevant.

Theorem C17_ctl_remove_perm_rest : forall rx all cs cs' st rs ph phs rq,
  Permutation.Permutation cs cs' -> forallb is_rm_ctl cs = true ->
  obs (cf_rest rx all rs ph phs rq (fold_left (fun s c => cf_ctl_step all c s) cs st))
  = obs (cf_rest rx all rs ph phs rq (fold_left (fun s c => cf_ctl_step all c s) cs' st)).
Proof. exact ctl_remove_perm_rest. Qed.
Print Assumptions C17_ctl_remove_perm_rest.

Theorem C17_run_is_rest : forall rx rules rq, cf_run rx rules rq = cf_rest rx rules rules 1 [2] rq st_init.
Proof. exact cf_run_rest. Qed.
Print Assumptions C17_run_is_rest.

(* the same, against the REWRITTEN SOURCE compiled by the parser *)
Theorem C17_ctl_equiv_remove_source : forall rx dflt src all c st srs ph rq,
  cf_compile dflt src = Some all -> is_rm_ctl c = true -> rm_set all c 0 = false ->
  exists all', cf_compile dflt (src_ctl_remove (rm_set all c) src) = Some all' /\
    obs (eval_list rx all (map (compile_item dflt) srs) ph rq (cf_ctl_step all c st))
    = obs (eval_list rx all' (map (compile_item dflt) (src_ctl_remove (rm_set all c) srs)) ph rq st).
Proof. exact ctl_remove_equiv_src. Qed.
Print Assumptions C17_ctl_equiv_remove_source.

Theorem C17_ctl_equiv_target_source_partial : forall rx dflt src all c st srs ph rq,
  cf_compile dflt src = Some all -> is_tgt_ctl c = true -> key_not_rx (tgt_key c) = true ->
  let Q := tq (tgt_ids all c) in
  exists all', cf_compile dflt (map (src_ctl_target Q (tgt_var c) (tgt_key c)) src) = Some all' /\
    obs (eval_list rx all (map (compile_item dflt) srs) ph rq (cf_ctl_step all c st))
    = obs (eval_list rx all' (map (compile_item dflt) (map (src_ctl_target Q (tgt_var c) (tgt_key c)) srs)) ph rq st).
Proof. exact ctl_target_equiv_src. Qed.
Print Assumptions C17_ctl_equiv_target_source_partial.

(* a transaction never changes the rule list the next transaction sees *)
Theorem C17_ctl_local : forall rx rules rqs1 rq rqs2,
  nth (length rqs1) (cf_serve rx rules (rqs1 ++ rq :: rqs2)) ([], None) = cf_outcome rx rules rq.
Proof. exact serve_local. Qed.
Print Assumptions C17_ctl_local.

(* Interrupt, skipAfter and skip commute: keeping per-type action lists loses nothing *)
Theorem C17_exec_commute : forall id stt d f s,
  exec_disr id stt d (exec_flow f s) = exec_flow f (exec_disr id stt d s).
Proof. exact cf_exec_commute. Qed.
Print Assumptions C17_exec_commute.

(* skip:2 with a run-time removed rule (30) inside its window: 30 does not count, 40 and 50 are skipped -
   as in the rule set without rule 30 (instance of C17_ctl_equiv_remove, whose engine counts tx.Skip after
   the per-transaction removal check) *)
Theorem C17_skip_window_instance :
  exists c, cf_compile w_dflt wsk_src = Some c /\
    map fst (fst (cf_outcome simple_rx c w_req)) = [10; 20; 60].
Proof. exact skip_window_instance. Qed.
Print Assumptions C17_skip_window_instance.

(* ---- the code as it is violates the unguarded statements ---- *)
Theorem C17_remove_id_zero_refuted :
  exists dflt src d c c' c'' rq,
    cf_compile dflt src = Some c /\ is_remove d = true /\ cf_apply d c = Some c' /\
    cf_compile dflt (cf_rewrite d src) = Some c'' /\
    cf_outcome simple_rx c' rq <> cf_outcome simple_rx c'' rq.
Proof. exact remove_id_zero_refuted. Qed.
Print Assumptions C17_remove_id_zero_refuted.

Theorem C17_update_action_id_zero_refuted :
  exists dflt src l acts c c' c'' rq,
    cf_compile dflt src = Some c /\ no_block acts = true /\ cf_apply (DUpdActionById l acts) c = Some c' /\
    cf_compile dflt (cf_rewrite (DUpdActionById l acts) src) = Some c'' /\
    cf_outcome simple_rx c' rq <> cf_outcome simple_rx c'' rq.
Proof. exact update_action_id_zero_refuted. Qed.
Print Assumptions C17_update_action_id_zero_refuted.

Theorem C17_update_action_block_refuted :
  exists dflt src l acts c c' c'' rq,
    cf_compile dflt src = Some c /\ forallb spec_zero_free l = true /\
    cf_apply (DUpdActionById l acts) c = Some c' /\
    cf_compile dflt (cf_rewrite (DUpdActionById l acts) src) = Some c'' /\
    cf_outcome simple_rx c' rq <> cf_outcome simple_rx c'' rq.
Proof. exact update_action_block_refuted. Qed.
Print Assumptions C17_update_action_block_refuted.

Theorem C17_ctl_target_regex_case_refuted :
  exists dflt c1 c2 rq,
    cf_compile dflt (wrx_src true) = Some c1 /\
    cf_compile dflt (map (src_ctl_target (fun id => N.eqb id 1) VHeaders (KRx (str "^X-Foo"%string))) (wrx_src false)) = Some c2 /\
    cf_outcome simple_rx c1 rq <> cf_outcome simple_rx c2 rq.
Proof. exact ctl_target_regex_case_refuted. Qed.
Print Assumptions C17_ctl_target_regex_case_refuted.
