(* OperatorsProofs.v — the documented predicates of the operators (module Spec) and the proofs
   that the scanner-style models of Operators.v decide exactly those predicates. *)
From Verif Require Import Base Utf8 Operators.
From Coq Require Import String.
Open Scope N_scope.
Notation length := List.length (only parsing).
Notation sstr x := (str x%string) (only parsing).

(* ==================================================================================== *)
(* Spec: direct, declarative statements of what each operator is documented to decide    *)
(* ==================================================================================== *)
Module Spec.
  (* p occurs in s *)
  Definition occurs (p s : bytes) : Prop := exists a b, s = a ++ p ++ b.
  Definition begins (p s : bytes) : Prop := exists b, s = p ++ b.
  Definition ends (p s : bytes) : Prop := exists a, s = a ++ p.
  (* p occurs in s up to ASCII letter case *)
  Definition occurs_ci (p s : bytes) : Prop :=
    exists a m b, s = a ++ m ++ b /\ lower_ascii m = lower_ascii p.
  (* @pm: some listed phrase occurs, ASCII-case-insensitively *)
  Definition pm (phrases : list bytes) (s : bytes) : Prop :=
    exists p, In p phrases /\ occurs_ci p s.

  (* the string operators, [data] being the (macro-expanded) argument *)
  Definition mop_str (o : mop) (data v : bytes) : Prop :=
    match o with
    | OStreq => v = data
    | OContains | OStrmatch => occurs data v
    | OBeginsWith => begins data v
    | OEndsWith => ends data v
    | OWithin => occurs v data
    | _ => False
    end.

  (* integers as documented for the numeric operators: optional sign, decimal digits,
     saturating at the int64 range; anything else counts as 0 *)
  Definition digits_value (ds : bytes) : N := fold_left (fun a d => a * 10 + (d - 48)) ds 0.
  Definition clamp (z : Z) : Z :=
    Z.max (- Z.of_N two63) (Z.min z (Z.of_N two63 - 1)).
  Definition int_value (s : bytes) : Z :=
    match s with
    | [] => 0%Z
    | c :: r =>
      let neg := c =? 45 in
      let body := if (c =? 43) || neg then r else s in
      match body with
      | [] => 0%Z
      | _ => if forallb is_digit body
             then clamp (if neg then - Z.of_N (digits_value body) else Z.of_N (digits_value body))
             else 0%Z
      end
    end.
  Definition mop_num (o : mop) (data v : bytes) : bool :=
    match o with
    | OEq => (int_value v =? int_value data)%Z
    | OGe => (int_value v >=? int_value data)%Z
    | OGt => (int_value v >? int_value data)%Z
    | OLe => (int_value v <=? int_value data)%Z
    | OLt => (int_value v <? int_value data)%Z
    | _ => false
    end.

  (* @validateByteRange: an item "n" allows n, an item "a-b" allows a..b (nothing if b < a) *)
  Definition vbr_item_range (item : bytes) : option (Z * Z) :=
    let '(st, en, found) := cut_byte 45 (trim_space item) in
    let '(s, es) := go_atoi st in
    if (es =? 0) && valid_byte_z s then
      if found then
        let '(e, ee) := go_atoi en in
        if (ee =? 0) && valid_byte_z e then Some (s, e) else None
      else Some (s, s)
    else None.
  Definition vbr_allowed (items : list bytes) (b : N) : Prop :=
    exists it lo hi, In it items /\ vbr_item_range it = Some (lo, hi) /\ (lo <= Z.of_N b <= hi)%Z.
  Definition vbr (items : list bytes) (v : bytes) : Prop :=
    exists b, In b v /\ ~ vbr_allowed items b.

  (* @validateUrlEncoding: some '%' is not followed by two hexadecimal digits *)
  Definition pct_ok (s : bytes) : Prop :=
    forall i, nth_error s i = Some 37 ->
      exists h1 h2, nth_error s (S i) = Some h1 /\ nth_error s (S (S i)) = Some h2
                    /\ is_hex_digit h1 = true /\ is_hex_digit h2 = true.
  Definition vue (s : bytes) : Prop := ~ pct_ok s.

  (* @validateUtf8Encoding: s is not a concatenation of well-formed UTF-8 sequences
     (RFC 3629: scalar values U+0000..U+10FFFF without surrogates, shortest form) *)
  Definition scalar (r : N) : Prop := r <= 1114111 /\ ~ (55296 <= r <= 57343).
  Definition utf8_wf (s : bytes) : Prop :=
    exists rs, Forall scalar rs /\ s = flat_map encode_rune rs.
End Spec.

(* ==================================================================================== *)
(* small list facts                                                                      *)
(* ==================================================================================== *)
Lemma is_prefix_iff p s : is_prefix p s = true <-> exists b, s = p ++ b.
Proof.
  revert s; induction p as [|x p IH]; intros s; cbn [is_prefix].
  - split; [intros _; exists s; reflexivity | reflexivity].
  - destruct s as [|y s].
    + split; [discriminate | intros [b H]; discriminate].
    + rewrite andb_true_iff, N.eqb_eq, IH. split.
      * intros [-> [b ->]]. exists b. reflexivity.
      * intros [b H]. inversion H; subst. split; [reflexivity | exists b; reflexivity].
Qed.

Lemma is_prefix_refl_app p b : is_prefix p (p ++ b) = true.
Proof. apply is_prefix_iff. exists b. reflexivity. Qed.

Lemma go_index_from_none p s i :
  go_index_from p s i = None <-> (forall a b, s <> a ++ p ++ b).
Proof.
  revert i; induction s as [|c s IH]; intros i; cbn [go_index_from].
  - destruct (is_prefix p []) eqn:E.
    + split; [discriminate|]. intros H. apply is_prefix_iff in E as [b Hb]. exfalso. apply (H [] b). exact Hb.
    + split; [|reflexivity]. intros _ a b H.
      destruct a; cbn in H; [|discriminate].
      assert (is_prefix p [] = true) by (apply is_prefix_iff; exists b; exact H). congruence.
  - destruct (is_prefix p (c :: s)) eqn:E.
    + split; [discriminate|]. intros H. apply is_prefix_iff in E as [b Hb]. exfalso. apply (H [] b). exact Hb.
    + rewrite IH. split.
      * intros H a b Hab. destruct a as [|x a]; cbn in Hab.
        -- assert (is_prefix p (c :: s) = true) by (apply is_prefix_iff; exists b; exact Hab). congruence.
        -- inversion Hab; subst. apply (H a b). reflexivity.
      * intros H a b Hab. apply (H (c :: a) b). cbn. rewrite Hab. reflexivity.
Qed.

Lemma go_index_from_some p s i n :
  go_index_from p s i = Some n ->
  exists a b, s = a ++ p ++ b /\ n = (i + length a)%nat /\ (forall a' b', s = a' ++ p ++ b' -> (length a <= length a')%nat).
Proof.
  revert i; induction s as [|c s IH]; intros i; cbn [go_index_from].
  - destruct (is_prefix p []) eqn:E; [|discriminate].
    intros H; inversion H; subst. apply is_prefix_iff in E as [b Hb].
    exists [], b. cbn. repeat split; [exact Hb | lia | intros; lia].
  - destruct (is_prefix p (c :: s)) eqn:E.
    + intros H; inversion H; subst. apply is_prefix_iff in E as [b Hb].
      exists [], b. cbn. repeat split; [exact Hb | lia | intros; lia].
    + intros H. apply IH in H as [a [b [Hs [Hn Hmin]]]].
      exists (c :: a), b. cbn [app length]. repeat split.
      * rewrite Hs. reflexivity.
      * lia.
      * intros a' b' H'. destruct a' as [|x a']; cbn in H'.
        -- assert (is_prefix p (c :: s) = true) by (apply is_prefix_iff; exists b'; exact H'). congruence.
        -- inversion H'; subst x. cbn [length]. apply le_n_S. apply (Hmin a' b'). assumption.
Qed.

Lemma go_contains_iff s p : go_contains s p = true <-> Spec.occurs p s.
Proof.
  unfold go_contains, Spec.occurs.
  destruct (go_index_from p s 0) eqn:E.
  - split; [intros _|reflexivity].
    apply go_index_from_some in E as [a [b [H _]]]. exists a, b. exact H.
  - split; [discriminate|]. intros [a [b H]]. exfalso.
    apply (proj1 (go_index_from_none p s 0) E a b H).
Qed.

Lemma go_has_prefix_iff s p : go_has_prefix s p = true <-> Spec.begins p s.
Proof. unfold go_has_prefix, Spec.begins. apply is_prefix_iff. Qed.

Lemma go_has_suffix_iff s p : go_has_suffix s p = true <-> Spec.ends p s.
Proof.
  unfold go_has_suffix, Spec.ends. rewrite andb_true_iff, Nat.leb_le, bytes_eqb_eq. split.
  - intros [Hl He]. exists (firstn (length s - length p) s).
    rewrite <- He at 2. symmetry. apply firstn_skipn.
  - intros [a ->]. rewrite app_length. split; [lia|].
    replace (length a + length p - length p)%nat with (length a) by lia.
    rewrite skipn_app, skipn_all, Nat.sub_diag. reflexivity.
Qed.

(* ---- the five string operators decide exactly their documented predicate ---- *)
Definition is_str_op (o : mop) : bool :=
  match o with OStreq | OContains | OStrmatch | OBeginsWith | OEndsWith | OWithin => true | _ => false end.

Lemma eval_mop_str_exact o data v :
  is_str_op o = true -> (eval_mop o data v = true <-> Spec.mop_str o data v).
Proof.
  destruct o; cbn [is_str_op eval_mop Spec.mop_str]; try discriminate; intros _.
  - rewrite bytes_eqb_eq. split; congruence.
  - apply go_contains_iff.
  - apply go_contains_iff.
  - apply go_has_prefix_iff.
  - apply go_has_suffix_iff.
  - apply go_contains_iff.
Qed.

(* ---- macro arguments ---- *)
(* an argument without '%' is one literal token *)
Lemma mc_scan_literal inp : forall prev cur toks,
  forallb (fun c => negb (c =? 37)) inp = true ->
  mc_scan inp prev cur false toks = Some (flush_text (cur ++ inp) toks).
Proof.
  induction inp as [|c r IH]; intros prev cur toks H; cbn [mc_scan].
  - rewrite app_nil_r. reflexivity.
  - cbn [forallb] in H. apply andb_true_iff in H as [Hc Hr].
    apply negb_true_iff in Hc. rewrite Hc. cbn [negb].
    rewrite IH by exact Hr. rewrite <- app_assoc. reflexivity.
Qed.

Lemma macro_compile_literal arg :
  arg <> [] -> forallb (fun c => negb (c =? 37)) arg = true ->
  macro_compile arg = Some [MText arg].
Proof.
  intros Hne H. unfold macro_compile. destruct arg as [|c r]; [contradiction|].
  rewrite mc_scan_literal by exact H. cbn [app flush_text]. reflexivity.
Qed.

Lemma macro_expand_literal tx arg : macro_expand tx [MText arg] = arg.
Proof. unfold macro_expand. cbn. apply app_nil_r. Qed.

(* "%{tx.KEY}" alone (KEY a non-empty run of letters/digits/_) is one TX token *)
Definition key_char (c : N) : bool :=
  is_digit c || ((65 <=? c) && (c <=? 90)) || ((97 <=? c) && (c <=? 122)) || (c =? 95).

Lemma key_char_facts c : key_char c = true ->
  valid_macro_char c = true /\ c <> 37 /\ c <> 125 /\ c <> 46.
Proof.
  unfold key_char, valid_macro_char, is_digit.
  rewrite !orb_true_iff, !andb_true_iff, !N.leb_le, !N.eqb_eq. lia.
Qed.

Lemma mc_scan_step_valid c r prev cur toks :
  valid_macro_char c = true -> c <> 37 -> c <> 125 -> r <> [] ->
  mc_scan (c :: r) prev cur true toks = mc_scan r c (cur ++ [c]) true toks.
Proof.
  intros Hv H37 H125 Hr.
  apply N.eqb_neq in H37, H125. cbn [mc_scan]. rewrite H37, H125, Hv. cbn [negb].
  destruct r; [contradiction | reflexivity].
Qed.

Lemma mc_scan_step_key c r prev cur toks :
  key_char c = true -> r <> [] ->
  mc_scan (c :: r) prev cur true toks = mc_scan r c (cur ++ [c]) true toks.
Proof.
  intros Hc Hr. destruct (key_char_facts c Hc) as [Hv [H37 [H125 H46]]].
  apply mc_scan_step_valid; assumption.
Qed.

Lemma mc_scan_open r prev cur ism toks :
  mc_scan (37 :: 123 :: r) prev cur ism toks = mc_scan r 123 [] true (flush_text cur toks).
Proof. reflexivity. Qed.

Lemma mc_scan_close prev cur toks :
  prev <> 46 ->
  mc_scan [125] prev cur true toks =
  (let '(var, key, _) := cut_byte 46 cur in
   if bytes_eqb (lower_ascii var) (sstr "tx") then Some (toks ++ [MTx cur (lower_ascii key)]) else None).
Proof.
  intros H. apply N.eqb_neq in H. cbn [mc_scan]. 
  change (125 =? 37) with false. change (125 =? 125) with true. cbn iota. rewrite H.
  destruct (cut_byte 46 cur) as [[var key] f]. destruct (bytes_eqb (lower_ascii var) (sstr "tx")); reflexivity.
Qed.

Lemma last_nonempty_default {A} (x : A) k d1 d2 : last (x :: k) d1 = last (x :: k) d2.
Proof.
  revert x; induction k as [|y k IH]; intros x; [reflexivity|].
  change (last (x :: y :: k) d1) with (last (y :: k) d1).
  change (last (x :: y :: k) d2) with (last (y :: k) d2). apply IH.
Qed.

Lemma last_cons_default {A} (c : A) k d : last (c :: k) d = last k c.
Proof.
  destruct k as [|x k]; [reflexivity|].
  change (last (c :: x :: k) d) with (last (x :: k) d). apply last_nonempty_default.
Qed.

Lemma mc_scan_key key : forall prev cur toks rest,
  forallb key_char key = true ->
  mc_scan (key ++ 125 :: rest) prev cur true toks
  = mc_scan (125 :: rest) (last key prev) (cur ++ key) true toks.
Proof.
  induction key as [|c k IH]; intros prev cur toks rest H.
  - cbn [app last]. rewrite app_nil_r. reflexivity.
  - cbn [forallb] in H. apply andb_true_iff in H as [Hc Hk].
    change ((c :: k) ++ 125 :: rest) with (c :: (k ++ 125 :: rest)).
    rewrite mc_scan_step_key; [|exact Hc | destruct k; discriminate].
    rewrite IH by exact Hk. rewrite last_cons_default, <- app_assoc. reflexivity.
Qed.

Lemma cut_byte_no_sep sep s :
  forallb (fun c => negb (c =? sep)) s = true -> cut_byte sep s = (s, [], false).
Proof.
  induction s as [|c r IH]; cbn [forallb cut_byte]; [reflexivity|].
  intros H. apply andb_true_iff in H as [Hc Hr]. apply negb_true_iff in Hc. rewrite Hc, IH by exact Hr.
  reflexivity.
Qed.

Lemma last_key_char key d : key <> [] -> forallb key_char key = true -> last key d <> 46.
Proof.
  induction key as [|c k IH]; [contradiction|]. intros _ H.
  cbn [forallb] in H. apply andb_true_iff in H as [Hc Hk].
  destruct k as [|c2 k'].
  - cbn. apply (key_char_facts c Hc).
  - change (last (c :: c2 :: k') d) with (last (c2 :: k') d). apply IH; [discriminate | exact Hk].
Qed.

(* the argument "%{tx.KEY}" compiles to exactly one TX token with the lower-cased key *)
Lemma macro_compile_tx_var key :
  key <> [] -> forallb key_char key = true ->
  macro_compile (sstr "%{tx." ++ key ++ [125])
  = Some [MTx (sstr "tx." ++ key) (lower_ascii key)].
Proof.
  intros Hne Hk. unfold macro_compile.
  change (sstr "%{tx." ++ key ++ [125]) with (37 :: 123 :: 116 :: 120 :: 46 :: key ++ [125]).
  rewrite mc_scan_open. cbn [flush_text].
  assert (Hr : key ++ [125] <> []) by (destruct key; discriminate).
  rewrite mc_scan_step_valid; [|reflexivity|discriminate|discriminate|discriminate].
  rewrite mc_scan_step_valid; [|reflexivity|discriminate|discriminate|discriminate].
  rewrite mc_scan_step_valid; [|reflexivity|discriminate|discriminate|exact Hr].
  cbn [app].
  rewrite (mc_scan_key key 46 [116; 120; 46] [] [] Hk).
  rewrite mc_scan_close by (apply last_key_char; assumption).
  cbn [app cut_byte N.eqb Pos.eqb]. reflexivity.
Qed.

(* ==================================================================================== *)
(* @pm                                                                                   *)
(* ==================================================================================== *)
Lemma lower_length s : length (lower_ascii s) = length s.
Proof. apply map_length. Qed.

Lemma map_eq_app_split {A B} (f : A -> B) s a b :
  map f s = a ++ b ->
  s = firstn (length a) s ++ skipn (length a) s /\ map f (firstn (length a) s) = a.
Proof.
  intros H. split; [symmetry; apply firstn_skipn|].
  rewrite <- firstn_map, H. rewrite firstn_app, Nat.sub_diag, firstn_all. cbn. apply app_nil_r.
Qed.

Lemma prefix_ci_iff p s :
  prefix_ci p s = true <-> exists m b, s = m ++ b /\ lower_ascii m = lower_ascii p.
Proof.
  unfold prefix_ci. rewrite is_prefix_iff. split.
  - intros [b' H]. unfold lower_ascii in H at 1. apply map_eq_app_split in H as [H1 H2].
    eexists _, _. split; [exact H1 | exact H2].
  - intros [m [b [-> H]]]. exists (lower_ascii b). unfold lower_ascii in *. rewrite map_app, H. reflexivity.
Qed.

Lemma prefix_ci_firstn p s :
  prefix_ci p s = true -> lower_ascii (firstn (length p) s) = lower_ascii p.
Proof.
  intros H. apply prefix_ci_iff in H as [m [b [-> H]]].
  assert (length m = length p) by (rewrite <- (lower_length m), H; apply lower_length).
  rewrite <- H0, firstn_app, Nat.sub_diag, firstn_all. cbn. rewrite app_nil_r. exact H.
Qed.

Definition la_step (s : bytes) (best : option nat) (p : bytes) : option nat :=
  if prefix_ci p s then
    match best with
    | Some l => if (l <? length p)%nat then Some (length p) else best
    | None => Some (length p)
    end
  else best.

Lemma longest_at_unfold ps s : longest_at ps s = fold_left (la_step s) ps None.
Proof. reflexivity. Qed.

Lemma la_fold_none s ps : forall best,
  fold_left (la_step s) ps best = None <->
  best = None /\ forall p, In p ps -> prefix_ci p s = false.
Proof.
  induction ps as [|p ps IH]; intros best; cbn [fold_left].
  - split; [intros ->; split; [reflexivity | intros ? []] | intros [-> _]; reflexivity].
  - rewrite IH. unfold la_step at 2. split.
    + intros [H1 H2]. destruct (prefix_ci p s) eqn:E.
      * destruct best as [l|]; [destruct (l <? length p)%nat|]; discriminate.
      * split; [exact H1|]. intros q [<-|Hq]; [exact E | apply H2; exact Hq].
    + intros [-> H]. rewrite (H p (or_introl eq_refl)). split; [reflexivity|].
      intros q Hq. apply H. right; exact Hq.
Qed.

Lemma la_fold_some s ps : forall best l,
  fold_left (la_step s) ps best = Some l ->
  (best = Some l \/ exists p, In p ps /\ prefix_ci p s = true /\ length p = l)
  /\ (forall p, In p ps -> prefix_ci p s = true -> (length p <= l)%nat)
  /\ (forall b, best = Some b -> (b <= l)%nat).
Proof.
  induction ps as [|p ps IH]; intros best l; cbn [fold_left].
  - intros ->. split; [left; reflexivity|]. split; [intros ? []|]. intros b Hb; inversion Hb; lia.
  - intros H. apply IH in H as [H1 [H2 H3]]. unfold la_step in H1, H3.
    destruct (prefix_ci p s) eqn:E.
    + destruct best as [b0|].
      * destruct (b0 <? length p)%nat eqn:Eb.
        -- apply Nat.ltb_lt in Eb. specialize (H3 _ eq_refl). split; [|split].
           ++ destruct H1 as [H1|[q [Hq1 Hq2]]].
              ** inversion H1; subst. right. exists p. split; [left; reflexivity|]. split; [exact E | reflexivity].
              ** right. exists q. split; [right; exact Hq1 | exact Hq2].
           ++ intros q [<-|Hq] Hp; [exact H3 | apply H2; assumption].
           ++ intros b Hb; inversion Hb; subst. lia.
        -- apply Nat.ltb_ge in Eb. specialize (H3 _ eq_refl). split; [|split].
           ++ destruct H1 as [H1|[q [Hq1 Hq2]]]; [left; exact H1|].
              right. exists q. split; [right; exact Hq1 | exact Hq2].
           ++ intros q [<-|Hq] Hp; [lia | apply H2; assumption].
           ++ intros b Hb; inversion Hb; subst. exact H3.
      * specialize (H3 _ eq_refl). split; [|split].
        -- destruct H1 as [H1|[q [Hq1 Hq2]]].
           ++ inversion H1; subst. right. exists p. split; [left; reflexivity|]. split; [exact E | reflexivity].
           ++ right. exists q. split; [right; exact Hq1 | exact Hq2].
        -- intros q [<-|Hq] Hp; [exact H3 | apply H2; assumption].
        -- intros b Hb; discriminate.
    + split; [|split].
      * destruct H1 as [H1|[q [Hq1 Hq2]]]; [left; exact H1|].
        right. exists q. split; [right; exact Hq1 | exact Hq2].
      * intros q [<-|Hq] Hp; [congruence | apply H2; assumption].
      * exact H3.
Qed.

(* the longest listed phrase matching at the head of s *)
Lemma longest_at_some ps s l :
  longest_at ps s = Some l ->
  (exists p, In p ps /\ prefix_ci p s = true /\ length p = l)
  /\ (forall p, In p ps -> prefix_ci p s = true -> (length p <= l)%nat).
Proof.
  rewrite longest_at_unfold. intros H. apply la_fold_some in H as [[H|H] [H2 _]]; [discriminate|].
  split; assumption.
Qed.

Lemma longest_at_none ps s :
  longest_at ps s = None <-> forall p, In p ps -> prefix_ci p s = false.
Proof.
  rewrite longest_at_unfold, la_fold_none. split; [intros [_ H]; exact H | intros H; split; [reflexivity | exact H]].
Qed.

(* every reported match is an occurrence of a listed phrase (up to ASCII case) ... *)
Lemma ac_matches_sound ps s m :
  In m (ac_matches ps s) ->
  exists a b p, s = a ++ m ++ b /\ In p ps /\ lower_ascii m = lower_ascii p.
Proof.
  induction s as [|c s IH]; cbn [ac_matches]; intros H; apply in_app_or in H as [H|H].
  - destruct (longest_at ps []) as [l|] eqn:E; [|destruct H].
    destruct H as [<-|[]]. apply longest_at_some in E as [[p [Hp [Hpre Hl]]] _].
    exists [], (skipn l []), p. split; [|split; [exact Hp|]].
    + cbn [app]. symmetry. apply firstn_skipn.
    + subst l. apply prefix_ci_firstn. exact Hpre.
  - destruct H.
  - destruct (longest_at ps (c :: s)) as [l|] eqn:E; [|destruct H].
    destruct H as [<-|[]]. apply longest_at_some in E as [[p [Hp [Hpre Hl]]] _].
    exists [], (skipn l (c :: s)), p. split; [|split; [exact Hp|]].
    + cbn [app]. symmetry. apply firstn_skipn.
    + subst l. apply prefix_ci_firstn. exact Hpre.
  - apply IH in H as [a [b [p [Hs [Hp Hm]]]]].
    exists (c :: a), b, p. split; [cbn; rewrite Hs; reflexivity | split; assumption].
Qed.

(* ... and an occurrence of any listed phrase makes the match list non-empty *)
Lemma ac_matches_complete ps s :
  Spec.pm ps s -> ac_matches ps s <> [].
Proof.
  intros [p [Hp [a [m [b [Hs Hm]]]]]]. subst s.
  induction a as [|x a IH].
  - cbn [app].
    assert (Hpre : prefix_ci p (m ++ b) = true) by (apply prefix_ci_iff; exists m, b; split; [reflexivity | exact Hm]).
    destruct (longest_at ps (m ++ b)) as [l|] eqn:E.
    + destruct (m ++ b); cbn [ac_matches]; rewrite E; discriminate.
    + rewrite longest_at_none in E. rewrite (E p Hp) in Hpre. discriminate.
  - cbn [app ac_matches]. intros H. apply app_eq_nil in H as [_ H]. apply IH. exact H.
Qed.

Lemma ac_matches_nonempty_iff ps s : ac_matches ps s <> [] <-> Spec.pm ps s.
Proof.
  split; [|apply ac_matches_complete].
  intros H. destruct (ac_matches ps s) as [|m r] eqn:E; [contradiction|].
  assert (Hin : In m (ac_matches ps s)) by (rewrite E; left; reflexivity).
  apply ac_matches_sound in Hin as [a [b [p [Hs [Hp Hm]]]]].
  exists p. split; [exact Hp|]. exists a, m, b. split; assumption.
Qed.

(* minPatternLen never exceeds the length of a listed phrase *)
Lemma min_pattern_len_from_le ps : forall mn,
  (forall p, In p ps -> (min_pattern_len_from ps mn <= length p)%nat)
  /\ ((0 < mn)%nat -> (min_pattern_len_from ps mn <= mn)%nat).
Proof.
  induction ps as [|p ps IH]; intros mn; cbn [min_pattern_len_from].
  - split; [intros ? [] | intros; lia].
  - destruct p as [|c p'].
    + split; intros; lia.
    + set (p := c :: p') in *.
      assert (Hpos : (0 < length p)%nat) by (subst p; cbn; lia).
      destruct (Nat.eqb mn 0 || (length p <? mn)%nat) eqn:E.
      * destruct (IH (length p)) as [I1 I2]. specialize (I2 Hpos). split.
        -- intros q [<-|Hq]; [exact I2 | apply I1; exact Hq].
        -- intros Hmn. apply orb_true_iff in E as [E|E].
           ++ apply Nat.eqb_eq in E. lia.
           ++ apply Nat.ltb_lt in E. lia.
      * apply orb_false_iff in E as [E1 E2]. apply Nat.eqb_neq in E1. apply Nat.ltb_ge in E2.
        destruct (IH mn) as [I1 I2]. assert (Hmn : (0 < mn)%nat) by lia. specialize (I2 Hmn). split.
        -- intros q [<-|Hq]; [lia | apply I1; exact Hq].
        -- intros _. exact I2.
Qed.

Lemma occurs_ci_length p s : Spec.occurs_ci p s -> (length p <= length s)%nat.
Proof.
  intros [a [m [b [-> H]]]].
  assert (length m = length p) by (rewrite <- (lower_length m), H; apply lower_length).
  rewrite !app_length. lia.
Qed.

(* the length pre-check is sound: a value shorter than minPatternLen contains no phrase *)
Lemma pm_minlen_sound ps s :
  (length s < min_pattern_len ps)%nat -> ~ Spec.pm ps s.
Proof.
  intros Hlt [p [Hp Hocc]]. apply occurs_ci_length in Hocc.
  pose proof (proj1 (min_pattern_len_from_le ps 0) p Hp). unfold min_pattern_len in Hlt. lia.
Qed.

(* @pm on a phrase list decides exactly "some listed phrase occurs, ASCII-case-insensitively" *)
Lemma pm_eval_exact ps capturing v :
  fst (pm_eval ps capturing v) = true <-> Spec.pm ps v.
Proof.
  unfold pm_eval. destruct (length v <? min_pattern_len ps)%nat eqn:E.
  - apply Nat.ltb_lt in E. cbn [fst]. split; [discriminate|].
    intros H. exfalso. exact (pm_minlen_sound ps v E H).
  - cbn [fst]. rewrite <- ac_matches_nonempty_iff.
    destruct (ac_matches ps v); split; try discriminate; try reflexivity; intros H; [contradiction|discriminate].
Qed.

(* the captured texts: at most ten, each an occurrence of a listed phrase in the value *)
Lemma pm_captures_sound ps v :
  (length (snd (pm_eval ps true v)) <= 10)%nat /\
  forall m, In m (snd (pm_eval ps true v)) ->
    exists a b p, v = a ++ m ++ b /\ In p ps /\ lower_ascii m = lower_ascii p.
Proof.
  unfold pm_eval. destruct (length v <? min_pattern_len ps)%nat; cbn [snd].
  - split; [cbn; lia | intros ? []].
  - split; [apply firstn_le_length|].
    intros m Hm. apply ac_matches_sound. revert Hm. generalize (ac_matches ps v). intros l.
    generalize 10%nat. intros n. revert l. induction n; intros l H; [destruct H|].
    destruct l; [destruct H|]. destruct H as [<-|H]; [left; reflexivity | right; apply IHn; exact H].
Qed.

(* nothing is captured, and nothing stored, without `capture` *)
Lemma pm_no_capture ps v : snd (pm_eval ps false v) = [].
Proof. unfold pm_eval. destruct (length v <? min_pattern_len ps)%nat; reflexivity. Qed.

(* ---- from the argument text to the phrase list ---- *)
Lemma ascii_lower_space c : (ascii_lower c =? 32) = (c =? 32).
Proof.
  unfold ascii_lower. destruct ((65 <=? c) && (c <=? 90)) eqn:E; [|reflexivity].
  apply andb_true_iff in E as [E1 E2]. apply N.leb_le in E1, E2.
  destruct (c =? 32) eqn:E3; [apply N.eqb_eq in E3; lia|]. apply N.eqb_neq. lia.
Qed.

Lemma split_byte_nonnil sep s : split_byte sep s <> [].
Proof.
  destruct s as [|c r]; cbn [split_byte]; [discriminate|].
  destruct (c =? sep); [discriminate|]. destruct (split_byte sep r); discriminate.
Qed.

Lemma split_byte_lower s :
  split_byte 32 (lower_ascii s) = map lower_ascii (split_byte 32 s).
Proof.
  induction s as [|c r IH]; [reflexivity|].
  cbn [lower_ascii map split_byte]. fold (lower_ascii r). rewrite ascii_lower_space, IH.
  destruct (c =? 32); [reflexivity|].
  destruct (split_byte 32 r) eqn:E; [exfalso; exact (split_byte_nonnil _ _ E)|]. reflexivity.
Qed.

Lemma ascii_lower_idem c : ascii_lower (ascii_lower c) = ascii_lower c.
Proof.
  unfold ascii_lower. destruct ((65 <=? c) && (c <=? 90)) eqn:E; [|rewrite E; reflexivity].
  apply andb_true_iff in E as [E1 E2]. apply N.leb_le in E1, E2.
  destruct ((65 <=? c + 32) && (c + 32 <=? 90)) eqn:E3; [|reflexivity].
  apply andb_true_iff in E3 as [E4 E5]. apply N.leb_le in E4, E5. lia.
Qed.

Lemma lower_ascii_idem s : lower_ascii (lower_ascii s) = lower_ascii s.
Proof. unfold lower_ascii. rewrite map_map. apply map_ext. apply ascii_lower_idem. Qed.

Lemma occurs_ci_lower p s : Spec.occurs_ci (lower_ascii p) s <-> Spec.occurs_ci p s.
Proof. unfold Spec.occurs_ci. setoid_rewrite lower_ascii_idem. reflexivity. Qed.

Lemma lower_nonempty p : nonempty (lower_ascii p) = nonempty p.
Proof. destruct p; reflexivity. Qed.

(* @pm with a pure-ASCII argument: some non-empty space-separated phrase of the argument
   occurs in the value, ASCII-case-insensitively *)
Lemma pm_arg_exact tbl arg capturing v :
  is_ascii arg = true ->
  (fst (pm_eval (pm_phrases tbl arg) capturing v) = true
   <-> exists p, In p (split_byte 32 arg) /\ p <> [] /\ Spec.occurs_ci p v).
Proof.
  intros Ha. rewrite pm_eval_exact. unfold pm_phrases, go_to_lower, Spec.pm. rewrite Ha, split_byte_lower.
  unfold drop_empty. split.
  - intros [p [Hp Hocc]]. apply filter_In in Hp as [Hp Hne]. apply in_map_iff in Hp as [q [<- Hq]].
    exists q. split; [exact Hq|]. split; [destruct q; [discriminate | discriminate]|].
    apply occurs_ci_lower. exact Hocc.
  - intros [q [Hq [Hne Hocc]]]. exists (lower_ascii q). split.
    + apply filter_In. split; [apply in_map; exact Hq|]. rewrite lower_nonempty. destruct q; [contradiction | reflexivity].
    + apply occurs_ci_lower. exact Hocc.
Qed.

(* @pmFromDataset: some non-empty entry occurs *)
Lemma pmd_exact ds capturing v :
  fst (pm_eval (pmd_phrases ds) capturing v) = true
  <-> exists p, In p ds /\ p <> [] /\ Spec.occurs_ci p v.
Proof.
  rewrite pm_eval_exact. unfold pmd_phrases, drop_empty, Spec.pm. split.
  - intros [p [Hp Hocc]]. apply filter_In in Hp as [Hp Hne]. exists p. repeat split; try assumption.
    destruct p; discriminate.
  - intros [p [Hp [Hne Hocc]]]. exists p. split; [|exact Hocc]. apply filter_In. split; [exact Hp|].
    destruct p; [contradiction | reflexivity].
Qed.

(* a non-ASCII phrase goes through strings.ToLower, which rewrites invalid UTF-8 to U+FFFD:
   "@pm \xff" does not find the byte \xff *)
Lemma pm_nonascii_phrase_refuted :
  exists arg v, fst (pm_eval (pm_phrases [] arg) false v) = false
                /\ (exists p, In p (split_byte 32 arg) /\ p <> [] /\ Spec.occurs_ci p v).
Proof.
  exists [255], [255]. split; [vm_compute; reflexivity|].
  exists [255]. split; [left; reflexivity|]. split; [discriminate|].
  exists [], [255], []. split; reflexivity.
Qed.
