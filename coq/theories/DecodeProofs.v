(* DecodeProofs.v — lemmas and proofs about the Decode.v model (property C03). *)
From Coq Require Import String Permutation.
From Verif Require Import Base Decode.
Open Scope N_scope.

(* ------------------------------------------------------------------------------------ *)
(* 1. queryUnescape inverts every valid percent/plus encoding                            *)
(* ------------------------------------------------------------------------------------ *)

(* a valid encoding of one byte: itself when not reserved, %XY with any hex digit case, or '+'
   for a space *)
Inductive enc_byte (reserved : byte -> bool) : byte -> bytes -> Prop :=
  | EB_lit c : reserved c = false -> enc_byte reserved c [c]
  | EB_pct c h l : dc_hex_val h = Some (c / 16) -> dc_hex_val l = Some (c mod 16) ->
                   enc_byte reserved c [37; h; l]
  | EB_plus : enc_byte reserved 32 [43].
Inductive enc_str (reserved : byte -> bool) : bytes -> bytes -> Prop :=
  | ES_nil : enc_str reserved [] []
  | ES_cons c s e es : enc_byte reserved c e -> enc_str reserved s es ->
                       enc_str reserved (c :: s) (e ++ es).

Lemma unescape_valid_encoding reserved s e :
  reserved 43 = true -> reserved 37 = true -> enc_str reserved s e -> query_unescape e = s.
Proof.
  intros R1 R2 H. induction H as [|c s e es Hb Hs IH]; [reflexivity|].
  destruct Hb as [c Hc | c h l Hh Hl | ].
  - cbn [app query_unescape].
    destruct (c =? 43) eqn:E1; [apply N.eqb_eq in E1; subst; congruence|].
    destruct (c =? 37) eqn:E2; [apply N.eqb_eq in E2; subst; congruence|].
    now rewrite IH.
  - cbn [app query_unescape]. change (37 =? 43) with false. change (37 =? 37) with true.
    cbv iota. rewrite Hh, Hl, IH. f_equal.
    pose proof (N.div_mod c 16 ltac:(discriminate)). lia.
  - cbn [app query_unescape]. change (43 =? 43) with true. cbv iota. now rewrite IH.
Qed.

(* the functional encoder produces a valid encoding *)
Lemma hex_up_val n : n < 16 -> dc_hex_val (dc_hex_up n) = Some n.
Proof.
  intro H. assert (In n [0;1;2;3;4;5;6;7;8;9;10;11;12;13;14;15]).
  { cbn. repeat (destruct (N.eq_dec n _) as [->|?]; [auto 20|]); try lia.
    all: exfalso; lia. }
  cbn in H0. repeat destruct H0 as [<-|H0]; try reflexivity. contradiction.
Qed.

Lemma unreserved_lt c : dc_unreserved c = true -> c < 256.
Proof.
  unfold dc_unreserved, dc_in. intro H.
  repeat (apply orb_true_iff in H as [H|H]);
    repeat (apply andb_true_iff in H as [? H]);
    repeat match goal with
           | X : (_ <=? _) = true |- _ => apply N.leb_le in X
           | X : (_ =? _) = true |- _ => apply N.eqb_eq in X
           end; lia.
Qed.

Lemma pct_enc_valid res s :
  (forall c, dc_unreserved c = true -> res c = false) ->
  wf_bytes s -> enc_str res s (pct_enc s).
Proof.
  intros Hres Hwf. induction Hwf as [|c s Hc Hs IH]; [constructor|].
  unfold pct_enc. cbn [flat_map]. fold (pct_enc s).
  constructor; [|exact IH].
  destruct (dc_unreserved c) eqn:E.
  - apply EB_lit. now apply Hres.
  - unfold pct_byte. unfold wf_byte in Hc. apply EB_pct; apply hex_up_val.
    + apply N.div_lt_upper_bound; lia.
    + apply N.mod_lt. discriminate.
Qed.

Definition dc_qres (c : byte) : bool := negb (dc_unreserved c).

Lemma unescape_encode s : wf_bytes s -> query_unescape (pct_enc s) = s.
Proof.
  intro H. apply (unescape_valid_encoding dc_qres); try reflexivity.
  apply pct_enc_valid; [|exact H]. intros c Hc. unfold dc_qres. now rewrite Hc.
Qed.

(* ------------------------------------------------------------------------------------ *)
(* 2. splitting, joining, cutting                                                        *)
(* ------------------------------------------------------------------------------------ *)

Lemma split_not_nil sep s : dc_split sep s <> [].
Proof.
  destruct s as [|c r]; cbn [dc_split]; [discriminate|].
  destruct (c =? sep); [discriminate|]. destruct (dc_split sep r); discriminate.
Qed.

Lemma split_nosep sep x : ~ In sep x -> dc_split sep x = [x].
Proof.
  induction x as [|c x IH]; intro H; [reflexivity|].
  cbn [dc_split]. destruct (c =? sep) eqn:E.
  - apply N.eqb_eq in E. subst. exfalso. apply H. now left.
  - rewrite IH; [reflexivity|]. intro I. apply H. now right.
Qed.

Lemma split_app sep x rest : ~ In sep x -> dc_split sep (x ++ sep :: rest) = x :: dc_split sep rest.
Proof.
  induction x as [|c x IH]; intro H.
  - cbn [app dc_split]. now rewrite N.eqb_refl.
  - cbn [app dc_split]. destruct (c =? sep) eqn:E.
    + apply N.eqb_eq in E. subst. exfalso. apply H. now left.
    + rewrite IH; [reflexivity|]. intro I. apply H. now right.
Qed.

Lemma split_join sep l :
  l <> [] -> Forall (fun x => ~ In sep x) l -> dc_split sep (dc_join [sep] l) = l.
Proof.
  induction l as [|x l IH]; intros Hne Hall; [congruence|].
  inversion Hall as [|? ? Hx Hl]; subst.
  cbn [dc_join]. destruct l as [|y l'].
  - now apply split_nosep.
  - cbn [app]. rewrite split_app by exact Hx. f_equal. apply IH; [discriminate|exact Hl].
Qed.

Lemma cut_app c k v : ~ In c k -> dc_cut c (k ++ c :: v) = (k, v, true).
Proof.
  induction k as [|x k IH]; intro H.
  - cbn [app dc_cut]. now rewrite N.eqb_refl.
  - cbn [app dc_cut]. destruct (x =? c) eqn:E.
    + apply N.eqb_eq in E. subst. exfalso. apply H. now left.
    + rewrite IH; [reflexivity|]. intro I. apply H. now right.
Qed.

Lemma cut_absent c k : ~ In c k -> dc_cut c k = (k, [], false).
Proof.
  induction k as [|x k IH]; intro H; [reflexivity|].
  cbn [dc_cut]. destruct (x =? c) eqn:E.
  - apply N.eqb_eq in E. subst. exfalso. apply H. now left.
  - rewrite IH; [reflexivity|]. intro I. apply H. now right.
Qed.

(* bytes an encoder can emit *)
Definition enc_out (res : byte -> bool) (b : byte) : Prop :=
  b = 37 \/ b = 43 \/ dc_hex_val b <> None \/ res b = false.

Lemma enc_str_out res s e : enc_str res s e -> Forall (enc_out res) e.
Proof.
  induction 1 as [|c s e es Hb Hs IH]; [constructor|].
  apply Forall_app. split; [|exact IH].
  destruct Hb as [c Hc | c h l Hh Hl | ].
  - apply Forall_cons; [|apply Forall_nil]. right; right; right. exact Hc.
  - apply Forall_cons; [now left|]. apply Forall_cons; [right; right; left; congruence|].
    apply Forall_cons; [right; right; left; congruence|apply Forall_nil].
  - apply Forall_cons; [|apply Forall_nil]. right; left. reflexivity.
Qed.

(* a delimiter: reserved, not '%', not '+', not a hex digit *)
Definition is_delim (res : byte -> bool) (d : byte) : Prop :=
  res d = true /\ d <> 37 /\ d <> 43 /\ dc_hex_val d = None.

Lemma enc_str_no_delim res s e d : is_delim res d -> enc_str res s e -> ~ In d e.
Proof.
  intros (R & N1 & N2 & Hx) H I.
  pose proof (enc_str_out _ _ _ H) as F. rewrite Forall_forall in F.
  destruct (F _ I) as [?|[?|[?|?]]]; congruence.
Qed.

(* ------------------------------------------------------------------------------------ *)
(* 3. doParseQuery reads back every pair of every valid encoding                         *)
(* ------------------------------------------------------------------------------------ *)

Definition pair_encodes (res : byte -> bool) (p e : bytes * bytes) : Prop :=
  enc_str res (fst p) (fst e) /\ enc_str res (snd p) (snd e).
Definition join_pairs (sep : byte) (el : list (bytes * bytes)) : bytes :=
  dc_join [sep] (map (fun e => fst e ++ [61] ++ snd e) el).

Lemma pieces_parse res l el :
  res 43 = true -> res 37 = true -> is_delim res 61 ->
  Forall2 (pair_encodes res) l el ->
  map (dc_parse_piece true)
      (filter (fun p => negb (dc_is_empty p)) (map (fun e => fst e ++ [61] ++ snd e) el)) = l.
Proof.
  intros R1 R2 Deq H. induction H as [|p e l el Hpe Hrest IH]; [reflexivity|].
  destruct e as [ek ev]. destruct Hpe as [Hk Hv]. cbn [fst snd] in Hk, Hv.
  cbn [map filter fst snd].
  assert (Hn : dc_is_empty (ek ++ [61] ++ ev) = false) by (destruct ek; reflexivity).
  rewrite Hn. cbn [negb map]. f_equal; [|exact IH].
  unfold dc_parse_piece. cbn [app].
  rewrite cut_app by (exact (enc_str_no_delim _ _ _ _ Deq Hk)).
  rewrite (unescape_valid_encoding res _ _ R1 R2 Hk), (unescape_valid_encoding res _ _ R1 R2 Hv).
  now destruct p.
Qed.

Lemma pieces_no_sep res sep l el :
  is_delim res sep -> sep <> 61 -> Forall2 (pair_encodes res) l el ->
  Forall (fun x => ~ In sep x) (map (fun e => fst e ++ [61] ++ snd e) el).
Proof.
  intros Dsep Hne H. induction H as [|p e l el Hpe Hrest IH]; [constructor|].
  destruct e as [ek ev]. destruct Hpe as [Hk Hv]. cbn [fst snd] in Hk, Hv.
  cbn [map fst snd]. constructor; [|exact IH].
  intro I. apply in_app_or in I as [I|I].
  - exact (enc_str_no_delim _ _ _ _ Dsep Hk I).
  - cbn [app] in I. destruct I as [I|I]; [congruence|]. exact (enc_str_no_delim _ _ _ _ Dsep Hv I).
Qed.

Theorem parse_pairs_roundtrip res sep l el :
  res 43 = true -> res 37 = true -> is_delim res sep -> is_delim res 61 -> sep <> 61 ->
  Forall2 (pair_encodes res) l el ->
  parse_pairs sep true (join_pairs sep el) = l.
Proof.
  intros R1 R2 Dsep Deq Hne H.
  unfold parse_pairs, join_pairs.
  destruct el as [|e0 el0].
  { inversion H; subst. reflexivity. }
  rewrite split_join.
  - eapply pieces_parse; eauto.
  - discriminate.
  - eapply pieces_no_sep; eauto.
Qed.

(* the functional encoder of the model/harness is one such encoding *)
Lemma dc_qres_delim d : dc_unreserved d = false -> d <> 37 -> d <> 43 -> dc_hex_val d = None -> is_delim dc_qres d.
Proof. intros. unfold is_delim, dc_qres. rewrite H. auto. Qed.

Definition wf_pairs (l : list (bytes * bytes)) : Prop :=
  Forall (fun p => wf_bytes (fst p) /\ wf_bytes (snd p)) l.

Lemma enc_query_join l : enc_query l = join_pairs 38 (map (fun p => (pct_enc (fst p), pct_enc (snd p))) l).
Proof. unfold enc_query, join_pairs. rewrite map_map. reflexivity. Qed.

Theorem query_roundtrip_pairs l : wf_pairs l -> parse_pairs 38 true (enc_query l) = l.
Proof.
  intro H. rewrite enc_query_join.
  apply (parse_pairs_roundtrip dc_qres); try reflexivity; try discriminate;
    try (apply dc_qres_delim; (reflexivity || discriminate)).
  induction H as [|p l [Hk Hv] Hl IH]; [constructor|].
  cbn [map]. constructor; [|exact IH].
  split; cbn [fst snd]; apply pct_enc_valid; auto; intros c Hc; unfold dc_qres; now rewrite Hc.
Qed.
