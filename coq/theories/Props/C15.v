(* Props/C15.v — the property theorems of C15 and nothing else.
   C15: built-in operators decide exactly their documented predicates; a leading '!' yields the
   exact complement; capturing operators store the matched texts in TX.0-9. *)
From Verif Require Import Base Utf8 Operators OperatorsProofs.
From Coq Require Import String.
Open Scope N_scope.
Notation length := List.length (only parsing).

(* ---- string operators (@streq @contains @strmatch @beginsWith @endsWith @within) ---- *)
(* whatever the argument macro compiles to, the operator decides exactly the documented
   predicate between the expanded argument and the value, for every value *)
Theorem C15_string_ops_exact : forall o arg tx v toks,
  is_str_op o = true -> macro_compile arg = Some toks ->
  exists b, run_mop o arg tx v = Some b /\ (b = true <-> Spec.mop_str o (macro_expand tx toks) v).
Proof. exact run_mop_str_exact. Qed.
Print Assumptions C15_string_ops_exact.

(* the scanner model of strings.Contains finds exactly the splits value = a ++ arg ++ b *)
Theorem C15_contains_exact : forall s p, go_contains s p = true <-> exists a b, s = a ++ p ++ b.
Proof. exact go_contains_iff. Qed.
Print Assumptions C15_contains_exact.

Theorem C15_beginsWith_exact : forall s p, go_has_prefix s p = true <-> exists b, s = p ++ b.
Proof. exact go_has_prefix_iff. Qed.
Print Assumptions C15_beginsWith_exact.

Theorem C15_endsWith_exact : forall s p, go_has_suffix s p = true <-> exists a, s = a ++ p.
Proof. exact go_has_suffix_iff. Qed.
Print Assumptions C15_endsWith_exact.

(* macro arguments: a text without '%' is taken literally; "%{tx.KEY}" is the value of TX:key *)
Theorem C15_macro_literal : forall o arg tx v,
  arg <> [] -> forallb (fun c => negb (c =? 37)) arg = true ->
  run_mop o arg tx v = Some (eval_mop o arg v).
Proof. exact run_mop_literal. Qed.
Print Assumptions C15_macro_literal.

Theorem C15_macro_tx_var : forall o key tx v,
  key <> [] -> forallb key_char key = true ->
  run_mop o (str "%{tx." ++ key ++ [125]) tx v
  = Some (eval_mop o (match tx_get tx (lower_ascii key) with Some x => x | None => str "tx." ++ key end) v).
Proof. exact run_mop_tx_var. Qed.
Print Assumptions C15_macro_tx_var.

(* ---- numeric comparisons (@eq @ge @gt @le @lt) ---- *)
(* guard num_guard: the string is an optionally signed digit string, or junk whose leading digit
   run is below 2^64 (see C15_numeric_overflow_junk_refuted for what happens outside) *)
Theorem C15_numeric_exact_partial : forall o arg tx v toks,
  is_num_op o = true -> macro_compile arg = Some toks ->
  num_guard (macro_expand tx toks) = true -> num_guard v = true ->
  run_mop o arg tx v = Some (Spec.mop_num o (macro_expand tx toks) v).
Proof. exact run_mop_num_exact. Qed.
Print Assumptions C15_numeric_exact_partial.

Theorem C15_atoi_exact_partial : forall s, num_guard s = true -> atoi_val s = Spec.int_value s.
Proof. exact atoi_val_exact. Qed.
Print Assumptions C15_atoi_exact_partial.

Theorem C15_numeric_overflow_junk_refuted : exists s, atoi_val s <> Spec.int_value s.
Proof. exact atoi_overflow_junk_refuted. Qed.
Print Assumptions C15_numeric_overflow_junk_refuted.

(* ---- @pm, @pmFromFile, @pmFromDataset ---- *)
(* on any phrase list: matches exactly when some listed phrase occurs ASCII-case-insensitively *)
Theorem C15_pm_exact : forall ps capturing v,
  fst (pm_eval ps capturing v) = true <-> Spec.pm ps v.
Proof. exact pm_eval_exact. Qed.
Print Assumptions C15_pm_exact.

(* from the argument text (pure ASCII): some non-empty space-separated phrase occurs *)
Theorem C15_pm_arg_exact_partial : forall tbl arg capturing v,
  is_ascii arg = true ->
  (fst (pm_eval (pm_phrases tbl arg) capturing v) = true
   <-> exists p, In p (split_byte 32 arg) /\ p <> [] /\ Spec.occurs_ci p v).
Proof. exact pm_arg_exact. Qed.
Print Assumptions C15_pm_arg_exact_partial.

Theorem C15_pm_nonascii_phrase_refuted :
  exists arg v, fst (pm_eval (pm_phrases [] arg) false v) = false
                /\ (exists p, In p (split_byte 32 arg) /\ p <> [] /\ Spec.occurs_ci p v).
Proof. exact pm_nonascii_phrase_refuted. Qed.
Print Assumptions C15_pm_nonascii_phrase_refuted.

Theorem C15_pmFromDataset_exact : forall ds capturing v,
  fst (pm_eval (pmd_phrases ds) capturing v) = true
  <-> exists p, In p ds /\ p <> [] /\ Spec.occurs_ci p v.
Proof. exact pmd_exact. Qed.
Print Assumptions C15_pmFromDataset_exact.

(* the length pre-check never hides a match *)
Theorem C15_pm_minlen_sound : forall ps s,
  (length s < min_pattern_len ps)%nat -> ~ Spec.pm ps s.
Proof. exact pm_minlen_sound. Qed.
Print Assumptions C15_pm_minlen_sound.

(* captured texts: at most ten, each one an occurrence of a listed phrase inside the value *)
Theorem C15_pm_captures_sound : forall ps v,
  (length (snd (pm_eval ps true v)) <= 10)%nat /\
  forall m, In m (snd (pm_eval ps true v)) ->
    exists a b p, v = a ++ m ++ b /\ In p ps /\ lower_ascii m = lower_ascii p.
Proof. exact pm_captures_sound. Qed.
Print Assumptions C15_pm_captures_sound.

Theorem C15_pm_captures : forall ps v tx i,
  (i < 10)%nat ->
  tx_get (store_captures true tx 0 (snd (pm_eval ps true v))) (itoa (N.of_nat i))
  = if (i <? length (snd (pm_eval ps true v)))%nat then Some (nth i (snd (pm_eval ps true v)) [])
    else tx_get tx (itoa (N.of_nat i)).
Proof. exact pm_captures. Qed.
Print Assumptions C15_pm_captures.

(* ---- @validateUrlEncoding ---- *)
Theorem C15_validateUrlEncoding_exact : forall v, vue_eval v = true <-> Spec.vue v.
Proof. exact vue_eval_exact. Qed.
Print Assumptions C15_validateUrlEncoding_exact.

(* ---- @validateUtf8Encoding ---- *)
(* matches exactly the values that are not a concatenation of well-formed UTF-8 sequences
   (RFC 3629: scalar values only, shortest form); utf8.ValidString is modelled with
   Utf8.decode_rune *)
Theorem C15_validateUtf8Encoding_exact : forall v, vutf8_eval v = true <-> ~ Spec.utf8_wf v.
Proof. exact vutf8_eval_exact. Qed.
Print Assumptions C15_validateUtf8Encoding_exact.

(* ---- @validateByteRange ---- *)
Theorem C15_validateByteRange_exact : forall arg v,
  arg <> [] ->
  match run_vbr arg v with
  | None => exists it, In it (split_byte 44 arg) /\ Spec.vbr_item_range it = None
  | Some r => (forall it, In it (split_byte 44 arg) -> Spec.vbr_item_range it <> None)
              /\ (r = true <-> Spec.vbr (split_byte 44 arg) v)
  end.
Proof. exact run_vbr_exact. Qed.
Print Assumptions C15_validateByteRange_exact.

(* ---- captures of @rx: TX.0-9 hold groups 0..9 (Go's regexp is an oracle giving idx) ---- *)
Theorem C15_captures : forall idx v tx i,
  (i < 10)%nat ->
  tx_get (store_captures true tx 0 (snd (rx_eval (Some idx) true v))) (itoa (N.of_nat i))
  = if (i <? ngroups idx)%nat then Some (rx_group idx v i) else tx_get tx (itoa (N.of_nat i)).
Proof. exact rx_captures. Qed.
Print Assumptions C15_captures.

(* a non-participating group is stored as "" - a text left by an earlier capturing rule does
   not survive in TX.i for any group index i < min(groups, 10) *)
Theorem C15_captures_overwrite_stale : forall idx v tx i,
  (i < 10)%nat -> (i < ngroups idx)%nat -> (nth (2 * i) idx (-1) < 0)%Z ->
  tx_get (store_captures true tx 0 (snd (rx_eval (Some idx) true v))) (itoa (N.of_nat i)) = Some [].
Proof. exact rx_captures_overwrite_stale. Qed.
Print Assumptions C15_captures_overwrite_stale.

Theorem C15_captures_sequence : forall idx1 v1 idx2 v2 tx i,
  (i < 10)%nat ->
  let tx1 := store_captures true tx 0 (snd (rx_eval (Some idx1) true v1)) in
  let tx2 := store_captures true tx1 0 (snd (rx_eval (Some idx2) true v2)) in
  tx_get tx2 (itoa (N.of_nat i))
  = if (i <? ngroups idx2)%nat then Some (rx_group idx2 v2 i)
    else if (i <? ngroups idx1)%nat then Some (rx_group idx1 v1 i)
    else tx_get tx (itoa (N.of_nat i)).
Proof. exact rx_captures_sequence. Qed.
Print Assumptions C15_captures_sequence.

Theorem C15_no_capture_without_action : forall tx k caps, store_captures false tx k caps = tx.
Proof. exact store_captures_off. Qed.
Print Assumptions C15_no_capture_without_action.

(* ---- negation and operator-name parsing ---- *)
Theorem C15_negation_complement : forall r, exec_operator true r = negb (exec_operator false r).
Proof. exact exec_operator_complement. Qed.
Print Assumptions C15_negation_complement.

Theorem C15_negation_rule : forall name arg ltbl rxm capturing tx v,
  name <> [] -> forallb plain name = true ->
  rule_eval (33 :: 64 :: name ++ 32 :: arg) ltbl rxm capturing tx v
  = match rule_eval (64 :: name ++ 32 :: arg) ltbl rxm capturing tx v with
    | None => None
    | Some (m, tx') => Some (negb m, tx')
    end.
Proof. exact rule_negation. Qed.
Print Assumptions C15_negation_rule.

Theorem C15_parse_default_rx : forall o,
  hd0 o <> 64 -> hd0 o <> 33 -> parse_operator o = (str "@rx", str "rx", trim_space o).
Proof. exact parse_operator_default_rx. Qed.
Print Assumptions C15_parse_default_rx.

Theorem C15_parse_bang_rx : forall o,
  o <> [] -> hd0 o <> 64 -> parse_operator (33 :: o) = (str "!@rx", str "rx", trim_space o).
Proof. exact parse_operator_bang_rx. Qed.
Print Assumptions C15_parse_bang_rx.

(* ---- @ipMatch / @ipMatchFromFile (IPv4 forms; net.ParseCIDR / netip.parseIPv4Fields modelled) ---- *)
(* matches exactly when the value parses as a dotted IPv4 address that lies in the block of some
   comma-separated item that parses (items that do not parse are skipped, nothing is rejected) *)
Theorem C15_ipMatch_exact : forall arg v,
  ipm_eval (ipm_new arg) v = true <->
  exists ip it net, parse_ipv4 v = Some ip /\ In it (split_byte 44 arg) /\ ipm_item it = Some net
                    /\ IpSpec.in_block net ip.
Proof. exact ipmatch_exact. Qed.
Print Assumptions C15_ipMatch_exact.

(* containment under the mask = membership of the 2^(32-n) addresses sharing the first n bits *)
Theorem C15_ipMatch_block : forall net ip, net_contains net ip = true <-> IpSpec.in_block net ip.
Proof. exact net_contains_iff. Qed.
Print Assumptions C15_ipMatch_block.

Theorem C15_ipMatch_host : forall a ip, IpSpec.in_block (a, 32) ip <-> ip = a.
Proof. exact in_block_32. Qed.
Print Assumptions C15_ipMatch_host.
