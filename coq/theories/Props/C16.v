(* Props/C16.v — the property theorems of C16 and nothing else.
   C16: directive text means the same however it is written; nothing is silently altered. *)
From Coq Require Import String.
From Verif Require Import Base Parser ParserProofs.
Open Scope N_scope.

(* ---- round trip ---- *)
(* a rule rendered from a structured description (targets with keys, regex keys, exclusions and
   counts; an operator with arbitrary argument bytes; an action list whose values contain commas,
   colons and escaped quotes) compiles back to exactly that description, in every admissible
   rendering variation: letter case of the keyword and of the action names, optional quoting of
   action values and of regex keys, padding around action names / values, extra blanks *)
Theorem C16_roundtrip : forall mask v d, wf_desc d = true -> wf_rvar v d = true ->
  evaluate_line (render_line mask v d) = LRule d.
Proof. exact evaluate_line_render. Qed.
Print Assumptions C16_roundtrip.

(* the same for the whole configuration text (one line, with or without the final line feed) *)
Theorem C16_roundtrip_config : forall mask v d, wf_desc d = true -> wf_rvar v d = true ->
  (N.of_nat (List.length (render_line mask v d)) <? max_line) = true ->
  parse_config [] (render_line mask v d) = Some [d] /\
  parse_config [] (render_line mask v d ++ [cLF]) = Some [d].
Proof. exact parse_config_render. Qed.
Print Assumptions C16_roundtrip_config.

Theorem C16_variation_invariant : forall mask1 v1 mask2 v2 d,
  wf_desc d = true -> wf_rvar v1 d = true -> wf_rvar v2 d = true ->
  evaluate_line (render_line mask1 v1 d) = evaluate_line (render_line mask2 v2 d).
Proof. intros. rewrite !evaluate_line_render by assumption. reflexivity. Qed.
Print Assumptions C16_variation_invariant.

(* ---- the parts of the round trip, each over all inputs of its scanner ---- *)
Theorem C16_operator_token_roundtrip : forall s rest, wf_esc s false = true ->
  cut_quoted_string (cDQ :: escape_dq s ++ cDQ :: rest) = Some (cDQ :: escape_dq s ++ [cDQ], rest)
  /\ unescape_quoted_string (escape_dq s) = s.
Proof. intros s rest H. split; [now apply cut_quoted_roundtrip|apply unescape_escape]. Qed.
Print Assumptions C16_operator_token_roundtrip.

Theorem C16_targets_roundtrip : forall qs ts, ts <> [] -> forallb wf_target ts = true ->
  option_map (map target_of_call) (parse_variables (render_targets qs ts)) = Some ts.
Proof. exact parse_variables_render. Qed.
Print Assumptions C16_targets_roundtrip.

Theorem C16_actions_roundtrip : forall vs al,
  al <> [] -> forallb wf_action al = true -> wf_avars vs al = true -> (count_disruptive al <= 1)%nat ->
  parse_actions (render_actions vs al) = Some al.
Proof. exact parse_actions_render. Qed.
Print Assumptions C16_actions_roundtrip.

(* ---- physical layout of ANY configuration (not only rendered ones) ---- *)
(* a blank line or a comment line may be inserted between any two physical lines, also inside a
   continuation, in any parser state *)
Theorem C16_comment_blank_invariant : forall ev raw l1 l2 buf inbt g, skipped_line raw ->
  ps_loop ev (l1 ++ raw :: l2) buf inbt g = ps_loop ev (l1 ++ l2) buf inbt g.
Proof. intros. now apply ps_insert_skipped. Qed.
Print Assumptions C16_comment_blank_invariant.

(* indentation and trailing blanks: only the trimmed content of a physical line matters *)
Theorem C16_indent_invariant : forall ev l1 l2 buf inbt g, map p_trim_space l1 = map p_trim_space l2 ->
  ps_loop ev l1 buf inbt g = ps_loop ev l2 buf inbt g.
Proof. intros. now apply ps_trim_ext. Qed.
Print Assumptions C16_indent_invariant.

Theorem C16_indent_trim : forall pad1 pad2 s, is_pad pad1 = true -> is_pad pad2 = true -> s <> [] ->
  nsp (hd 0 s) = true -> p_trim_space (pad1 ++ s ++ pad2) = p_trim_space s.
Proof. exact p_trim_space_indent. Qed.
Print Assumptions C16_indent_trim.

(* continuation: a line may be broken by backslash-newline in front of any piece that starts with
   a byte that is neither blank nor '#' *)
Theorem C16_continuation_invariant : forall ev raw1 raw2 raw a b rest buf g,
  p_trim_space raw1 = a ++ [cBS] -> a <> [] -> (hd 0 a =? cHASH) = false ->
  p_trim_space raw2 = b -> b <> [] -> (hd 0 b =? cHASH) = false ->
  p_trim_space raw = a ++ b ->
  ps_loop ev (raw1 :: raw2 :: rest) buf false g = ps_loop ev (raw :: rest) buf false g.
Proof. exact ps_continuation. Qed.
Print Assumptions C16_continuation_invariant.

(* letter case of the directive keyword: any directive line *)
Theorem C16_keyword_case_invariant : forall mask kw rest, no_byte cSP kw = true -> kw <> [] ->
  (hd 0 kw =? cHASH) = false ->
  evaluate_line (vary_case mask kw ++ cSP :: rest) = evaluate_line (kw ++ cSP :: rest).
Proof. exact evaluate_line_keyword_case. Qed.
Print Assumptions C16_keyword_case_invariant.

(* ---- nothing is silently altered: what the scanners accept / refuse ---- *)
(* the operator token that is cut off is a prefix of the input: nothing dropped, nothing altered *)
Theorem C16_operator_token_lossless : forall s tok r, cut_quoted_string s = Some (tok, r) -> s = tok ++ r.
Proof. exact cut_quoted_lossless. Qed.
Print Assumptions C16_operator_token_lossless.

Theorem C16_reject_unterminated_operator : forall body,
  no_byte cDQ body = true -> cut_quoted_string (cDQ :: body) = None.
Proof. exact cut_quoted_unterminated_rejected. Qed.
Print Assumptions C16_reject_unterminated_operator.

Theorem C16_reject_unknown_action : forall s k v,
  In (k, v) (pa_split s) -> lookup_action (p_lower (p_trim_space k)) = None -> parse_actions s = None.
Proof. exact parse_actions_unknown_rejected. Qed.
Print Assumptions C16_reject_unknown_action.

(* ---- refuted: accepted although not representable (the guards of wf_desc are necessary) ---- *)
Local Open Scope string_scope.
(* F25 c16-unclosed-quote-action *)
Theorem C16_unclosed_quote_refuted : exists s al,
  pa_unclosed (tl s) (hd 0 s) false = true /\ parse_actions s = Some al /\
  al = [mk_action (str "id") (str "1") 1; mk_action (str "msg") (str "'abc,tag:x") 1].
Proof.
  exists (str "id:1,msg:'abc,tag:x"). eexists. split; [exact (proj1 unclosed_quote_witness)|].
  split; [exact (proj2 unclosed_quote_witness)|reflexivity].
Qed.
Print Assumptions C16_unclosed_quote_refuted.

(* F30 c16-slash-in-plain-key *)
Theorem C16_slash_in_plain_key_refuted : exists vars,
  parse_variables vars = Some [mk_tcall false false (str "ARGS") (str "/a/")] /\ vars = str "ARGS:a/b".
Proof. exists (str "ARGS:a/b"). split; [exact (proj1 slash_in_plain_key_witness)|reflexivity]. Qed.
Print Assumptions C16_slash_in_plain_key_refuted.

(* F36 c16-trailing-backslash-value *)
Theorem C16_trailing_backslash_refuted : exists s,
  parse_actions s = Some [mk_action (str "id") (str "1") 1; mk_action (str "tag") (str "x\,deny") 1]
  /\ s = str "id:1,tag:x\,deny".
Proof. exists (str "id:1,tag:x\,deny"). split; [exact (proj1 trailing_backslash_witness)|reflexivity]. Qed.
Print Assumptions C16_trailing_backslash_refuted.

(* findings of this check, listed: F56 c16-quoted-plain-key, F57 c16-unterminated-regex-key *)
Theorem C16_quoted_plain_key_refuted : exists vars,
  parse_variables vars = Some [mk_tcall false false (str "ARGS") (str "abc'")] /\ vars = str "ARGS:'abc'".
Proof. exists (str "ARGS:'abc'"). split; [exact (proj1 quoted_plain_key_witness)|reflexivity]. Qed.
Print Assumptions C16_quoted_plain_key_refuted.

Theorem C16_unterminated_regex_key_refuted : exists vars,
  parse_variables vars = Some [mk_tcall false false (str "ARGS") (str "/ab/")] /\ vars = str "ARGS:/abc".
Proof. exists (str "ARGS:/abc"). split; [exact unterminated_regex_key_witness|reflexivity]. Qed.
Print Assumptions C16_unterminated_regex_key_refuted.

(* repaired in /repo (F55): a configuration whose last line ends in a continuation backslash is
   rejected; before the repair the pending directive was dropped without an error *)
Theorem C16_reject_dangling_continuation_example : exists text d,
  parse_config [] (text ++ str " \")%list = None /\ parse_config [] text = Some [d].
Proof.
  exists (str "SecRule ARGS ""@rx a"" ""id:1,deny"""). destruct (proj2 dangling_continuation_witness) as (d & Hd).
  exists d. split; [exact (proj1 dangling_continuation_witness)|exact Hd].
Qed.
Print Assumptions C16_reject_dangling_continuation_example.
Local Close Scope string_scope.

(* in any parser state and for any evaluator: a last physical line that ends in a continuation
   backslash makes parseString fail *)
Theorem C16_reject_dangling_continuation : forall ev raw a buf g,
  p_trim_space raw = a ++ [cBS] -> a <> [] -> (hd 0 a =? cHASH) = false ->
  ps_loop ev [raw] buf false g = None.
Proof. exact ps_dangling_continuation_rejected. Qed.
Print Assumptions C16_reject_dangling_continuation.

(* repaired in /repo (F54): a text containing a physical line of 64 KiB or more is rejected as a
   whole (the scanner delivers only the lines before it and its error is returned); before the
   repair everything from that line on was ignored without an error *)
Theorem C16_reject_long_line : forall files text,
  scanner_truncated (split_lines text) = true -> parse_config files text = None.
Proof. exact parse_config_long_line_rejected. Qed.
Print Assumptions C16_reject_long_line.

Theorem C16_long_line_scanner : forall pre l post,
  forallb line_fits pre = true -> line_fits l = false ->
  scanner_lines (pre ++ l :: post) = pre /\ scanner_truncated (pre ++ l :: post) = true.
Proof. exact scanner_lines_truncates. Qed.
Print Assumptions C16_long_line_scanner.

(* ---- splitting across files of several directories (ParserConfig.ConfigDir) ---- *)
(* a rule is compiled with the directory of the file whose line it is, in every parser state:
   also after an Include of a file of another directory has returned *)
Theorem C16_rule_dir_is_file_dir : forall f files dir g l d, evaluate_line l = LRule d ->
  ps_ev f files dir g l = Some (mk_g (g_inc g) (d :: g_rules g) (dir :: g_dirs g)).
Proof. exact ps_ev_rule_dir. Qed.
Print Assumptions C16_rule_dir_is_file_dir.

(* its relative data file is the one the flat configuration names by the full path *)
Theorem C16_data_file_flat : forall files dir o,
  resolve_data files dir o = resolve_data files [] (mk_op (o_fn o) (o_name o) (o_neg o) (path_join dir (o_arg o))).
Proof. exact resolve_data_flat. Qed.
Print Assumptions C16_data_file_flat.

(* ---- SecRuleUpdateTargetById: id list, id range, one directive per id ---- *)
Theorem C16_update_single_is_range : forall z ts rules, NoDup (map rule_id rules) ->
  upd_first z ts rules = upd_range z z ts rules.
Proof. exact upd_first_eq_range. Qed.
Print Assumptions C16_update_single_is_range.

Theorem C16_update_range_split : forall a m b ts rules, (a <= m)%Z -> (m < b)%Z ->
  upd_range (m + 1) b ts (upd_range a m ts rules) = upd_range a b ts rules.
Proof. exact upd_range_split. Qed.
Print Assumptions C16_update_range_split.

Theorem C16_update_range_spec : forall a b ts rules d, In d (upd_range a b ts rules) ->
  exists d0, In d0 rules /\ d = (if id_in a b d0 then add_targets ts d0 else d0).
Proof. exact upd_range_spec. Qed.
Print Assumptions C16_update_range_spec.
