(* CorrC08.v — correspondence checker for C08: evaluates Flow.fl_run on the abstract rule list and
   request bits of each case and compares with what the Go harness observed on the real engine
   (per phase: ids handed to Rule.Evaluate by the phase loop, read from the debug log; ids appended to
   tx.MatchedRules(); the interruption and the DetectionOnly would-be interruption). *)
From Verif Require Import Base Flow.
Local Open Scope nat_scope.

Inductive case :=
  | Case (eng : fl_mode) (rules : list fl_rule) (req : list bool)
         (evaluated matched : list (list nat))      (* one list per phase 1..5 *)
         (intr dintr : option (nat * nat)).          (* (phase, rule id) *)

Fixpoint nat_list_eqb (a b : list nat) : bool :=
  match a, b with
  | [], [] => true
  | x :: a', y :: b' => (x =? y) && nat_list_eqb a' b'
  | _, _ => false
  end.

Fixpoint nat_lists_eqb (a b : list (list nat)) : bool :=
  match a, b with
  | [], [] => true
  | x :: a', y :: b' => nat_list_eqb x y && nat_lists_eqb a' b'
  | _, _ => false
  end.

Definition opt_pair_eqb (a b : option (nat * nat)) : bool :=
  match a, b with
  | None, None => true
  | Some (p, i), Some (q, j) => (p =? q) && (i =? j)
  | _, _ => false
  end.

Definition phases : list nat := [1; 2; 3; 4; 5].

Definition ok (c : case) : bool :=
  match c with
  | Case eng rules req ev ma intr dintr =>
    let s := fl_run eng req rules in
    nat_lists_eqb (map (fun p => fl_evaluated_in p (s_ev s)) phases) ev
    && nat_lists_eqb (map (fun p => fl_matched_in p (s_ev s)) phases) ma
    && opt_pair_eqb (s_intr s) intr
    && opt_pair_eqb (s_dintr s) dintr
  end.

Definition mismatches (l : list case) : list nat := mismatches_of ok l.

(* shorthands used by the generated case files *)
Definition K (k : nat) : option nat := Some k.
Definition P (p i : nat) : option (nat * nat) := Some (p, i).
