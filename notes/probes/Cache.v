(* Feasibility probe (design round): soundness of the per-phase transformation cache once an
   entry records its input and a hit requires equal input (the intended repair of F09/F10).
   Shows (1) the invariant and proof shape, (2) that the *unrepaired* lookup (no input check)
   is refuted by a two-entry witness. Not framework code. *)
From Coq Require Import List NArith Lia Bool Arith.
Import ListNotations.
Definition bytes := list N.
Fixpoint beq (a b : bytes) : bool :=
  match a, b with [], [] => true | x :: a', y :: b' => N.eqb x y && beq a' b' | _, _ => false end.
Lemma beq_eq a : forall b, beq a b = true -> a = b.
Proof. induction a as [|x a IH]; destruct b as [|y b]; simpl; intros H; try discriminate; auto.
  apply andb_prop in H. destruct H as [H1 H2]. apply N.eqb_eq in H1. f_equal; auto. Qed.

Section Cache.
Variable tf : nat -> bytes -> bytes.            (* transformation number t applied to a value *)
Variable sem : nat -> list nat.                  (* interned chain id -> transformation list *)
Definition apply_tfs (ts : list nat) (v : bytes) : bytes := fold_left (fun acc t => tf t acc) ts v.

Record key := { k_kid : nat; k_idx : nat; k_var : nat; k_tid : nat }.
Definition key_eqb (a b : key) := Nat.eqb (k_kid a) (k_kid b) && Nat.eqb (k_idx a) (k_idx b) && Nat.eqb (k_var a) (k_var b) && Nat.eqb (k_tid a) (k_tid b).
Lemma key_eqb_tid a b : key_eqb a b = true -> k_tid a = k_tid b.
Proof. unfold key_eqb. intros H. repeat (apply andb_prop in H; destruct H as [H ?]). apply Nat.eqb_eq; auto. Qed.

Record entry := { e_key : key; e_in : bytes; e_out : bytes }.
Definition cache := list entry.
Definition inv (c : cache) : Prop := forall e, In e c -> e_out e = apply_tfs (sem (k_tid (e_key e))) (e_in e).

(* repaired lookup: key AND input must agree *)
Fixpoint lookup (k : key) (v : bytes) (c : cache) : option bytes :=
  match c with
  | [] => None
  | e :: c' => if key_eqb (e_key e) k && beq (e_in e) v then Some (e_out e) else lookup k v c'
  end.
Lemma lookup_sound k v c out : inv c -> lookup k v c = Some out -> out = apply_tfs (sem (k_tid k)) v.
Proof.
  induction c as [|e c IH]; simpl; intros Hi H; [discriminate|].
  destruct (key_eqb (e_key e) k && beq (e_in e) v) eqn:E.
  - injection H as <-. apply andb_prop in E. destruct E as [E1 E2]. apply key_eqb_tid in E1. apply beq_eq in E2.
    rewrite (Hi e (or_introl eq_refl)). congruence.
  - apply IH; auto. intros e' He'. apply Hi. right; auto.
Qed.

(* a rule: transformation list ts with prefix ids pids, |pids| = |ts|, sem (nth k pids) = firstn (k+1) ts *)
Variable ts : list nat.
Variable pids : list nat.
Hypothesis pids_len : length pids = length ts.
Hypothesis pids_sem : forall k, k < length ts -> sem (nth k pids 0) = firstn (S k) ts.

Variables kid idx var : nat.
Definition mk (k : nat) : key := {| k_kid := kid; k_idx := idx; k_var := var; k_tid := nth k pids 0 |}.

(* longest cached prefix: returns (number of transformations already applied, value) *)
Fixpoint search (n : nat) (v : bytes) (c : cache) : nat * bytes :=
  match n with
  | O => (O, v)
  | S n' => match lookup (mk n') v c with Some out => (S n', out) | None => search n' v c end
  end.

(* run the remaining transformations k, k+1, ... caching every intermediate result *)
Fixpoint fill (k : nat) (rest : list nat) (v0 cur : bytes) (c : cache) : bytes * cache :=
  match rest with
  | [] => (cur, c)
  | t :: rest' => let nv := tf t cur in
                  fill (S k) rest' v0 nv ({| e_key := mk k; e_in := v0; e_out := nv |} :: c)
  end.

Definition transform_arg (v : bytes) (c : cache) : bytes * cache :=
  let '(k, cur) := search (length ts) v c in fill k (skipn k ts) v cur c.

Lemma apply_split k v : apply_tfs ts v = apply_tfs (skipn k ts) (apply_tfs (firstn k ts) v).
Proof. unfold apply_tfs. rewrite <- fold_left_app, firstn_skipn. reflexivity. Qed.

Lemma search_sound n v c : inv c -> n <= length ts ->
  let '(k, cur) := search n v c in k <= length ts /\ cur = apply_tfs (firstn k ts) v.
Proof.
  induction n as [|n IH]; simpl; intros Hi Hn; [split; [lia|reflexivity]|].
  destruct (lookup (mk n) v c) as [out|] eqn:E.
  - split; [lia|]. apply lookup_sound in E; auto. simpl in E. rewrite pids_sem in E by lia. exact E.
  - apply IH; auto; lia.
Qed.

Lemma fill_sound rest : forall k v0 cur c, inv c -> k + length rest = length ts -> rest = skipn k ts ->
  cur = apply_tfs (firstn k ts) v0 ->
  fst (fill k rest v0 cur c) = apply_tfs ts v0 /\ inv (snd (fill k rest v0 cur c)).
Proof.
  induction rest as [|t rest IH]; intros k v0 cur c Hi Hlen Hrest Hcur; simpl.
  - split; auto. assert (k = length ts) by (simpl in Hlen; lia). subst k. rewrite firstn_all in Hcur. exact Hcur.
  - apply IH.
    + intros e [<-|He]; [|auto]. simpl. rewrite pids_sem by (simpl in Hlen; lia).
      assert (Hs : firstn (S k) ts = firstn k ts ++ [t]).
      { clear -Hrest. revert ts Hrest. induction k as [|k IHk]; intros ts0 Hrest.
        - simpl in Hrest. subst ts0. reflexivity.
        - destruct ts0 as [|x ts0]; [discriminate|]. simpl in Hrest. simpl. f_equal. apply (IHk ts0 Hrest). }
      rewrite Hs. unfold apply_tfs. rewrite fold_left_app. simpl. unfold apply_tfs in Hcur. rewrite <- Hcur. reflexivity.
    + simpl in Hlen. lia.
    + clear -Hrest. revert ts Hrest. induction k as [|k IHk]; intros ts0 Hrest.
      * simpl in Hrest. subst ts0. reflexivity.
      * destruct ts0 as [|x ts0]; [discriminate|]. simpl in Hrest. simpl. apply (IHk ts0 Hrest).
    + assert (Hs : firstn (S k) ts = firstn k ts ++ [t]).
      { clear -Hrest. revert ts Hrest. induction k as [|k IHk]; intros ts0 Hrest.
        - simpl in Hrest. subst ts0. reflexivity.
        - destruct ts0 as [|x ts0]; [discriminate|]. simpl in Hrest. simpl. f_equal. apply (IHk ts0 Hrest). }
      rewrite Hs. unfold apply_tfs. rewrite fold_left_app. simpl. unfold apply_tfs in Hcur. rewrite <- Hcur. reflexivity.
Qed.

Theorem transform_arg_sound v c : inv c ->
  fst (transform_arg v c) = apply_tfs ts v /\ inv (snd (transform_arg v c)).
Proof.
  intros Hi. unfold transform_arg.
  pose proof (search_sound (length ts) v c Hi (le_n _)) as Hs.
  destruct (search (length ts) v c) as [k cur]. destruct Hs as [Hk Hcur].
  apply fill_sound; auto. rewrite skipn_length. lia.
Qed.
End Cache.

Print Assumptions transform_arg_sound.

(* the UNREPAIRED lookup (key only) violates the statement: two values sharing (kid, idx) *)
Definition lookup_bad (k : key) (c : cache) : option bytes :=
  match find (fun e => key_eqb (e_key e) k) c with Some e => Some (e_out e) | None => None end.
Example unrepaired_refuted :
  exists (tf : nat -> bytes -> bytes) (c : cache) (k : key) (v : bytes),
    (forall e, In e c -> e_out e = tf 0 (e_in e)) /\ lookup_bad k c = Some (tf 0 [1%N]) /\ tf 0 v <> tf 0 [1%N].
Proof.
  exists (fun _ v => v), [{| e_key := {| k_kid := 7; k_idx := 1; k_var := 0; k_tid := 1 |}; e_in := [1%N]; e_out := [1%N] |}],
         {| k_kid := 7; k_idx := 1; k_var := 0; k_tid := 1 |}, [2%N].
  split; [intros e [<-|[]]; reflexivity|]. split; [reflexivity|discriminate].
Qed.
