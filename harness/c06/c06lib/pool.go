package c06lib

import (
	"fmt"
	"os"
	"path/filepath"

	"github.com/corazawaf/coraza/v3/internal/corazawaf"
)

// WAFSpec is one member of the pool of WAFs that are built, probed and closed next to each other.
// The pool is written over a small shared vocabulary so that every pair of members is a candidate
// for a collision in the process-wide pattern cache (internal/memoize): multi-word phrases of one
// list equal the space-joined words of another, the same data-set NAME has different contents in
// different WAFs, the same regex text is an @rx pattern in one WAF and a key selector in another,
// @pm / @pmFromDataset / @pmFromFile carry the same or differently split phrase lists.
type WAFSpec struct {
	Name       string `json:"name"`
	Directives string `json:"directives"`
}

// Probe is one request argument sent to a pool WAF.
type Probe struct {
	Name  string `json:"name"`
	Value string `json:"value"`
}

var PoolProbes = []Probe{
	{"q", "an evil monkey was here"},
	{"q", "nothing evil in this value"},
	{"q", "banana bread and a monkey"},
	{"q", "just a long harmless value"},
	{"q", "monkey banana"},
	{"q", "a banana split"},
	{"q", "split"},
	{"q", "evil"},
	{"q", "ev1l"},
	{"q", "evil monkey banana split"},
	{"evil", "x-value"},
	{"ev1l", "x-value"},
	{"monkey", "evil"},
}

func dataset(name string, phrases ...string) string {
	s := "SecDataset " + name + " `\n"
	for _, p := range phrases {
		s += p + "\n"
	}
	return s + "`\n"
}

// PoolSpecs returns the pool; dir receives the phrase files of the @pmFromFile members.
func PoolSpecs(dir string) ([]WAFSpec, error) {
	write := func(name string, lines ...string) (string, error) {
		p := filepath.Join(dir, name)
		s := ""
		for _, l := range lines {
			s += l + "\n"
		}
		return p, os.WriteFile(p, []byte(s), 0o644)
	}
	fPhrases, err := write("c06-phrases.data", "evil monkey", "banana split")
	if err != nil {
		return nil, err
	}
	fWords, err := write("c06-words.data", "evil", "monkey", "banana", "split")
	if err != nil {
		return nil, err
	}
	fSplit2, err := write("c06-split2.data", "evil", "monkey banana", "split")
	if err != nil {
		return nil, err
	}
	const on = "SecRuleEngine On\n"
	deny := func(id int) string { return fmt.Sprintf("\"id:%d,phase:1,deny,status:403\"\n", id) }
	return []WAFSpec{
		{"pm-words", on + `SecRule ARGS "@pm evil monkey banana split" ` + deny(1)},
		{"pm-words-spaced", on + `SecRule ARGS "@pm evil  monkey banana   split" ` + deny(1)},
		{"pm-two-words", on + `SecRule ARGS "@pm evil monkey" ` + deny(1)},
		{"dataset-phrases", on + dataset("phrases", "evil monkey", "banana split") + `SecRule ARGS "@pmFromDataset phrases" ` + deny(1)},
		{"dataset-same-name-other-split", on + dataset("phrases", "evil", "monkey banana", "split") + `SecRule ARGS "@pmFromDataset phrases" ` + deny(1)},
		{"dataset-same-name-words", on + dataset("phrases", "evil", "monkey", "banana", "split") + `SecRule ARGS "@pmFromDataset phrases" ` + deny(1)},
		{"dataset-one-phrase", on + dataset("other", "evil monkey banana split") + `SecRule ARGS "@pmFromDataset other" ` + deny(1)},
		{"file-phrases", on + `SecRule ARGS "@pmFromFile ` + fPhrases + `" ` + deny(1)},
		{"file-words", on + `SecRule ARGS "@pmFromFile ` + fWords + `" ` + deny(1)},
		{"file-other-split", on + `SecRule ARGS "@pmFromFile ` + fSplit2 + `" ` + deny(1)},
		{"rx-operator", on + `SecRule ARGS "@rx ^ev[i1]l$" ` + deny(1)},
		{"rx-as-key", on + `SecRule ARGS:/^ev[i1]l$/ "@contains value" ` + deny(1)},
		{"rx-as-negated-key", on + `SecRule ARGS|!ARGS:/^ev[i1]l$/ "@contains value" ` + deny(1)},
		{"rx-text-as-pm", on + `SecRule ARGS "@pm ^ev[i1]l$" ` + deny(1)},
		{"mixed", on + dataset("phrases", "banana split") + `SecRule ARGS "@pm evil monkey" ` + deny(1) + `SecRule ARGS "@pmFromDataset phrases" ` + deny(2) + `SecRule ARGS_NAMES "@rx ^ev[i1]l$" ` + deny(3)},
	}, nil
}

// ProbeWAF sends every probe through its own transaction and returns, per probe, the id of the
// interrupting rule (0 = passed).
func ProbeWAF(waf *corazawaf.WAF) []int {
	out := make([]int, len(PoolProbes))
	for i, p := range PoolProbes {
		tx := waf.NewTransaction()
		tx.ProcessConnection("10.0.0.1", 40000, "10.0.0.2", 80)
		tx.ProcessURI("/p", "GET", "HTTP/1.1")
		tx.AddGetRequestArgument(p.Name, p.Value)
		tx.AddRequestHeader("Host", "h")
		if it := tx.ProcessRequestHeaders(); it != nil {
			out[i] = it.RuleID
		}
		tx.ProcessLogging()
		_ = tx.Close()
	}
	return out
}

// BuildAndProbe builds the WAF of spec, probes it and (when closeIt) closes it.
func BuildAndProbe(spec WAFSpec) (*corazawaf.WAF, []int, error) {
	waf, err := NewWAF(spec.Directives)
	if err != nil {
		return nil, nil, fmt.Errorf("pool WAF %s: %w", spec.Name, err)
	}
	return waf, ProbeWAF(waf), nil
}

func SameInts(a, b []int) bool {
	if len(a) != len(b) {
		return false
	}
	for i := range a {
		if a[i] != b[i] {
			return false
		}
	}
	return true
}
