(* ConcProofs.v — C06: theorems over ALL schedules of the interleaving models of Conc.v. *)
From Verif Require Import Base Conc.
From Coq Require Import Arith PeanoNat Permutation.
Open Scope nat_scope.

(* ------------------------------------------------------------------------------------------ *)
(* list helpers                                                                                 *)
(* ------------------------------------------------------------------------------------------ *)
Lemma nth_error_cset_nth {A} (l : list A) i j x :
  nth_error (cset_nth l i x) j = if i =? j then option_map (fun _ => x) (nth_error l j) else nth_error l j.
Proof.
  revert i j; induction l as [|y l IH]; intros i j.
  - destruct i, j; cbn; try reflexivity. destruct (i =? j); reflexivity.
  - destruct i, j; cbn [cset_nth nth_error Nat.eqb option_map]; try reflexivity. apply IH.
Qed.

Lemma nth_error_cset_nth_eq {A} (l : list A) i x y :
  nth_error l i = Some y -> nth_error (cset_nth l i x) i = Some x.
Proof. intro H. rewrite nth_error_cset_nth, Nat.eqb_refl, H. reflexivity. Qed.

Lemma nth_error_cset_nth_neq {A} (l : list A) i j x :
  i <> j -> nth_error (cset_nth l i x) j = nth_error l j.
Proof. intro H. rewrite nth_error_cset_nth. apply Nat.eqb_neq in H. rewrite H. reflexivity. Qed.

Lemma cset_nth_same {A} (l : list A) i x : nth_error l i = Some x -> cset_nth l i x = l.
Proof.
  revert i; induction l as [|y l IH]; intros [|i] H; cbn in *; try discriminate; try reflexivity.
  - congruence.
  - f_equal. apply IH, H.
Qed.

Lemma cset_nth_length {A} (l : list A) i x : length (cset_nth l i x) = length l.
Proof. revert i; induction l as [|y l IH]; intros [|i]; cbn; auto. Qed.

Lemma In_cremove_nth {A} (l : list A) i x : In x (cremove_nth l i) -> In x l.
Proof.
  revert i; induction l as [|y l IH]; intros [|i] H; cbn in *; auto.
  destruct H as [H|H]; [left; exact H | right; eapply IH, H].
Qed.

Lemma NoDup_cremove_nth {A} (l : list A) i : NoDup l -> NoDup (cremove_nth l i).
Proof.
  revert i; induction l as [|y l IH]; intros [|i] H; cbn; auto; inversion H; subst; auto.
  constructor; [intro HI; apply In_cremove_nth in HI; contradiction | apply IH; assumption].
Qed.

Lemma NoDup_cremove_nth_notin {A} (l : list A) i o :
  NoDup l -> nth_error l i = Some o -> ~ In o (cremove_nth l i).
Proof.
  revert i; induction l as [|y l IH]; intros [|i] H E; cbn in *; try discriminate; inversion H; subst.
  - inversion E; subst. assumption.
  - intros [HI|HI].
    + subst. apply nth_error_In in E. contradiction.
    + eapply IH; eauto.
Qed.

(* ------------------------------------------------------------------------------------------ *)
(* 1. outcome of a transaction is independent of the schedule                                   *)
(* ------------------------------------------------------------------------------------------ *)
Section GMProofs.
  Variables W Inp Act Cont Rec : Type.
  Variable init : W -> Inp -> Cont -> Cont.
  Variable eval : W -> Inp -> Act -> Cont -> W * Cont.
  Variable render : Cont -> Rec.
  (* an evaluation step does not write the shared WAF *)
  Hypothesis eval_ro : forall w i a c, fst (eval w i a c) = w.
  (* newTransaction leaves nothing of what the recycled object held *)
  Hypothesis init_reset : forall w i c c', init w i c = init w i c'.

  Notation tstep := (gm_tstep init eval render).
  Notation sh := (gm_sh W Cont Rec).
  Notation lo := (gm_lo Inp Act Cont).

  (* tx in the concurrent system vs the same tx running alone *)
  Definition gm_rel (s : sh) (l : lo) (ss : sh) (l2 : lo) : Prop :=
    s_waf s = s_waf ss /\ l_inp l = l_inp l2 /\ l_pc l = l_pc l2 /\ l_out l = l_out l2 /\
    match l_obj l, l_obj l2 with
    | None, None => True
    | Some o, Some o' => s_objs s o = s_objs ss o'
    | _, _ => False
    end.

  Lemma gm_upd_same (f : nat -> Cont) o c : gm_upd f o c o = c.
  Proof. unfold gm_upd. rewrite Nat.eqb_refl. reflexivity. Qed.
  Lemma gm_upd_other (f : nat -> Cont) o c x : x <> o -> gm_upd f o c x = f x.
  Proof. unfold gm_upd. intro H. apply Nat.eqb_neq in H. rewrite H. reflexivity. Qed.

  Lemma gm_rel_self ch ch' s l ss l2 :
    gm_rel s l ss l2 ->
    gm_rel (fst (tstep ch s l)) (snd (tstep ch s l)) (fst (tstep ch' ss l2)) (snd (tstep ch' ss l2)).
  Proof.
    destruct l as [inp pc ob out], l2 as [inp2 pc2 ob2 out2].
    unfold gm_rel; cbn [l_inp l_pc l_obj l_out]. intros (Hw & Hi & Hp & Ho & Hob). subst inp2 pc2 out2.
    unfold gm_tstep; cbn [l_inp l_pc l_obj l_out].
    destruct pc as [|[|a| |] pc].
    - cbn. repeat split; auto.
    - destruct (nth_error (s_pool s) ch), (nth_error (s_pool ss) ch');
        cbn [fst snd s_waf s_objs l_inp l_pc l_obj l_out]; rewrite !gm_upd_same, Hw; repeat split; auto;
        apply init_reset.
    - destruct ob as [o|], ob2 as [o2|]; try contradiction.
      + rewrite Hob, Hw.
        destruct (eval (s_waf ss) inp a (s_objs ss o2)) as [w' c'] eqn:E.
        pose proof (eval_ro (s_waf ss) inp a (s_objs ss o2)) as R. rewrite E in R. cbn in R. subst w'.
        cbn [fst snd s_waf s_objs l_inp l_pc l_obj l_out]. rewrite !gm_upd_same. repeat split; auto.
      + cbn. repeat split; auto.
    - destruct ob as [o|], ob2 as [o2|]; try contradiction; cbn; repeat split; auto.
    - destruct ob as [o|], ob2 as [o2|]; try contradiction; cbn; repeat split; auto. congruence.
  Qed.

  Lemma gm_tstep_waf ch s l : s_waf (fst (tstep ch s l)) = s_waf s.
  Proof.
    unfold gm_tstep. destruct (l_pc l) as [|[|a| |] pc]; cbn; auto.
    - destruct (nth_error (s_pool s) ch); reflexivity.
    - destruct (l_obj l) as [o|]; [|reflexivity].
      destruct (eval (s_waf s) (l_inp l) a (s_objs s o)) as [w' c'] eqn:E.
      pose proof (eval_ro (s_waf s) (l_inp l) a (s_objs s o)) as R. rewrite E in R. cbn in *. congruence.
    - destruct (l_obj l); reflexivity.
    - destruct (l_obj l); reflexivity.
  Qed.

  (* a step of one transaction leaves every object it does not hold, that is neither pooled nor
     unallocated, untouched *)
  Lemma gm_tstep_frame ch s l o :
    o < s_next s -> ~ In o (s_pool s) -> l_obj l <> Some o ->
    s_objs (fst (tstep ch s l)) o = s_objs s o.
  Proof.
    intros Hlt Hnp Hne. unfold gm_tstep. destruct (l_pc l) as [|[|a| |] pc]; cbn; auto.
    - destruct (nth_error (s_pool s) ch) as [o'|] eqn:E; cbn.
      + apply gm_upd_other. intro; subst. apply nth_error_In in E. contradiction.
      + apply gm_upd_other. lia.
    - destruct (l_obj l) as [o'|]; [|reflexivity].
      destruct (eval (s_waf s) (l_inp l) a (s_objs s o')) as [w' c']. cbn.
      apply gm_upd_other. congruence.
    - destruct (l_obj l); reflexivity.
    - destruct (l_obj l); reflexivity.
  Qed.

  (* the shape of what a step does to (pool, next, held object) *)
  Inductive gm_effect (s : sh) (l : lo) (s' : sh) (l' : lo) : Prop :=
    | EffNone : s_pool s' = s_pool s -> s_next s' = s_next s -> l_obj l' = l_obj l -> gm_effect s l s' l'
    | EffGetPool ch o : nth_error (s_pool s) ch = Some o -> s_pool s' = cremove_nth (s_pool s) ch ->
                        s_next s' = s_next s -> l_obj l' = Some o -> gm_effect s l s' l'
    | EffGetNew : s_pool s' = s_pool s -> s_next s' = S (s_next s) -> l_obj l' = Some (s_next s) -> gm_effect s l s' l'
    | EffPut o : l_obj l = Some o -> s_pool s' = o :: s_pool s -> s_next s' = s_next s -> l_obj l' = None ->
                 gm_effect s l s' l'.

  Lemma gm_tstep_effect ch s l : gm_effect s l (fst (tstep ch s l)) (snd (tstep ch s l)).
  Proof.
    unfold gm_tstep. destruct l as [inp pc ob out]; cbn [l_inp l_pc l_obj l_out].
    destruct pc as [|[|a| |] pc].
    - apply EffNone; reflexivity.
    - destruct (nth_error (s_pool s) ch) as [o|] eqn:E.
      + eapply EffGetPool; eauto.
      + apply EffGetNew; reflexivity.
    - destruct ob as [o|]; [|apply EffNone; reflexivity].
      destruct (eval (s_waf s) inp a (s_objs s o)). apply EffNone; reflexivity.
    - destruct ob as [o|]; apply EffNone; reflexivity.
    - destruct ob as [o|]; [|apply EffNone; reflexivity].
      eapply EffPut; reflexivity.
  Qed.

  Lemma gm_inv_step s ls j lj s' l' :
    gm_inv s ls -> nth_error ls j = Some lj -> gm_effect s lj s' l' -> gm_inv s' (cset_nth ls j l').
  Proof.
    intros (Ha & Hb & Hc & Hd) Hj Eff.
    assert (Hnth : forall i l, nth_error (cset_nth ls j l') i = Some l ->
                               (i = j /\ l = l') \/ (i <> j /\ nth_error ls i = Some l)).
    { intros i l H. rewrite nth_error_cset_nth in H. destruct (j =? i) eqn:E.
      - apply Nat.eqb_eq in E. subst i. rewrite Hj in H. cbn in H. left. split; congruence.
      - apply Nat.eqb_neq in E. right. split; auto. }
    destruct Eff as [Ep En Eo | ch o Eg Ep En Eo | Ep En Eo | o Eh Ep En Eo].
    - (* nothing changes *)
      unfold gm_inv. rewrite Ep, En. repeat split; auto.
      + destruct (Hnth _ _ H) as [[-> ->]|[Hne Hi]].
        * rewrite Eo in H0. eapply Ha; eauto.
        * eapply Ha; eauto.
      + destruct (Hnth _ _ H) as [[-> ->]|[Hne Hi]].
        * rewrite Eo in H0. eapply Ha; eauto.
        * eapply Ha; eauto.
      + intros i k li lk o Hik Hi Hk Hoi.
        destruct (Hnth _ _ Hi) as [[-> ->]|[Hne1 Hi']]; destruct (Hnth _ _ Hk) as [[-> ->]|[Hne2 Hk']].
        * congruence.
        * rewrite Eo in Hoi. eapply (Hb j k lj lk o); eauto.
        * rewrite Eo. eapply (Hb i j li lj o); eauto.
        * eapply (Hb i k li lk o); eauto.
    - (* Get hands out a pooled object *)
      unfold gm_inv. rewrite Ep, En.
      assert (Hin : In o (s_pool s)) by (eapply nth_error_In; eauto).
      repeat split.
      + destruct (Hnth _ _ H) as [[-> ->]|[Hne Hi]].
        * rewrite Eo in H0. inversion H0; subst. apply Hd, Hin.
        * eapply Ha; eauto.
      + destruct (Hnth _ _ H) as [[-> ->]|[Hne Hi]].
        * rewrite Eo in H0. inversion H0; subst. eapply NoDup_cremove_nth_notin; eauto.
        * intro HI. apply In_cremove_nth in HI. eapply Ha; eauto.
      + intros i k li lk o' Hik Hi Hk Hoi.
        destruct (Hnth _ _ Hi) as [[-> ->]|[Hne1 Hi']]; destruct (Hnth _ _ Hk) as [[-> ->]|[Hne2 Hk']].
        * congruence.
        * rewrite Eo in Hoi. inversion Hoi; subst. intro Hx. eapply Ha; eauto.
        * rewrite Eo. intro Hx. inversion Hx; subst. eapply Ha; eauto.
        * eapply (Hb i k li lk o'); eauto.
      + apply NoDup_cremove_nth, Hc.
      + intros o' HI. apply In_cremove_nth in HI. auto.
    - (* Get allocates *)
      unfold gm_inv. rewrite Ep, En. repeat split; auto.
      + destruct (Hnth _ _ H) as [[-> ->]|[Hne Hi]].
        * rewrite Eo in H0. inversion H0; subst. lia.
        * assert (o < s_next s) by (eapply Ha; eauto). lia.
      + destruct (Hnth _ _ H) as [[-> ->]|[Hne Hi]].
        * rewrite Eo in H0. inversion H0; subst. intro HI. apply Hd in HI. lia.
        * eapply Ha; eauto.
      + intros i k li lk o' Hik Hi Hk Hoi.
        destruct (Hnth _ _ Hi) as [[-> ->]|[Hne1 Hi']]; destruct (Hnth _ _ Hk) as [[-> ->]|[Hne2 Hk']].
        * congruence.
        * rewrite Eo in Hoi. inversion Hoi; subst. intro Hx.
          assert (s_next s < s_next s) by (eapply Ha; eauto). lia.
        * rewrite Eo. intro Hx. inversion Hx; subst.
          assert (s_next s < s_next s) by (eapply Ha; eauto). lia.
        * eapply (Hb i k li lk o'); eauto.
      + intros o' HI. apply Hd in HI. lia.
    - (* Put *)
      unfold gm_inv. rewrite Ep, En.
      assert (Hoj : o < s_next s /\ ~ In o (s_pool s)) by (eapply Ha; eauto).
      repeat split.
      + destruct (Hnth _ _ H) as [[-> ->]|[Hne Hi]].
        * rewrite Eo in H0. discriminate.
        * eapply Ha; eauto.
      + destruct (Hnth _ _ H) as [[-> ->]|[Hne Hi]].
        * rewrite Eo in H0. discriminate.
        * intros [HI|HI].
          -- subst o0. eapply (Hb i j l lj o); eauto.
          -- eapply Ha; eauto.
      + intros i k li lk o' Hik Hi Hk Hoi.
        destruct (Hnth _ _ Hi) as [[-> ->]|[Hne1 Hi']]; destruct (Hnth _ _ Hk) as [[-> ->]|[Hne2 Hk']].
        * congruence.
        * rewrite Eo in Hoi. discriminate.
        * rewrite Eo. discriminate.
        * eapply (Hb i k li lk o'); eauto.
      + constructor; tauto.
      + intros o' [HI|HI]; [subst; tauto | auto].
  Qed.

  Lemma gm_solo_S n s l :
    gm_solo init eval render (S n) s l = gm_solo init eval render n (fst (tstep 0 s l)) (snd (tstep 0 s l)).
  Proof. unfold gm_solo. cbn [citerate fst snd]. destruct (tstep 0 s l). reflexivity. Qed.

  Lemma gm_sim : forall sched s ls i li ss l2,
    gm_inv s ls -> nth_error ls i = Some li -> gm_rel s li ss l2 ->
    exists li', nth_error (snd (gm_run init eval render sched (s, ls))) i = Some li' /\
      gm_rel (fst (gm_run init eval render sched (s, ls))) li'
             (fst (gm_solo init eval render (gm_count i sched) ss l2))
             (snd (gm_solo init eval render (gm_count i sched) ss l2)).
  Proof.
    induction sched as [|[j ch] sched IH]; intros s ls i li ss l2 Hinv Hi Hrel.
    - cbn. eauto.
    - cbn [gm_run fold_left gm_sys_step fst snd gm_count].
      destruct (nth_error ls j) as [lj|] eqn:Hj.
      + destruct (tstep ch s lj) as [s' l'] eqn:Est.
        assert (Eff := gm_tstep_effect ch s lj). rewrite Est in Eff. cbn [fst snd] in Eff.
        assert (Hinv' : gm_inv s' (cset_nth ls j l')) by (eapply gm_inv_step; eauto).
        destruct (j =? i) eqn:Eji.
        * apply Nat.eqb_eq in Eji. subst j. rewrite Hi in Hj. inversion Hj; subst lj.
          change (1 + gm_count i sched) with (S (gm_count i sched)). rewrite gm_solo_S.
          apply (IH s' (cset_nth ls i l') i l').
          -- exact Hinv'.
          -- eapply nth_error_cset_nth_eq; eauto.
          -- pose proof (gm_rel_self ch 0 s li ss l2 Hrel) as R. rewrite Est in R. exact R.
        * apply Nat.eqb_neq in Eji. cbn [plus].
          apply (IH s' (cset_nth ls j l') i li).
          -- exact Hinv'.
          -- rewrite nth_error_cset_nth_neq; auto.
          -- destruct Hrel as (Hw & Hin & Hp & Ho & Hob). unfold gm_rel.
             pose proof (gm_tstep_waf ch s lj) as Rw. rewrite Est in Rw. cbn in Rw.
             repeat split; auto; try congruence.
             destruct (l_obj li) as [o|] eqn:Eo; destruct (l_obj l2) as [o2|]; auto.
             destruct Hinv as (Ha & Hb & _).
             pose proof (gm_tstep_frame ch s lj o) as Fr. rewrite Est in Fr. cbn in Fr.
             destruct (Ha i li o Hi Eo) as [F1 F2].
             assert (F3 : l_obj lj <> Some o) by (apply (Hb i j li lj o); auto).
             rewrite (Fr F1 F2 F3). exact Hob.
      + destruct (j =? i) eqn:Eji.
        * apply Nat.eqb_eq in Eji. subst j. congruence.
        * cbn [plus]. apply (IH s ls i li); auto.
  Qed.

  Lemma gm_rel_refl s l : gm_rel s l s l.
  Proof. unfold gm_rel. repeat split; auto. destruct (l_obj l); auto. Qed.

  Lemma gm_rel_obs s l ss l2 : gm_rel s l ss l2 -> gm_obs s l = gm_obs ss l2.
  Proof.
    intros (Hw & Hin & Hp & Ho & Hob). unfold gm_obs. rewrite Hp, Ho.
    destruct (l_obj l), (l_obj l2); try contradiction; cbn; congruence.
  Qed.

  (* THE theorem: whatever the scheduler does (and whichever pooled objects Get hands out),
     what transaction i observes equals what it observes running alone for as many steps *)
  Theorem gm_outcome_schedule_independent : forall sched s ls i li,
    gm_inv s ls -> nth_error ls i = Some li ->
    exists li', nth_error (snd (gm_run init eval render sched (s, ls))) i = Some li' /\
      gm_obs (fst (gm_run init eval render sched (s, ls))) li' =
      gm_obs (fst (gm_solo init eval render (gm_count i sched) s li))
             (snd (gm_solo init eval render (gm_count i sched) s li)).
  Proof.
    intros sched s ls i li Hinv Hi.
    destruct (gm_sim sched s ls i li s li Hinv Hi (gm_rel_refl s li)) as (li' & H1 & H2).
    exists li'. split; auto. apply gm_rel_obs, H2.
  Qed.

  (* live transactions never share an object, in every interleaving *)
  Theorem gm_inv_run : forall sched s ls,
    gm_inv s ls -> gm_inv (fst (gm_run init eval render sched (s, ls))) (snd (gm_run init eval render sched (s, ls))).
  Proof.
    induction sched as [|[j ch] sched IH]; intros s ls Hinv; [exact Hinv|].
    cbn [gm_run fold_left gm_sys_step fst snd].
    destruct (nth_error ls j) as [lj|] eqn:Hj.
    - destruct (tstep ch s lj) as [s' l'] eqn:Est. apply IH.
      assert (Eff := gm_tstep_effect ch s lj). rewrite Est in Eff. eapply gm_inv_step; eauto.
    - apply IH, Hinv.
  Qed.
End GMProofs.

Lemma gm_inv_start {W Inp Act Cont Rec} (s : gm_sh W Cont Rec) (ls : list (gm_lo Inp Act Cont)) :
  (forall l, In l ls -> l_obj l = None) -> NoDup (s_pool s) -> (forall o, In o (s_pool s) -> o < s_next s) ->
  gm_inv s ls.
Proof.
  intros Hn Hd Hp. unfold gm_inv. repeat split; auto.
  - apply nth_error_In in H. apply Hn in H. congruence.
  - apply nth_error_In in H. apply Hn in H. congruence.
  - intros i j li lj o _ Hi _ Ho. apply nth_error_In in Hi. apply Hn in Hi. congruence.
Qed.

(* ------------------------------------------------------------------------------------------ *)
(* 2. the exclusion merge: the clipped append never writes the shared rule                      *)
(* ------------------------------------------------------------------------------------------ *)
Lemma cc_go_append_clip w loc s x :
  cc_go_append w loc (cc_clip s) x =
  (w, loc ++ [cc_elems w loc (cc_clip s) ++ x :: repeat [] (sl_len s)],
   mk_slice RLocal (length loc) (S (sl_len s)) (S (sl_len s) + sl_len s)).
Proof. unfold cc_go_append, cc_clip; cbn [sl_len sl_cap sl_reg sl_arr]. rewrite Nat.ltb_irrefl. reflexivity. Qed.

Lemma cc_append_clipped_shared_unchanged w loc s x :
  fst (fst (cc_merge_append true w loc s x)) = w.
Proof. unfold cc_merge_append. rewrite cc_go_append_clip. reflexivity. Qed.

Lemma cc_elems_clip w loc s : cc_elems w loc (cc_clip s) = cc_elems w loc s.
Proof. reflexivity. Qed.

(* ... and still produces the merged list: old elements, then the new one *)
Lemma cc_append_clipped_elems w loc s x :
  sl_len s <= length (cc_array w loc s) ->
  let '(w', loc', s') := cc_merge_append true w loc s x in
  cc_elems w' loc' s' = cc_elems w loc s ++ [x].
Proof.
  intro Hwf. unfold cc_merge_append. rewrite cc_go_append_clip, cc_elems_clip.
  unfold cc_elems at 1, cc_array at 1; cbn [sl_reg sl_arr sl_len].
  rewrite app_nth2, Nat.sub_diag by lia. cbn [nth].
  assert (L : length (cc_elems w loc s) = sl_len s).
  { unfold cc_elems. rewrite firstn_length. lia. }
  replace (S (sl_len s)) with (length (cc_elems w loc s) + 1) by lia.
  rewrite firstn_app_2. cbn. reflexivity.
Qed.

(* the unclipped append of the code before 9f1a0e9 writes the shared array when cap > len *)
Lemma cc_append_unclipped_writes_shared : exists w loc s x,
  fst (fst (cc_merge_append false w loc s x)) <> w.
Proof.
  exists [[[120%N]; []]], [], (mk_slice RShared 0 1 2), [97%N]. vm_compute. discriminate.
Qed.

Lemma cc_eval_clipped_ro : forall w i a c, fst (cc_eval true w i a c) = w.
Proof.
  intros w i a c. destruct a; cbn [cc_eval fst]; auto.
  unfold cc_merge_append. rewrite cc_go_append_clip. destruct w; reflexivity.
Qed.

Definition cc_run := gm_run cc_init (cc_eval true) cc_render.
Definition cc_solo := gm_solo cc_init (cc_eval true) cc_render.

Theorem cc_outcome_schedule_independent : forall sched s ls i li,
  gm_inv s ls -> nth_error ls i = Some li ->
  exists li', nth_error (snd (cc_run sched (s, ls))) i = Some li' /\
    gm_obs (fst (cc_run sched (s, ls))) li' =
    gm_obs (fst (cc_solo (gm_count i sched) s li)) (snd (cc_solo (gm_count i sched) s li)).
Proof. exact (gm_outcome_schedule_independent _ _ _ _ _ cc_init (cc_eval true) cc_render cc_eval_clipped_ro (fun _ _ _ _ => eq_refl)). Qed.

(* the shared WAF is the same after any schedule *)
Theorem cc_waf_unchanged : forall sched s ls, s_waf (fst (cc_run sched (s, ls))) = s_waf s.
Proof.
  induction sched as [|[j ch] sched IH]; intros s ls; [reflexivity|].
  unfold cc_run in *. cbn [gm_run fold_left gm_sys_step fst snd].
  destruct (nth_error ls j) as [lj|]; [|apply IH].
  destruct (gm_tstep cc_init (cc_eval true) cc_render ch s lj) as [s' l'] eqn:E.
  fold (gm_run cc_init (cc_eval true) cc_render sched (s', cset_nth ls j l')). rewrite IH.
  pose proof (gm_tstep_waf _ _ _ _ _ cc_init (cc_eval true) cc_render cc_eval_clipped_ro ch s lj) as R.
  rewrite E in R. exact R.
Qed.

(* F27: with the unclipped append there is a schedule of two transactions on the rule
   ARGS|!ARGS:x|!ARGS:y|!ARGS:z (len 3, cap 4) in which transaction 0 ends with another outcome
   than when it runs alone: its exclusion of "a" is overwritten by transaction 1's exclusion of "b" *)
Definition f27_waf := cc_waf_of [[120%N]; [121%N]; [122%N]] [101%N; 118%N].
Definition f27_args := [([97%N], [101%N; 118%N; 49%N]); ([98%N], [101%N; 118%N; 50%N])].
Definition f27_inA := mk_cc_inp f27_args [[97%N]].
Definition f27_inB := mk_cc_inp f27_args [[98%N]].
Definition f27_sched := [(0,0);(0,0);(0,0);(1,0);(1,0);(1,0);(0,0);(0,0);(0,0)].
Definition f27_state : gm_sh cc_waf cc_cont (list (bytes * bytes)) * list (gm_lo cc_inp cc_act cc_cont) :=
  (gm_sh0 f27_waf cc_new, [cc_tx f27_waf f27_inA; cc_tx f27_waf f27_inB]).

Theorem cc_unclipped_refuted :
  gm_inv (fst f27_state) (snd f27_state) /\
  let st := gm_run cc_init (cc_eval false) cc_render f27_sched f27_state in
  let alone := gm_solo cc_init (cc_eval false) cc_render (gm_count 0 f27_sched) (fst f27_state) (cc_tx f27_waf f27_inA) in
  option_map (fun l => option_map lc_matched (l_out l)) (nth_error (snd st) 0) <>
  Some (option_map lc_matched (l_out (snd alone))) /\
  s_waf (fst st) <> f27_waf.
Proof.
  split.
  - apply gm_inv_start; cbn.
    + intros l [<-|[<-|[]]]; reflexivity.
    + constructor.
    + intros o [].
  - split; vm_compute; discriminate.
Qed.

(* ------------------------------------------------------------------------------------------ *)
(* 3. the intern table                                                                          *)
(* ------------------------------------------------------------------------------------------ *)
Definition it_wf (t : it_table) : Prop :=
  (forall i c n, nth_error t i = Some (c, n) -> c <= i) /\ NoDup t.

Definition it_dec (t : it_table) (id : nat) : list bytes := it_decode (length t) t id.

Lemma it_find_some : forall t cur name k i,
  it_find t cur name k = Some i -> k <= i /\ nth_error t (i - k) = Some (cur, name).
Proof.
  induction t as [|[c n] t IH]; intros cur name k i H; cbn in H; [discriminate|].
  destruct ((c =? cur) && bytes_eqb n name) eqn:E.
  - inversion H; subst. apply andb_true_iff in E as [E1 E2]. apply Nat.eqb_eq in E1. apply bytes_eqb_eq in E2.
    subst. rewrite Nat.sub_diag. split; [lia | reflexivity].
  - apply IH in H as [H1 H2]. split; [lia|].
    replace (i - k) with (S (i - S k)) by lia. exact H2.
Qed.

Lemma it_find_none : forall t cur name k, it_find t cur name k = None -> ~ In (cur, name) t.
Proof.
  induction t as [|[c n] t IH]; intros cur name k H; cbn in *; [tauto|].
  destruct ((c =? cur) && bytes_eqb n name) eqn:E; [discriminate|].
  intros [HI|HI].
  - inversion HI; subst. rewrite Nat.eqb_refl, bytes_eqb_refl in E. discriminate.
  - eapply IH; eauto.
Qed.

Lemma it_decode_fuel : forall t, it_wf t -> forall f1 f2 id, id <= f1 -> id <= f2 ->
  it_decode f1 t id = it_decode f2 t id.
Proof.
  intros t [Hwf _]. induction f1 as [|f1 IH]; intros f2 id H1 H2.
  - assert (id = 0) by lia. subst. destruct f2; reflexivity.
  - destruct id as [|i]; [destruct f2; reflexivity|].
    destruct f2 as [|f2]; [lia|]. cbn [it_decode].
    destruct (nth_error t i) as [[c n]|] eqn:E; [|reflexivity].
    apply Hwf in E. rewrite (IH f2 c) by lia. reflexivity.
Qed.

Lemma it_decode_app : forall t ext, it_wf t -> forall f id, id <= length t ->
  it_decode f (t ++ ext) id = it_decode f t id.
Proof.
  intros t ext [Hwf _]. induction f as [|f IH]; intros id Hid; [reflexivity|].
  destruct id as [|i]; [reflexivity|]. cbn [it_decode].
  rewrite nth_error_app1 by lia.
  destruct (nth_error t i) as [[c n]|] eqn:E; [|reflexivity].
  apply Hwf in E. rewrite IH by lia. reflexivity.
Qed.

Lemma it_dec_app t ext id : it_wf t -> it_wf (t ++ ext) -> id <= length t -> it_dec (t ++ ext) id = it_dec t id.
Proof.
  intros H1 H2 Hid. unfold it_dec.
  rewrite (it_decode_fuel _ H2 (length (t ++ ext)) (length t) id) by (rewrite ?app_length; lia).
  apply it_decode_app; auto.
Qed.

Lemma it_decode_inj : forall t, it_wf t -> forall f id1 id2,
  id1 <= f -> id2 <= f -> id1 <= length t -> id2 <= length t ->
  it_decode f t id1 = it_decode f t id2 -> id1 = id2.
Proof.
  intros t [Hwf Hnd]. induction f as [|f IH]; intros id1 id2 H1 H2 L1 L2 E; [lia|].
  destruct id1 as [|i1], id2 as [|i2]; auto; cbn [it_decode] in E.
  - destruct (nth_error t i2) as [[c n]|] eqn:E2.
    + symmetry in E. apply app_eq_nil in E as [_ E]. discriminate.
    + apply nth_error_None in E2. lia.
  - destruct (nth_error t i1) as [[c n]|] eqn:E1.
    + apply app_eq_nil in E as [_ E]. discriminate.
    + apply nth_error_None in E1. lia.
  - destruct (nth_error t i1) as [[c1 n1]|] eqn:E1; [|apply nth_error_None in E1; lia].
    destruct (nth_error t i2) as [[c2 n2]|] eqn:E2; [|apply nth_error_None in E2; lia].
    apply app_inj_tail in E as [Ed En]. subst n2.
    pose proof (Hwf _ _ _ E1) as B1. pose proof (Hwf _ _ _ E2) as B2.
    assert (c1 = c2) by (apply IH; auto; lia). subst c2.
    f_equal. rewrite NoDup_nth_error in Hnd. apply Hnd; [lia | congruence].
Qed.

Lemma it_dec_inj t id1 id2 :
  it_wf t -> id1 <= length t -> id2 <= length t -> it_dec t id1 = it_dec t id2 -> id1 = id2.
Proof. intros. eapply (it_decode_inj t H (length t)); eauto. Qed.

(* one call of transformationID *)
Lemma it_intern_spec t cur name :
  it_wf t -> cur <= length t ->
  let '(t', id) := it_intern t cur name in
  it_wf t' /\ (exists ext, t' = t ++ ext) /\ id <= length t' /\ it_dec t' id = it_dec t cur ++ [name].
Proof.
  intros Hwf Hc. unfold it_intern. destruct (it_find t cur name 0) as [i|] eqn:E.
  - apply it_find_some in E as [_ E]. rewrite Nat.sub_0_r in E.
    assert (Hi : i < length t) by (apply nth_error_Some; congruence).
    split; [exact Hwf|]. split; [exists []; rewrite app_nil_r; reflexivity|]. split; [lia|].
    unfold it_dec. rewrite (it_decode_fuel t Hwf (length t) (S i) (S i)) by lia.
    cbn [it_decode]. rewrite E. f_equal.
    assert (cur <= i) by (destruct Hwf as [Hb _]; eapply Hb; eauto).
    apply it_decode_fuel; auto; lia.
  - apply it_find_none in E.
    assert (Hwf' : it_wf (t ++ [(cur, name)])).
    { destruct Hwf as [Hb Hn]. split.
      - intros i c n H. destruct (Nat.lt_ge_cases i (length t)) as [Hl|Hl].
        + rewrite nth_error_app1 in H by lia. eauto.
        + rewrite nth_error_app2 in H by lia. destruct (i - length t) as [|d] eqn:D; cbn in H.
          * inversion H; subst. lia.
          * destruct d; discriminate.
      - apply Permutation_NoDup with (l := (cur, name) :: t).
        + apply Permutation_cons_append.
        + constructor; auto. }
    split; [exact Hwf'|]. split; [eexists; reflexivity|]. rewrite app_length; cbn. split; [lia|].
    unfold it_dec at 1. rewrite app_length; cbn. replace (length t + 1) with (S (length t)) by lia.
    cbn [it_decode]. rewrite nth_error_app2, Nat.sub_diag by lia. cbn.
    f_equal. rewrite it_decode_app; auto.
Qed.

(* invariant of the system: the table is well formed; every thread's current id and every
   recorded (chain, id) pair decode to the chain they were obtained for *)
Definition it_lo_ok (t : it_table) (l : it_lo) : Prop :=
  b_cur l <= length t /\ it_dec t (b_cur l) = b_pref l /\
  forall ch id, In (ch, id) (b_done l) -> id <= length t /\ it_dec t id = ch.

Definition it_J (t : it_table) (ls : list it_lo) : Prop :=
  it_wf t /\ forall l, In l ls -> it_lo_ok t l.

Lemma it_lo_ok_grow t ext l : it_wf t -> it_wf (t ++ ext) -> it_lo_ok t l -> it_lo_ok (t ++ ext) l.
Proof.
  intros H1 H2 (Hc & Hp & Hd). unfold it_lo_ok. rewrite app_length. split; [lia|]. split.
  - rewrite it_dec_app; auto.
  - intros ch id HI. destruct (Hd _ _ HI) as [Hl He]. split; [lia|]. rewrite it_dec_app; auto.
Qed.

Lemma it_dec_zero t : it_dec t 0 = [].
Proof. unfold it_dec. destruct (length t); reflexivity. Qed.

Lemma it_tstep_ok t l :
  it_wf t -> it_lo_ok t l ->
  let '(t', l') := it_tstep t l in
  it_wf t' /\ (exists ext, t' = t ++ ext) /\ it_lo_ok t' l'.
Proof.
  intros Hwf (Hc & Hp & Hd). unfold it_tstep. destruct (b_todo l) as [|[|n ns] rest] eqn:Et.
  - split; auto. split; [exists []; rewrite app_nil_r; reflexivity|]. exact (conj Hc (conj Hp Hd)).
  - split; auto. split; [exists []; rewrite app_nil_r; reflexivity|].
    unfold it_lo_ok; cbn. split; [lia|]. split; [apply it_dec_zero | exact Hd].
  - pose proof (it_intern_spec t (b_cur l) n Hwf Hc) as S.
    destruct (it_intern t (b_cur l) n) as [t' id]. destruct S as (Hwf' & [ext ->] & Hid & Hdec).
    split; auto. split; [eexists; reflexivity|].
    unfold it_lo_ok; cbn [b_cur b_pref b_done]. split; [exact Hid|]. split.
    + rewrite Hdec, Hp. reflexivity.
    + intros ch id' HI. apply in_app_or in HI as [HI|[HI|[]]].
      * destruct (Hd _ _ HI) as [Hl He]. rewrite app_length. split; [lia|]. rewrite it_dec_app; auto.
      * inversion HI; subst. split; [exact Hid|]. rewrite Hdec, Hp. reflexivity.
Qed.

Lemma In_cset_nth {A} (l : list A) i x y : In y (cset_nth l i x) -> y = x \/ In y l.
Proof.
  revert i; induction l as [|z l IH]; intros [|i] H; cbn in *; auto.
  - destruct H; auto.
  - destruct H as [H|H]; auto. apply IH in H. tauto.
Qed.

Lemma it_J_run : forall sched t ls, it_J t ls ->
  it_J (fst (it_run sched (t, ls))) (snd (it_run sched (t, ls))).
Proof.
  induction sched as [|i sched IH]; intros t ls HJ; [exact HJ|].
  cbn [it_run fold_left it_sys_step]. destruct (nth_error ls i) as [l|] eqn:El; [|apply IH, HJ].
  destruct HJ as [Hwf Hall].
  pose proof (it_tstep_ok t l Hwf (Hall _ (nth_error_In _ _ El))) as S.
  destruct (it_tstep t l) as [t' l']. destruct S as (Hwf' & [ext ->] & Hok).
  apply IH. split; auto. intros y Hy. apply In_cset_nth in Hy as [->|Hy]; auto.
  apply it_lo_ok_grow; auto.
Qed.

Lemma it_J_start t chainss : it_wf t -> it_J t (map it_start chainss).
Proof.
  intro Hwf. split; auto. intros l Hl. apply in_map_iff in Hl as (c & <- & _).
  unfold it_lo_ok, it_start; cbn. split; [lia|]. split; [apply it_dec_zero | tauto].
Qed.

(* in EVERY interleaving of goroutines interning transformation chains, two recorded ids are
   equal exactly when the chains (lists of names) are equal *)
Theorem it_intern_injective : forall sched t0 chainss,
  it_wf t0 ->
  let st := it_run sched (t0, map it_start chainss) in
  forall li lj c1 id1 c2 id2,
    In li (snd st) -> In lj (snd st) -> In (c1, id1) (b_done li) -> In (c2, id2) (b_done lj) ->
    (id1 = id2 <-> c1 = c2).
Proof.
  intros sched t0 chainss Hwf st li lj c1 id1 c2 id2 Hi Hj H1 H2.
  destruct (it_J_run sched t0 _ (it_J_start t0 chainss Hwf)) as [Hwf' Hall]. fold st in Hwf', Hall.
  destruct (Hall _ Hi) as (_ & _ & Hd1). destruct (Hall _ Hj) as (_ & _ & Hd2).
  destruct (Hd1 _ _ H1) as [L1 E1]. destruct (Hd2 _ _ H2) as [L2 E2].
  split; intro H.
  - subst. congruence.
  - subst. eapply it_dec_inj; eauto; congruence.
Qed.

Lemma it_wf_nil : it_wf [].
Proof. split; [intros [|i] c n H; discriminate | constructor]. Qed.

(* ------------------------------------------------------------------------------------------ *)
(* 4. memoize Do / Release                                                                      *)
(* ------------------------------------------------------------------------------------------ *)
Lemma al_get_del m k k' : al_get (al_del m k) k' = if k =? k' then None else al_get m k'.
Proof.
  induction m as [|[k0 a0] m IH]; cbn [al_del al_get].
  - destruct (k =? k'); reflexivity.
  - destruct (k0 =? k) eqn:E1.
    + rewrite IH. apply Nat.eqb_eq in E1. subst k0. destruct (k =? k'); reflexivity.
    + cbn [al_get]. destruct (k0 =? k') eqn:E3.
      * destruct (k =? k') eqn:E2; auto. apply Nat.eqb_eq in E2, E3. subst. rewrite Nat.eqb_refl in E1. discriminate.
      * apply IH.
Qed.

Lemma al_get_set m k a k' : al_get (al_set m k a) k' = if k =? k' then Some a else al_get m k'.
Proof. unfold al_set. cbn [al_get]. destruct (k =? k') eqn:E; auto. rewrite al_get_del, E. reflexivity. Qed.

Definition mm_live (ents : list mm_entry) (a k : nat) : Prop :=
  exists e, nth_error ents a = Some e /\ e_key e = k /\ e_deleted e = false /\ e_owners e <> [].
Definition mm_has_key (ents : list mm_entry) (a k : nat) : Prop :=
  exists e, nth_error ents a = Some e /\ e_key e = k.
Definition mm_flight_key (fl : list mm_flight) (f k : nat) : Prop :=
  exists x, nth_error fl f = Some x /\ f_key x = k.

Definition mm_inv (fn : nat -> option nat) (s : mm_sh) : Prop :=
  (forall k a, al_get (m_map s) k = Some a -> mm_live (m_ents s) a k) /\
  (forall a e, nth_error (m_ents s) a = Some e -> fn (e_key e) = Some (e_val e)) /\
  (forall f x r, nth_error (m_flights s) f = Some x -> f_res x = Some r -> r = fn (f_key x)) /\
  (forall k f, al_get (m_group s) k = Some f -> mm_flight_key (m_flights s) f k).

Definition mm_pc_ok (fn : nat -> option nat) (s : mm_sh) (pc : mm_pc) : Prop :=
  match pc with
  | PD1 o k a => mm_has_key (m_ents s) a k
  | PL0 o k f => mm_flight_key (m_flights s) f k
  | PL2 o k f => mm_flight_key (m_flights s) f k
  | PL1 o k f a => mm_flight_key (m_flights s) f k /\ mm_has_key (m_ents s) a k
  | PL3 o k f r c => mm_flight_key (m_flights s) f k /\ r = fn k
  | PWait o k f => mm_flight_key (m_flights s) f k
  | PP0 o k r c => r = fn k
  | PP1 o k a r c => r = fn k
  | PRC o k a ks => mm_has_key (m_ents s) a k
  | _ => True
  end.

Definition mm_res_ok (fn : nat -> option nat) (l : mm_lo) : Prop :=
  forall k r c, In (k, r, c) (t_res l) -> r = fn k.

Definition mm_stable (s s' : mm_sh) : Prop :=
  (forall a k, mm_has_key (m_ents s) a k -> mm_has_key (m_ents s') a k) /\
  (forall f k, mm_flight_key (m_flights s) f k -> mm_flight_key (m_flights s') f k).

Lemma mm_stable_refl s : mm_stable s s.
Proof. split; auto. Qed.

Lemma mm_pc_ok_stable fn s s' pc : mm_stable s s' -> mm_pc_ok fn s pc -> mm_pc_ok fn s' pc.
Proof. intros [H1 H2]. destruct pc; cbn; auto; try tauto; intros [A B]; split; auto. Qed.

Lemma mm_live_has_key ents a k : mm_live ents a k -> mm_has_key ents a k.
Proof. intros (e & H1 & H2 & _). exists e. auto. Qed.

Lemma mm_add_owner_nonempty o l : mm_add_owner o l <> [].
Proof.
  unfold mm_add_owner. destruct (existsb (Nat.eqb o) l) eqn:E; [|discriminate].
  destruct l; [discriminate E | discriminate].
Qed.

(* replacing entry a by one with the same key and value, together with a new map whose bindings
   are old bindings that do not point to a dead entry *)
Lemma mm_inv_upd fn s a e e' m' :
  mm_inv fn s -> nth_error (m_ents s) a = Some e -> e_key e' = e_key e -> e_val e' = e_val e ->
  (forall k' a0, al_get m' k' = Some a0 ->
     al_get (m_map s) k' = Some a0 /\ (a0 = a -> e_deleted e' = false /\ e_owners e' <> [])) ->
  mm_inv fn (mk_mm_sh (cset_nth (m_ents s) a e') m' (m_flights s) (m_group s)).
Proof.
  intros (I1 & I2 & I3 & I4) Ea Hk Hv Hm. unfold mm_inv; cbn [m_ents m_map m_flights m_group].
  repeat split; auto.
  - intros k a0 Hg. destruct (Hm _ _ Hg) as [Hold Hlive]. destruct (I1 _ _ Hold) as (e0 & N0 & K0 & D0 & O0).
    destruct (Nat.eq_dec a0 a) as [->|Hne].
    + destruct (Hlive eq_refl) as [D' O']. exists e'. rewrite (nth_error_cset_nth_eq _ _ _ _ Ea).
      repeat split; auto. congruence.
    + exists e0. rewrite nth_error_cset_nth_neq by auto. auto.
  - intros a0 e0 H. rewrite nth_error_cset_nth in H. destruct (a =? a0) eqn:E.
    + apply Nat.eqb_eq in E. subst a0. rewrite Ea in H. cbn in H. inversion H; subst e0.
      rewrite Hk, Hv. eauto.
    + eauto.
Qed.

Lemma mm_stable_upd s a e e' m' fl g :
  nth_error (m_ents s) a = Some e -> e_key e' = e_key e ->
  (forall f k, mm_flight_key (m_flights s) f k -> mm_flight_key fl f k) ->
  mm_stable s (mk_mm_sh (cset_nth (m_ents s) a e') m' fl g).
Proof.
  intros Ea Hk Hf. split; cbn [m_ents m_flights]; auto.
  intros a0 k (e0 & N0 & K0). destruct (Nat.eq_dec a0 a) as [->|Hne].
  - exists e'. rewrite (nth_error_cset_nth_eq _ _ _ _ Ea). split; congruence.
  - exists e0. rewrite nth_error_cset_nth_neq by auto. auto.
Qed.

Lemma mm_try_add_ok fn s a o s' v :
  mm_inv fn s -> mm_try_add s a o = Some (s', v) ->
  mm_inv fn s' /\ mm_stable s s' /\ (forall k, mm_has_key (m_ents s) a k -> fn k = Some v).
Proof.
  intros Hinv H. unfold mm_try_add in H. destruct (nth_error (m_ents s) a) as [e|] eqn:Ea; [|discriminate].
  destruct (e_deleted e) eqn:D; [discriminate|]. inversion H; subst s' v; clear H. split; [|split].
  - eapply mm_inv_upd; eauto. intros k' a0 Hg. split; auto. intros _. cbn. split; auto. apply mm_add_owner_nonempty.
  - eapply mm_stable_upd; eauto.
  - intros k (e0 & N0 & K0). rewrite Ea in N0. inversion N0; subst e0. destruct Hinv as (_ & I2 & _).
    rewrite <- K0. eauto.
Qed.

Lemma mm_flight_key_app fl x f k : mm_flight_key fl f k -> mm_flight_key (fl ++ [x]) f k.
Proof.
  intros (y & N & K). exists y. split; auto. rewrite nth_error_app1; auto. apply nth_error_Some. congruence.
Qed.

Lemma mm_has_key_app ents x a k : mm_has_key ents a k -> mm_has_key (ents ++ [x]) a k.
Proof.
  intros (y & N & K). exists y. split; auto. rewrite nth_error_app1; auto. apply nth_error_Some. congruence.
Qed.

Ltac mm_same := split; [assumption | split; [apply mm_stable_refl | split]].

Lemma mm_res_ok_finish fn ops pc res k r c :
  mm_res_ok fn (mk_mm_lo ops pc res) -> r = fn k -> mm_res_ok fn (mk_mm_lo ops PIdle (res ++ [(k, r, c)])).
Proof.
  intros H E k0 r0 c0 HI. cbn in HI. apply in_app_or in HI as [HI|[HI|[]]].
  - eapply H; cbn; eauto.
  - inversion HI; subst. reflexivity.
Qed.

Lemma mm_step_ok fn s l :
  mm_inv fn s -> mm_pc_ok fn s (t_pc l) -> mm_res_ok fn l ->
  let '(s', l') := mm_step fn s l in
  mm_inv fn s' /\ mm_stable s s' /\ mm_pc_ok fn s' (t_pc l') /\ mm_res_ok fn l'.
Proof.
  intros Hinv Hpc Hres. destruct l as [ops pc res]. cbn [t_pc] in Hpc.
  assert (Hinv0 := Hinv). destruct Hinv0 as (I1 & I2 & I3 & I4).
  destruct pc as [ |o k|o k a|o k|o k f|o k f a|o k f|o k f r c|o k f|o k r c|o k a r c|o ks|o k a ks];
    unfold mm_step; cbn [t_pc t_ops t_res].
  - (* PIdle *)
    destruct ops as [|[o k|o ks] ops]; mm_same; cbn; auto.
  - (* PD0 *)
    destruct (al_get (m_map s) k) as [a|] eqn:E; unfold mm_goto; mm_same; cbn; auto.
    apply mm_live_has_key; auto.
  - (* PD1 *)
    destruct (mm_try_add s a o) as [[s' v]|] eqn:E.
    + destruct (mm_try_add_ok fn s a o s' v Hinv E) as (Hi' & Hs' & Hv).
      unfold mm_finish. split; auto. split; auto. split; [exact I|].
      eapply mm_res_ok_finish; eauto. symmetry. apply Hv, Hpc.
    + unfold mm_goto; mm_same; cbn; auto.
  - (* PD2 *)
    destruct (al_get (m_group s) k) as [f|] eqn:E; unfold mm_goto.
    + mm_same; cbn; auto.
    + cbn [t_pc t_ops t_res]. split; [|split; [|split]]; auto.
      * unfold mm_inv; cbn [m_ents m_map m_flights m_group]. repeat split; auto.
        -- intros f x r N R. destruct (Nat.lt_ge_cases f (length (m_flights s))) as [Hl|Hl].
           ++ rewrite nth_error_app1 in N by lia. eauto.
           ++ rewrite nth_error_app2 in N by lia. destruct (f - length (m_flights s)) as [|[|d]]; cbn in N; try discriminate.
              inversion N; subst x. discriminate.
        -- intros k' f Hg. rewrite al_get_set in Hg. destruct (k =? k') eqn:Ek.
           ++ apply Nat.eqb_eq in Ek. subst k'. inversion Hg; subst f.
              exists (mk_flight k None). rewrite nth_error_app2, Nat.sub_diag by lia. auto.
           ++ apply mm_flight_key_app; auto.
      * split; cbn [m_ents m_flights]; auto. intros; apply mm_flight_key_app; auto.
      * cbn. exists (mk_flight k None). rewrite nth_error_app2, Nat.sub_diag by lia. auto.
  - (* PL0 *)
    destruct (al_get (m_map s) k) as [a|] eqn:E; unfold mm_goto; mm_same; cbn; auto.
    split; auto. apply mm_live_has_key; auto.
  - (* PL1 *)
    destruct Hpc as [Hf Hk].
    destruct (mm_try_add s a o) as [[s' v]|] eqn:E.
    + destruct (mm_try_add_ok fn s a o s' v Hinv E) as (Hi' & Hs' & Hv).
      unfold mm_goto. split; auto. split; auto. split; auto.
      cbn. split; [apply Hs'; auto | symmetry; auto].
    + unfold mm_goto; mm_same; cbn; auto.
  - (* PL2 *)
    destruct (fn k) as [v|] eqn:Efn; unfold mm_goto; cbn [t_pc t_ops t_res].
    + split; [|split; [|split]]; auto.
      * unfold mm_inv; cbn [m_ents m_map m_flights m_group]. repeat split; auto.
        -- intros k' a Hg. rewrite al_get_set in Hg. destruct (k =? k') eqn:Ek.
           ++ apply Nat.eqb_eq in Ek. subst k'. inversion Hg; subst a.
              exists (mk_entry k v [o] false). rewrite nth_error_app2, Nat.sub_diag by lia.
              cbn. repeat split; auto. discriminate.
           ++ destruct (I1 _ _ Hg) as (e & N & R). exists e. split; auto.
              rewrite nth_error_app1; auto. apply nth_error_Some. congruence.
        -- intros a e N. destruct (Nat.lt_ge_cases a (length (m_ents s))) as [Hl|Hl].
           ++ rewrite nth_error_app1 in N by lia. eauto.
           ++ rewrite nth_error_app2 in N by lia. destruct (a - length (m_ents s)) as [|[|d]]; cbn in N; try discriminate.
              inversion N; subst e. cbn. exact Efn.
      * split; cbn [m_ents m_flights]; auto. intros; apply mm_has_key_app; auto.
      * cbn. auto.
    + mm_same; cbn; auto.
  - (* PL3 *)
    destruct Hpc as [Hf Hr]. unfold mm_goto; cbn [t_pc t_ops t_res].
    destruct Hf as (x & Nx & Kx).
    assert (Hfk : forall f0 k0, mm_flight_key (m_flights s) f0 k0 ->
                   mm_flight_key (cset_nth (m_flights s) f (mk_flight k (Some r))) f0 k0).
    { intros f0 k0 (y & Ny & Ky). destruct (Nat.eq_dec f0 f) as [->|Hne].
      - exists (mk_flight k (Some r)). rewrite (nth_error_cset_nth_eq _ _ _ _ Nx). split; auto. cbn. congruence.
      - exists y. rewrite nth_error_cset_nth_neq by auto. auto. }
    split; [|split; [|split]]; auto.
    + unfold mm_inv; cbn [m_ents m_map m_flights m_group]. repeat split; auto.
      * intros f0 y r0 N R. rewrite nth_error_cset_nth in N. destruct (f =? f0) eqn:Ef.
        -- rewrite Nat.eqb_eq in Ef. subst f0. rewrite Nx in N. cbn in N. inversion N; subst y. cbn in *. congruence.
        -- eauto.
      * intros k' f0 Hg. rewrite al_get_del in Hg. destruct (k =? k'); [discriminate|]. auto.
    + split; cbn [m_ents m_flights]; auto.
  - (* PWait *)
    destruct (nth_error (m_flights s) f) as [fl|] eqn:N; [|mm_same; cbn; auto].
    destruct (f_res fl) as [r|] eqn:R; [|mm_same; cbn; auto].
    unfold mm_goto; mm_same; cbn; auto.
    destruct Hpc as (x & Nx & Kx). rewrite N in Nx. inversion Nx; subst x. rewrite <- Kx. eauto.
  - (* PP0 *)
    cbn in Hpc. destruct r as [v|].
    + destruct (al_get (m_map s) k) as [a|] eqn:E.
      * unfold mm_goto; mm_same; cbn; auto.
      * unfold mm_finish; mm_same; cbn; auto. eapply mm_res_ok_finish; eauto.
    + unfold mm_finish; mm_same; cbn; auto. eapply mm_res_ok_finish; eauto.
  - (* PP1 *)
    cbn in Hpc. destruct (mm_try_add s a o) as [[s' v]|] eqn:E.
    + destruct (mm_try_add_ok fn s a o s' v Hinv E) as (Hi' & Hs' & Hv).
      unfold mm_finish. split; auto. split; auto. split; [exact I|]. eapply mm_res_ok_finish; eauto.
    + unfold mm_finish; mm_same; cbn; auto. eapply mm_res_ok_finish; eauto.
  - (* PR *)
    destruct ks as [|k ks].
    + unfold mm_goto; mm_same; cbn; auto.
    + destruct (al_get (m_map s) k) as [a|] eqn:E; unfold mm_goto; mm_same; cbn; auto.
      apply mm_live_has_key; auto.
  - (* PRC *)
    destruct Hpc as (e & Ne & Ke). rewrite Ne.
    destruct (mm_del_owner o (e_owners e)) as [|o1 ow] eqn:Eo; unfold mm_goto; cbn [t_pc t_ops t_res].
    + split; [|split; [|split]]; auto.
      * eapply mm_inv_upd; eauto. intros k' a0 Hg. rewrite al_get_del in Hg.
        destruct (k =? k') eqn:Ek; [discriminate|]. split; auto. intros ->.
        destruct (I1 _ _ Hg) as (e0 & N0 & K0 & _). rewrite Ne in N0. inversion N0; subst e0.
        apply Nat.eqb_neq in Ek. congruence.
      * eapply mm_stable_upd; eauto.
      * cbn. auto.
    + split; [|split; [|split]]; auto.
      * eapply mm_inv_upd; eauto. intros k' a0 Hg. split; auto. intros ->.
        destruct (I1 _ _ Hg) as (e0 & N0 & K0 & D0 & O0). rewrite Ne in N0. inversion N0; subst e0.
        cbn. split; auto. discriminate.
      * eapply mm_stable_upd; eauto.
      * cbn. auto.
Qed.

Definition mm_sys_inv (fn : nat -> option nat) (s : mm_sh) (ls : list mm_lo) : Prop :=
  mm_inv fn s /\ forall l, In l ls -> mm_pc_ok fn s (t_pc l) /\ mm_res_ok fn l.

Lemma mm_sys_inv_run fn : forall sched s ls, mm_sys_inv fn s ls ->
  mm_sys_inv fn (fst (mm_run fn sched (s, ls))) (snd (mm_run fn sched (s, ls))).
Proof.
  induction sched as [|i sched IH]; intros s ls HJ; [exact HJ|].
  cbn [mm_run fold_left mm_sys_step]. destruct (nth_error ls i) as [l|] eqn:El; [|apply IH, HJ].
  destruct HJ as [Hinv Hall]. destruct (Hall _ (nth_error_In _ _ El)) as [Hpc Hres].
  pose proof (mm_step_ok fn s l Hinv Hpc Hres) as S.
  destruct (mm_step fn s l) as [s' l']. destruct S as (Hinv' & Hst & Hpc' & Hres').
  apply IH. split; auto. intros y Hy. apply In_cset_nth in Hy as [->|Hy]; auto.
  destruct (Hall _ Hy) as [P R]. split; auto. eapply mm_pc_ok_stable; eauto.
Qed.

Lemma mm_sys_inv_start fn opss : mm_sys_inv fn mm_empty (map mm_start opss).
Proof.
  split.
  - unfold mm_inv, mm_empty; cbn [m_ents m_map m_flights m_group]. split; [|split; [|split]].
    + intros k a H; discriminate.
    + intros a e H; destruct a; discriminate.
    + intros f x r H; destruct f; discriminate.
    + intros k f H; discriminate.
  - intros l Hl. apply in_map_iff in Hl as (ops & <- & _). split; [exact I | intros k r c []].
Qed.

(* for EVERY interleaving of Do / Release steps of any number of goroutines:
   (1) an entry reachable from the cache is not marked deleted and has at least one owner,
   (2) every completed Do returned exactly fn key (a value for that key, or fn's error) *)
Theorem mm_memo_refcount : forall fn sched opss,
  let st := mm_run fn sched (mm_empty, map mm_start opss) in
  (forall k a, al_get (m_map (fst st)) k = Some a -> mm_live (m_ents (fst st)) a k) /\
  (forall l k r c, In l (snd st) -> In (k, r, c) (t_res l) -> r = fn k).
Proof.
  intros fn sched opss st.
  destruct (mm_sys_inv_run fn sched _ _ (mm_sys_inv_start fn opss)) as [(I1 & _) Hall]. fold st in I1, Hall.
  split; auto. intros l k r c Hl Hr. destruct (Hall _ Hl) as [_ R]. eapply R; eauto.
Qed.

(* what the model ALSO shows (not a violation of C06, reported as an observation): a Release whose
   Range yielded an entry that another Release deleted meanwhile calls cache.Delete(key) again and
   removes a NEWER entry of the same key that a third WAF has just stored and still owns *)
Definition mm_stale_threads := [mm_start [MRelease 1 [7]]; mm_start [MDo 2 7; MRelease 2 [7]]; mm_start [MDo 3 7]].
Definition mm_stale_sched :=
  [1;1;1;1;1;1;1;1] (* WAF 2 compiles key 7 *) ++ [0;0] (* Release(1) reaches key 7: entry e0 in hand *) ++
  [1;1;1;1] (* Release(2) deletes e0 *) ++ [2;2;2;2;2;2;2;2] (* WAF 3 stores a new entry for key 7 *) ++
  [0;0] (* Release(1)'s critical section on the stale e0: deletes key 7 again *).
Lemma mm_stale_release_drops_live_entry :
  let st := mm_run (fun k => Some k) mm_stale_sched (mm_empty, mm_stale_threads) in
  al_get (m_map (fst st)) 7 = None /\
  (exists l, nth_error (snd st) 2 = Some l /\ t_res l = [(7, Some 7, true)] /\ t_ops l = [] /\ t_pc l = PIdle).
Proof. vm_compute. split; [reflexivity | eexists; repeat split]. Qed.

(* ------------------------------------------------------------------------------------------ *)
(* 5. the serial audit writer                                                                   *)
(* ------------------------------------------------------------------------------------------ *)
Lemma au_run_log : forall sched log ws,
  fst (au_run sched (log, ws)) = log ++ flat_map au_frame (au_emitted sched ws).
Proof.
  induction sched as [|i sched IH]; intros log ws; cbn [au_run fold_left au_emitted au_sys_step].
  - cbn. rewrite app_nil_r. reflexivity.
  - destruct (nth_error ws i) as [[|x rest]|] eqn:E; try apply IH.
    fold (au_run sched (log ++ au_frame x, cset_nth ws i rest)). rewrite IH. cbn [flat_map]. rewrite app_assoc. reflexivity.
Qed.

Lemma au_run_ws : forall sched log log' ws, snd (au_run sched (log, ws)) = snd (au_run sched (log', ws)).
Proof.
  induction sched as [|i sched IH]; intros log log' ws; cbn [au_run fold_left au_sys_step]; auto.
  destruct (nth_error ws i) as [[|x rest]|]; apply IH.
Qed.

Lemma concat_cset_nth_perm : forall (ws : list (list bytes)) i x rest,
  nth_error ws i = Some (x :: rest) -> Permutation (x :: concat (cset_nth ws i rest)) (concat ws).
Proof.
  induction ws as [|w ws IH]; intros [|i] x rest H; cbn in *; try discriminate.
  - inversion H; subst. reflexivity.
  - apply IH in H. rewrite <- H. cbn. rewrite Permutation_middle. reflexivity.
Qed.

(* emitted records + records still to write = all records, as a multiset *)
Lemma au_emitted_perm : forall sched log ws,
  Permutation (au_emitted sched ws ++ concat (snd (au_run sched (log, ws)))) (concat ws).
Proof.
  induction sched as [|i sched IH]; intros log ws; cbn [au_run fold_left au_emitted au_sys_step].
  - reflexivity.
  - destruct (nth_error ws i) as [[|x rest]|] eqn:E; try apply IH.
    fold (au_run sched (log ++ au_frame x, cset_nth ws i rest)).
    cbn [app]. rewrite (IH _ (cset_nth ws i rest)). apply concat_cset_nth_perm, E.
Qed.

(* for EVERY interleaving of the writers the log is a sequence of WHOLE framed records, and the
   records in it together with those not yet written are exactly the records of the writers *)
Theorem au_whole_records : forall sched ws,
  exists emitted,
    fst (au_run sched ([], ws)) = flat_map au_frame emitted /\
    Permutation (emitted ++ concat (snd (au_run sched ([], ws)))) (concat ws).
Proof.
  intros sched ws. exists (au_emitted sched ws). split.
  - rewrite au_run_log. reflexivity.
  - apply au_emitted_perm.
Qed.

Lemma is_prefix_split : forall p s, is_prefix p s = true -> s = p ++ skipn (length p) s.
Proof.
  induction p as [|x p IH]; intros [|y s] H; cbn in *; try discriminate; auto.
  apply andb_true_iff in H as [H1 H2]. apply N.eqb_eq in H1. subst. f_equal. auto.
Qed.

Lemma au_take_some : forall ws rest k i rest',
  au_take ws rest k = Some (i, rest') ->
  k <= i /\ exists x wr, nth_error ws (i - k) = Some (x :: wr) /\ rest = au_frame x ++ rest'.
Proof.
  induction ws as [|[|x w] ws IH]; intros rest k i rest' H; cbn [au_take] in H; try discriminate.
  - apply IH in H as (Hk & x & wr & N & R). split; [lia|]. exists x, wr. split; auto.
    replace (i - k) with (S (i - S k)) by lia. exact N.
  - destruct (is_prefix (au_frame x) rest) eqn:P.
    + inversion H; subst. split; [lia|]. exists x, w. rewrite Nat.sub_diag. split; auto. apply is_prefix_split, P.
    + apply IH in H as (Hk & x' & wr & N & R). split; [lia|]. exists x', wr. split; auto.
      replace (i - k) with (S (i - S k)) by lia. exact N.
Qed.

Lemma au_run_step i sch log ws x wr :
  nth_error ws i = Some (x :: wr) -> au_run (i :: sch) (log, ws) = au_run sch (log ++ au_frame x, cset_nth ws i wr).
Proof. intro N. unfold au_run. cbn [fold_left au_sys_step]. rewrite N. reflexivity. Qed.

(* the decision procedure run on an observed log is sound: when it answers Some sch, the model
   produces exactly that log under schedule sch and every writer has finished *)
Theorem au_explain_sound : forall fuel ws log sch,
  au_explain fuel ws log = Some sch ->
  forall log0, fst (au_run sch (log0, ws)) = log0 ++ log /\
               forallb (fun w => match w with [] => true | _ => false end) (snd (au_run sch (log0, ws))) = true.
Proof.
  induction fuel as [|fuel IH]; intros ws log sch H log0.
  - destruct log; cbn in H; [|discriminate].
    destruct (forallb _ ws) eqn:F; [|discriminate]. inversion H; subst. cbn. rewrite app_nil_r. auto.
  - destruct log as [|b log]; cbn [au_explain] in H.
    + destruct (forallb _ ws) eqn:F; [|discriminate]. inversion H; subst. cbn. rewrite app_nil_r. auto.
    + destruct (au_take ws (b :: log) 0) as [[i rest]|] eqn:T; [|discriminate].
      apply au_take_some in T as (_ & x & wr & N & R). rewrite Nat.sub_0_r in N. rewrite N in H.
      destruct (au_explain fuel (cset_nth ws i wr) rest) as [sch'|] eqn:E; [|discriminate].
      inversion H; subst sch. rewrite (au_run_step i sch' log0 ws x wr N).
      destruct (IH _ _ _ E (log0 ++ au_frame x)) as [A B]. split; [|exact B].
      rewrite R, app_assoc. exact A.
Qed.

(* ------------------------------------------------------------------------------------------ *)
(* 7. refinement: the run-alone outcome of the exclusion-merge machine is the declarative      *)
(*    selection                                                                                *)
(* ------------------------------------------------------------------------------------------ *)
Lemma citerate_add {A} (f : A -> A) a b x : citerate (a + b) f x = citerate b f (citerate a f x).
Proof. revert x; induction a as [|a IH]; intro x; cbn; auto. Qed.

Section Acts.
  Variables W Inp Act Cont Rec : Type.
  Variable init : W -> Inp -> Cont -> Cont.
  Variable eval : W -> Inp -> Act -> Cont -> W * Cont.
  Variable render : Cont -> Rec.
  Hypothesis eval_ro : forall w i a c, fst (eval w i a c) = w.

  Lemma gm_solo_add a b s l :
    gm_solo init eval render (a + b) s l =
    gm_solo init eval render b (fst (gm_solo init eval render a s l)) (snd (gm_solo init eval render a s l)).
  Proof.
    unfold gm_solo. rewrite citerate_add. destruct (citerate a _ (s, l)) as [s1 l1]. reflexivity.
  Qed.

  (* running the evaluation actions of a transaction alone folds eval over its own object *)
  Lemma gm_solo_acts : forall acts (s : gm_sh W Cont Rec) (l : gm_lo Inp Act Cont) o rest,
    l_pc l = map TAct acts ++ rest -> l_obj l = Some o ->
    let st := gm_solo init eval render (length acts) s l in
    s_waf (fst st) = s_waf s /\
    s_objs (fst st) o = fold_left (fun c a => snd (eval (s_waf s) (l_inp l) a c)) acts (s_objs s o) /\
    l_pc (snd st) = rest /\ l_obj (snd st) = Some o /\ l_out (snd st) = l_out l /\ l_inp (snd st) = l_inp l /\
    s_log (fst st) = s_log s.
  Proof.
    induction acts as [|a acts IH]; intros s l o rest Hpc Ho.
    - cbn. repeat split; auto.
    - cbn [length]. rewrite (gm_solo_S _ _ _ _ _ init eval render).
      cbn [map app] in Hpc.
      assert (E : gm_tstep init eval render 0 s l =
                  (mk_gm_sh (fst (eval (s_waf s) (l_inp l) a (s_objs s o)))
                            (gm_upd (s_objs s) o (snd (eval (s_waf s) (l_inp l) a (s_objs s o)))) (s_next s) (s_pool s) (s_log s),
                   mk_gm_lo (l_inp l) (map TAct acts ++ rest) (l_obj l) (l_out l))).
      { unfold gm_tstep. rewrite Hpc, Ho. destruct (eval (s_waf s) (l_inp l) a (s_objs s o)); reflexivity. }
      rewrite E. cbn [fst snd]. rewrite eval_ro.
      specialize (IH (mk_gm_sh (s_waf s) (gm_upd (s_objs s) o (snd (eval (s_waf s) (l_inp l) a (s_objs s o)))) (s_next s) (s_pool s) (s_log s))
                     (mk_gm_lo (l_inp l) (map TAct acts ++ rest) (l_obj l) (l_out l)) o rest eq_refl Ho).
      cbn [s_waf s_objs l_inp l_out s_log] in IH. rewrite gm_upd_same in IH. exact IH.
  Qed.
End Acts.

(* ---- the exclusion merge: run-alone outcome = the declarative selection ---- *)
Definition cc_wf (w : cc_waf) (c : cc_cont) : Prop :=
  sl_len (lc_cur c) <= length (cc_array (cw_arrays w) (lc_arrays c) (lc_cur c)).

Lemma cc_fold_appends : forall es w inp c,
  cc_wf w c ->
  let c' := fold_left (fun c a => snd (cc_eval true w inp a c)) (map AAppend es) c in
  cc_wf w c' /\ lc_matched c' = lc_matched c /\
  cc_elems (cw_arrays w) (lc_arrays c') (lc_cur c') = cc_elems (cw_arrays w) (lc_arrays c) (lc_cur c) ++ es.
Proof.
  induction es as [|e es IH]; intros w inp c Hwf.
  - cbn. rewrite app_nil_r. auto.
  - cbn [map fold_left].
    set (c1 := snd (cc_eval true w inp (AAppend e) c)).
    assert (H1 : cc_wf w c1 /\ lc_matched c1 = lc_matched c /\
                 cc_elems (cw_arrays w) (lc_arrays c1) (lc_cur c1) = cc_elems (cw_arrays w) (lc_arrays c) (lc_cur c) ++ [e]).
    { subst c1. cbn [cc_eval]. pose proof (cc_append_clipped_elems (cw_arrays w) (lc_arrays c) (lc_cur c) e Hwf) as E.
      unfold cc_merge_append in *. rewrite cc_go_append_clip in *. cbn [snd lc_arrays lc_cur lc_matched].
      split; [|split; [reflexivity | exact E]].
      unfold cc_wf, cc_array; cbn [lc_cur lc_arrays sl_len sl_reg sl_arr].
      rewrite app_nth2, Nat.sub_diag by lia. cbn [nth]. rewrite app_length. cbn [length].
      rewrite cc_elems_clip. unfold cc_elems. rewrite firstn_length. unfold cc_wf in Hwf. lia. }
    destruct H1 as (W1 & M1 & E1). destruct (IH w inp c1 W1) as (W2 & M2 & E2).
    split; [exact W2|]. split; [congruence|]. rewrite E2, E1, <- app_assoc. reflexivity.
Qed.

Lemma cc_build_cap_ge : forall k n cap, n <= cap -> n + k <= cc_build_cap n cap k.
Proof.
  induction k as [|k IH]; intros n cap H; cbn [cc_build_cap]; [lia|].
  destruct (n <? cap) eqn:E.
  - apply Nat.ltb_lt in E. specialize (IH (S n) cap). lia.
  - apply Nat.ltb_ge in E. assert (n = cap) by lia. subst.
    destruct (cap =? 0) eqn:Z.
    + apply Nat.eqb_eq in Z. subst. specialize (IH 1 1). lia.
    + apply Nat.eqb_neq in Z. specialize (IH (S cap) (2 * cap)). lia.
Qed.

(* A transaction run alone on the rule  V|!V:e1|..|!V:en  "@contains needle"  with the
   per-transaction exclusions ecol matches exactly the arguments whose value contains the needle
   and whose name is excluded neither by the rule nor by the transaction *)
Theorem cc_solo_outcome_spec : forall excs needle inp,
  cc_solo_outcome true (cc_waf_of excs needle) inp = cc_select needle (excs ++ in_ecol inp) (in_args inp).
Proof.
  intros excs needle inp. unfold cc_solo_outcome, cc_tx, gm_start, gm_program. cbv zeta. cbn [l_pc].
  set (w := cc_waf_of excs needle).
  set (acts := cc_actions w inp).
  assert (Hacts : acts = ACopy 0 :: map AAppend (in_ecol inp) ++ [ARead]).
  { subst acts. unfold cc_actions. subst w. cbn [cc_waf_of cw_vars length seq flat_map]. rewrite app_nil_r. reflexivity. }
  replace (length (TNew :: map TAct acts ++ [TLog; TClose])) with (1 + (length acts + 2))
    by (cbn [length]; rewrite app_length, map_length; cbn; lia).
  rewrite (gm_solo_add _ _ _ _ _ cc_init (cc_eval true) cc_render 1).
  (* TNew *)
  set (s1 := fst (gm_solo cc_init (cc_eval true) cc_render 1 (gm_sh0 w cc_new)
                          (mk_gm_lo inp (TNew :: map TAct acts ++ [TLog; TClose]) None None))).
  set (l1 := snd (gm_solo cc_init (cc_eval true) cc_render 1 (gm_sh0 w cc_new)
                          (mk_gm_lo inp (TNew :: map TAct acts ++ [TLog; TClose]) None None))).
  assert (Hs1 : s_waf s1 = w /\ s_objs s1 0 = cc_new /\ l_pc l1 = map TAct acts ++ [TLog; TClose] /\
                l_obj l1 = Some 0 /\ l_out l1 = None /\ l_inp l1 = inp).
  { subst s1 l1. cbn. repeat split; reflexivity. }
  destruct Hs1 as (Hw1 & Ho1 & Hp1 & Hb1 & Hu1 & Hi1).
  rewrite (gm_solo_add _ _ _ _ _ cc_init (cc_eval true) cc_render (length acts) 2).
  pose proof (gm_solo_acts _ _ _ _ _ cc_init (cc_eval true) cc_render cc_eval_clipped_ro acts s1 l1 0 [TLog; TClose] Hp1 Hb1) as A.
  cbn zeta in A. destruct A as (Aw & Ao & Ap & Ab & Au & Ai & _).
  set (s2 := fst (gm_solo cc_init (cc_eval true) cc_render (length acts) s1 l1)) in *.
  set (l2 := snd (gm_solo cc_init (cc_eval true) cc_render (length acts) s1 l1)) in *.
  (* TLog; TClose *)
  assert (Hfin : l_out (snd (gm_solo cc_init (cc_eval true) cc_render 2 s2 l2)) = Some (s_objs s2 0)).
  { clearbody s2 l2. destruct l2 as [i2 pc2 ob2 out2]. cbn [l_pc l_obj] in Ap, Ab. subst pc2 ob2. reflexivity. }
  destruct (gm_solo cc_init (cc_eval true) cc_render 2 s2 l2) as [s3 l3]. cbn [snd] in Hfin. rewrite Hfin.
  rewrite Ao, Hw1, Hi1, Ho1, Hacts. cbn [fold_left].
  set (c1 := snd (cc_eval true w inp (ACopy 0) cc_new)).
  rewrite fold_left_app. cbn [fold_left].
  assert (Hwf1 : cc_wf w c1).
  { subst c1 w. unfold cc_wf, cc_array; cbn. rewrite app_length, repeat_length.
    pose proof (cc_build_cap_ge (length excs) 0 0 (le_n 0)). lia. }
  destruct (cc_fold_appends (in_ecol inp) w inp c1 Hwf1) as (W2 & M2 & E2).
  set (c2 := fold_left (fun c a => snd (cc_eval true w inp a c)) (map AAppend (in_ecol inp)) c1) in *.
  cbn [cc_eval snd lc_matched]. rewrite M2, E2.
  assert (E1 : cc_elems (cw_arrays w) (lc_arrays c1) (lc_cur c1) = excs).
  { subst c1 w. unfold cc_elems, cc_array; cbn. rewrite firstn_app, firstn_all, Nat.sub_diag. cbn. apply app_nil_r. }
  rewrite E1. subst c1 w. cbn. reflexivity.
Qed.

(* ------------------------------------------------------------------------------------------ *)
(* 8. the concurrent audit writer's mutex is released on every path (failing writes included)   *)
(* ------------------------------------------------------------------------------------------ *)
Lemma cw_holders_cset : forall ls i l l',
  nth_error ls i = Some l -> cw_holders (cset_nth ls i l') + cw_in_cs l = cw_holders ls + cw_in_cs l'.
Proof.
  unfold cw_holders, list_sum. induction ls as [|x ls IH]; intros [|i] l l' H;
    cbn [map fold_right cset_nth nth_error] in *; try discriminate.
  - inversion H; subst. lia.
  - specialize (IH i l l' H). lia.
Qed.

Definition cw_inv (s : cw_sh) (ls : list cw_lo) : Prop :=
  cw_holders ls = if cw_locked s then 1 else 0.

Lemma cw_in_cs_le ls i l : nth_error ls i = Some l -> cw_in_cs l <= cw_holders ls.
Proof.
  unfold cw_holders, list_sum. revert i; induction ls as [|x ls IH]; intros [|i] H;
    cbn [map fold_right nth_error] in *; try discriminate.
  - inversion H; subst. lia.
  - specialize (IH i H). lia.
Qed.

Lemma cw_step_inv fb s ls i l :
  cw_inv s ls -> nth_error ls i = Some l ->
  cw_inv (fst (cw_step false fb s l)) (cset_nth ls i (snd (cw_step false fb s l))).
Proof.
  intros Hinv Hi. unfold cw_inv in *.
  pose proof (cw_holders_cset ls i l (snd (cw_step false fb s l)) Hi) as E.
  pose proof (cw_in_cs_le ls i l Hi) as Le.
  destruct l as [todo pc res]. unfold cw_step in *; cbn [cw_pcv cw_todo cw_res] in *.
  destruct pc as [|ps|ps f|f]; unfold cw_in_cs in *; cbn [cw_pcv] in *.
  - destruct todo; cbn in *; lia.
  - destruct (cw_locked s) eqn:L; cbn in *; [rewrite L|]; lia.
  - destruct ps as [|p ps]; [cbn in *; lia|]. destruct fb; cbn in *; lia.
  - destruct (cw_locked s) eqn:L; cbn in *; lia.
Qed.

Lemma cw_inv_run : forall sched s ls, cw_inv s ls ->
  cw_inv (fst (cw_run false sched (s, ls))) (snd (cw_run false sched (s, ls))).
Proof.
  induction sched as [|[i fb] sched IH]; intros s ls H; [exact H|].
  cbn [cw_run fold_left cw_sys_step fst snd]. destruct (nth_error ls i) as [l|] eqn:E; [|apply IH, H].
  pose proof (cw_step_inv fb s ls i l H E) as S. destruct (cw_step false fb s l) as [s' l']. apply IH, S.
Qed.

Lemma cw_inv_start wss : cw_inv cw_sh0 (map cw_start wss).
Proof.
  unfold cw_inv; cbn [cw_sh0 cw_locked]. induction wss as [|w wss IH]; [reflexivity|].
  cbn [map]. change (cw_holders (cw_start w :: map cw_start wss)) with (cw_in_cs (cw_start w) + cw_holders (map cw_start wss)).
  rewrite IH. reflexivity.
Qed.

(* for EVERY interleaving and EVERY outcome of every Output call: the mutex is held exactly when
   one goroutine is between its Lock and its deferred Unlock; in particular it is free whenever no
   Write call is in progress *)
Theorem cw_lock_released : forall sched wss,
  let st := cw_run false sched (cw_sh0, map cw_start wss) in
  cw_holders (snd st) = (if cw_locked (fst st) then 1 else 0) /\
  ((forall l, In l (snd st) -> cw_pcv l = CWIdle) -> cw_locked (fst st) = false).
Proof.
  intros sched wss st. pose proof (cw_inv_run sched _ _ (cw_inv_start wss)) as H. fold st in H.
  split; [exact H|]. intro Hidle. unfold cw_inv in H.
  assert (Z : cw_holders (snd st) = 0).
  { clear H. induction (snd st) as [|x l IH]; [reflexivity|].
    change (cw_holders (x :: l)) with (cw_in_cs x + cw_holders l).
    rewrite IH by (intros; apply Hidle; right; auto).
    unfold cw_in_cs. rewrite (Hidle x) by (left; auto). reflexivity. }
  destruct (cw_locked (fst st)); [lia | reflexivity].
Qed.

(* work left in a goroutine, counted in steps *)
Definition cw_size (l : cw_lo) : nat :=
  list_sum (map (fun ps => 4 + length ps) (cw_todo l)) +
  match cw_pcv l with
  | CWIdle => 0 | CWLock ps => 3 + length ps | CWIn ps _ => 2 + length ps | CWUnlock _ => 1
  end.

Lemma cw_holder_exists : forall ls, 1 <= cw_holders ls -> exists i l, nth_error ls i = Some l /\ cw_in_cs l = 1.
Proof.
  induction ls as [|x ls IH]; intro H; [cbn in H; lia|].
  change (cw_holders (x :: ls)) with (cw_in_cs x + cw_holders ls) in H.
  destruct (cw_in_cs x) eqn:E.
  - destruct (IH H) as (i & l & Hi & Hl). exists (S i), l. auto.
  - exists 0, x. split; auto. unfold cw_in_cs in *. destruct (cw_pcv x); congruence.
Qed.

(* NO DEADLOCK: in every reachable state in which some goroutine still has work, some goroutine
   makes progress at its next step, whatever the outcome of its write; as cw_size strictly
   decreases, every Write call of every goroutine completes *)
Theorem cw_no_deadlock : forall sched wss,
  let st := cw_run false sched (cw_sh0, map cw_start wss) in
  (exists l, In l (snd st) /\ cw_busy l = true) ->
  exists i l, nth_error (snd st) i = Some l /\
    forall fb, cw_size (snd (cw_step false fb (fst st) l)) < cw_size l.
Proof.
  intros sched wss st (l0 & Hin & Hbusy).
  pose proof (cw_inv_run sched _ _ (cw_inv_start wss)) as H. fold st in H. unfold cw_inv in H.
  assert (Prog : forall l, (cw_in_cs l = 1 \/ (cw_locked (fst st) = false /\ cw_busy l = true)) ->
                 forall fb, cw_size (snd (cw_step false fb (fst st) l)) < cw_size l).
  { intros [todo pc res] Hc fb. unfold cw_step, cw_size, cw_in_cs, cw_busy, list_sum in *; cbn [cw_pcv cw_todo cw_res] in *.
    destruct pc as [|ps|ps f|f].
    - destruct Hc as [Hc|[_ Hc]]; [discriminate|]. destruct todo; [discriminate|].
      cbn [snd cw_todo cw_pcv map fold_right length]. lia.
    - destruct Hc as [Hc|[L _]]; [discriminate|]. rewrite L. cbn [snd cw_todo cw_pcv map fold_right length]. lia.
    - destruct ps as [|p ps]; [cbn [snd cw_todo cw_pcv map fold_right length]; lia|].
      destruct fb; cbn [snd cw_todo cw_pcv map fold_right length]; lia.
    - cbn [snd cw_todo cw_pcv map fold_right length]. lia. }
  destruct (cw_locked (fst st)) eqn:L.
  - destruct (cw_holder_exists (snd st)) as (i & l & Hi & Hl); [lia|].
    exists i, l. split; auto.
  - apply In_nth_error in Hin as [i Hi]. exists i, l0. split; auto.
Qed.

(* the variant with an explicit Unlock after the write loop and an early `return err`: after ONE
   failed write the mutex stays locked with no holder, and every later Write blocks forever *)
Definition cw_bad_sched := [(0, false); (0, false); (0, true); (1, false); (1, false); (1, true)].
Theorem cw_early_return_refuted :
  let st := cw_run true cw_bad_sched (cw_sh0, [cw_start [[[1%N]; [2%N]]]; cw_start [[[3%N]]]]) in
  cw_locked (fst st) = true /\ cw_holders (snd st) = 0 /\
  exists l, nth_error (snd st) 1 = Some l /\ cw_busy l = true /\
            forall fb, cw_step true fb (fst st) l = (fst st, l).
Proof.
  vm_compute. split; [reflexivity|]. split; [reflexivity|].
  eexists. split; [reflexivity|]. split; [reflexivity|]. intros []; reflexivity.
Qed.

(* ------------------------------------------------------------------------------------------ *)
(* 9. per-transaction settings on recycled objects                                              *)
(* ------------------------------------------------------------------------------------------ *)
Lemma st_merge_all_reset : forall w mask used old,
  Forall (fun b => b = true) mask -> st_merge mask used w old = w.
Proof.
  induction w as [|wv w IH]; intros mask used old H; [reflexivity|]. cbn [st_merge].
  assert (Hh : hd true mask = true) by (destruct H; auto). rewrite Hh. cbn [orb].
  f_equal. apply IH. destruct H; cbn; auto.
Qed.

(* when newTransaction re-copies EVERY setting on every call, nothing of the recycled object is left *)
Lemma st_init_reset mask : Forall (fun b => b = true) mask ->
  forall w i c c', st_init mask w i c = st_init mask w i c'.
Proof. intros H w i c c'. unfold st_init. rewrite !st_merge_all_reset by exact H. reflexivity. Qed.

Lemma st_eval_ro : forall w i a c, fst (st_eval w i a c) = w.
Proof. intros w i [ | | ] c; reflexivity. Qed.

(* ... hence: for every interleaving and every choice of pooled objects, the settings a transaction
   works with and the outcomes that depend on them are those of the transaction run alone *)
Theorem st_outcome_schedule_independent : forall mask, Forall (fun b => b = true) mask ->
  forall sched s ls i li,
  gm_inv s ls -> nth_error ls i = Some li ->
  exists li', nth_error (snd (gm_run (st_init mask) st_eval st_render sched (s, ls))) i = Some li' /\
    gm_obs (fst (gm_run (st_init mask) st_eval st_render sched (s, ls))) li' =
    gm_obs (fst (gm_solo (st_init mask) st_eval st_render (gm_count i sched) s li))
           (snd (gm_solo (st_init mask) st_eval st_render (gm_count i sched) s li)).
Proof.
  intros mask H. exact (gm_outcome_schedule_independent _ _ _ _ _ (st_init mask) st_eval st_render st_eval_ro (st_init_reset mask H)).
Qed.

(* a setting that is only copied when the object is brand new (mask false): transaction 0 lowers it by
   ctl and closes; transaction 1, which has no ctl, draws the same object from the pool and its
   outcome (a body of 200 bytes against the limit) differs from its outcome alone *)
Definition st_leak_state : gm_sh (list nat) st_cont (list bool) * list (gm_lo unit st_act st_cont) :=
  (gm_sh0 [4096] st_brand_new, [st_tx [SSet 0 64]; st_tx [SObs 0 200]]).
Definition st_leak_sched := [(0,0);(0,0);(0,0);(0,0);(1,0);(1,0);(1,0);(1,0)].
Theorem st_first_use_only_refuted :
  gm_inv (fst st_leak_state) (snd st_leak_state) /\
  let st := gm_run (st_init [false]) st_eval st_render st_leak_sched st_leak_state in
  let alone := gm_solo (st_init [false]) st_eval st_render (gm_count 1 st_leak_sched) (fst st_leak_state) (st_tx [SObs 0 200]) in
  option_map (fun l => option_map st_out (l_out l)) (nth_error (snd st) 1) = Some (Some [false]) /\
  option_map st_out (l_out (snd alone)) = Some [true].
Proof.
  split.
  - apply gm_inv_start; cbn.
    + intros l [<-|[<-|[]]]; reflexivity.
    + constructor.
    + intros o [].
  - split; vm_compute; reflexivity.
Qed.

(* run alone, a transaction starts from the WAF-wide settings *)
Lemma st_alone_starts_from_waf w acts : fst (st_alone w acts) = w.
Proof.
  unfold st_alone; cbn [fst st_init st_vals]. apply st_merge_all_reset.
  induction w; cbn; constructor; auto.
Qed.
