package c17

import (
	"fmt"
	"math/rand"
	"sort"

	"github.com/corazawaf/coraza/v3/verifharness/vh"
)

// The generator builds base rule sets of 3-8 rules (some chained; tags, msgs; targets over ARGS,
// ARGS:key, ARGS:/regex/, ARGS_NAMES, REQUEST_HEADERS[:key|:/regex/], REQUEST_METHOD, counts; phases
// 1-2; sometimes SecMarker + skipAfter, sometimes SecDefaultAction), then ONE directive or the ctl
// counterpart carried by a trigger rule placed at a random position, then requests over a small
// alphabet so that rules fire often.

var (
	argNames = []string{"a", "b", "ab", "ba", "Ab", "c"}
	hdrNames = []string{"x-h1", "x-h2", "X-H1", "x-k"}
	values   = []string{"x", "xy", "yx", "xx", "x", "y", ""}
	tagPool  = []string{"t1", "t2", "t3"}
	msgPool  = []string{"m1", "m2"}
	lits     = []string{"x", "y", "xy"}
	rxArg    = []string{"^a", "b$", "a", "^ab$", "^c"}
	rxHdr    = []string{"^x-h", "1$", "h", "^x-k$"}
)

func pick(r *rand.Rand, l []string) string { return l[r.Intn(len(l))] }

func genKey(r *rand.Rand, v string) keyJ {
	switch v {
	case "REQUEST_METHOD":
		return keyJ{K: "none"}
	case "REQUEST_HEADERS":
		switch r.Intn(6) {
		case 0, 1, 2:
			return keyJ{K: "none"}
		case 3:
			return keyJ{K: "rx", V: pick(r, rxHdr)}
		}
		return keyJ{K: "str", V: pick(r, hdrNames)}
	}
	switch r.Intn(6) {
	case 0, 1, 2:
		return keyJ{K: "none"}
	case 3:
		return keyJ{K: "rx", V: pick(r, rxArg)}
	}
	return keyJ{K: "str", V: pick(r, argNames)}
}

func genVar(r *rand.Rand) string {
	switch r.Intn(10) {
	case 0, 1, 2, 3:
		return "ARGS"
	case 4, 5:
		return "ARGS_NAMES"
	case 6, 7, 8:
		return "REQUEST_HEADERS"
	}
	return "REQUEST_METHOD"
}

func genPos(r *rand.Rand) titemJ {
	v := genVar(r)
	t := titemJ{Var: v, Key: genKey(r, v)}
	if v != "REQUEST_METHOD" && r.Intn(8) == 0 {
		t.Cnt = true
	}
	return t
}

func genNeg(r *rand.Rand, v string) titemJ {
	k := genKey(r, v)
	if k.K == "none" && r.Intn(4) != 0 {
		if v == "REQUEST_HEADERS" {
			k = keyJ{K: "str", V: pick(r, hdrNames)}
		} else if v != "REQUEST_METHOD" {
			k = keyJ{K: "str", V: pick(r, argNames)}
		}
	}
	return titemJ{Neg: true, Var: v, Key: k}
}

func genTargets(r *rand.Rand) []titemJ {
	n := 1 + r.Intn(3)
	var ts []titemJ
	for i := 0; i < n; i++ {
		if i > 0 && r.Intn(5) == 0 {
			ts = append(ts, genNeg(r, ts[r.Intn(len(ts))].Var))
			continue
		}
		ts = append(ts, genPos(r))
	}
	return ts
}

func genOp(r *rand.Rand, ts []titemJ) opJ {
	for _, t := range ts {
		if t.Cnt {
			return opJ{Neg: r.Intn(2) == 0, K: "streq", Lit: fmt.Sprint(r.Intn(3))}
		}
	}
	switch r.Intn(20) {
	case 0, 1:
		return opJ{K: "always"}
	case 2:
		return opJ{K: "streq", Lit: pick(r, values[:5])}
	case 3, 4:
		return opJ{Neg: true, K: "contains", Lit: pick(r, lits)}
	case 5, 6:
		return opJ{K: "contains", Lit: pick(r, lits)}
	}
	return opJ{K: "contains", Lit: "x"}
}

func genLink(r *rand.Rand) linkJ {
	ts := genTargets(r)
	return linkJ{Targets: ts, Op: genOp(r, ts)}
}

func genDisr(r *rand.Rand) []actJ {
	switch r.Intn(24) {
	case 0, 1:
		return []actJ{{A: "disr", V: "deny"}}
	case 2:
		return []actJ{{A: "disr", V: "deny"}, {A: "status", N: 500 + r.Intn(4)}}
	case 3:
		return []actJ{{A: "status", N: 410}, {A: "disr", V: "drop"}}
	case 4, 5:
		return nil // phase default / none
	case 6, 7:
		return []actJ{{A: "disr", V: "block"}}
	}
	return []actJ{{A: "disr", V: "pass"}}
}

type baseSet struct {
	dflt    []dfltJ
	src     []itemJ
	ids     []int
	markers []string
	hot     []int // ids inside / at the edge of / just after a skip:N or skipAfter window
	skipPh  int   // phase of the skip:N rule (0 = none)
}

func genBase(r *rand.Rand, wantMarkers bool) baseSet {
	n := 3 + r.Intn(6)
	perm := r.Perm(14)
	ids := make([]int, n)
	for i := range ids {
		ids[i] = perm[i] + 1
	}
	if r.Intn(3) != 0 {
		sort.Ints(ids)
	}
	var b baseSet
	b.ids = ids
	if r.Intn(10) == 0 {
		b.dflt = append(b.dflt, dfltJ{Phase: 1 + r.Intn(2), Disr: pick(r, []string{"deny", "pass"})})
	}
	for _, id := range ids {
		it := itemJ{ID: id, Phase: 1 + r.Intn(2)}
		nl := 1
		if r.Intn(5) == 0 {
			nl = 2 + r.Intn(2)
		}
		for j := 0; j < nl; j++ {
			l := genLink(r)
			if j == 0 {
				for _, t := range tagPool {
					if r.Intn(3) == 0 {
						l.Acts = append(l.Acts, actJ{A: "tag", V: t})
					}
				}
				if r.Intn(2) == 0 {
					l.Acts = append(l.Acts, actJ{A: "msg", V: pick(r, msgPool)})
				}
				l.Acts = append(l.Acts, genDisr(r)...)
				switch r.Intn(25) {
				case 0, 1, 2, 3, 4:
					l.Acts = append(l.Acts, actJ{A: "nop"})
				case 5:
					// a second disruptive action (both stay in the rule's action list), a second msg (last wins)
					l.Acts = append(l.Acts, actJ{A: "disr", V: pick(r, []string{"pass", "deny"})}, actJ{A: "msg", V: pick(r, msgPool)})
				case 6:
					l.Acts = append(l.Acts, actJ{A: "status", N: 400 + r.Intn(3)})
				}
			} else if r.Intn(3) == 0 {
				l.Acts = append(l.Acts, actJ{A: "tag", V: pick(r, tagPool)})
			}
			it.Links = append(it.Links, l)
		}
		b.src = append(b.src, it)
	}
	if wantMarkers {
		// one or two markers and a skipAfter on a rule before the first marker
		m1 := "MK1"
		pos := 1 + r.Intn(len(b.src))
		b.src = append(b.src[:pos], append([]itemJ{{Marker: m1}}, b.src[pos:]...)...)
		b.markers = []string{m1}
		k := r.Intn(pos)
		h := &b.src[k].Links[0]
		h.Acts = append(h.Acts, actJ{A: "skipAfter", V: m1})
		// the skipping rule should fire often
		h.Targets, h.Op = []titemJ{{Var: "REQUEST_METHOD", Key: keyJ{K: "none"}}}, opJ{K: "always"}
		b.src[k].Links = b.src[k].Links[:1]
		if r.Intn(2) == 0 {
			pos2 := pos + 1 + r.Intn(len(b.src)-pos)
			b.src = append(b.src[:pos2], append([]itemJ{{Marker: "MK2"}}, b.src[pos2:]...)...)
			b.markers = append(b.markers, "MK2")
		}
	}
	if r.Intn(5) < 2 {
		// a skip:N rule (N = 1..3) that fires always; the rules inside, at the edge of and just after its
		// window are the ones the directive / ctl should hit (a removed rule must not count)
		k := r.Intn(len(b.src))
		for tries := 0; tries < 4 && (b.src[k].Marker != "" || k+1 >= len(b.src)); tries++ {
			k = r.Intn(len(b.src))
		}
		if b.src[k].Marker == "" && k+1 < len(b.src) {
			n := 1 + r.Intn(3)
			h := &b.src[k].Links[0]
			h.Targets, h.Op = []titemJ{{Var: "REQUEST_METHOD", Key: keyJ{K: "none"}}}, opJ{K: "always"}
			b.src[k].Links = b.src[k].Links[:1]
			for a := range h.Acts {
				if h.Acts[a].A == "disr" {
					h.Acts[a].V = "pass"
				}
			}
			h.Acts = append(h.Acts, actJ{A: "skip", N: n})
			b.skipPh = b.src[k].Phase
			// same phase for most of the following rules: skip counts rules of the running phase only
			for j := k + 1; j < len(b.src) && j <= k+n+2; j++ {
				if b.src[j].Marker == "" {
					if r.Intn(4) != 0 {
						b.src[j].Phase = b.src[k].Phase
					}
					b.hot = append(b.hot, b.src[j].ID)
				}
			}
		}
	}
	if wantMarkers {
		// rules between the skipAfter rule and its marker, and the one just after it
		seen := false
		for j := range b.src {
			if b.src[j].Marker != "" {
				if j+1 < len(b.src) && b.src[j+1].Marker == "" {
					b.hot = append(b.hot, b.src[j+1].ID)
				}
				break
			}
			for _, a := range b.src[j].Links[0].Acts {
				if a.A == "skipAfter" {
					seen = true
				}
			}
			if seen {
				b.hot = append(b.hot, b.src[j].ID)
			}
		}
	}
	return b
}

func (b baseSet) someID(r *rand.Rand) int {
	if r.Intn(12) == 0 {
		return 15 + r.Intn(4) // unknown id
	}
	if len(b.hot) > 0 && r.Intn(2) == 0 {
		return b.hot[r.Intn(len(b.hot))]
	}
	return b.ids[r.Intn(len(b.ids))]
}

func (b baseSet) genSpecs(r *rand.Rand, zero bool) ([]specJ, string) {
	rng := func() specJ {
		a, c := b.someID(r), b.someID(r)
		if a > c && r.Intn(25) != 0 {
			a, c = c, a
		}
		if zero {
			a = 0
		}
		return specJ{Range: true, A: a, B: c}
	}
	switch r.Intn(5) {
	case 0:
		if zero {
			return []specJ{{A: 0}}, "single"
		}
		return []specJ{{A: b.someID(r)}}, "single"
	case 1:
		n := 2 + r.Intn(2)
		var ss []specJ
		for i := 0; i < n; i++ {
			ss = append(ss, specJ{A: b.someID(r)})
		}
		if zero {
			ss[r.Intn(n)] = specJ{A: 0}
		}
		return ss, "several"
	case 2:
		return []specJ{rng()}, "range"
	default:
		ss := []specJ{{A: b.someID(r)}, rng()}
		if r.Intn(2) == 0 {
			ss = append(ss, specJ{A: b.someID(r)})
		}
		if r.Intn(2) == 0 {
			ss[0], ss[1] = ss[1], ss[0]
		}
		return ss, "mixed"
	}
}

func genUpdItems(r *rand.Rand) ([]titemJ, string) {
	switch r.Intn(4) {
	case 0:
		return []titemJ{genPos(r)}, "add"
	case 1:
		return []titemJ{genNeg(r, genVar(r))}, "excl"
	case 2:
		p := genPos(r)
		return []titemJ{p, genNeg(r, p.Var)}, "add+excl"
	}
	return []titemJ{genNeg(r, "ARGS"), genPos(r)}, "excl+add"
}

func genUpdActs(r *rand.Rand, b baseSet) ([]actJ, string) {
	switch r.Intn(14) {
	case 0, 1, 2, 3:
		return []actJ{{A: "disr", V: "deny"}}, "deny"
	case 4, 5:
		return []actJ{{A: "disr", V: "deny"}, {A: "status", N: 500 + r.Intn(4)}}, "deny+status"
	case 6:
		return []actJ{{A: "disr", V: "pass"}}, "pass"
	case 7:
		return []actJ{{A: "status", N: 418}}, "status"
	case 8:
		return []actJ{{A: "tag", V: pick(r, tagPool)}, {A: "nop"}}, "tag"
	case 9, 10:
		return []actJ{{A: "disr", V: "drop"}, {A: "msg", V: pick(r, msgPool)}}, "drop+msg"
	case 11, 12:
		if len(b.markers) > 0 {
			return []actJ{{A: "skipAfter", V: b.markers[len(b.markers)-1]}}, "skipAfter"
		}
		return []actJ{{A: "nop"}}, "nolog"
	}
	return []actJ{{A: "disr", V: "block"}}, "block"
}

func genReqs(r *rand.Rand, n int, trigger []string) []reqJ {
	var out []reqJ
	for i := 0; i < n; i++ {
		rq := reqJ{Method: pick(r, []string{"GET", "POST", "xy"})}
		na := 2 + r.Intn(4)
		if r.Intn(10) == 0 {
			na = 0
		}
		for j := 0; j < na; j++ {
			rq.Args = append(rq.Args, [2]string{pick(r, argNames), pick(r, values)})
		}
		nh := 2 + r.Intn(3)
		if r.Intn(10) == 0 {
			nh = 0
		}
		for j := 0; j < nh; j++ {
			rq.Headers = append(rq.Headers, [2]string{pick(r, hdrNames), pick(r, values)})
		}
		for _, t := range trigger {
			if r.Intn(4) != 0 {
				rq.Headers = append(rq.Headers, [2]string{t, "1"})
			}
		}
		out = append(out, rq)
	}
	return out
}

func genCtl(r *rand.Rand, b baseSet, zero bool) (*ctlJ, string) {
	spec := func() *specJ {
		ss, _ := b.genSpecs(r, zero)
		s := ss[0]
		return &s
	}
	tgt := func(c *ctlJ) {
		v := genVar(r)
		if r.Intn(4) != 0 {
			// aim at a variable some rule really uses (chained rules first: their members are looked up
			// under the parent id), and for the by-id form at that very rule
			it := b.src[r.Intn(len(b.src))]
			for _, cand := range b.src {
				if len(cand.Links) > 1 && r.Intn(2) == 0 {
					it = cand
				}
			}
			if it.Marker == "" {
				l := it.Links[r.Intn(len(it.Links))]
				if len(it.Links) > 1 && r.Intn(3) != 0 {
					l = it.Links[1+r.Intn(len(it.Links)-1)]
				}
				pos := []titemJ{}
				for _, t := range l.Targets {
					if !t.Neg {
						pos = append(pos, t)
					}
				}
				if len(pos) > 0 {
					v = pos[r.Intn(len(pos))].Var
				}
				if c.Spec != nil && r.Intn(3) != 0 {
					c.Spec = &specJ{A: it.ID}
				}
			}
		}
		k := genKey(r, v)
		if k.K == "none" && r.Intn(2) != 0 && v != "REQUEST_METHOD" {
			k = genNeg(r, v).Key
		}
		if v == "REQUEST_HEADERS" && r.Intn(12) == 0 {
			// F61: an upper-case letter in a ctl regex key over a case-insensitive collection
			k = keyJ{K: "rx", V: pick(r, []string{"^X-H", "H1$", "X-K"})}
		}
		c.Var, c.Key = v, &k
	}
	switch r.Intn(8) {
	case 0, 1:
		return &ctlJ{Kind: "rmId", Spec: spec()}, "ctl-rmId"
	case 2:
		return &ctlJ{Kind: "rmTag", Val: pick(r, tagPool)}, "ctl-rmTag"
	case 3:
		return &ctlJ{Kind: "rmMsg", Val: pick(r, msgPool)}, "ctl-rmMsg"
	case 4, 5:
		c := &ctlJ{Kind: "rmTargetId", Spec: spec()}
		tgt(c)
		return c, "ctl-rmTargetId"
	case 6:
		c := &ctlJ{Kind: "rmTargetTag", Val: pick(r, tagPool)}
		tgt(c)
		return c, "ctl-rmTargetTag"
	}
	c := &ctlJ{Kind: "rmTargetMsg", Val: pick(r, msgPool)}
	tgt(c)
	return c, "ctl-rmTargetMsg"
}

func generate(cfg vh.Config) []*caseJ {
	r := vh.Rng(cfg.Seed, "c17")
	n := cfg.Pick(700, 9000)
	nreq := 4
	var out []*caseJ
	for i := 0; i < n; i++ {
		wantMarkers := r.Intn(5) == 0
		b := genBase(r, wantMarkers)
		zero := wantMarkers && r.Intn(3) == 0
		c := &caseJ{Dflt: b.dflt, Src: b.src}
		trigger := []string{}
		k := r.Intn(20)
		if k < 14 && r.Intn(3) != 0 {
			soften(r, c)
		}
		switch {
		case k < 4:
			ss, sh := b.genSpecs(r, zero)
			c.Dir = &dirJ{Kind: "rmId", Specs: ss, Quoted: r.Intn(4) == 0}
			c.Shape = "rmId/" + sh
		case k < 5:
			c.Dir = &dirJ{Kind: "rmTag", Val: pick(r, tagPool), Quoted: r.Intn(3) == 0}
			c.Shape = "rmTag/"
		case k < 6:
			c.Dir = &dirJ{Kind: "rmMsg", Val: pick(r, msgPool)}
			c.Shape = "rmMsg/"
		case k < 10:
			ss, sh := b.genSpecs(r, zero)
			items, ish := genUpdItems(r)
			c.Dir = &dirJ{Kind: "updTargetId", Specs: ss, Items: items}
			c.Shape = "updTargetId/" + sh + "/" + ish
		case k < 11:
			items, ish := genUpdItems(r)
			c.Dir = &dirJ{Kind: "updTargetTag", Val: pick(r, tagPool), Items: items, Quoted: r.Intn(3) == 0}
			c.Shape = "updTargetTag/" + ish
		case k < 14:
			ss, sh := b.genSpecs(r, zero)
			acts, ash := genUpdActs(r, b)
			c.Dir = &dirJ{Kind: "updActionId", Specs: ss, Acts: acts}
			c.Shape = "updActionId/" + sh + "/" + ash
			if ash == "pass" || ash == "status" || ash == "drop+msg" || r.Intn(4) == 0 {
				// make the replaced action visible: the updated rules deny before the update
				for j := range c.Src {
					if c.Src[j].Marker != "" || !specsHave(ss, c.Src[j].ID) || r.Intn(4) == 0 {
						continue
					}
					h := &c.Src[j].Links[0]
					found := false
					for a := range h.Acts {
						if h.Acts[a].A == "disr" {
							h.Acts[a].V, found = "deny", true
						}
					}
					if !found {
						h.Acts = append(h.Acts, actJ{A: "disr", V: "deny"})
					}
				}
			}
		default:
			// run-time counterpart: a phase-1 (sometimes phase-2) trigger rule at a random position;
			// early denies would hide every later effect, most of them become pass here
			soften(r, c)
			if r.Intn(3) == 0 {
				if hdrs, sh := genMultiTarget(r, c); sh != "" {
					trigger = hdrs
					c.Shape = "ctl/" + sh
					break
				}
			}
			if r.Intn(5) == 0 {
				if hdrs, sh := genMultiRange(r, b, c); sh != "" {
					trigger = hdrs
					c.Shape = "ctl/" + sh
					break
				}
			}
			nt := 1
			if r.Intn(6) == 0 {
				nt = 2
			}
			shape := ""
			for t := 0; t < nt; t++ {
				hdr := []string{"x-ctl", "x-ctl2"}[t]
				trigger = append(trigger, hdr)
				ct, sh := genCtl(r, b, zero)
				window := false
				if t == 0 && b.skipPh != 0 && len(b.hot) > 0 && r.Intn(2) == 0 {
					// directed: remove (for this transaction) a rule inside / at the edge of the skip window,
					// from a trigger evaluated before the skip:N rule in the same phase
					id := b.hot[r.Intn(len(b.hot))]
					switch r.Intn(3) {
					case 0:
						ct = &ctlJ{Kind: "rmId", Spec: &specJ{A: id}}
					case 1:
						ct = &ctlJ{Kind: "rmId", Spec: &specJ{Range: true, A: id, B: id + r.Intn(2)}}
					default:
						ct = &ctlJ{Kind: "rmId", Spec: &specJ{A: id}}
						for _, it := range c.Src {
							if it.Marker == "" && it.ID == id {
								if tg := headTags(it); len(tg) > 0 {
									ct = &ctlJ{Kind: "rmTag", Val: tg[0]}
								}
							}
						}
					}
					sh, window = "ctl-"+ct.Kind+"(skip window)", true
				}
				shape += sh
				l := linkJ{Targets: []titemJ{{Var: "REQUEST_HEADERS", Key: keyJ{K: "str", V: hdr}}}, Op: opJ{K: "streq", Lit: "1"},
					Acts: []actJ{{A: "disr", V: "pass"}, {A: "ctl", Ctl: ct}}}
				if r.Intn(5) == 0 {
					ct2, sh2 := genCtl(r, b, false)
					l.Acts = append(l.Acts, actJ{A: "ctl", Ctl: ct2})
					shape += "+" + sh2
				}
				ph := 1
				if r.Intn(8) == 0 {
					ph = 2
				}
				if window {
					ph = b.skipPh
				}
				it := itemJ{ID: 90 + t, Phase: ph, Links: []linkJ{l}}
				if !window && r.Intn(8) == 0 {
					// the ctl sits on a chain starter / a chain member: model comparison only
					ch := genLink(r)
					if r.Intn(2) == 0 {
						it.Links[0].Acts = it.Links[0].Acts[:1]
						ch.Acts = append(ch.Acts, actJ{A: "ctl", Ctl: ct})
					}
					it.Links = append(it.Links, ch)
					shape += "(chain)"
				}
				pos := r.Intn(len(c.Src) + 1)
				if r.Intn(3) != 0 {
					pos = r.Intn(2)
				}
				if window {
					pos = 0
				}
				c.Src = append(c.Src[:pos], append([]itemJ{it}, c.Src[pos:]...)...)
			}
			c.Shape = "ctl/" + shape
		}
		c.Reqs = genReqs(r, nreq, trigger)
		out = append(out, c)
	}
	return out
}

// soften turns most early deny/drop actions into pass (an early interruption hides every later effect).
func soften(r *rand.Rand, c *caseJ) {
	for j := range c.Src {
		if c.Src[j].Marker != "" || r.Intn(5) == 0 {
			continue
		}
		h := &c.Src[j].Links[0]
		for a := range h.Acts {
			if h.Acts[a].A == "disr" && (h.Acts[a].V == "deny" || h.Acts[a].V == "drop") && j+2 < len(c.Src) {
				h.Acts[a].V = "pass"
			}
		}
	}
	if len(c.Dflt) > 0 && r.Intn(3) != 0 {
		c.Dflt = nil
	}
}

// genMultiTarget: two or three run-time target exclusions on the SAME rule and the SAME collection within one
// transaction (regex+regex, regex+string, bare+regex, string+string with the same / another key; by id, by
// tag, by msg mixed), carried by one trigger rule or spread over two. The rule written with ALL the negative
// targets is the reference.
func genMultiTarget(r *rand.Rand, c *caseJ) ([]string, string) {
	var cand []int
	for j, it := range c.Src {
		if it.Marker == "" {
			cand = append(cand, j)
		}
	}
	if len(cand) == 0 {
		return nil, ""
	}
	j := cand[r.Intn(len(cand))]
	it := &c.Src[j]
	h := &it.Links[0]
	// the target rule inspects a whole collection (so every exclusion is visible) and fires on x
	v := pick(r, []string{"ARGS", "ARGS", "ARGS_NAMES", "REQUEST_HEADERS"})
	h.Targets = append([]titemJ{{Var: v, Key: keyJ{K: "none"}}}, h.Targets...)
	for _, t := range h.Targets {
		if t.Cnt {
			h.Targets = h.Targets[:1]
			break
		}
	}
	h.Op = opJ{K: "contains", Lit: pick(r, []string{"x", "a", "b"})}
	if v == "REQUEST_HEADERS" {
		h.Op.Lit = pick(r, []string{"x", "y"})
	}
	it.Phase = 2
	tag, msg := "", ""
	for _, a := range h.Acts {
		if a.A == "tag" && tag == "" {
			tag = a.V
		}
		if a.A == "msg" {
			msg = a.V
		}
	}
	if tag == "" {
		tag = "t3"
		h.Acts = append([]actJ{{A: "tag", V: tag}}, h.Acts...)
	}
	rxPool, strPool := rxArg, argNames
	if v == "REQUEST_HEADERS" {
		rxPool, strPool = rxHdr, hdrNames
	}
	key := func(kind int) keyJ {
		switch kind {
		case 0:
			return keyJ{K: "rx", V: pick(r, rxPool)}
		case 1:
			return keyJ{K: "str", V: pick(r, strPool)}
		}
		return keyJ{K: "none"}
	}
	n := 2 + r.Intn(2)
	first := r.Intn(3)
	if r.Intn(3) != 0 {
		first = r.Intn(2) * 2 // regex or bare collection first
	}
	var ctls []*ctlJ
	shape := "multi-target"
	for i := 0; i < n; i++ {
		kind := first
		if i > 0 {
			kind = r.Intn(5) / 2 // regex, regex, string, string, bare
		}
		k := key(kind)
		ct := &ctlJ{Var: v, Key: &k}
		switch sel := r.Intn(4); {
		case sel == 0:
			ct.Kind, ct.Val = "rmTargetTag", tag
		case sel == 1 && msg != "":
			ct.Kind, ct.Val = "rmTargetMsg", msg
		case sel == 2:
			ct.Kind, ct.Spec = "rmTargetId", &specJ{Range: true, A: it.ID, B: it.ID + r.Intn(3)}
		default:
			ct.Kind, ct.Spec = "rmTargetId", &specJ{A: it.ID}
		}
		ctls = append(ctls, ct)
		shape += "/" + k.K
	}
	hdrs := []string{"x-ctl"}
	mk := func(id int, hdr string, cs []*ctlJ) itemJ {
		l := linkJ{Targets: []titemJ{{Var: "REQUEST_HEADERS", Key: keyJ{K: "str", V: hdr}}}, Op: opJ{K: "streq", Lit: "1"},
			Acts: []actJ{{A: "disr", V: "pass"}}}
		for _, ct := range cs {
			l.Acts = append(l.Acts, actJ{A: "ctl", Ctl: ct})
		}
		return itemJ{ID: id, Phase: 1, Links: []linkJ{l}}
	}
	var trig []itemJ
	if r.Intn(2) == 0 {
		trig = []itemJ{mk(90, "x-ctl", ctls)}
		shape += "(one rule)"
	} else {
		cut := 1 + r.Intn(len(ctls)-1)
		trig = []itemJ{mk(90, "x-ctl", ctls[:cut]), mk(91, "x-ctl2", ctls[cut:])}
		hdrs = append(hdrs, "x-ctl2")
		shape += "(two rules)"
	}
	for _, t := range trig {
		pos := r.Intn(2)
		if pos > len(c.Src) {
			pos = len(c.Src)
		}
		c.Src = append(c.Src[:pos], append([]itemJ{t}, c.Src[pos:]...)...)
	}
	return hdrs, shape
}

// genMultiRange: 3-6 ctl:ruleRemoveById entries (ranges, some single ids) executed in ONE transaction, in
// every order: descending, ascending, interleaved; disjoint blocks whose boundaries are rule ids, overlapping,
// nested and duplicated ranges. The removed set is the union of the entries whatever their order.
func genMultiRange(r *rand.Rand, b baseSet, c *caseJ) ([]string, string) {
	ids := append([]int{}, b.ids...)
	sort.Ints(ids)
	if len(ids) < 3 {
		return nil, ""
	}
	var specs []specJ
	shape := "multi-range"
	switch r.Intn(3) {
	case 0, 1:
		// consecutive blocks of the sorted rule ids, each block one range [first id, last id]
		m := 3 + r.Intn(3)
		if m > len(ids) {
			m = len(ids)
		}
		cuts := r.Perm(len(ids) - 1)[:m-1]
		sort.Ints(cuts)
		start := 0
		for i := 0; i <= len(cuts); i++ {
			end := len(ids) - 1
			if i < len(cuts) {
				end = cuts[i]
			}
			lo, hi := ids[start], ids[end]
			switch r.Intn(6) {
			case 0:
				lo-- // boundary just below the first id
			case 1:
				hi++ // boundary just above the last id (may touch the next block)
			case 2:
				hi-- // the last id of the block stays (when the block has several ids)
				if hi < lo {
					hi = lo
				}
			}
			if lo < 1 {
				lo = 1
			}
			specs = append(specs, specJ{Range: true, A: lo, B: hi})
			start = end + 1
		}
		if len(specs) > 3 && r.Intn(2) == 0 {
			k := r.Intn(len(specs))
			specs = append(specs[:k], specs[k+1:]...) // one block survives
		}
		shape += "/blocks"
	default:
		n := 3 + r.Intn(4)
		for i := 0; i < n; i++ {
			a, bb := ids[r.Intn(len(ids))], ids[r.Intn(len(ids))]
			if a > bb {
				a, bb = bb, a
			}
			specs = append(specs, specJ{Range: true, A: a, B: bb})
		}
		if r.Intn(2) == 0 {
			// nested: a range strictly inside another one
			o := specs[0]
			if o.B-o.A >= 2 {
				specs = append(specs, specJ{Range: true, A: o.A + 1, B: o.B - 1})
			}
		}
		shape += "/random"
	}
	if r.Intn(3) == 0 {
		specs = append(specs, specs[r.Intn(len(specs))]) // duplicate
		shape += "+dup"
	}
	if r.Intn(3) == 0 {
		specs[r.Intn(len(specs))] = specJ{A: ids[r.Intn(len(ids))]} // a single id among the ranges
		shape += "+single"
	}
	if len(specs) > 6 {
		specs = specs[:6]
	}
	switch r.Intn(4) {
	case 0, 1:
		sort.SliceStable(specs, func(i, j int) bool { return specs[i].A > specs[j].A })
		shape += "/descending"
	case 2:
		r.Shuffle(len(specs), func(i, j int) { specs[i], specs[j] = specs[j], specs[i] })
		shape += "/interleaved"
	default:
		sort.SliceStable(specs, func(i, j int) bool { return specs[i].A < specs[j].A })
		shape += "/ascending"
	}
	mk := func(id int, hdr string, ss []specJ) itemJ {
		l := linkJ{Targets: []titemJ{{Var: "REQUEST_HEADERS", Key: keyJ{K: "str", V: hdr}}}, Op: opJ{K: "streq", Lit: "1"},
			Acts: []actJ{{A: "disr", V: "pass"}}}
		for i := range ss {
			sp := ss[i]
			l.Acts = append(l.Acts, actJ{A: "ctl", Ctl: &ctlJ{Kind: "rmId", Spec: &sp}})
		}
		return itemJ{ID: 90, Phase: 1, Links: []linkJ{l}}
	}
	hdrs := []string{"x-ctl"}
	var trig []itemJ
	if r.Intn(3) != 0 {
		trig = []itemJ{mk(90, "x-ctl", specs)}
		shape += "(one rule)"
	} else {
		cut := 1 + r.Intn(len(specs)-1)
		t2 := mk(91, "x-ctl2", specs[cut:])
		t2.ID = 91
		trig = []itemJ{t2, mk(90, "x-ctl", specs[:cut])}
		hdrs = append(hdrs, "x-ctl2")
		shape += "(two rules)"
	}
	// the triggers go first (in execution order 90 then 91) so that every later rule is concerned
	for _, t := range trig {
		c.Src = append([]itemJ{t}, c.Src...)
	}
	return hdrs, shape
}
