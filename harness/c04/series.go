package c04

// The "series" stream: fresh versus long-lived WAF with STATE-CARRYING actions.
//
// A configuration contains rules with allow / allow:request / allow:phase, skip:N,
// skipAfter:MARKER (present / absent), ctl:ruleEngine, ctl:ruleRemoveById (id, range),
// ctl:ruleRemoveByTag, ctl:ruleRemoveTargetById, ctl:requestBodyAccess,
// ctl:forceRequestBodyVariable, setvar on TX, capture, deny — each triggered by the value of the
// request header X-Trigger — next to observation rules in phases 1-5 (per-match counters, a deny
// threshold).  ONE long-lived WAF serves a sequence of requests in which triggering requests
// ALTERNATE with requests that trigger nothing (or something else); every transaction is closed,
// so the next one reuses the pooled object.  The canonical outcome of every run of the series
// (interruption, fired rules with their matched data, the whole TX collection incl. TX.0-9,
// HIGHEST_SEVERITY) must equal the outcome of the same request on a FRESH WAF.  The
// configurations are deterministic by construction (captures only on single-valued targets, no
// MATCHED_VAR reads after multi-valued rules).  This stream is an implementation-side oracle
// only: flow actions and ctl are outside Determinism.v, no Coq term is emitted.

import (
	"bytes"
	"encoding/json"
	"fmt"
	"math/rand"
	"mime/multipart"
	"os"
	"path/filepath"
	"sort"
	"strings"

	"github.com/corazawaf/coraza/v3/internal/corazawaf"
	"github.com/corazawaf/coraza/v3/verifharness/vh"
)

type sreqJ struct {
	Trigger string      `json:"trigger,omitempty"`
	Get     [][2]string `json:"get,omitempty"`
	Post    [][2]string `json:"post,omitempty"`
	Headers [][2]string `json:"headers,omitempty"`
	NoCT    bool        `json:"no_content_type,omitempty"`
	// multipart upload: form fields come from Post, plus these file parts (name, filename, content)
	Files         [][3]string `json:"files,omitempty"`
	DeleteUploads bool        `json:"delete_uploads_before_close,omitempty"` // the stored temp files vanish before Close (a tmp cleaner)
	DeleteSpill   bool        `json:"delete_spill_before_close,omitempty"`   // the body buffer's spill file vanishes before Close // body sent without Content-Type (only ctl:forceRequestBodyVariable parses it)
}

type seriesJSON struct {
	Kind       string   `json:"kind"` // "series"
	Directives string   `json:"directives"`
	Requests   []sreqJ  `json:"requests"`
	Triggers   []string `json:"triggers,omitempty"`
	Reps       int      `json:"reps,omitempty"` // runs on the long-lived WAF
	Observed   any      `json:"observed,omitempty"`
	Note       string   `json:"note,omitempty"`
}

type soutcome struct {
	IntrRule   int         `json:"intr_rule"`
	IntrStatus int         `json:"intr_status"`
	IntrAction string      `json:"intr_action"`
	Fired      []firedT    `json:"fired"`
	TX         [][2]string `json:"tx"`
	HS         string      `json:"highest_severity"`
}

func (o soutcome) canon() string {
	b, _ := json.Marshal(o)
	return string(b)
}

type sdirs struct{ upload, tmp string }

func rmGlob(pattern string) int {
	ms, _ := filepath.Glob(pattern)
	for _, m := range ms {
		_ = os.Remove(m)
	}
	return len(ms)
}

func multipartBody(rq sreqJ) (string, []byte) {
	var buf bytes.Buffer
	w := multipart.NewWriter(&buf)
	_ = w.SetBoundary("c04boundary7MA4YWxkTrZu0gW")
	for _, p := range rq.Post {
		_ = w.WriteField(p[0], p[1])
	}
	for _, f := range rq.Files {
		fw, err := w.CreateFormFile(f[0], f[1])
		if err == nil {
			_, _ = fw.Write([]byte(f[2]))
		}
	}
	_ = w.Close()
	return w.FormDataContentType(), buf.Bytes()
}

func runSeriesTx(waf *corazawaf.WAF, rq sreqJ, dirs sdirs, st *sstats) soutcome {
	tx := waf.NewTransaction()
	defer func() {
		// what a tmp cleaner / an operator would do between request processing and Close
		if rq.DeleteUploads {
			st.uploadsDeleted += rmGlob(filepath.Join(dirs.upload, "crzmp*"))
		}
		if rq.DeleteSpill {
			st.spillsDeleted += rmGlob(filepath.Join(dirs.tmp, "body*"))
		}
		if err := tx.Close(); err != nil {
			st.closeErrors++
		}
	}()
	method := "GET"
	if len(rq.Post) > 0 || len(rq.Files) > 0 {
		method = "POST"
	}
	uri := "/p"
	if len(rq.Get) > 0 {
		uri += "?" + encodePairs(rq.Get)
	}
	tx.ProcessConnection("10.0.0.1", 1234, "10.0.0.2", 80)
	tx.ProcessURI(uri, method, "HTTP/1.1")
	tx.AddRequestHeader("Host", "example.test")
	if rq.Trigger != "" {
		tx.AddRequestHeader("X-Trigger", rq.Trigger)
	}
	for _, h := range rq.Headers {
		tx.AddRequestHeader(h[0], h[1])
	}
	var body []byte
	if len(rq.Files) > 0 {
		ct, b := multipartBody(rq)
		tx.AddRequestHeader("Content-Type", ct)
		body = b
	} else if len(rq.Post) > 0 {
		if !rq.NoCT {
			tx.AddRequestHeader("Content-Type", "application/x-www-form-urlencoded")
		}
		body = []byte(encodePairs(rq.Post))
	}
	tx.ProcessRequestHeaders()
	if len(body) > 0 {
		_, _, _ = tx.WriteRequestBody(body)
	}
	_, _ = tx.ProcessRequestBody()
	tx.AddResponseHeader("Content-Type", "text/html")
	tx.ProcessResponseHeaders(200, "HTTP/1.1")
	_, _ = tx.ProcessResponseBody()
	tx.ProcessLogging()

	var o soutcome
	if it := tx.Interruption(); it != nil {
		o.IntrRule, o.IntrStatus, o.IntrAction = it.RuleID, it.Status, it.Action
	}
	o.Fired = []firedT{}
	for _, mr := range tx.MatchedRules() {
		f := firedT{ID: mr.Rule().ID()}
		for _, md := range mr.MatchedDatas() {
			f.Matches = append(f.Matches, matchT{md.Variable().Name(), md.Key(), md.Value()})
		}
		sort.Slice(f.Matches, func(i, j int) bool {
			a, b := f.Matches[i], f.Matches[j]
			if a.Var != b.Var {
				return a.Var < b.Var
			}
			if a.Key != b.Key {
				return a.Key < b.Key
			}
			return a.Value < b.Value
		})
		o.Fired = append(o.Fired, f)
	}
	o.TX = [][2]string{}
	for _, md := range tx.Variables().TX().FindAll() {
		o.TX = append(o.TX, [2]string{md.Key(), md.Value()})
	}
	sort.Slice(o.TX, func(i, j int) bool {
		if o.TX[i][0] != o.TX[j][0] {
			return o.TX[i][0] < o.TX[j][0]
		}
		return o.TX[i][1] < o.TX[j][1]
	})
	o.HS = tx.Variables().HighestSeverity().Get()
	return o
}

func (rn *runner) runSeries(sj seriesJSON) {
	reps := sj.Reps
	if reps <= 0 {
		reps = rn.cfg.Pick(24, 120)
	}
	if reps < 2*len(sj.Requests)+1 {
		reps = 2*len(sj.Requests) + 1
	}
	base, derr := os.MkdirTemp("", "c04series")
	if derr != nil {
		return
	}
	defer os.RemoveAll(base)
	dirs := sdirs{upload: filepath.Join(base, "upload"), tmp: filepath.Join(base, "tmp")}
	_ = os.MkdirAll(dirs.upload, 0o755)
	_ = os.MkdirAll(dirs.tmp, 0o755)
	text := strings.ReplaceAll(sj.Directives, "@UPLOADDIR@", dirs.upload)
	mk := func() (*corazawaf.WAF, error) {
		w, err := newWAF(text)
		if err == nil {
			w.TmpDir = dirs.tmp
		}
		return w, err
	}
	st := &rn.sstats
	long, err := mk()
	if err != nil {
		rn.res.InputDistribution["series_rejected_by_seclang"]++
		if len(rn.res.Notes) < 3 {
			rn.res.Notes = append(rn.res.Notes, "seclang rejected a series configuration: "+err.Error()+" :: "+sj.Directives)
		}
		return
	}
	rn.res.InputDistribution["series"]++
	for _, t := range sj.Triggers {
		rn.res.InputDistribution["series_trigger_"+t]++
	}
	// the reference: every distinct request on its own fresh WAF (twice: the reference itself must be stable)
	ref := make([]soutcome, len(sj.Requests))
	for i, rq := range sj.Requests {
		f1, err1 := mk()
		f2, err2 := mk()
		if err1 != nil || err2 != nil {
			return
		}
		ref[i] = runSeriesTx(f1, rq, dirs, st)
		again := runSeriesTx(f2, rq, dirs, st)
		rn.oracleEvals += 2
		if ref[i].canon() != again.canon() {
			c := sj
			c.Observed = map[string]any{"request": i, "fresh_1": ref[i], "fresh_2": again}
			rn.res.OracleFailures = append(rn.res.OracleFailures, vh.OracleFailure{"c04-outcome-varies-between-runs", "two fresh WAFs give different outcomes for the same request of a series configuration", c})
			return
		}
	}
	triggered := 0
	for i := 0; i < reps; i++ {
		k := i % len(sj.Requests)
		got := runSeriesTx(long, sj.Requests[k], dirs, st)
		rn.oracleEvals++
		if len(got.Fired) > 0 {
			triggered++
		}
		if got.canon() != ref[k].canon() {
			c := sj
			c.Observed = map[string]any{"run": i, "request": k, "long_lived": got, "fresh": ref[k]}
			prev := "none"
			if i > 0 {
				prev = sj.Requests[(i-1)%len(sj.Requests)].Trigger
				if prev == "" {
					prev = "(no trigger)"
				}
			}
			rn.res.OracleFailures = append(rn.res.OracleFailures, vh.OracleFailure{"c04-long-lived-differs-from-fresh", fmt.Sprintf("run %d of the series on one long-lived WAF (request %d, trigger %q, previous transaction's trigger %s) differs from the same request on a fresh WAF", i, k, sj.Requests[k].Trigger, prev), c})
			return
		}
	}
	if triggered > 0 {
		rn.seriesNontrivial++
	}
}

// ---------------------------------------------------------------------------------------
// generator
// ---------------------------------------------------------------------------------------

type trig struct {
	name  string
	phase int
	op    string // operator text on REQUEST_HEADERS:x-trigger
	acts  string
}

func trigPool(r *rand.Rand) []trig {
	return []trig{
		{"allow", 1, "@streq allow", "allow"},
		{"allow2", 2, "@streq allow2", "allow"},
		{"allowreq", 1, "@streq allowreq", "allow:request"},
		{"allowphase", 1, "@streq allowphase", "allow:phase"},
		{"allowphase2", 2, "@streq allowphase2", "allow:phase"},
		{"skip", 1, "@streq skip", fmt.Sprintf("pass,skip:%d", 1+r.Intn(3))},
		{"skip2", 2, "@streq skip2", fmt.Sprintf("pass,skip:%d", 1+r.Intn(2))},
		{"skipafter", 1, "@streq skipafter", "pass,skipAfter:END1"},
		{"skipafter2", 2, "@streq skipafter2", "pass,skipAfter:END2"},
		{"skipabsent", 1, "@streq skipabsent", "pass,skipAfter:NOWHERE"},
		{"engineoff", 1, "@streq engineoff", "pass,ctl:ruleEngine=Off"},
		{"detect", 1, "@streq detect", "pass,ctl:ruleEngine=DetectionOnly"},
		{"rmid", 1, "@streq rmid", "pass,ctl:ruleRemoveById=203"},
		{"rmrange", 1, "@streq rmrange", "pass,ctl:ruleRemoveById=201-204"},
		{"rmtag", 1, "@streq rmtag", "pass,ctl:ruleRemoveByTag=t1"},
		{"rmtarget", 1, "@streq rmtarget", "pass,ctl:ruleRemoveTargetById=203;ARGS:a"},
		{"rmtarget2", 1, "@streq rmtarget2", "pass,ctl:ruleRemoveTargetById=201;ARGS_GET:a,ctl:ruleRemoveTargetById=204;ARGS_POST:b"},
		{"nobody", 1, "@streq nobody", "pass,ctl:requestBodyAccess=Off"},
		{"forcebody", 1, "@streq forcebody", "pass,ctl:forceRequestBodyVariable=On"},
		{"setvar", 1, "@streq setvar", "pass,setvar:tx.score=+7,setvar:tx.mark=hit"},
		{"capture", 1, "@rx ^(cap)(tu)(re)$", "pass,capture,setvar:tx.cap=%{TX.2}"},
		{"deny", 1, "@streq deny", "deny,status:406"},
		{"deny2", 2, "@streq deny2", "deny,status:401"},
		{"sev", 1, "@streq sev", "pass,severity:'1'"},
	}
}

func genSeries(r *rand.Rand) seriesJSON {
	pool := trigPool(r)
	r.Shuffle(len(pool), func(i, j int) { pool[i], pool[j] = pool[j], pool[i] })
	nt := 2 + r.Intn(4)
	trigs := pool[:nt]
	// the flow actions the seeded defects of this family live in are always represented
	if r.Intn(2) == 0 {
		must := []string{"allow", "allowreq", "allow2", "skipabsent", "rmtarget", "engineoff"}[r.Intn(6)]
		have := false
		for _, t := range trigs {
			if t.name == must {
				have = true
			}
		}
		if !have {
			for _, t := range pool {
				if t.name == must {
					trigs = append(trigs, t)
				}
			}
		}
	}
	thr := 4 + r.Intn(8)
	obs := map[int][]string{
		1: {
			`SecRule ARGS_GET "@rx attack" "id:201,phase:1,pass,tag:'t1',t:none,t:lowercase,setvar:tx.score=+3,setvar:tx.p1=+1"`,
			`SecRule REQUEST_HEADERS:x-trigger "@rx ." "id:202,phase:1,pass,setvar:tx.trig=+1"`,
			`SecRule REQUEST_METHOD "@rx ^(P)(OS)" "id:209,phase:1,pass,capture,setvar:tx.m=%{TX.1}"`,
			`SecRule REQUEST_COOKIES "@rx attack" "id:211,phase:1,pass,setvar:tx.ck=+1,setvar:tx.score=+1"`,
			`SecRule REQUEST_COOKIES_NAMES "@rx ." "id:212,phase:1,pass,setvar:tx.ckn=+1"`,
			`SecRule &REQUEST_HEADERS "@ge 0" "id:213,phase:1,pass,setvar:tx.nh=%{MATCHED_VAR}"`,
			`SecRule &ARGS_GET "@ge 0" "id:214,phase:1,pass,setvar:tx.nget=%{MATCHED_VAR}"`,
			`SecRule REQUEST_HEADERS_NAMES "@rx ^X-H" "id:215,phase:1,pass,setvar:tx.xh=+1"`,
		},
		2: {
			`SecRule ARGS "@contains one" "id:203,phase:2,pass,t:none,t:lowercase,t:trim,severity:'3',setvar:tx.score=+2,setvar:tx.p2=+1"`,
			`SecRule ARGS_POST "@rx ." "id:204,phase:2,pass,tag:'t1',setvar:tx.post=+1"`,
			fmt.Sprintf(`SecRule TX:score "@ge %d" "id:205,phase:2,deny,status:403,severity:'2'"`, thr),
			`SecRule ARGS:user "@streq attack" "id:210,phase:2,deny,status:403"`,
			`SecRule &ARGS "@ge 0" "id:216,phase:2,pass,setvar:tx.nargs=%{MATCHED_VAR}"`,
			`SecRule REQBODY_ERROR|INBOUND_DATA_ERROR "@eq 1" "id:217,phase:2,pass,setvar:tx.berr=+1"`,
			`SecRule FILES "@rx ." "id:218,phase:2,pass,setvar:tx.files=+1"`,
			`SecRule &FILES_TMPNAMES "@ge 0" "id:219,phase:2,pass,setvar:tx.nfiles=%{MATCHED_VAR}"`,
			`SecRule ARGS:token "@rx ^secret" "id:220,phase:2,pass,setvar:tx.tok=+1,setvar:tx.score=+2"`,
			`SecRule &REQUEST_COOKIES "@ge 0" "id:221,phase:2,pass,setvar:tx.ncookies=%{MATCHED_VAR}"`,
			`SecRule REQUEST_BODY_LENGTH "@ge 0" "id:222,phase:2,pass,setvar:tx.blen=%{MATCHED_VAR}"`,
		},
		3: {`SecRule REQUEST_METHOD "@rx ." "id:206,phase:3,pass,setvar:tx.p3=+1"`},
		4: {`SecRule &ARGS "@ge 0" "id:207,phase:4,pass,setvar:tx.p4=+1"`},
		5: {`SecRule TX:score "@ge 0" "id:208,phase:5,pass,setvar:tx.p5=+1"`},
	}
	// the snapshot family: every derived / view / single-valued variable copied into TX (count or
	// value), size thresholds around typical values
	for ph, lines := range snapshotRules(r) {
		obs[ph] = append(obs[ph], lines...)
	}
	var b strings.Builder
	b.WriteString("SecRuleEngine On\nSecRequestBodyAccess On\n")
	// small limits: any per-collection / per-buffer state that accumulates over the transactions of
	// one pooled object changes a verdict
	argLimit := 0
	if r.Intn(2) == 0 {
		argLimit = 4 + r.Intn(7)
		fmt.Fprintf(&b, "SecArgumentsLimit %d\n", argLimit)
	}
	spill := false
	switch r.Intn(4) {
	case 0:
		fmt.Fprintf(&b, "SecRequestBodyLimit %d\nSecRequestBodyInMemoryLimit %d\nSecRequestBodyLimitAction %s\n", 24+r.Intn(40), 16, []string{"Reject", "ProcessPartial"}[r.Intn(2)])
	case 1: // bodies above 16 bytes are spilled to a file under the WAF's TmpDir
		spill = true
		b.WriteString("SecRequestBodyLimit 100000\nSecRequestBodyInMemoryLimit 16\n")
	}
	// multipart uploads are stored under a directory the harness owns (placeholder replaced at run time)
	uploads := r.Intn(2) == 0
	b.WriteString("SecUploadDir @UPLOADDIR@\nSecUploadKeepFiles Off\n")
	id := 10
	var names []string
	for ph := 1; ph <= 5; ph++ {
		lines := append([]string(nil), obs[ph]...)
		if r.Intn(3) == 0 {
			r.Shuffle(len(lines), func(i, j int) { lines[i], lines[j] = lines[j], lines[i] })
		}
		// triggers of this phase at random positions, biased to the front
		for _, t := range trigs {
			if t.phase != ph {
				continue
			}
			id++
			line := fmt.Sprintf(`SecRule REQUEST_HEADERS:x-trigger "%s" "id:%d,phase:%d,%s"`, t.op, id, ph, t.acts)
			pos := 0
			if r.Intn(3) == 0 {
				pos = r.Intn(len(lines) + 1)
			}
			lines = append(lines[:pos], append([]string{line}, lines[pos:]...)...)
		}
		if ph <= 2 {
			// the marker, with one more observation rule behind it
			lines = append(lines, fmt.Sprintf("SecMarker END%d", ph),
				fmt.Sprintf(`SecRule REQUEST_METHOD "@rx ." "id:%d,phase:%d,pass,setvar:tx.after%d=+1"`, 290+ph, ph, ph))
		}
		for _, l := range lines {
			b.WriteString(l + "\n")
		}
	}
	for _, t := range trigs {
		names = append(names, t.name)
	}
	sort.Strings(names)

	argSets := [][2][][2]string{
		{{{"a", "attack"}, {"a", "ONE"}, {"b", "x"}}, {{"a", "one"}, {"b", "Attack"}}},
		{{{"a", "ATTACK 1"}, {"c", "one two"}}, nil},
		{{{"q", "x"}}, {{"b", "one"}, {"b", "ONE"}, {"a", " one "}}},
		{{{"a", "attack"}, {"A", "Attack"}, {"a", "one"}, {"d", "attack one"}}, {{"a", "attack"}, {"e", "one"}}},
		{nil, nil},
	}
	// "fresh names": every request of the series uses argument / cookie / header names of its own,
	// so distinct names accumulate over the life of the pooled object while each request stays small
	nameMode := r.Intn(3)
	freshNames := nameMode == 1
	// "constant count": every request of the series has the same NUMBER of distinct GET / POST names
	// while names and values change their lengths from request to request
	constCount := nameMode == 2
	kGet, kPost, sameNames := 1+r.Intn(3), r.Intn(2), r.Intn(2) == 0
	seq := 0
	vals := []string{"attack", "one", "x", "ONE", "Attack 1"}
	longv := func() string {
		if r.Intn(3) == 0 {
			return vals[r.Intn(len(vals))]
		}
		return strings.Repeat("x", 1+r.Intn(40)) + []string{"", "attack", " one"}[r.Intn(3)]
	}
	pick := func() ([][2]string, [][2]string) {
		if constCount {
			seq++
			nm := func(base string, i int) string {
				if sameNames {
					return fmt.Sprintf("%s%d", base, i)
				}
				return fmt.Sprintf("%s%d%s", base, i, strings.Repeat("n", seq%4))
			}
			var g, p [][2]string
			for i := 0; i < kGet; i++ {
				g = append(g, [2]string{nm("q", i), longv()})
			}
			for i := 0; i < kPost; i++ {
				p = append(p, [2]string{nm("b", i), longv()})
			}
			return g, p
		}
		if freshNames {
			seq++
			g := [][2]string{{fmt.Sprintf("u%d", seq), vals[r.Intn(len(vals))]}, {fmt.Sprintf("v%d", seq), vals[r.Intn(len(vals))]}}
			var p [][2]string
			if r.Intn(2) == 0 {
				p = [][2]string{{fmt.Sprintf("w%d", seq), vals[r.Intn(len(vals))]}}
			}
			return g, p
		}
		s := argSets[r.Intn(len(argSets))]
		return s[0], s[1]
	}
	// a triggering (or plain) transaction that carries a multipart upload; in half of them the stored
	// temp files vanish before Close, so Close reports an error
	decorate := func(rq sreqJ, triggering bool) sreqJ {
		if uploads && (triggering || r.Intn(4) == 0) && r.Intn(3) > 0 {
			seq++
			rq.Post = append([][2]string{{"token", fmt.Sprintf("secret%d", seq)}}, rq.Post...)
			rq.Files = [][3]string{{"f1", fmt.Sprintf("a%d.txt", seq), "file one attack"}}
			if r.Intn(2) == 0 {
				rq.Files = append(rq.Files, [3]string{"f2", "b.bin", "second file"})
			}
			rq.NoCT = false
			rq.DeleteUploads = r.Intn(2) == 0
		}
		if spill && (len(rq.Post) > 0 || len(rq.Files) > 0) && r.Intn(2) == 0 {
			rq.DeleteSpill = true
		}
		return rq
	}
	hdrs := func() [][2]string {
		if r.Intn(3) == 0 {
			return nil
		}
		seq++
		return [][2]string{{"Cookie", fmt.Sprintf("c%d=attack; d%d=one", seq, seq)}, {fmt.Sprintf("X-H%d", seq), "one"}}
	}
	sj := seriesJSON{Kind: "series", Directives: b.String(), Triggers: names}
	// triggering requests alternate with requests that trigger nothing
	order := append([]trig(nil), trigs...)
	r.Shuffle(len(order), func(i, j int) { order[i], order[j] = order[j], order[i] })
	for _, t := range order {
		val := t.name
		if t.name == "capture" {
			val = "capture"
		}
		g, p := pick()
		sj.Requests = append(sj.Requests, decorate(sreqJ{Trigger: val, Get: g, Post: p, Headers: hdrs(), NoCT: len(p) > 0 && r.Intn(3) == 0}, true))
		g, p = pick()
		plain := sreqJ{Get: g, Post: p, Headers: hdrs(), NoCT: len(p) > 0 && r.Intn(3) == 0}
		if r.Intn(4) == 0 {
			plain.Trigger = "nothing" // a header value no rule reacts to
		}
		sj.Requests = append(sj.Requests, decorate(plain, false))
	}
	// the last request of a cycle: its verdict depends on its arguments being visible
	sj.Requests = append(sj.Requests, sreqJ{Get: [][2]string{{"user", "attack"}}})
	if argLimit > 0 {
		sj.Triggers = append(sj.Triggers, "argslimit")
	}
	if freshNames {
		sj.Triggers = append(sj.Triggers, "freshnames")
	}
	if constCount {
		sj.Triggers = append(sj.Triggers, "constcount")
	}
	if uploads {
		sj.Triggers = append(sj.Triggers, "uploads")
	}
	if spill {
		sj.Triggers = append(sj.Triggers, "spill")
	}
	return sj
}

// ---------------------------------------------------------------------------------------
// snapshot rules: derived / view / single-valued variables copied into TX
// ---------------------------------------------------------------------------------------

var snapCounts = []string{"ARGS", "ARGS_GET", "ARGS_POST", "ARGS_NAMES", "ARGS_GET_NAMES", "ARGS_POST_NAMES", "ARGS_PATH", "FILES", "FILES_NAMES",
	"FILES_SIZES", "FILES_TMPNAMES", "FILES_TMP_CONTENT", "MULTIPART_PART_HEADERS", "REQUEST_COOKIES", "REQUEST_COOKIES_NAMES", "REQUEST_HEADERS",
	"REQUEST_HEADERS_NAMES", "RESPONSE_HEADERS", "RESPONSE_HEADERS_NAMES", "TX", "GEO", "RESPONSE_ARGS"}

var snapValues = []string{"ARGS_COMBINED_SIZE", "FILES_COMBINED_SIZE", "REQUEST_BODY_LENGTH", "FULL_REQUEST_LENGTH", "REQBODY_ERROR", "REQBODY_PROCESSOR",
	"REQBODY_PROCESSOR_ERROR", "URLENCODED_ERROR", "INBOUND_DATA_ERROR", "OUTBOUND_DATA_ERROR", "MULTIPART_STRICT_ERROR", "MULTIPART_UNMATCHED_BOUNDARY",
	"MULTIPART_BOUNDARY_QUOTED", "MULTIPART_DATA_AFTER", "MULTIPART_FILENAME", "MULTIPART_NAME", "QUERY_STRING", "REQUEST_URI", "REQUEST_URI_RAW", "REQUEST_LINE",
	"REQUEST_METHOD", "REQUEST_PROTOCOL", "REQUEST_BASENAME", "REQUEST_FILENAME", "PATH_INFO", "AUTH_TYPE", "SERVER_NAME", "SERVER_ADDR", "SERVER_PORT",
	"REMOTE_ADDR", "REMOTE_PORT", "REMOTE_HOST", "REMOTE_USER", "REQUEST_BODY", "SESSIONID", "USERID", "HIGHEST_SEVERITY"}

var snapResponseValues = []string{"RESPONSE_CONTENT_TYPE", "RESPONSE_CONTENT_LENGTH", "RESPONSE_STATUS", "RESPONSE_PROTOCOL", "STATUS_LINE", "RESPONSE_BODY"}

var snapAccepted map[string]bool

// accepted: the variable can be used as a rule target (checked once against seclang)
func accepted(target string) bool {
	if snapAccepted == nil {
		snapAccepted = map[string]bool{}
	}
	if v, ok := snapAccepted[target]; ok {
		return v
	}
	_, err := newWAF(fmt.Sprintf("SecRule %s \"@unconditionalMatch\" \"id:1,phase:2,pass\"\n", target))
	snapAccepted[target] = err == nil
	return err == nil
}

func snapshotRules(r *rand.Rand) map[int][]string {
	out := map[int][]string{}
	id := 400
	add := func(ph int, line string) { out[ph] = append(out[ph], line) }
	key := func(v string) string { return strings.ToLower(strings.ReplaceAll(v, "_", "")) }
	for _, v := range snapCounts {
		if r.Intn(2) == 0 || !accepted("&"+v) {
			continue
		}
		id++
		ph := []int{1, 2, 2, 2, 5}[r.Intn(5)]
		add(ph, fmt.Sprintf(`SecRule &%s "@ge 0" "id:%d,phase:%d,pass,setvar:tx.n%s%d=%%{MATCHED_VAR}"`, v, id, ph, key(v), ph))
	}
	for _, v := range snapValues {
		if r.Intn(2) == 0 || !accepted(v) {
			continue
		}
		id++
		ph := []int{1, 2, 2, 2, 5}[r.Intn(5)]
		add(ph, fmt.Sprintf(`SecRule %s "@unconditionalMatch" "id:%d,phase:%d,pass,setvar:tx.v%s%d=%%{MATCHED_VAR}"`, v, id, ph, key(v), ph))
	}
	for _, v := range snapResponseValues {
		if r.Intn(2) == 0 || !accepted(v) {
			continue
		}
		id++
		ph := []int{3, 4, 5}[r.Intn(3)]
		add(ph, fmt.Sprintf(`SecRule %s "@unconditionalMatch" "id:%d,phase:%d,pass,setvar:tx.v%s%d=%%{MATCHED_VAR}"`, v, id, ph, key(v), ph))
	}
	// size limits (CRS 920390 style) around typical sizes: the verdict depends on the exact value
	if r.Intn(3) > 0 {
		id++
		act := "pass,setvar:tx.big=+1"
		if r.Intn(2) == 0 {
			act = "deny,status:413"
		}
		ph := 1 + r.Intn(2)
		add(ph, fmt.Sprintf(`SecRule ARGS_COMBINED_SIZE "@gt %d" "id:%d,phase:%d,%s"`, 4+r.Intn(50), id, ph, act))
	}
	if r.Intn(2) == 0 {
		id++
		add(2, fmt.Sprintf(`SecRule FILES_COMBINED_SIZE "@gt %d" "id:%d,phase:2,pass,setvar:tx.bigfiles=+1"`, 5+r.Intn(30), id))
	}
	return out
}
