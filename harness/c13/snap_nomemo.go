//go:build coraza.no_memoize

package c13

import "github.com/corazawaf/coraza/v3/internal/corazawaf"

const memoized = false

type obsEntry struct {
	Key    string
	Type   int
	Desc   string
	Owners []uint64
}

func ownerID(w *corazawaf.WAF) uint64      { return 0 }
func resetCache()                          {}
func snapshot(_ map[uint64]int) []obsEntry { return nil }
