(* Feasibility probe (design round): round trip through cutQuotedString + UnescapeQuotedString
   for the quoted operator argument of a SecRule.  Not framework code. *)
From Coq Require Import List NArith Lia Bool Arith.
Import ListNotations.
Open Scope N_scope.
Definition bytes := list N.
Definition Q : N := 34.  (* double quote *)
Definition B : N := 92.  (* backslash *)

(* cutQuotedString, after the opening quote has been consumed: [esc] = parity of the run of
   backslashes immediately before the current position.  Returns (content, rest). *)
Fixpoint cut_body (s : bytes) (esc : bool) : option (bytes * bytes) :=
  match s with
  | [] => None
  | c :: s' =>
      if c =? Q then
        if esc then option_map (fun '(a, r) => (c :: a, r)) (cut_body s' false)
        else Some ([], s')
      else option_map (fun '(a, r) => (c :: a, r)) (cut_body s' (if c =? B then negb esc else false))
  end.
Definition cut_quoted (s : bytes) : option (bytes * bytes) :=
  match s with c :: s' => if c =? Q then cut_body s' false else None | [] => None end.

(* UnescapeQuotedString: only backslash-quote becomes quote *)
Fixpoint unescape (s : bytes) : bytes :=
  match s with
  | c :: ((d :: s'') as s') => if (c =? B) && (d =? Q) then Q :: unescape s'' else c :: unescape s'
  | _ => s
  end.

(* renderer: escape every quote *)
Fixpoint escape (s : bytes) : bytes :=
  match s with [] => [] | c :: s' => if c =? Q then B :: Q :: escape s' else c :: escape s' end.

(* representable arguments: no backslash immediately before a quote, none at the very end *)
Fixpoint wf (s : bytes) : bool :=
  match s with
  | [] => true
  | c :: s' => (if c =? B then match s' with [] => false | d :: _ => negb (d =? Q) end else true) && wf s'
  end.

Lemma escape_head_not_quote d s' : (d =? Q) = false -> exists E, escape (d :: s') = d :: E.
Proof. intros H. cbn [escape]. rewrite H. eauto. Qed.

Lemma unescape_escape s : wf s = true -> unescape (escape s) = s.
Proof.
  induction s as [|c s IH]; [reflexivity|]. intros H. cbn [wf] in H. apply andb_prop in H. destruct H as [H1 H2].
  specialize (IH H2). cbn [escape]. destruct (c =? Q) eqn:EQ.
  - apply N.eqb_eq in EQ. subst c. change (unescape (B :: Q :: escape s)) with (Q :: unescape (escape s)). f_equal. exact IH.
  - destruct s as [|d s'].
    + reflexivity.
    + destruct (c =? B) eqn:EB.
      * apply negb_true_iff in H1. destruct (escape_head_not_quote d s' H1) as [E HE].
        rewrite HE in *. cbn [unescape]. rewrite EB, H1. simpl. f_equal. exact IH.
      * remember (escape (d :: s')) as X. destruct X as [|x X].
        -- cbn [escape] in HeqX. destruct (d =? Q); discriminate.
        -- cbn [unescape]. rewrite EB. simpl. f_equal. exact IH.
Qed.

(* cutting the rendered text stops exactly at the closing quote; generalised over the
   backslash-run parity [e] with which the scan enters the content *)
Definition pre (s : bytes) (e : bool) : Prop :=
  match s with [] => e = false | c :: _ => c = Q -> e = false end.

Lemma cut_body_escape s rest : forall e, wf s = true -> pre s e ->
  cut_body (escape s ++ Q :: rest) e = Some (escape s, rest).
Proof.
  induction s as [|c s IH]; intros e H Hp.
  - simpl in Hp. subst e. simpl. reflexivity.
  - cbn [wf] in H. apply andb_prop in H. destruct H as [H1 H2]. cbn [escape].
    destruct (c =? Q) eqn:EQ.
    + apply N.eqb_eq in EQ. subst c. simpl in Hp. rewrite (Hp eq_refl).
      cbn [app cut_body]. assert (HB : B =? Q = false) by reflexivity. rewrite HB. rewrite N.eqb_refl. cbn [negb].
      cbn [cut_body]. rewrite N.eqb_refl. rewrite (IH false H2); [reflexivity|]. destruct s; simpl; auto.
    + cbn [app cut_body]. rewrite EQ.
      destruct (c =? B) eqn:EB.
      * destruct s as [|d s']; [discriminate|]. apply negb_true_iff in H1.
        rewrite (IH (negb e) H2); [reflexivity|]. simpl. intros ->. rewrite N.eqb_refl in H1. discriminate.
      * rewrite (IH false H2); [reflexivity|]. destruct s; simpl; auto.
Qed.

Theorem cut_quoted_roundtrip s rest : wf s = true ->
  cut_quoted (Q :: escape s ++ Q :: rest) = Some (escape s, rest) /\ unescape (escape s) = s.
Proof.
  intros H. split; [|apply unescape_escape; auto].
  unfold cut_quoted. rewrite N.eqb_refl. apply cut_body_escape; auto. destruct s; simpl; auto.
Qed.
Print Assumptions cut_quoted_roundtrip.

(* the guard is necessary: an argument ending in a backslash is not representable *)
Example wf_needed : cut_quoted (Q :: escape [B] ++ Q :: [32]) = None.
Proof. reflexivity. Qed.
