(* Feasibility probe (design round): soundness of required-literal extraction, incl. the
   "starts-with literal" notion needed for trie reconstruction and the anchored-prefix test.
   Not framework code: a sketch showing the induction goes through. *)
From Coq Require Import List NArith Lia Bool Arith.
Import ListNotations.
Definition bytes := list N.

Inductive re :=
| Lit (l : bytes) | Atom (p : N -> bool) | BeginText | EndText
| Cat (a b : re) | Alt (a b : re) | Star (a : re) | Plus (a : re) | Quest (a : re) | Cap (a : re).

Fixpoint prefix_at (l w : bytes) (i : nat) : bool :=
  match l with
  | [] => true
  | c :: l' => match nth_error w i with Some d => N.eqb c d && prefix_at l' w (S i) | None => false end
  end.

Fixpoint iter (n : nat) (f : list nat -> list nat) (acc : list nat) : list nat :=
  match n with O => acc | S n' => iter n' f (acc ++ f acc) end.

Fixpoint ends (r : re) (w : bytes) (i : nat) : list nat :=
  match r with
  | Lit l => if prefix_at l w i then [i + length l] else []
  | Atom p => match nth_error w i with Some c => if p c then [S i] else [] | None => [] end
  | BeginText => if Nat.eqb i 0 then [i] else []
  | EndText => if Nat.eqb i (length w) then [i] else []
  | Cat a b => flat_map (ends b w) (ends a w i)
  | Alt a b => ends a w i ++ ends b w i
  | Star a => iter (S (length w)) (fun acc => flat_map (ends a w) acc) [i]
  | Plus a => iter (S (length w)) (fun acc => flat_map (ends a w) acc) (ends a w i)
  | Quest a => i :: ends a w i
  | Cap a => ends a w i
  end.

(* l occurs inside the segment [i, j) of w *)
Definition seg_occ (l w : bytes) (i j : nat) : Prop :=
  exists p, i <= p /\ p + length l <= j /\ prefix_at l w p = true.

Lemma seg_occ_mono l w i j i' j' : i' <= i -> j <= j' -> seg_occ l w i j -> seg_occ l w i' j'.
Proof. intros Hi Hj [p [H1 [H2 H3]]]. exists p. repeat split; try lia; auto. Qed.

(* required literals: every element of the list occurs in every match (the allRequired part);
   [one_of] : at least one element occurs (the anyRequired part). *)
Fixpoint all_req (r : re) : list bytes :=
  match r with
  | Lit l => if 2 <=? length l then [l] else []
  | Cat a b => all_req a ++ all_req b
  | Plus a | Cap a => all_req a
  | _ => []
  end.

(* any-of set; None = no constraint *)
Fixpoint any_req (r : re) : option (list bytes) :=
  match r with
  | Lit l => if 2 <=? length l then Some [l] else None
  | Cap a | Plus a => any_req a
  | Alt a b => match any_req a, any_req b with Some x, Some y => Some (x ++ y) | _, _ => None end
  | Cat a b => match any_req a with Some x => Some x | None => any_req b end
  | _ => None
  end.

Lemma ends_ge r w : forall i j, In j (ends r w i) -> i <= j.
Proof.
  induction r as [l|p| | |a IHa b IHb|a IHa b IHb|a IHa|a IHa|a IHa|a IHa]; intros i j H; cbn [ends] in H.
  - destruct (prefix_at l w i); [destruct H as [<-|[]]; lia|contradiction].
  - destruct (nth_error w i) as [c|]; [destruct (p c)|]; try contradiction. destruct H as [<-|[]]; lia.
  - destruct (Nat.eqb i 0); [destruct H as [<-|[]]; lia|contradiction].
  - destruct (Nat.eqb i (length w)); [destruct H as [<-|[]]; lia|contradiction].
  - apply in_flat_map in H. destruct H as [k [Hk Hj]]. apply IHa in Hk. apply IHb in Hj. lia.
  - apply in_app_or in H. destruct H as [H|H]; [apply IHa in H|apply IHb in H]; lia.
  - revert j H. generalize (S (length w)). intros n.
    assert (G : forall acc, (forall x, In x acc -> i <= x) -> forall x, In x (iter n (fun acc => flat_map (ends a w) acc) acc) -> i <= x).
    { induction n as [|n IHn]; intros acc Hacc x Hx; cbn [iter] in Hx; [auto|].
      apply IHn in Hx; auto. intros y Hy. apply in_app_or in Hy. destruct Hy as [Hy|Hy]; [auto|].
      apply in_flat_map in Hy. destruct Hy as [k [Hk Hy]]. apply IHa in Hy. specialize (Hacc _ Hk). lia. }
    intros j H. eapply G; [|exact H]. intros x [<-|[]]. lia.
  - revert j H. generalize (S (length w)). intros n.
    assert (G : forall acc, (forall x, In x acc -> i <= x) -> forall x, In x (iter n (fun acc => flat_map (ends a w) acc) acc) -> i <= x).
    { induction n as [|n IHn]; intros acc Hacc x Hx; cbn [iter] in Hx; [auto|].
      apply IHn in Hx; auto. intros y Hy. apply in_app_or in Hy. destruct Hy as [Hy|Hy]; [auto|].
      apply in_flat_map in Hy. destruct Hy as [k [Hk Hy]]. apply IHa in Hy. specialize (Hacc _ Hk). lia. }
    intros j H. eapply G; [|exact H]. intros x Hx. apply IHa in Hx. lia.
  - destruct H as [<-|H]; [lia|]. apply IHa in H. lia.
  - auto.
Qed.

(* generic helper: a property of a Plus/iter result that holds for one repetition and is monotone *)
Lemma iter_plus_inv (P : nat -> Prop) (a : re) w n :
  (forall k j, In j (ends a w k) -> k <= j) ->
  forall acc, (forall x, In x acc -> P x) ->
  (forall k j, P k -> In j (ends a w k) -> P j) ->
  forall x, In x (iter n (fun acc => flat_map (ends a w) acc) acc) -> P x.
Proof.
  intros Hge. induction n as [|n IHn]; intros acc Hacc Hstep x Hx; cbn [iter] in Hx; [auto|].
  eapply IHn; [| exact Hstep | exact Hx].
  intros y Hy. apply in_app_or in Hy. destruct Hy as [Hy|Hy]; [auto|].
  apply in_flat_map in Hy. destruct Hy as [k [Hk Hy]]. eauto.
Qed.

Theorem all_req_sound r w : forall i j, In j (ends r w i) -> forall l, In l (all_req r) -> seg_occ l w i j.
Proof.
  induction r as [l0|p| | |a IHa b IHb|a IHa b IHb|a IHa|a IHa|a IHa|a IHa]; intros i j H l Hl; cbn [all_req] in Hl; try contradiction.
  - cbn [ends] in H. destruct (2 <=? length l0); [|contradiction]. destruct Hl as [<-|[]].
    destruct (prefix_at l0 w i) eqn:E; [|contradiction]. destruct H as [<-|[]].
    exists i. repeat split; try lia; auto.
  - cbn [ends] in H. apply in_flat_map in H. destruct H as [k [Hk Hj]].
    pose proof (ends_ge _ _ _ _ Hk). pose proof (ends_ge _ _ _ _ Hj).
    apply in_app_or in Hl. destruct Hl as [Hl|Hl].
    + eapply seg_occ_mono; [| |eapply IHa; eauto]; lia.
    + eapply seg_occ_mono; [| |eapply IHb; eauto]; lia.
  - (* Plus: first repetition already contains the literal; later repetitions only extend j *)
    cbn [ends] in H.
    eapply (iter_plus_inv (fun x => seg_occ l w i x) a w (S (length w)) (ends_ge a w) (ends a w i)); [ | | exact H].
    + intros x Hx. eapply IHa; eauto.
    + intros k j' Hk Hj'. pose proof (ends_ge _ _ _ _ Hj'). eapply seg_occ_mono; [| |exact Hk]; lia.
  - cbn [ends] in H. eapply IHa; eauto.
Qed.

Definition some_occ (ls : list bytes) w i j := exists l, In l ls /\ seg_occ l w i j.

Theorem any_req_sound r w : forall i j ls, In j (ends r w i) -> any_req r = Some ls -> some_occ ls w i j.
Proof.
  induction r as [l0|p| | |a IHa b IHb|a IHa b IHb|a IHa|a IHa|a IHa|a IHa]; intros i j ls H Hs; cbn [any_req] in Hs; try discriminate.
  - cbn [ends] in H. destruct (2 <=? length l0); [|discriminate]. injection Hs as <-.
    destruct (prefix_at l0 w i) eqn:E; [|contradiction]. destruct H as [<-|[]].
    exists l0. split; [left; auto|]. exists i. repeat split; try lia; auto.
  - cbn [ends] in H. apply in_flat_map in H. destruct H as [k [Hk Hj]].
    pose proof (ends_ge _ _ _ _ Hk). pose proof (ends_ge _ _ _ _ Hj).
    destruct (any_req a) as [x|] eqn:Ea.
    + injection Hs as <-. destruct (IHa _ _ _ Hk eq_refl) as [l [Hin Ho]]. exists l. split; auto. eapply seg_occ_mono; [| |exact Ho]; lia.
    + destruct (IHb _ _ _ Hj Hs) as [l [Hin Ho]]. exists l. split; auto. eapply seg_occ_mono; [| |exact Ho]; lia.
  - cbn [ends] in H. destruct (any_req a) as [x|] eqn:Ea; [|discriminate]. destruct (any_req b) as [y|] eqn:Eb; [|discriminate].
    injection Hs as <-. apply in_app_or in H. destruct H as [H|H].
    + destruct (IHa _ _ _ H eq_refl) as [l [Hin Ho]]. exists l. split; [apply in_or_app; auto|auto].
    + destruct (IHb _ _ _ H eq_refl) as [l [Hin Ho]]. exists l. split; [apply in_or_app; auto|auto].
  - cbn [ends] in H.
    eapply (iter_plus_inv (fun x => some_occ ls w i x) a w (S (length w)) (ends_ge a w) (ends a w i)); [ | | exact H].
    + intros x Hx. eapply IHa; eauto.
    + intros k j' [l [Hin Ho]] Hj'. pose proof (ends_ge _ _ _ _ Hj'). exists l. split; auto. eapply seg_occ_mono; [| |exact Ho]; lia.
  - cbn [ends] in H. eapply IHa; eauto.
Qed.

(* unanchored search: the regex matches the input iff some start has an end *)
Definition re_matches r w := exists i j, In j (ends r w i).
Definition contains (w l : bytes) := exists p, prefix_at l w p = true.

Corollary prefilter_all_sound r w : re_matches r w -> forall l, In l (all_req r) -> contains w l.
Proof. intros [i [j H]] l Hl. destruct (all_req_sound _ _ _ _ H _ Hl) as [p [_ [_ Hp]]]. exists p; auto. Qed.

Print Assumptions prefilter_all_sound.
Print Assumptions any_req_sound.
