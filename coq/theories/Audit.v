(* Audit.v — executable model of Coraza's audit / error logging (property C19).

   What is modelled, function by function (Go source in /repo):
   - types/waf.go            ParseAuditLogParts, ApplyAuditLogParts           -> parse_parts, apply_parts
   - internal/actions/ctl.go ctlAuditLogParts (re-attaches A and Z), ctlAuditEngine, ctlRuleEngine
                                                                               -> ctl_parts, apply_ctl
   - internal/actions/{log,nolog,auditlog,noauditlog}.go Init + seclang default actions
                                                                               -> apply_logact, flags_of
   - internal/actions/{deny,drop,redirect}.go Evaluate (status of the interruption) -> intr_status
   - internal/corazawaf/transaction.go Interrupt, MatchRule (audit flag, matched list, error callback),
     ProcessRequestHeaders/.../ProcessLogging gates, ProcessLogging's audit decision,
     AuditLog() (assembly per part, K/H interplay, audit-flag filter)          -> interrupt, fire, run_tx,
                                                                                  should_audit, audit_msgs
   - internal/corazawaf/rulegroup.go Eval (phase filter, stop on interruption except logging) -> eval_phase
   - internal/auditlog/formats.go nativeFormatter.Format                       -> format_native
   - internal/auditlog/serial_writer.go Write (log.Logger.Println = one atomic append of record ++ "\n")
                                                                               -> frame, file_of
   External code enters as parameters: the relevant-status regexp is a function [rel : bytes -> bool];
   http.StatusText, the error-log text of a matched rule and the boundary prefix are inputs. *)
From Verif Require Import Base.
Open Scope N_scope.

(* ------------------------------------------------------------------------------------------ *)
(* parts algebra                                                                               *)
(* ------------------------------------------------------------------------------------------ *)

Definition au_A : N := 65.
Definition au_Z : N := 90.
Definition au_H : N := 72.
Definition au_K : N := 75.

(* slices.Contains(orderedAuditLogParts, p): B..K *)
Definition au_is_mid (p : N) : bool := (66 <=? p) && (p <=? 75).
Definition au_ordered : bytes := [66; 67; 68; 69; 70; 71; 72; 73; 74; 75].

Definition au_mem (p : N) (l : bytes) : bool := existsb (N.eqb p) l.

(* no letter twice *)
Fixpoint au_nodup (l : bytes) : bool :=
  match l with
  | [] => true
  | x :: r => negb (au_mem x r) && au_nodup r
  end.

(* ParseAuditLogParts: HasPrefix "A", HasSuffix "Z"; every rune p of opts[1:len-1] must satisfy
   p <= unicode.MaxASCII and byte(p) in B..K, and must not have been seen before; the result is the
   string itself, byte for byte.
   The Go loop ranges over runes. A byte < 128 is a rune of its own; any byte >= 128 starts a rune
   >= 128 or decodes to RuneError (U+FFFD), both rejected by the MaxASCII test. Hence "every rune passes"
   is "every byte is one of B..K", and "rune seen before" is "byte seen before": the model works on bytes
   (the correspondence run feeds non-ASCII and invalid UTF-8 strings to check exactly this). *)
Definition parse_parts (s : bytes) : option bytes :=
  match s with
  | [] => None
  | a :: r =>
    if negb (a =? au_A) then None
    else if negb (last s 0 =? au_Z) then None
    else if forallb au_is_mid (removelast r) && au_nodup (removelast r) then Some s
    else None
  end.

(* ApplyAuditLogParts: "+XY" / "-XY" edit the set of letters of base and return the letters present in
   canonical order B..K (A and Z of base are dropped: they are not in the canonical list); any other
   first byte means an absolute value *)
Definition apply_parts (base m : bytes) : option bytes :=
  match m with
  | [] => None
  | c :: rest =>
    if negb (c =? 43) && negb (c =? 45) then parse_parts m
    else
      if forallb au_is_mid rest then
        Some (filter (fun p => if c =? 43 then au_mem p base || au_mem p rest
                               else au_mem p base && negb (au_mem p rest)) au_ordered)
      else None
  end.

(* the ctl:auditLogParts path (ctl.go): a failed modification is ignored by the caller; on success A is
   prepended when missing and Z appended when missing *)
Definition ctl_parts (base m : bytes) : option bytes :=
  match apply_parts base m with
  | None => None
  | Some ps =>
    let ps1 := match ps with
               | [] => [au_A]
               | a :: _ => if a =? au_A then ps else au_A :: ps
               end in
    Some (if last ps1 0 =? au_Z then ps1 else ps1 ++ [au_Z])
  end.

(* well-formed parts: A first, Z last, only B..K in between, no letter twice *)
Definition wf_parts (ps : bytes) : bool :=
  match ps with
  | [] => false
  | a :: r => (a =? au_A) && (last ps 0 =? au_Z) && forallb au_is_mid (removelast r) && au_nodup (removelast r)
  end.

(* the parts of corazawaf.NewWAF() when no SecAuditLogParts directive is given *)
Definition default_parts : bytes := [65; 66; 67; 70; 72; 90].

(* ------------------------------------------------------------------------------------------ *)
(* rules                                                                                       *)
(* ------------------------------------------------------------------------------------------ *)

Inductive aengine := AEOn | AEOff | AERelevant.
Inductive rengine := REOn | REDetect | REOff.
Inductive logact := LLog | LNolog | LAuditlog | LNoauditlog.

(* (Log, Audit) of a rule: the Init functions of log / nolog / auditlog / noauditlog, run in the order
   of the action list (default actions of the rule's phase first, then the rule's own) *)
Definition apply_logact (f : bool * bool) (a : logact) : bool * bool :=
  match a with
  | LLog => (true, true)
  | LNolog => (false, false)
  | LAuditlog => (fst f, true)
  | LNoauditlog => (fst f, false)
  end.
Definition flags_of (acts : list logact) : bool * bool := fold_left apply_logact acts (false, false).

(* default action list of a phase: SecDefaultAction entries; phase 2 falls back to "log,auditlog" *)
Fixpoint au_lookup_default (ds : list (N * list logact)) (p : N) : option (list logact) :=
  match ds with
  | [] => None
  | (q, l) :: r => if q =? p then Some l else au_lookup_default r p
  end.
Definition default_logacts (ds : list (N * list logact)) (p : N) : list logact :=
  match au_lookup_default ds p with
  | Some l => l
  | None => if p =? 2 then [LLog; LAuditlog] else []
  end.

Inductive ctlact :=
  | CtlAudit (v : option aengine)        (* None: value rejected by ParseAuditEngineStatus -> ignored *)
  | CtlParts (m : bytes)
  | CtlRuleEngine (v : option rengine).

Inductive disr := DPass | DDeny | DDrop | DRedirect.

(* allow / allow:phase / allow:request *)
Inductive allowk := ANone | APhase | ARequest | AAll.

Record rule := {
  r_id : N;
  r_phase : N;                 (* 1..5 *)
  r_acts : list logact;        (* the rule's own log-family actions, in order *)
  r_ctls : list ctlact;        (* ctl actions, in order *)
  r_disr : disr;
  r_status : N;                (* status: action, 0 = not given *)
  r_nmatch : nat;              (* number of matched values of the (head) rule; 0 = it does not match *)
  r_chain : list nat;          (* matched values of each chained rule, in order; [] = no chain *)
  r_skip : nat;                (* skip:N, 0 = none *)
  r_after : option N;          (* skipAfter:<marker> *)
  r_allow : allowk;            (* allow action *)
  r_marker : option N          (* Some m: this entry is `SecMarker m` (no id, never recorded) *)
}.

(* the chain matched: every chained rule matched something *)
Definition chain_ok (r : rule) : bool := forallb (fun n => negb (Nat.eqb n 0)) (r_chain r).
(* MatchRule gets the matched values of the head and of every chained rule *)
Definition total_matches (r : rule) : nat := fold_left Nat.add (r_chain r) (r_nmatch r).

(* status of the interruption a disruptive action asks for *)
Definition intr_status (r : rule) : option N :=
  match r_disr r with
  | DPass => None
  | DDeny => Some (if r_status r =? 0 then 403 else r_status r)
  | DDrop => Some (r_status r)
  | DRedirect => let s := r_status r in
                 Some (if (s =? 301) || (s =? 302) || (s =? 303) || (s =? 307) then s else 302)
  end.

(* ------------------------------------------------------------------------------------------ *)
(* transaction                                                                                 *)
(* ------------------------------------------------------------------------------------------ *)

Record fired := { f_id : N; f_log : bool; f_audit : bool; f_nmatch : nat }.

Record cfg := {
  c_ae : aengine;                         (* SecAuditEngine *)
  c_re : rengine;                         (* SecRuleEngine *)
  c_parts : bytes;                        (* WAF.AuditLogParts *)
  c_pattern : bool;                       (* SecAuditLogRelevantStatus configured *)
  c_cb : bool;                            (* error callback configured *)
  c_defaults : list (N * list logact)     (* SecDefaultAction log-family actions per phase *)
}.

Record tx := {
  t_ae : aengine;
  t_parts : bytes;
  t_re : rengine;
  t_intr : option N;       (* tx.interruption (status) *)
  t_det : option N;        (* tx.detectionOnlyInterruption (status) *)
  t_audit : bool;          (* tx.audit *)
  t_matched : list fired;  (* tx.matchedRules, firing order *)
  t_cbs : list N;          (* ids passed to the error callback, in call order *)
  t_resp : bytes;          (* RESPONSE_STATUS variable *)
  t_allow : allowk         (* tx.AllowType *)
}.

Definition tx_init (c : cfg) : tx :=
  {| t_ae := c_ae c; t_parts := c_parts c; t_re := c_re c; t_intr := None; t_det := None;
     t_audit := false; t_matched := []; t_cbs := []; t_resp := []; t_allow := ANone |}.

Definition apply_ctl (t : tx) (a : ctlact) : tx :=
  match a with
  | CtlAudit (Some e) =>
    {| t_ae := e; t_parts := t_parts t; t_re := t_re t; t_intr := t_intr t; t_det := t_det t;
       t_audit := t_audit t; t_matched := t_matched t; t_cbs := t_cbs t; t_resp := t_resp t; t_allow := t_allow t |}
  | CtlAudit None => t
  | CtlParts m =>
    match ctl_parts (t_parts t) m with
    | Some ps =>
      {| t_ae := t_ae t; t_parts := ps; t_re := t_re t; t_intr := t_intr t; t_det := t_det t;
         t_audit := t_audit t; t_matched := t_matched t; t_cbs := t_cbs t; t_resp := t_resp t; t_allow := t_allow t |}
    | None => t
    end
  | CtlRuleEngine (Some e) =>
    {| t_ae := t_ae t; t_parts := t_parts t; t_re := e; t_intr := t_intr t; t_det := t_det t;
       t_audit := t_audit t; t_matched := t_matched t; t_cbs := t_cbs t; t_resp := t_resp t; t_allow := t_allow t |}
  | CtlRuleEngine None => t
  end.

(* Transaction.Interrupt *)
Definition interrupt (t : tx) (s : N) : tx :=
  match t_re t with
  | REOn =>
    match t_intr t with
    | Some _ => t
    | None =>
      {| t_ae := t_ae t; t_parts := t_parts t; t_re := t_re t; t_intr := Some s; t_det := t_det t;
         t_audit := t_audit t; t_matched := t_matched t; t_cbs := t_cbs t; t_resp := t_resp t; t_allow := t_allow t |}
    end
  | REDetect =>
    match t_det t with
    | Some _ => t
    | None =>
      {| t_ae := t_ae t; t_parts := t_parts t; t_re := t_re t; t_intr := t_intr t; t_det := Some s;
         t_audit := t_audit t; t_matched := t_matched t; t_cbs := t_cbs t; t_resp := t_resp t; t_allow := t_allow t |}
    end
  | REOff => t
  end.

Definition rule_flags (c : cfg) (r : rule) : bool * bool :=
  flags_of (default_logacts (c_defaults c) (r_phase r) ++ r_acts r).

(* Transaction.MatchRule: audit flag, matched list, error callback *)
Definition match_rule (c : cfg) (r : rule) (t : tx) : tx :=
  let fl := rule_flags c r in
  {| t_ae := t_ae t; t_parts := t_parts t; t_re := t_re t; t_intr := t_intr t; t_det := t_det t;
     t_audit := t_audit t || snd fl;
     t_matched := t_matched t ++ [{| f_id := r_id r; f_log := fst fl; f_audit := snd fl; f_nmatch := total_matches r |}];
     t_cbs := if c_cb c && fst fl then t_cbs t ++ [r_id r] else t_cbs t;
     t_resp := t_resp t; t_allow := t_allow t |}.

(* one rule that matched: non-disruptive actions once per matched value, then the disruptive
   action, then MatchRule *)
Definition fire (c : cfg) (r : rule) (t : tx) : tx :=
  let t1 := Nat.iter (r_nmatch r) (fun t' => fold_left apply_ctl (r_ctls r) t') t in
  let t2 := match intr_status r with Some s => interrupt t1 s | None => t1 end in
  match_rule c r t2.

Definition is_some {A} (o : option A) : bool := match o with Some _ => true | None => false end.

Definition set_allow (t : tx) (a : allowk) : tx :=
  {| t_ae := t_ae t; t_parts := t_parts t; t_re := t_re t; t_intr := t_intr t; t_det := t_det t;
     t_audit := t_audit t; t_matched := t_matched t; t_cbs := t_cbs t; t_resp := t_resp t; t_allow := a |}.

(* the head matched but a chained rule did not: only the head's non-disruptive actions have run *)
Definition pre_fire (r : rule) (t : tx) : tx :=
  Nat.iter (r_nmatch r) (fun t' => fold_left apply_ctl (r_ctls r) t') t.

(* state of one pass of RuleGroup.Eval: tx.Skip, tx.SkipAfter, "the loop was left by break" *)
Record flow := { w_skip : nat; w_after : option N; w_break : bool }.
Definition flow0 : flow := {| w_skip := 0; w_after := None; w_break := false |}.

Definition marker_is (r : rule) (m : N) : bool :=
  match r_marker r with Some x => x =? m | None => false end.

(* flow / allow actions of a rule whose chain matched (skip, skipAfter set whatever the engine mode;
   Transaction.Allow only when the engine is On) *)
Definition flow_actions (r : rule) (st : flow * tx) : flow * tx :=
  let '(w, t) := st in
  ({| w_skip := match r_skip r with O => w_skip w | n => n end;
      w_after := match r_after r with Some m => Some m | None => w_after w end;
      w_break := w_break w |},
   match r_allow r with
   | ANone => t
   | a => match t_re t with REOn => set_allow t a | _ => t end
   end).

(* RuleGroup.Eval, one rule of the list *)
Definition eval_step (c : cfg) (p : N) (st : flow * tx) (r : rule) : flow * tx :=
  let '(w, t) := st in
  if w_break w then st
  else if is_some (t_intr t) && negb (p =? 5) then st
  else if negb ((r_phase r =? p) || is_some (r_marker r)) then st
  else match w_after w with
  | Some m => if marker_is r m then ({| w_skip := w_skip w; w_after := None; w_break := false |}, t) else st
  | None =>
    match w_skip w with
    | S k => ({| w_skip := k; w_after := None; w_break := false |}, t)
    | O =>
      match t_allow t with
      | APhase => ({| w_skip := 0; w_after := None; w_break := true |}, t)
      | ARequest =>
        if p =? 1 then ({| w_skip := 0; w_after := None; w_break := true |}, t)
        else if p =? 2 then ({| w_skip := 0; w_after := None; w_break := true |}, set_allow t ANone)
        else (if is_some (r_marker r) then st else
              match r_nmatch r with
              | O => st
              | S _ => if chain_ok r then flow_actions r (w, fire c r t) else (w, pre_fire r t)
              end)
      | AAll =>
        if negb (p =? 5) then ({| w_skip := 0; w_after := None; w_break := true |}, t)
        else (if is_some (r_marker r) then st else
              match r_nmatch r with
              | O => st
              | S _ => if chain_ok r then flow_actions r (w, fire c r t) else (w, pre_fire r t)
              end)
      | ANone =>
        if is_some (r_marker r) then st else
        match r_nmatch r with
        | O => st
        | S _ => if chain_ok r then flow_actions r (w, fire c r t) else (w, pre_fire r t)
        end
      end
    end
  end.

(* end of the pass: allow:phase ends with the phase; Skip and SkipAfter do not survive it *)
Definition end_phase (t : tx) : tx :=
  match t_allow t with APhase => set_allow t ANone | _ => t end.

Definition eval_phase (c : cfg) (p : N) (rules : list rule) (t : tx) : tx :=
  end_phase (snd (fold_left (eval_step c p) rules (flow0, t))).

(* Process{RequestHeaders,RequestBody,ResponseHeaders,ResponseBody}: nothing happens when the rule
   engine is Off or an interruption exists *)
Definition gate (t : tx) : bool :=
  negb (match t_re t with REOff => true | _ => false end) && negb (is_some (t_intr t)).

Definition set_resp (t : tx) (s : bytes) : tx :=
  {| t_ae := t_ae t; t_parts := t_parts t; t_re := t_re t; t_intr := t_intr t; t_det := t_det t;
     t_audit := t_audit t; t_matched := t_matched t; t_cbs := t_cbs t; t_resp := s; t_allow := t_allow t |}.

Record script := {
  x_rules : list rule;    (* the rule set, in configuration order *)
  x_last : N;             (* last phase the connector calls before logging (0..4) *)
  x_code : N;             (* status code given to ProcessResponseHeaders *)
  x_id : bytes            (* transaction id *)
}.

Definition run_phases (c : cfg) (x : script) : tx :=
  let rs := x_rules x in
  let t0 := tx_init c in
  let t1 := if (1 <=? x_last x) && gate t0 then eval_phase c 1 rs t0 else t0 in
  let t2 := if (2 <=? x_last x) && gate t1 then eval_phase c 2 rs t1 else t1 in
  let t3 := if (3 <=? x_last x) && gate t2 then eval_phase c 3 rs (set_resp t2 (itoa (x_code x))) else t2 in
  let t4 := if (4 <=? x_last x) && gate t3 then eval_phase c 4 rs t3 else t3 in
  (* ProcessLogging: phase 5 rules unless the engine is Off *)
  match t_re t4 with REOff => t4 | _ => eval_phase c 5 rs t4 end.

(* ---- the audit decision of ProcessLogging ---- *)

Definition status_of (t : tx) : bytes :=
  match t_intr t with
  | Some s => itoa s
  | None => match t_det t with Some s => itoa s | None => t_resp t end
  end.

(* the nesting of conditions as coded *)
Definition should_audit (rel : bytes -> bool) (c : cfg) (t : tx) : bool :=
  match t_ae t with
  | AEOff => false
  | AEOn => true
  | AERelevant =>
    let st := status_of t in
    if t_audit t then
      (if c_pattern c && negb (rel st) then false else true)
    else
      (if negb (c_pattern c) || negb (rel st) then false else true)
  end.

(* the documented table *)
Definition audit_table (rel : bytes -> bool) (c : cfg) (t : tx) : bool :=
  match t_ae t with
  | AEOn => true
  | AEOff => false
  | AERelevant => if c_pattern c then rel (status_of t) else t_audit t
  end.

(* ---- AuditLog(): messages of the record ---- *)

Record msg := { m_rule : N; m_data : bool; m_err : bool }.

Definition k_msgs (trailer : bool) (fs : list fired) : list msg :=
  flat_map (fun f => if f_audit f
                     then repeat {| m_rule := f_id f; m_data := true; m_err := trailer |} (f_nmatch f)
                     else []) fs.
Definition h_msgs (fs : list fired) : list msg :=
  flat_map (fun f => if f_audit f then [{| m_rule := f_id f; m_data := false; m_err := true |}] else []) fs.

(* the loop over tx.AuditLogParts: (trailer seen, K seen, has response, messages) *)
Definition parts_step (fs : list fired) (st : bool * bool * bool * list msg) (p : N)
  : bool * bool * bool * list msg :=
  let '(tr, ks, hr, ms) := st in
  if p =? au_H then (true, ks, hr, ms)
  else if p =? au_K then (tr, true, hr, ms ++ k_msgs tr fs)
  else if (p =? 69) || (p =? 70) then (tr, ks, true, ms)
  else st.

Definition audit_msgs (parts : bytes) (fs : list fired) : list msg * bool :=
  let '(tr, ks, hr, ms) := fold_left (parts_step fs) parts (false, false, false, []) in
  (if negb ks && tr then ms ++ h_msgs fs else ms, hr).

Record record := { rc_id : bytes; rc_parts : bytes; rc_msgs : list msg; rc_has_resp : bool }.

Definition audit_record (x : script) (t : tx) : record :=
  let '(ms, hr) := audit_msgs (t_parts t) (t_matched t) in
  {| rc_id := x_id x; rc_parts := t_parts t; rc_msgs := ms; rc_has_resp := hr |}.

Record outcome := {
  o_records : list record;     (* calls of AuditLogWriter.Write *)
  o_cbs : list N;              (* error callback invocations *)
  o_intr : option N;
  o_det : option N
}.

Definition run_tx (rel : bytes -> bool) (c : cfg) (x : script) : outcome :=
  let t := run_phases c x in
  {| o_records := if should_audit rel c t then [audit_record x t] else [];
     o_cbs := t_cbs t; o_intr := t_intr t; o_det := t_det t |}.

(* ------------------------------------------------------------------------------------------ *)
(* native formatter                                                                            *)
(* ------------------------------------------------------------------------------------------ *)

Record amsg := { am_err : bytes; am_raw : bytes }.   (* ErrorMessage(), Data().Raw() *)

Record alog := {
  al_parts : bytes;
  al_ts : bytes; al_id : bytes; al_cip : bytes; al_cport : N; al_hip : bytes; al_hport : N;
  al_method : bytes; al_uri : bytes; al_proto : bytes;
  al_req_headers : list (bytes * list bytes);
  al_req_body : bytes;
  al_files : option bytes;          (* rendering of the file list of part J, given (no uploads: "Total,0\n") *)
  al_has_resp : bool;
  al_resp_proto : bytes; al_resp_status : N; al_resp_status_text : bytes;
  al_resp_headers : list (bytes * list bytes);
  al_resp_body : bytes;
  al_msgs : list amsg
}.

Definition nl : N := 10.
Definition sp : N := 32.

(* "--" ++ random ++ "-" is given as [pre]; boundary line of part p *)
Definition boundary (pre : bytes) (p : N) : bytes := pre ++ [p] ++ [45; 45; nl].

Definition a_line (l : alog) : bytes :=
  [91] ++ al_ts l ++ [93; sp] ++ al_id l ++ [sp] ++ al_cip l ++ [sp] ++ itoa (al_cport l) ++ [sp]
  ++ al_hip l ++ [sp] ++ itoa (al_hport l) ++ [nl].

Definition body_opt (b : bytes) : bytes := match b with [] => [] | _ => b ++ [nl] end.

(* content of one section (without its boundary line and without the separator) *)
Definition section_body (l : alog) (p : N) : bytes :=
  if p =? 65 then a_line l
  else if p =? 66 then
    al_method l ++ [sp] ++ al_uri l ++ [sp] ++ al_proto l
    ++ flat_map (fun kv => flat_map (fun v => [nl] ++ fst kv ++ [58; sp] ++ v) (snd kv)) (al_req_headers l)
    ++ [nl]
  else if p =? 67 then body_opt (al_req_body l)
  else if p =? 69 then (if al_has_resp l then body_opt (al_resp_body l) else [])
  else if p =? 70 then
    (if al_has_resp l then
       (match al_resp_proto l with [] => [72; 84; 84; 80; 47; 49; 46; 49] | pr => pr end) ++ [sp] ++ itoa (al_resp_status l) ++ [sp]
       ++ al_resp_status_text l ++ [nl]
       ++ flat_map (fun kv => flat_map (fun v => fst kv ++ [58; sp] ++ v ++ [nl]) (snd kv)) (al_resp_headers l)
     else [])
  else if p =? 72 then
    flat_map (fun m => match am_err m with [] => [] | e => e ++ [nl] end) (al_msgs l)
  else if p =? 74 then (match al_files l with Some f => f | None => [] end)
  else if p =? 75 then flat_map (fun m => am_raw m ++ [nl]) (al_msgs l)
  else [].

Definition section (pre : bytes) (l : alog) (p : N) : bytes :=
  boundary pre p ++ section_body l p ++ (if p =? 65 then [] else [nl]).

Definition format_native (pre : bytes) (l : alog) : bytes :=
  flat_map (section pre l) (al_parts l).

(* ------------------------------------------------------------------------------------------ *)
(* writers: one Write = one atomic append                                                      *)
(* ------------------------------------------------------------------------------------------ *)

(* serialWriter.Write: logger.Println(record) under the logger's mutex = record ++ "\n" in one append *)
Definition frame (r : bytes) : bytes := r ++ [nl].
Definition file_of (l : list bytes) : bytes := flat_map frame l.

(* the reader of a JSON-lines file *)
Fixpoint split_lines (cur : bytes) (s : bytes) : list bytes :=
  match s with
  | [] => match cur with [] => [] | _ => [rev cur] end
  | c :: r => if c =? nl then rev cur :: split_lines [] r else split_lines (c :: cur) r
  end.

(* the boundary letters a reader of a native record finds: the lines equal to pre ++ [x] ++ "--" *)
Definition boundary_line (pre : bytes) (ln : bytes) : option N :=
  if is_prefix pre ln then
    match skipn (length pre) ln with
    | [x; d1; d2] => if (d1 =? 45) && (d2 =? 45) then Some x else None
    | _ => None
    end
  else None.

Definition scan_lines (pre : bytes) (out : bytes) : list N :=
  flat_map (fun ln => match boundary_line pre ln with Some x => [x] | None => [] end) (split_lines [] out).

(* any schedule of G writers: the order in which the atomic appends reach the file *)
Inductive interleave {A : Type} : list (list A) -> list A -> Prop :=
  | il_nil : forall ls, Forall (fun l => l = []) ls -> interleave ls []
  | il_step : forall ls1 x l ls2 out,
      interleave (ls1 ++ l :: ls2) out -> interleave (ls1 ++ (x :: l) :: ls2) (x :: out).

(* a writer that is NOT atomic (record and newline as two appends) for contrast *)
Definition chunks_of (r : bytes) : list bytes := [r; [nl]].
