(* BodyBufferProofs.v — lemmas about the BodyBuffer.v model. *)
From Verif Require Import Base BodyBuffer.
Open Scope Z_scope.

(* ---------- list / length helpers ---------- *)
Lemma blen_nonneg d : 0 <= blen d.
Proof. unfold blen; lia. Qed.

Lemma blen_app a b : blen (a ++ b) = blen a + blen b.
Proof. unfold blen; rewrite app_length; lia. Qed.

Lemma blen_nil : blen [] = 0.
Proof. reflexivity. Qed.

Lemma blen_zero d : blen d = 0 -> d = [].
Proof. unfold blen; destruct d; cbn; [reflexivity | lia]. Qed.

Lemma blen_firstn n d : blen (firstn n d) = Z.min (Z.of_nat n) (blen d).
Proof. unfold blen; rewrite firstn_length; lia. Qed.

Lemma blen_firstn_Z z d : blen (firstn (Z.to_nat z) d) = Z.min (Z.max 0 z) (blen d).
Proof. rewrite blen_firstn; lia. Qed.

Lemma blen_skipn n d : blen (skipn n d) = blen d - Z.min (Z.of_nat n) (blen d).
Proof. unfold blen; rewrite skipn_length; lia. Qed.

Lemma firstn_firstn_app {A} n (a b : list A) : firstn n (firstn n a ++ b) = firstn n (a ++ b).
Proof.
  revert a; induction n as [|n IH]; intros a; [reflexivity|].
  destruct a as [|x a]; cbn; [reflexivity|]. f_equal. apply IH.
Qed.

Lemma firstn_app_le {A} n (a b : list A) : (length a <= n)%nat -> firstn n (a ++ b) = a ++ firstn (n - length a) b.
Proof. intros H. rewrite firstn_app. rewrite firstn_all2 by lia. reflexivity. Qed.

Lemma firstn_add_skipn {A} n m (l : list A) : firstn (n + m) l = firstn n l ++ firstn m (skipn n l).
Proof.
  revert l; induction n as [|n IH]; intros l; [reflexivity|].
  destruct l as [|x l]; cbn; [now rewrite firstn_nil|]. f_equal. apply IH.
Qed.

Lemma skipn_add {A} n m (l : list A) : skipn (n + m) l = skipn m (skipn n l).
Proof.
  revert l; induction n as [|n IH]; intros l; [reflexivity|].
  destruct l as [|x l]; cbn; [now rewrite skipn_nil|]. apply IH.
Qed.

(* ---------- the representation invariant ---------- *)
Definition bb_inv (o : bbopt) (b : bbuf) : Prop :=
  bb_len b = blen (bb_contents b) /\
  match bb_file b with
  | None => bb_len b <= bo_mem o
  | Some _ => bb_mem b = [] /\ bo_mem o < bb_len b
  end.

Lemma bb_inv_empty o : 0 <= bo_mem o -> bb_inv o bb_empty.
Proof. intros H; split; cbn; [reflexivity | exact H]. Qed.

Lemma bb_inv_len_nonneg o b : bb_inv o b -> 0 <= bb_len b.
Proof. intros [H _]. rewrite H. apply blen_nonneg. Qed.

(* the spill file is in use exactly when more than MemoryLimit bytes are stored *)
Lemma bb_spilled_iff o b : bb_inv o b -> (bb_spilled b = true <-> bo_mem o < bb_len b).
Proof.
  intros [_ H]. unfold bb_spilled. destruct (bb_file b); split; intro X; try lia; try discriminate; try reflexivity.
Qed.

(* when does Write fail *)
Definition bb_write_fails (o : bbopt) (b : bbuf) (d : bytes) : bool :=
  negb (blen d =? 0) && (bb_len b >? bo_limit o - blen d).

Lemma bb_write_spec o b d :
  bb_inv o b ->
  let '(b', n, err) := bb_write o b d in
  err = bb_write_fails o b d /\
  (err = true -> b' = b /\ n = 0) /\
  (err = false -> bb_contents b' = bb_contents b ++ d /\ bb_len b' = bb_len b + blen d /\ n = blen d /\ bb_inv o b').
Proof.
  intros [Hl Hf]. unfold bb_write, bb_write_fails.
  destruct (blen d =? 0) eqn:E0; cbn [negb andb].
  { apply Z.eqb_eq in E0. pose proof (blen_zero d E0) as ->.
    repeat split; try discriminate; try (rewrite app_nil_r; reflexivity); try (cbn; lia); assumption. }
  destruct (bb_len b >? bo_limit o - blen d) eqn:E1.
  { repeat split; discriminate. }
  apply Z.eqb_neq in E0. pose proof (blen_nonneg d).
  unfold bb_inv, bb_contents in *.
  destruct (bb_len b + blen d >? bo_mem o) eqn:E2; destruct (bb_file b) as [f|] eqn:Ef;
    (split; [reflexivity | split; [discriminate | intros _]]);
    cbn [bb_file bb_mem bb_len]; rewrite ?Ef; rewrite ?blen_app;
    try (exfalso; lia); repeat split; try reflexivity; try tauto; try lia.
Qed.

Lemma bb_write_ok o b d :
  bb_inv o b -> bb_len b + blen d <= bo_limit o ->
  exists b', bb_write o b d = (b', blen d, false) /\ bb_contents b' = bb_contents b ++ d
             /\ bb_len b' = bb_len b + blen d /\ bb_inv o b'.
Proof.
  intros Hi Hle. pose proof (bb_write_spec o b d Hi) as H.
  destruct (bb_write o b d) as [[b' n] err]. destruct H as (He & _ & Hok).
  assert (err = false) as ->.
  { rewrite He. unfold bb_write_fails. destruct (blen d =? 0); [reflexivity|]. cbn. lia. }
  destruct (Hok eq_refl) as (A & B & C & D). subst n. exists b'; auto.
Qed.

(* ---------- readers: any reader, whatever its buffer sizes, walks the stored sequence ---------- *)
Lemma bbr_drain_spec b ns pos :
  bbr_drain b pos ns = firstn (fold_right Nat.add 0%nat ns) (skipn pos (bb_contents b)).
Proof.
  revert pos; induction ns as [|n ns IH]; intros pos; cbn [bbr_drain fold_right]; [reflexivity|].
  unfold bbr_read. rewrite IH. set (l := skipn pos (bb_contents b)).
  rewrite firstn_add_skipn. f_equal.
  destruct (Nat.le_gt_cases n (length l)) as [Hle|Hgt].
  - rewrite firstn_length_le by exact Hle. subst l. rewrite skipn_add. reflexivity.
  - rewrite (skipn_all2 (n := n) l) by lia. rewrite firstn_nil.
    rewrite (firstn_all2 (n := n) l) by lia. rewrite skipn_add. fold l.
    rewrite skipn_all. rewrite firstn_nil. reflexivity.
Qed.

Lemma bbr_drain_all b ns :
  (length (bb_contents b) <= fold_right Nat.add 0%nat ns)%nat -> bbr_drain b 0 ns = bb_contents b.
Proof. intros H. rewrite bbr_drain_spec. cbn [skipn]. apply firstn_all2. exact H. Qed.

(* ---------- io.CopyN into the buffer ---------- *)
Lemma copy_bufsize_pos n : 1 <= copy_bufsize n.
Proof. unfold copy_bufsize. destruct (32768 >? n) eqn:E; [destruct (n <? 1) eqn:F|]; lia. Qed.

(* when no piece can exceed the buffer's limit, CopyN stores exactly the first min(n, |src|) bytes *)
Lemma bb_copy_loop_ok o rs size : 1 <= size ->
  forall fuel b src left written,
  bb_inv o b -> (length src < fuel)%nat ->
  bb_len b + Z.min (Z.max 0 left) (blen src) <= bo_limit o ->
  exists b', bb_copy_loop fuel o b src rs size left written
             = (b', written + Z.min (Z.max 0 left) (blen src), false)
    /\ bb_contents b' = bb_contents b ++ firstn (Z.to_nat left) src
    /\ bb_len b' = bb_len b + Z.min (Z.max 0 left) (blen src)
    /\ bb_inv o b'.
Proof.
  intros Hsize. induction fuel as [|fuel IH]; intros b src left written Hi Hf Hlim; [lia|].
  cbn [bb_copy_loop]. destruct (left <=? 0) eqn:El.
  { exists b. replace (Z.to_nat left) with 0%nat by lia. cbn [firstn]. rewrite app_nil_r.
    replace (Z.min (Z.max 0 left) (blen src)) with 0 by (pose proof (blen_nonneg src); lia).
    rewrite !Z.add_0_r. auto. }
  set (want0 := Z.to_nat (Z.min size left)).
  set (want := if Nat.eqb rs 0 then want0 else Nat.min want0 rs).
  assert (Hw1 : (1 <= want)%nat).
  { subst want want0. destruct (Nat.eqb rs 0) eqn:Er; [lia|]. apply Nat.eqb_neq in Er. lia. }
  assert (Hw2 : (Z.of_nat want <= left)).
  { subst want want0. destruct (Nat.eqb rs 0); lia. }
  destruct (firstn want src) as [|x piece'] eqn:Ep.
  { (* source exhausted *)
    assert (src = []) as ->.
    { destruct src; [reflexivity|]. destruct want; [lia|]. cbn in Ep. discriminate. }
    exists b. rewrite firstn_nil, app_nil_r. rewrite blen_nil.
    replace (Z.min (Z.max 0 left) 0) with 0 by lia. rewrite !Z.add_0_r. auto. }
  rewrite <- Ep. set (piece := firstn want src).
  assert (Hpl : blen piece = Z.min (Z.of_nat want) (blen src)) by (subst piece; apply blen_firstn).
  assert (Hpos : 1 <= blen piece).
  { rewrite Hpl. assert (1 <= blen src); [|lia]. unfold blen. destruct src; [cbn in Ep; rewrite firstn_nil in Ep; discriminate|cbn; lia]. }
  destruct (bb_write_ok o b piece Hi) as (b1 & Hw & Hc & Hlen & Hi1); [lia|].
  rewrite Hw.
  destruct (IH b1 (skipn want src) (left - blen piece) (written + blen piece) Hi1) as (b' & Hr & Hc' & Hl' & Hi').
  { rewrite skipn_length. unfold blen in *. lia. }
  { rewrite Hlen, blen_skipn. lia. }
  exists b'. rewrite Hr. split; [|split; [|split]].
  - f_equal. f_equal. rewrite blen_skipn. lia.
  - rewrite Hc', Hc, <- app_assoc. f_equal.
    destruct (Z.le_gt_cases (Z.of_nat want) (blen src)).
    + replace (Z.to_nat left) with (want + Z.to_nat (left - blen piece))%nat by lia.
      symmetry. apply firstn_add_skipn.
    + (* the piece was the whole rest of the source *)
      rewrite (skipn_all2 (n := want) src) by (unfold blen in *; lia). rewrite firstn_nil, app_nil_r.
      subst piece. rewrite !firstn_all2 by (unfold blen in *; lia). reflexivity.
  - rewrite Hl', Hlen, blen_skipn. lia.
  - exact Hi'.
Qed.
