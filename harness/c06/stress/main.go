// c06-stress: the supporting search of property C06 on the real code. Built by the C06 driver with
// `go build -race -tags verif` and run as a subprocess; any "WARNING: DATA RACE" on stderr, panic,
// deadlock (watchdog) or cross-talk (a transaction's outcome differing from its outcome alone) is an
// oracle failure. This is search, not proof.
//
//	G goroutines run generated transactions on ONE shared WAF (rule 100 is the F27 shape
//	  ARGS|!ARGS:x|!ARGS:y|!ARGS:z with ctl:ruleRemoveTargetById exclusions);
//	B goroutines build WAFs sharing the @rx/@pm patterns (memoize Do) and the transformation chains
//	  (intern table), run a transaction on them and Close them (memoize Release);
//	I goroutines intern transformation chains directly;
//	W goroutines write records through one serial audit writer; transactions that are blocked write
//	  JSON audit records through the shared WAF's serial writer.
package main

import (
	"bufio"
	"encoding/hex"
	"encoding/json"
	"flag"
	"fmt"
	"math/rand"
	"os"
	"path/filepath"
	"runtime"
	"runtime/debug"
	"strings"
	"sync"
	"sync/atomic"
	"time"

	"github.com/corazawaf/coraza/v3/experimental/plugins/plugintypes"
	"github.com/corazawaf/coraza/v3/internal/auditlog"
	"github.com/corazawaf/coraza/v3/internal/corazawaf"
	"github.com/corazawaf/coraza/v3/internal/memoize"
	"github.com/corazawaf/coraza/v3/types"
	"github.com/corazawaf/coraza/v3/verifharness/c06/c06lib"
)

type failure struct {
	Kind string `json:"kind"`
	What string `json:"what"`
	Case any    `json:"case,omitempty"`
}

type sample struct {
	Tx       c06lib.TxCase `json:"tx"`
	Observed [][2]string   `json:"observed"` // rule 100's matched (key, value) inside the concurrent run
	SetStart []int         `json:"set_start"`
	SetAfter []int         `json:"set_after"`
	WafSet   []int         `json:"waf_set"`
}

type auditDirect struct {
	Writers [][]string `json:"writers"` // hex records per writer
	Log     string     `json:"log"`     // hex of the file
}

type result struct {
	Seed        int64          `json:"seed"`
	Procs       int            `json:"procs"`
	Failures    []failure      `json:"failures"`
	Samples     []sample       `json:"samples"`
	Audit       *auditDirect   `json:"audit,omitempty"`
	Stats       map[string]int `json:"stats"`
	SpareSlot   bool           `json:"spare_slot"` // rule 100's exception slice has cap > len (F27 precondition)
	Completed   bool           `json:"completed"`
	ElapsedMsec int64          `json:"elapsed_msec"`
}

var (
	mu       sync.Mutex
	failures []failure
	stats    = map[string]int{}
)

func fail(kind, what string, c any) {
	mu.Lock()
	defer mu.Unlock()
	if len(failures) < 20 {
		failures = append(failures, failure{kind, what, c})
	}
	stats["failures"]++
}

func count(k string, n int) {
	mu.Lock()
	stats[k] += n
	mu.Unlock()
}

const alphabet = "abcdefghijklmnopqrstuvwxyz0123456789{}\":,"

// fakeLog / rawFormatter: records written through the real serialWriter with chosen bytes
type fakeLog struct{ payload []byte }

func (fakeLog) Parts() types.AuditLogParts                   { return nil }
func (fakeLog) Transaction() plugintypes.AuditLogTransaction { return nil }
func (fakeLog) Messages() []plugintypes.AuditLogMessage      { return nil }

type rawFormatter struct{}

func (rawFormatter) Format(al plugintypes.AuditLog) ([]byte, error) { return al.(fakeLog).payload, nil }
func (rawFormatter) MIME() string                                   { return "text/plain" }

func guard(name string, f func()) {
	defer func() {
		if r := recover(); r != nil {
			fail("panic", fmt.Sprintf("%s: %v\n%s", name, r, debug.Stack()), nil)
		}
	}()
	f()
}

func main() {
	seed := flag.Int64("seed", 1, "seed")
	dur := flag.Float64("dur", 5, "seconds of concurrent load")
	g := flag.Int("g", 8, "transaction goroutines on the shared WAF")
	b := flag.Int("b", 3, "goroutines building / closing WAFs")
	in := flag.Int("i", 2, "goroutines interning transformation chains")
	w := flag.Int("w", 4, "goroutines writing through one serial audit writer")
	ncases := flag.Int("cases", 120, "generated transaction inputs")
	nsamples := flag.Int("samples", 60, "observed outcomes reported for the Coq correspondence")
	out := flag.String("out", "", "result file")
	tmp := flag.String("tmp", "", "scratch directory")
	oneCase := flag.String("case", "", "JSON file with transaction inputs placed in front of the generated ones")
	only := flag.Bool("only", false, "use only the inputs of -case")
	flag.Parse()
	start := time.Now()
	res := result{Seed: *seed, Procs: runtime.GOMAXPROCS(0), Stats: stats}
	writeOut := func() {
		mu.Lock()
		res.Failures = failures
		res.ElapsedMsec = time.Since(start).Milliseconds()
		j, _ := json.Marshal(res)
		mu.Unlock()
		if *out != "" {
			_ = os.WriteFile(*out, j, 0o644)
		} else {
			fmt.Println(string(j))
		}
	}
	if *tmp == "" {
		d, err := os.MkdirTemp("", "c06stress")
		if err != nil {
			panic(err)
		}
		*tmp = d
		defer os.RemoveAll(d)
	}
	auditPath := filepath.Join(*tmp, "audit.log")
	_ = os.Remove(auditPath)

	waf, err := c06lib.NewWAF(c06lib.Directives(auditPath, 0))
	if err != nil {
		fail("setup", err.Error(), nil)
		writeOut()
		os.Exit(2)
	}
	if err := waf.InitAuditLogWriter(); err != nil && !strings.Contains(err.Error(), "already") {
		fail("setup", "audit writer: "+err.Error(), nil)
	}
	res.SpareSlot = c06lib.HasSpareSlot(waf, 100)

	// ---- inputs and their outcomes ALONE (sequential, before any goroutine starts) ----
	rng := rand.New(rand.NewSource(*seed))
	var cases []c06lib.TxCase
	if *oneCase != "" {
		raw, err := os.ReadFile(*oneCase)
		if err == nil {
			err = json.Unmarshal(raw, &cases)
		}
		if err != nil || len(cases) == 0 {
			fail("setup", fmt.Sprintf("cannot read cases: %v", err), nil)
			writeOut()
			os.Exit(2)
		}
	}
	if !*only || len(cases) == 0 {
		for i := 0; i < *ncases; i++ {
			cases = append(cases, c06lib.GenTx(rng))
		}
	}
	const variants = 4
	expected := make([][]string, variants) // [variant][case] outcome string
	expected100 := make([][][2]string, len(cases))
	audited := make([]bool, len(cases))
	auditSize := func() int64 {
		st, err := os.Stat(auditPath)
		if err != nil {
			return 0
		}
		return st.Size()
	}
	countLines := func() int {
		f, err := os.Open(auditPath)
		if err != nil {
			return 0
		}
		defer f.Close()
		n := 0
		sc := bufio.NewScanner(f)
		sc.Buffer(make([]byte, 1<<20), 1<<24)
		for sc.Scan() {
			n++
		}
		return n
	}
	for v := 0; v < variants; v++ {
		wv := waf
		if v > 0 {
			wv, err = c06lib.NewWAF(c06lib.Directives("", v))
			if err != nil {
				fail("setup", err.Error(), nil)
				writeOut()
				os.Exit(2)
			}
		}
		expected[v] = make([]string, len(cases))
		for i, c := range cases {
			var before int64
			if v == 0 {
				before = auditSize()
			}
			o, err := c06lib.RunTx(wv, fmt.Sprintf("solo-%d-%d", v, i), c)
			if err != nil {
				fail("setup", err.Error(), c)
			}
			expected[v][i] = o.String()
			if v == 0 {
				expected100[i] = o.Matched[100]
				audited[i] = auditSize() > before
				// ALONE = on a WAF nobody else has used (the sequential pass on the shared WAF already
				// recycles the objects of earlier transactions)
				if fw, err := c06lib.NewWAF(c06lib.Directives("", 0)); err == nil {
					if oa, err := c06lib.RunTx(fw, "", c); err == nil {
						if oa.String() != o.String() {
							fail("outcome-differs-from-alone", fmt.Sprintf("transaction #%d of the sequential pass on the shared WAF differs from the same transaction alone on a fresh WAF:\n got   %s\n alone %s", i, o.String(), oa.String()), c)
						}
						expected[0][i] = oa.String()
					}
					_ = fw.Close()
				}
			}
		}
		if v > 0 {
			_ = wv.Close()
		}
	}
	// the WAF pool (phrase lists / regex texts / data-set names made to collide in the pattern cache):
	// solo outcomes, each member built alone and closed
	poolSpecs, perr := c06lib.PoolSpecs(*tmp)
	if perr != nil {
		fail("setup", "pool: "+perr.Error(), nil)
	}
	poolSolo := make([][]int, len(poolSpecs))
	for i, sp := range poolSpecs {
		wv, o, err := c06lib.BuildAndProbe(sp)
		if err != nil {
			fail("setup", err.Error(), nil)
			continue
		}
		poolSolo[i] = o
		_ = wv.Close()
	}
	soloLines := countLines()
	if s := c06lib.SpareSlotsWritten(waf); s != "" {
		fail("shared-rule-written", "after the sequential pass: "+s, nil)
	}

	// ---- the direct audit writer ----
	directPath := filepath.Join(*tmp, "direct.log")
	_ = os.Remove(directPath)
	dw, err := auditlog.GetWriter("serial")
	if err == nil {
		err = dw.Init(plugintypes.AuditLogConfig{Target: directPath, FileMode: 0o644, Formatter: rawFormatter{}})
	}
	if err != nil {
		fail("setup", "direct writer: "+err.Error(), nil)
	}
	writerRecs := make([][]string, *w)
	for wi := 0; wi < *w; wi++ {
		n := 6 + rng.Intn(6)
		for k := 0; k < n; k++ {
			l := 1 + rng.Intn(60)
			if rng.Intn(10) == 0 {
				l = 300 + rng.Intn(900)
			}
			pay := make([]byte, l)
			for x := range pay {
				pay[x] = alphabet[rng.Intn(len(alphabet))]
			}
			writerRecs[wi] = append(writerRecs[wi], fmt.Sprintf("w%d-%d-%s", wi, k, pay))
		}
	}

	// ---- concurrent phase ----
	deadline := time.Now().Add(time.Duration(*dur * float64(time.Second)))
	var wg sync.WaitGroup
	var txDone, buildDone atomic.Int64
	var sampleMu sync.Mutex
	expectAudit := map[string]bool{} // tx id -> an audit line is expected
	var idMu sync.Mutex
	chainIDs := make([]map[string]int, *in+*b) // per goroutine: chain -> id obtained
	chainSet := [][]string{{"lowercase"}, {"lowercase", "trim"}, {"trim", "lowercase"}, {"c06a"}, {"c06a", "c06b"}, {"c06b", "c06a"},
		{"c06a+c06b"}, {"c06a", "c06b", "c06c"}, {"lowercase", "trim", "urlDecodeUni"}, {"c06b"}, {"0+c06a"}, {"c06a", "0+c06a"}}

	for gi := 0; gi < *g; gi++ {
		wg.Add(1)
		go func(gi int) {
			defer wg.Done()
			r := rand.New(rand.NewSource(*seed*7919 + int64(gi)))
			n := 0
			for time.Now().Before(deadline) {
				idx := r.Intn(len(cases))
				id := fmt.Sprintf("g%d-%d-c%d", gi, n, idx)
				if n%5 == 4 {
					id = "" // NewTransactionWithOptions draws a RandomString id
				}
				guard("transaction", func() {
					o, err := c06lib.RunTx(waf, id, cases[idx])
					if err != nil {
						fail("error", err.Error(), cases[idx])
						return
					}
					if got := o.String(); got != expected[0][idx] {
						fail("cross-talk", fmt.Sprintf("transaction outcome inside the concurrent run differs from its outcome alone:\n got  %s\n want %s", got, expected[0][idx]), cases[idx])
					}
					if id != "" {
						idMu.Lock()
						expectAudit[id] = audited[idx]
						idMu.Unlock()
					}
					if n%7 == 0 {
						sampleMu.Lock()
						if len(res.Samples) < *nsamples {
							m := o.Matched[100]
							if m == nil {
								m = [][2]string{}
							}
							res.Samples = append(res.Samples, sample{cases[idx], m, o.SetStart, o.SetAfter, o.WafSet})
						}
						sampleMu.Unlock()
					}
				})
				n++
				txDone.Add(1)
			}
			count("transactions", n)
		}(gi)
	}
	for bi := 0; bi < *b; bi++ {
		wg.Add(1)
		chainIDs[*in+bi] = map[string]int{}
		go func(bi int) {
			defer wg.Done()
			r := rand.New(rand.NewSource(*seed*104729 + int64(bi)))
			n := 0
			for time.Now().Before(deadline) {
				v := 1 + r.Intn(variants-1)
				if len(poolSpecs) > 0 && n%2 == 1 {
					// a pool member built, probed and closed while the others do the same
					guard("pool builder", func() {
						pi := r.Intn(len(poolSpecs))
						wv, o, err := c06lib.BuildAndProbe(poolSpecs[pi])
						if err != nil {
							fail("error", err.Error(), nil)
							return
						}
						if poolSolo[pi] != nil && !c06lib.SameInts(o, poolSolo[pi]) {
							fail("waf-outcome-depends-on-other-wafs", fmt.Sprintf("pool WAF %q built next to other WAFs: verdicts %v, alone %v (probes %v)", poolSpecs[pi].Name, o, poolSolo[pi], c06lib.PoolProbes), nil)
						}
						if r.Intn(3) == 0 {
							runtime.Gosched()
						}
						_ = wv.Close()
					})
					n++
					buildDone.Add(1)
					continue
				}
				guard("builder", func() {
					wv, err := c06lib.NewWAF(c06lib.Directives("", v))
					if err != nil {
						fail("error", "building a WAF concurrently: "+err.Error(), nil)
						return
					}
					idx := r.Intn(len(cases))
					o, err := c06lib.RunTx(wv, "", cases[idx])
					if err != nil {
						fail("error", err.Error(), cases[idx])
					} else if got := o.String(); got != expected[v][idx] {
						fail("cross-talk", fmt.Sprintf("transaction on a WAF built concurrently (variant %d) differs from the same on a WAF built alone:\n got  %s\n want %s", v, got, expected[v][idx]), cases[idx])
					}
					if s := c06lib.SpareSlotsWritten(wv); s != "" {
						fail("shared-rule-written", s, cases[idx])
					}
					_ = wv.Close()
					if r.Intn(4) == 0 {
						_ = wv.Close()
					}
				})
				n++
				buildDone.Add(1)
			}
			count("wafs_built_and_closed", n)
		}(bi)
	}
	for ii := 0; ii < *in; ii++ {
		wg.Add(1)
		chainIDs[ii] = map[string]int{}
		go func(ii int) {
			defer wg.Done()
			r := rand.New(rand.NewSource(*seed*15485863 + int64(ii)))
			n := 0
			for time.Now().Before(deadline) {
				ch := chainSet[r.Intn(len(chainSet))]
				guard("intern", func() {
					cur := 0
					for k, name := range ch {
						cur = corazawaf.VerifC06TransformationID(cur, name)
						key := strings.Join(ch[:k+1], "\x00")
						if old, ok := chainIDs[ii][key]; ok && old != cur {
							fail("intern-unstable", fmt.Sprintf("chain %q got id %d then %d", ch[:k+1], old, cur), nil)
						}
						chainIDs[ii][key] = cur
					}
				})
				n++
				if n%64 == 0 {
					runtime.Gosched()
				}
			}
			count("chains_interned", n)
		}(ii)
	}
	for wi := 0; wi < *w; wi++ {
		wg.Add(1)
		go func(wi int) {
			defer wg.Done()
			guard("audit writer", func() {
				for _, rec := range writerRecs[wi] {
					if err := dw.Write(fakeLog{[]byte(rec)}); err != nil {
						fail("error", "serial writer: "+err.Error(), nil)
					}
					runtime.Gosched()
				}
			})
		}(wi)
	}

	// watchdog: the goroutines must come back shortly after the deadline
	done := make(chan struct{})
	go func() { wg.Wait(); close(done) }()
	select {
	case <-done:
	case <-time.After(time.Until(deadline) + 30*time.Second):
		buf := make([]byte, 1<<20)
		buf = buf[:runtime.Stack(buf, true)]
		fail("deadlock", fmt.Sprintf("goroutines still running 30 s after the deadline (%d transactions, %d WAFs done)\n%s", txDone.Load(), buildDone.Load(), buf[:min(len(buf), 6000)]), nil)
		writeOut()
		os.Exit(3)
	}

	// ---- checks at quiescence ----
	if s := c06lib.SpareSlotsWritten(waf); s != "" {
		fail("shared-rule-written", s, nil)
	}
	// intern table: a chain has one id, two chains have two ids; table keys are distinct
	all := map[string]int{}
	for _, m := range chainIDs {
		for k, id := range m {
			if old, ok := all[k]; ok && old != id {
				fail("intern-not-injective", fmt.Sprintf("chain %q has ids %d and %d in two goroutines", strings.Split(k, "\x00"), old, id), nil)
			}
			all[k] = id
		}
	}
	byID := map[int]string{}
	for k, id := range all {
		if old, ok := byID[id]; ok && old != k {
			fail("intern-not-injective", fmt.Sprintf("chains %q and %q share id %d", strings.Split(old, "\x00"), strings.Split(k, "\x00"), id), nil)
		}
		byID[id] = k
	}
	seen := map[string]bool{}
	for _, name := range corazawaf.VerifC06InternTable() {
		if seen[name] {
			fail("intern-not-injective", fmt.Sprintf("key %q appears twice in the intern table", name), nil)
		}
		seen[name] = true
	}
	count("distinct_chains", len(all))
	// memoize: every entry reachable from the cache is live; every builder WAF was closed, so the only
	// owner left is the shared WAF
	mainID := waf.VerifC06MemoizerID()
	for _, e := range memoize.VerifC06Snapshot("") {
		if e.Deleted || len(e.Owners) == 0 {
			fail("memo-dead-entry-in-cache", fmt.Sprintf("key %q: deleted=%v owners=%v", e.Key, e.Deleted, e.Owners), nil)
		}
		for _, o := range e.Owners {
			if o > mainID {
				fail("memo-leak", fmt.Sprintf("key %q is still owned by WAF %d, which was closed", e.Key, o), nil)
			}
		}
		count("memo_entries", 1)
	}
	// audit log of the shared WAF: whole JSON records, one per blocked transaction
	if f, err := os.Open(auditPath); err == nil {
		sc := bufio.NewScanner(f)
		sc.Buffer(make([]byte, 1<<20), 1<<24)
		ln := 0
		got := map[string]int{}
		for sc.Scan() {
			ln++
			if ln <= soloLines {
				continue
			}
			var doc struct {
				Transaction struct {
					ID string `json:"id"`
				} `json:"transaction"`
			}
			if err := json.Unmarshal(sc.Bytes(), &doc); err != nil {
				fail("audit-torn-record", fmt.Sprintf("line %d of the shared audit log is not one JSON record: %v: %.120q", ln, err, sc.Text()), nil)
				continue
			}
			got[doc.Transaction.ID]++
		}
		f.Close()
		for id, want := range expectAudit {
			n := got[id]
			if (want && n != 1) || (!want && n != 0) {
				fail("audit-record-count", fmt.Sprintf("transaction %s: %d audit records, expected %v", id, n, want), nil)
			}
		}
		count("audit_lines", ln-soloLines)
	}
	// the direct writer's file goes to the Coq check (au_explain)
	if raw, err := os.ReadFile(directPath); err == nil {
		ad := &auditDirect{Log: hex.EncodeToString(raw)}
		for _, recs := range writerRecs {
			hs := make([]string, len(recs))
			for i, r := range recs {
				hs[i] = hex.EncodeToString([]byte(r))
			}
			ad.Writers = append(ad.Writers, hs)
		}
		res.Audit = ad
	} else {
		fail("error", "direct audit log: "+err.Error(), nil)
	}
	_ = waf.Close()
	res.Completed = true
	writeOut()
}
