(* Regex.v — the regular-expression AST that Go's regexp/syntax produces after Parse(.., Perl)
   and Simplify(), and its semantics on byte strings.

   The Go harness serialises the simplified AST node by node (it never re-parses regex text
   on the Coq side).  Every node carries its FoldCase flag bit ([hasFlag] in rxprefilter.go
   looks at every node).  A literal rune is serialised together with unicode.ToLower(rune) and
   its unicode.SimpleFold orbit; the facts about Go's Unicode tables the proofs need are the
   decidable predicate [wf_re] (checked on every serialised pattern by the correspondence).

   Two semantics are given:
     M w r i j   declarative big-step relation: r matches the bytes of w from offset i to j
     endsS r w X executable: the set of end offsets reachable from the start offsets X
   PrefilterProofs.v proves endsS sound w.r.t. M; all property theorems are stated over M.
   The engine decodes its input rune by rune (utf8.DecodeRuneInString: an invalid byte is
   U+FFFD of width 1), so one-rune atoms consume 1-4 bytes and matches start on decode
   boundaries ([boundaries]). *)
From Verif Require Import Base Utf8.
Open Scope N_scope.

(* a literal rune with what Go's unicode tables say about it *)
Record lrune := LR { lr_r : N;            (* the rune stored in Regexp.Rune *)
                     lr_lo : N;           (* unicode.ToLower(rune) *)
                     lr_orb : list N }.   (* its unicode.SimpleFold orbit (the rune included) *)

Inductive op0 := OAnyNL | OAny | OBeginLine | OEndLine | OBeginText | OEndText
               | OWordB | ONoWordB | OEmpty | ONoMatch.

(* Rep = OpRepeat {mn,mx} (mx = None: unbounded).  Simplify expands it, so prefilterFunc never
   sees it; minLen / extractLiterals have a branch for it, which the harness exercises on the
   parsed, not yet simplified AST *)
Inductive re :=
| Lit (fold : bool) (rs : list lrune)
| Class (fold : bool) (rngs : list (N * N))
| Op0 (fold : bool) (o : op0)
| Cap (fold : bool) (a : re)
| Star (fold : bool) (a : re)
| Plus (fold : bool) (a : re)
| Quest (fold : bool) (a : re)
| Cat (fold : bool) (l : list re)
| Alt (fold : bool) (l : list re)
| Rep (fold : bool) (mn : nat) (mx : option nat) (a : re).

(* ---------- one-rune steps ---------- *)

Definition memN (c : N) (l : list N) : bool := existsb (N.eqb c) l.

(* decode one rune at byte offset i and test it *)
Definition step1 (p : N -> bool) (w : bytes) (i : nat) : option nat :=
  match skipn i w with
  | [] => None
  | s => let cn := decode_rune s in if p (fst cn) then Some (i + snd cn)%nat else None
  end.

(* syntax.Inst.MatchRunePos for a single-rune instruction: equal, or (FoldCase) in the orbit *)
Definition lr_test (fold : bool) (lr : lrune) (c : N) : bool :=
  (c =? lr_r lr) || (fold && memN c (lr_orb lr)).

Fixpoint lit_end (fold : bool) (rs : list lrune) (w : bytes) (i : nat) : option nat :=
  match rs with
  | [] => Some i
  | lr :: rs' => match step1 (lr_test fold lr) w i with
                 | Some k => lit_end fold rs' w k
                 | None => None
                 end
  end.

Definition in_ranges (rg : list (N * N)) (c : N) : bool :=
  existsb (fun p => (fst p <=? c) && (c <=? snd p)) rg.

Definition is_word_byte (b : N) : bool :=
  in_rng 48 57 b || in_rng 65 90 b || in_rng 97 122 b || (b =? 95).

Definition byte_before (w : bytes) (i : nat) : option N :=
  match i with O => None | S k => nth_error w k end.

Definition word_opt (o : option N) : bool := match o with Some b => is_word_byte b | None => false end.
Definition is_nl_opt (o : option N) : bool := match o with Some b => b =? 10 | None => false end.

Definition op0_step (o : op0) (w : bytes) (i : nat) : option nat :=
  match o with
  | OAnyNL => step1 (fun c => negb (c =? 10)) w i
  | OAny => step1 (fun _ => true) w i
  | OBeginLine => if Nat.eqb i 0 || is_nl_opt (byte_before w i) then Some i else None
  | OEndLine => if Nat.eqb i (length w) || is_nl_opt (nth_error w i) then Some i else None
  | OBeginText => if Nat.eqb i 0 then Some i else None
  | OEndText => if Nat.eqb i (length w) then Some i else None
  | OWordB => if xorb (word_opt (byte_before w i)) (word_opt (nth_error w i)) then Some i else None
  | ONoWordB => if xorb (word_opt (byte_before w i)) (word_opt (nth_error w i)) then None else Some i
  | OEmpty => Some i
  | ONoMatch => None
  end.

(* ---------- declarative semantics ---------- *)

Inductive M (w : bytes) : re -> nat -> nat -> Prop :=
| M_lit f rs i j : lit_end f rs w i = Some j -> M w (Lit f rs) i j
| M_class f rg i j : step1 (in_ranges rg) w i = Some j -> M w (Class f rg) i j
| M_op0 f o i j : op0_step o w i = Some j -> M w (Op0 f o) i j
| M_cap f a i j : M w a i j -> M w (Cap f a) i j
| M_star0 f a i : M w (Star f a) i i
| M_starS f a i k j : M w a i k -> M w (Star f a) k j -> M w (Star f a) i j
| M_plus f a i k j : M w a i k -> M w (Star f a) k j -> M w (Plus f a) i j
| M_quest0 f a i : M w (Quest f a) i i
| M_quest1 f a i j : M w a i j -> M w (Quest f a) i j
| M_cat f l i j : ML w l i j -> M w (Cat f l) i j
| M_alt f l a i j : In a l -> M w a i j -> M w (Alt f l) i j
| M_rep f mn mx a n i j :
    ML w (repeat a n) i j -> (mn <= n)%nat -> (match mx with Some m => (n <= m)%nat | None => True end) ->
    M w (Rep f mn mx a) i j
with ML (w : bytes) : list re -> nat -> nat -> Prop :=
| ML_nil i : ML w [] i i
| ML_cons a l i k j : M w a i k -> ML w l k j -> ML w (a :: l) i j.

Scheme M_mind := Minimality for M Sort Prop
  with ML_mind := Minimality for ML Sort Prop.

(* offsets at which the engine can be positioned: 0, then one decoded rune at a time *)
Fixpoint bounds_from (fuel : nat) (s : bytes) (i : nat) : list nat :=
  match fuel with
  | O => [i]
  | S f => match s with
           | [] => [i]
           | _ => let n := snd (decode_rune s) in i :: bounds_from f (skipn n s) (i + n)%nat
           end
  end.
Definition boundaries (w : bytes) : list nat := bounds_from (length w) w 0%nat.

(* regexp.MatchString: an unanchored search *)
Definition re_matches (r : re) (w : bytes) : Prop :=
  exists i j, In i (boundaries w) /\ M w r i j.

(* ---------- executable semantics (sets of offsets as duplicate-free lists) ---------- *)

Definition memn (j : nat) (l : list nat) : bool := existsb (Nat.eqb j) l.
Definition addn (j : nat) (acc : list nat) : list nat := if memn j acc then acc else j :: acc.
Definition union (a b : list nat) : list nat := fold_right addn b a.
Definition map_opt (f : nat -> option nat) (X : list nat) : list nat :=
  fold_right (fun i acc => match f i with Some j => addn j acc | None => acc end) [] X.

(* saturation: expand only the newly found offsets until nothing new appears *)
Fixpoint sat (step : list nat -> list nat) (fuel : nat) (frontier seen : list nat) : list nat :=
  match fuel with
  | O => seen
  | S f => let new := filter (fun j => negb (memn j seen)) (step frontier) in
           match new with
           | [] => seen
           | _ => sat step f new (union new seen)
           end
  end.

(* exactly n iterations; then at most k more *)
Fixpoint iter_n (n : nat) (step : list nat -> list nat) (X : list nat) : list nat :=
  match n with O => X | S n' => iter_n n' step (step X) end.
Fixpoint upto_n (k : nat) (step : list nat -> list nat) (Y : list nat) : list nat :=
  match k with O => Y | S k' => union Y (upto_n k' step (step Y)) end.

Fixpoint endsS (r : re) (w : bytes) (X : list nat) {struct r} : list nat :=
  match r with
  | Lit f rs => map_opt (lit_end f rs w) X
  | Class _ rg => map_opt (step1 (in_ranges rg) w) X
  | Op0 _ o => map_opt (op0_step o w) X
  | Cap _ a => endsS a w X
  | Star _ a => sat (endsS a w) (S (length w)) X X
  | Plus _ a => let X1 := endsS a w X in sat (endsS a w) (S (length w)) X1 X1
  | Quest _ a => union (endsS a w X) X
  | Cat _ l => (fix go (l : list re) (X : list nat) : list nat :=
                  match l with [] => X | a :: l' => go l' (endsS a w X) end) l X
  | Alt _ l => (fix go (l : list re) : list nat :=
                  match l with [] => [] | a :: l' => union (endsS a w X) (go l') end) l
  | Rep _ mn mx a =>
      let X0 := iter_n mn (endsS a w) X in
      match mx with
      | None => sat (endsS a w) (S (length w)) X0 X0
      | Some m => if (m <? mn)%nat then [] else upto_n (m - mn) (endsS a w) X0
      end
  end.

Definition re_matchb (r : re) (w : bytes) : bool :=
  match endsS r w (boundaries w) with [] => false | _ => true end.

(* ---------- well-formedness of a serialised pattern (facts about Go's Unicode tables) ---------- *)

Definition rune_len (r : N) : nat :=
  if r <? 128 then 1 else if r <? 2048 then 2 else if r <? 65536 then 3 else 4.

Definition valid_rune (r : N) : bool := (r <? 55296) || ((57343 <? r) && (r <=? 1114111)).

(* per literal rune:
   - the rune and its lower-case image are valid scalar values; unicode.ToLower agrees with
     ASCII lower-casing on an ASCII rune;
   and for the runes of a FoldCase literal (the orbit is consulted by the engine):
   - the rune is the shortest member of its orbit (regexp/syntax stores minFoldRune, the
     smallest code point of the orbit);
   - unicode.ToLower agrees with ASCII lower-casing on every ASCII member of the orbit
     (so an ASCII byte that the engine accepts at this position lower-cases to ToLower(rune));
   - U+FFFD folds only with itself *)
Definition wf_lrune (fold : bool) (lr : lrune) : bool :=
  valid_rune (lr_r lr) && valid_rune (lr_lo lr)
  && ((128 <=? lr_r lr) || (lr_lo lr =? ascii_lower (lr_r lr)))
  && (negb fold ||
      forallb (fun c => (rune_len (lr_r lr) <=? rune_len c)%nat
                        && ((128 <=? c) || (lr_lo lr =? ascii_lower c))
                        && (negb (c =? rune_error) || (lr_r lr =? rune_error))) (lr_orb lr)).

Fixpoint wf_re (r : re) : bool :=
  match r with
  | Lit f rs => forallb (wf_lrune f) rs
  | Class _ _ | Op0 _ _ => true
  | Cap _ a | Star _ a | Plus _ a | Quest _ a | Rep _ _ _ a => wf_re a
  | Cat _ l | Alt _ l => forallb wf_re l
  end.
