(* Props/C10.v — the property theorems of C10 and nothing else.
   C10: body buffering is byte-faithful and limits are enforced exactly.

   Vocabulary (TxBody.v / TxBodyProofs.v): [tb_step] is the model of WriteRequestBody /
   ReadRequestBodyFrom / ProcessRequestBody and the response twins (direction in the
   configuration); [init c] is a fresh transaction after its headers phase; [tb_final c s ks] the
   state after the calls ks, [tb_rets] their return values; [supplied ks] the concatenation of the
   bytes the calls supplied; [stored s] what a body reader yields; [L c] the limit;
   [wf_cfg] = WAF.Validate's constraints (0 < memory limit <= limit <= 1 GiB); [active] = engine not
   Off and body access on; [writes_ok ws] = ws are slice / reader(with Len) / reader(without Len)
   writes of fewer than 2^63-2^30 bytes each, in any mix; [calls_ok ks] additionally allows explicit
   Process...Body calls anywhere. *)
From Coq Require Import ZifyBool.
From Verif Require Import Base BodyBuffer BodyBufferProofs TxBody TxBodyProofs.
Open Scope Z_scope.

(* ProcessPartial: whatever the chunking and the mix of entry points, the stored bytes are exactly the
   first min(limit, size) supplied bytes, and the data-error flag says whether the limit was reached *)
Theorem C10_stored_prefix_partial : forall c,
  wf_cfg c -> active c -> c_action c = ProcessPartial -> forall ks, calls_ok ks ->
  stored (tb_final c (init c) ks) = firstn (Z.to_nat (L c)) (supplied ks)
  /\ s_dataerr (tb_final c (init c) ks) = (L c <=? blen (supplied ks)).
Proof. exact pp_stored_prefix. Qed.
Print Assumptions C10_stored_prefix_partial.

(* Reject, below the limit: everything supplied is stored, nothing refused, no data error *)
Theorem C10_stored_prefix_reject : forall c,
  wf_cfg c -> active c -> c_action c = Reject -> forall ws, writes_ok ws -> blen (supplied ws) < L c ->
  let s := tb_final c (init c) ws in
  stored s = supplied ws /\ s_intr s = None /\ s_dataerr s = false.
Proof. exact rj_below. Qed.
Print Assumptions C10_stored_prefix_reject.

(* Reject: a call is answered with 413 (request) / 500 (response) exactly when the cumulative size
   supplied up to and including it reaches the limit; never an error, never a panic; the refusing call
   reports n = 0 *)
Theorem C10_reject_exact : forall c,
  wf_cfg c -> active c -> c_action c = Reject -> forall ws k, writes_ok (ws ++ [k]) ->
  let r := snd (tb_step c (tb_final c (init c) ws) k) in
  r_intr r = (if L c <=? blen (supplied (ws ++ [k])) then Some (limit_status (c_dir c)) else None)
  /\ r_err r = false /\ r_panic r = false
  /\ (blen (supplied ws) < L c ->
      r_n r = if L c <=? blen (supplied (ws ++ [k])) then 0 else blen (call_data k)).
Proof. exact rj_exact. Qed.
Print Assumptions C10_reject_exact.

(* Reject, the first refusing call: a slice or known-length write stores nothing of the refusing
   chunk; a reader of unknown length has been copied up to exactly the limit *)
Theorem C10_reject_first_refusal : forall c,
  wf_cfg c -> active c -> c_action c = Reject -> forall ws k, writes_ok (ws ++ [k]) ->
  blen (supplied ws) < L c -> L c <= blen (supplied (ws ++ [k])) ->
  let s1 := tb_final c (init c) (ws ++ [k]) in
  stored s1 = (if is_unknown k then firstn (Z.to_nat (L c)) (supplied (ws ++ [k])) else supplied ws)
  /\ s_intr s1 = Some (limit_status (c_dir c)) /\ s_dataerr s1 = true.
Proof. exact rj_first_refusal. Qed.
Print Assumptions C10_reject_first_refusal.

(* Reject, any continuation (also by a connector that ignores the refusal): never more than limit
   bytes stored - strictly fewer unless an unknown-length reader was used -, the rejection and the
   data-error flag are exactly "size reached the limit", the body phase is never self-invoked *)
Theorem C10_after_refusal : forall c,
  wf_cfg c -> active c -> c_action c = Reject -> forall ws, writes_ok ws ->
  let s := tb_final c (init c) ws in
  blen (stored s) <= L c
  /\ (no_unknown ws = true -> blen (stored s) < L c)
  /\ s_intr s = (if L c <=? blen (supplied ws) then Some (limit_status (c_dir c)) else None)
  /\ s_dataerr s = (L c <=? blen (supplied ws))
  /\ s_runs s = 0%nat.
Proof. exact rj_bounds. Qed.
Print Assumptions C10_after_refusal.

(* what the code does when a refusal is ignored: a later chunk that fits IS stored, so the stored
   bytes of a refused body need not be a prefix of it (stated so that nobody reads more into
   C10_after_refusal; a refused body is outside what C10 promises) *)
Theorem C10_after_ignored_refusal_stores_witness :
  exists ws, writes_ok ws /\
    stored (tb_final demo_cfg (init demo_cfg) ws) = [97; 98; 102]%N
    /\ supplied ws = [97; 98; 99; 100; 101; 102]%N.
Proof. exact rj_after_ignored_refusal_stores. Qed.
Print Assumptions C10_after_ignored_refusal_stores_witness.

(* ProcessPartial: after the writes and the connector's explicit Process...Body call (and whatever
   follows) the body phase has been evaluated exactly once, over exactly the first min(limit, size)
   bytes, which is also the value of REQUEST_BODY / RESPONSE_BODY *)
Theorem C10_partial_exact : forall c,
  wf_cfg c -> active c -> c_action c = ProcessPartial -> forall ws rest, writes_ok ws -> calls_ok rest ->
  let s' := tb_final c (init c) (ws ++ ProcessBody :: rest) in
  let x := firstn (Z.to_nat (L c)) (supplied ws) in
  s_runs s' = 1%nat /\ s_seen s' = Some (var_after c [] x) /\ s_bodyvar s' = var_after c [] x
  /\ s_phase s' = body_phase (c_dir c) /\ s_intr s' = deny_intr c.
Proof. exact pp_explicit. Qed.
Print Assumptions C10_partial_exact.

(* ... the phase is self-invoked by the write that reaches the limit (over exactly limit bytes) ... *)
Theorem C10_partial_at_limit : forall c,
  wf_cfg c -> active c -> c_action c = ProcessPartial -> forall ws rest, writes_ok ws -> calls_ok rest ->
  L c <= blen (supplied ws) ->
  let s' := tb_final c (init c) (ws ++ rest) in
  let x := firstn (Z.to_nat (L c)) (supplied ws) in
  s_runs s' = 1%nat /\ s_seen s' = Some (var_after c [] x) /\ s_bodyvar s' = var_after c [] x
  /\ blen x = L c.
Proof. exact pp_at_limit. Qed.
Print Assumptions C10_partial_at_limit.

(* ... and not before *)
Theorem C10_partial_not_before : forall c,
  wf_cfg c -> active c -> c_action c = ProcessPartial -> forall ws, writes_ok ws -> blen (supplied ws) < L c ->
  s_runs (tb_final c (init c) ws) = 0%nat
  /\ s_phase (tb_final c (init c) ws) = hdr_phase (c_dir c).
Proof. exact pp_not_before. Qed.
Print Assumptions C10_partial_not_before.

(* ProcessPartial: once limit bytes are held every later write is ignored: state unchanged, n = 0, no
   error (and no interruption returned by that call) *)
Theorem C10_partial_later_ignored : forall c,
  wf_cfg c -> active c -> c_action c = ProcessPartial -> forall ks k, calls_ok ks -> is_write k = true ->
  L c <= blen (supplied ks) ->
  tb_step c (tb_final c (init c) ks) k = (tb_final c (init c) ks, mk_ret None 0 false).
Proof. exact pp_later_ignored. Qed.
Print Assumptions C10_partial_later_ignored.

(* ProcessPartial: n is the number of bytes the call added to the buffer; no error, no panic *)
Theorem C10_partial_returns : forall c,
  wf_cfg c -> active c -> c_action c = ProcessPartial -> forall ks k, calls_ok ks -> is_write k = true -> realistic k ->
  let s := tb_final c (init c) ks in
  let '(s1, r) := tb_step c s k in
  r_err r = false /\ r_panic r = false /\ r_n r = blen (stored s1) - blen (stored s).
Proof. exact pp_ret. Qed.
Print Assumptions C10_partial_returns.

(* the body variable is the buffer content whenever a body processor (request) / a processable
   content type (response) makes it visible *)
Theorem C10_variables : forall c x, c_access c = true -> body_visible c -> var_after c [] x = x.
Proof. exact var_after_visible. Qed.
Print Assumptions C10_variables.

(* Reject: the explicit body phase after an accepted body sees exactly the supplied bytes *)
Theorem C10_reject_then_process : forall c,
  wf_cfg c -> active c -> c_action c = Reject -> forall ws, writes_ok ws -> blen (supplied ws) < L c ->
  let s' := fst (tb_step c (tb_final c (init c) ws) ProcessBody) in
  s_runs s' = 1%nat /\ s_seen s' = Some (var_after c [] (supplied ws))
  /\ s_bodyvar s' = var_after c [] (supplied ws) /\ stored s' = supplied ws.
Proof. exact rj_then_process. Qed.
Print Assumptions C10_reject_then_process.

(* memory or file: for any two memory limits, every call sequence (any entry points, explicit phase
   calls, ctl limit changes, any starting phase) returns the same values and leaves the same readable
   bytes, body variable, phase bookkeeping and flags *)
Theorem C10_memory_file_agree : forall c m1 m2 ph ks, 0 <= m1 -> 0 <= m2 ->
  let c1 := with_mem c m1 in let c2 := with_mem c m2 in
  let s1 := tb_final c1 (tb_init c1 ph) ks in let s2 := tb_final c2 (tb_init c2 ph) ks in
  tb_rets c1 (tb_init c1 ph) ks = tb_rets c2 (tb_init c2 ph) ks
  /\ stored s1 = stored s2 /\ s_bodyvar s1 = s_bodyvar s2 /\ s_seen s1 = s_seen s2
  /\ s_intr s1 = s_intr s2 /\ s_dataerr s1 = s_dataerr s2 /\ s_runs s1 = s_runs s2 /\ s_phase s1 = s_phase s2.
Proof. exact memory_file_agree. Qed.
Print Assumptions C10_memory_file_agree.

(* the spill file is in use exactly when more than the memory limit is stored *)
Theorem C10_spill_exact : forall c ph ks, 0 <= bo_mem (c_opt c) ->
  let s := tb_final c (tb_init c ph) ks in
  (bb_spilled (s_buf s) = true <-> bo_mem (c_opt c) < blen (stored s)).
Proof. exact spill_exact. Qed.
Print Assumptions C10_spill_exact.

(* every independent reader, whatever its read sizes, walks the stored sequence; once its buffers add
   up to the stored length it has returned all of it *)
Theorem C10_reader_complete : forall b ns,
  bbr_drain b 0 ns = firstn (fold_right Nat.add 0%nat ns) (bb_contents b)
  /\ ((length (bb_contents b) <= fold_right Nat.add 0%nat ns)%nat -> bbr_drain b 0 ns = bb_contents b).
Proof. intros b ns. split; [apply (bbr_drain_spec b ns 0) | apply bbr_drain_all]. Qed.
Print Assumptions C10_reader_complete.

(* a bare buffer: a write that does not exceed the limit appends exactly the data (memory or file) *)
Theorem C10_buffer_write_appends : forall o b d,
  bb_inv o b -> bb_len b + blen d <= bo_limit o ->
  exists b', bb_write o b d = (b', blen d, false) /\ bb_contents b' = bb_contents b ++ d
             /\ bb_len b' = bb_len b + blen d /\ bb_inv o b'.
Proof. exact bb_write_ok. Qed.
Print Assumptions C10_buffer_write_appends.

(* the slice expression b[:writingBytes] is in range for every state and every call, including after
   ctl changed the limit to anything (commit 71fdc14) *)
Theorem C10_no_panic : forall c ks s, Forall (fun r => r_panic r = false) (tb_rets c s ks).
Proof. exact run_no_panic. Qed.
Print Assumptions C10_no_panic.

(* body access off or engine off: no write entry point buffers or evaluates anything *)
Theorem C10_inactive_noop : forall c s k,
  c_engine_on c = false \/ c_access c = false -> is_write k = true ->
  tb_step c s k = (s, mk_ret None 0 false).
Proof. exact inactive_noop. Qed.
Print Assumptions C10_inactive_noop.

(* no buffer ever holds more than its own Limit: any state within it, any calls, any ctl limit *)
Theorem C10_buffer_within_limit : forall c ks s,
  bb_len (s_buf s) <= bo_limit (c_opt c) -> bb_len (s_buf (tb_final c s ks)) <= bo_limit (c_opt c).
Proof. exact run_len_le. Qed.
Print Assumptions C10_buffer_within_limit.

(* the response buffer (created with MemoryLimit = Limit = SecResponseBodyLimit, [waf_buf_opts]) never
   spills to disk, whatever the calls, the ctl changes and the WAF's SecRequestBodyInMemoryLimit are *)
Theorem C10_response_never_spills : forall w c ph ks,
  c_opt c = waf_buf_opts w Resp -> 0 <= w_resp_limit w ->
  bb_spilled (s_buf (tb_final c (tb_init c ph) ks)) = false.
Proof. exact response_never_spills. Qed.
Print Assumptions C10_response_never_spills.

(* ... and its options (hence every response-side observable) do not depend on that setting *)
Theorem C10_response_ignores_request_inmem : forall rl m1 m2 pl,
  waf_buf_opts {| w_req_limit := rl; w_req_inmem := m1; w_resp_limit := pl |} Resp
  = waf_buf_opts {| w_req_limit := rl; w_req_inmem := m2; w_resp_limit := pl |} Resp.
Proof. exact response_opts_ignore_request_inmem. Qed.
Print Assumptions C10_response_ignores_request_inmem.

(* a WAF accepted by Validate gives the request buffer options within wf_cfg (the hypothesis of the run
   theorems above) *)
Theorem C10_request_opts_wf : forall w c,
  c_opt c = waf_buf_opts w Req -> 0 < w_req_limit w <= gib ->
  match w_req_inmem w with Some m => 0 < m <= w_req_limit w | None => True end ->
  wf_cfg c.
Proof. exact request_opts_wf. Qed.
Print Assumptions C10_request_opts_wf.

(* RuleEngine DetectionOnly ([engine_cfg EngDetectionOnly]), ProcessPartial: same buffering, truncation and
   data-error flag as On, the body phase at most once, and never an interruption, even with a deny rule *)
Theorem C10_detection_only_partial : forall c ks,
  wf_cfg c -> c_access c = true -> c_action c = ProcessPartial -> calls_ok ks ->
  let c' := engine_cfg EngDetectionOnly c in
  let s' := tb_final c' (init c') ks in
  s_intr s' = None
  /\ stored s' = firstn (Z.to_nat (L c)) (supplied ks)
  /\ s_dataerr s' = (L c <=? blen (supplied ks))
  /\ (s_runs s' <= 1)%nat.
Proof. exact detection_only_partial. Qed.
Print Assumptions C10_detection_only_partial.

(* DetectionOnly, Reject: the limit action does not look at the engine mode; the call reaching the limit
   is still answered with 413 / 500 (what the code does - finding F12, listed under C02) *)
Theorem C10_detection_only_reject_still_rejects : forall c ws k,
  wf_cfg c -> c_access c = true -> c_action c = Reject -> writes_ok (ws ++ [k]) ->
  let c' := engine_cfg EngDetectionOnly c in
  r_intr (snd (tb_step c' (tb_final c' (init c') ws) k))
  = (if L c <=? blen (supplied (ws ++ [k])) then Some (limit_status (c_dir c)) else None).
Proof. exact detection_only_reject_still_rejects. Qed.
Print Assumptions C10_detection_only_reject_still_rejects.
